import CanVerif.Model.DbcComment
import CanVerif.Model.DbcTables
import CanVerif.Model.ArbId
/-!
# Model of the DBC reader as a whole: the line loop of formats/dbc.py `load` (~540-980) up to the post-processing ("Backtracking")

`readFile lines` folds `stepFile` over the lines of a file.  A step either continues a comment that runs over several lines (the
follow-up state of the real loop) or classifies the stripped line with the `startswith` chain (Model/DbcLines.lean), parses it with the
statement parser of its kind (Model/DbcText, DbcStmt, DbcAttr, DbcComment, DbcTables) and applies the statement's effect to the matrix
under construction:

* `BO_` appends a frame, registers it under its identifier (`frames_by_id`: the last frame with an identifier wins) and makes it the
  current frame; `SG_` appends a signal to the current frame (the local variable `frame`, which `BO_TX_BU_`, `CM_`, `VAL_`, `SIG_GROUP_`,
  `SIG_VALTYPE_` and `SG_MUL_VAL_` statements re-assign as well - also to `None`);
* statements that name a frame look it up by the identifier the compound number denotes; those that name a signal take the first signal
  of that name in the frame; an unknown frame / signal / ECU makes the handler raise inside the per-line `try` ("error with line no" is
  printed, counted in `errors`) or skip silently, exactly as the handler is written;
* dictionaries (`attributes`, `values`, the define tables, `value_tables`) are association lists in insertion order; assigning to an
  existing key keeps its position.

Not modelled (lines of these kinds leave the state unchanged): `EV_`, `BA_ … EV_`, `VAL_` without frame number (environment variables).
Numbers stay texts where the real reader keeps texts (attribute values, value-table keys of `VAL_TABLE_`).
-/
namespace CanVerif.Dbc
open CanVerif

/-! ## the matrix under construction -/

structure RSig where
  sg : SgLine
  comment : Option Str := none
  attrs : List (Str × Str) := []
  values : List (Int × Str) := []
  isFloat : Bool := false
  muxer : Option Str := none
  ranges : List (Nat × Nat) := []
  deriving Repr, DecidableEq, Inhabited

structure RGroup where
  name : Str
  id : Nat
  members : List Str
  deriving Repr, DecidableEq, Inhabited

structure RFrame where
  key : Nat × Bool                 -- identifier number, extended flag
  name : Str
  size : Nat
  transmitters : List Str
  sigs : List RSig := []
  comment : Option Str := none
  attrs : List (Str × Str) := []
  groups : List RGroup := []
  complexMux : Bool := false
  deriving Repr, DecidableEq, Inhabited

structure REcu where
  name : Str
  comment : Option Str := none
  attrs : List (Str × Str) := []
  deriving Repr, DecidableEq, Inhabited

structure RDef where
  level : Level
  name : Str
  definition : Str
  default : Option Str := none
  deriving Repr, DecidableEq, Inhabited

/-- whom a comment is for -/
inductive CmHead
  | sg (id : Nat) (name : Str)
  | bo (id : Nat)
  | bu (name : Str)
  deriving Repr, DecidableEq, Inhabited

/-- a comment that runs over several lines: the object it will be given to (index of the frame, index of the signal in it / index of
the ECU; `none` when the object does not exist - the text is then read and dropped) and the text so far -/
inductive CmTarget
  | sig (fi : Nat) (si : Option Nat)
  | frame (fi : Option Nat)
  | ecu (ei : Nat)
  deriving Repr, DecidableEq, Inhabited

structure RMatrix where
  ecus : List REcu := []
  frames : List RFrame := []
  cur : Option Nat := none                    -- the variable `frame` of the loop: index into `frames`
  defs : List RDef := []
  attrs : List (Str × Str) := []
  tables : List VtLine := []
  pending : Option (CmTarget × Str) := none
  errors : Nat := 0                           -- how often "error with line no" was printed
  deriving Repr, DecidableEq, Inhabited

/-! ## dictionaries and lookups -/

/-- `d[k] = v` on an insertion-ordered dictionary -/
def assocSet {α β} [BEq α] : List (α × β) → α → β → List (α × β)
  | [], k, v => [(k, v)]
  | (k', v') :: r, k, v => if k' == k then (k', v) :: r else (k', v') :: assocSet r k v

/-- `l[i] = f(l[i])` -/
def modifyAt {α} (l : List α) (i : Nat) (f : α → α) : List α :=
  match l, i with
  | [], _ => []
  | a :: r, 0 => f a :: r
  | a :: r, i + 1 => a :: modifyAt r i f

/-- the identifier a compound number denotes (`arbitration_id_from_compound`): `none` when `ArbitrationId` refuses it (a standard
identifier above 0x7FF); the pseudo identifier of the signals without frame is kept as it is -/
def keyOfCompound (n : Nat) : Option (Nat × Bool) :=
  if n &&& 0x7FFFFFFF == 0x40000000 then
    match ArbId.fromCompound n with
    | .ok a => some (0x40000000, a.ext)
    | .error _ => none
  else
    match ArbId.fromCompound n with
    | .ok a => some (a.id, a.ext)
    | .error _ => none

/-- index of the last element satisfying `p` -/
def findLastIdx {α} (p : α → Bool) (l : List α) : Option Nat :=
  let rec go (i : Nat) (best : Option Nat) : List α → Option Nat
    | [] => best
    | a :: r => go (i + 1) (if p a then some i else best) r
  go 0 none l

/-- `get_frame_by_id(arbitration_id_from_compound(n))`: the frame registered last under that identifier -/
def frameIdx (m : RMatrix) (n : Nat) : Option Nat :=
  match keyOfCompound n with
  | some k => findLastIdx (fun f => f.key == k) m.frames
  | none => none      -- (the constructor raises: callers treat it like an unknown frame; every caller is inside the per-line `try`)

/-- `frame.signal_by_name(name)`: index of the first signal of that name -/
def sigIdx (f : RFrame) (name : Str) : Option Nat := f.sigs.findIdx? (fun s => s.sg.name == name)

/-- `db.ecu_by_name(name)` -/
def ecuIdx (m : RMatrix) (name : Str) : Option Nat := m.ecus.findIdx? (fun e => e.name == name)

def RMatrix.err (m : RMatrix) : RMatrix := { m with errors := m.errors + 1 }

def RMatrix.modFrame (m : RMatrix) (fi : Nat) (f : RFrame → RFrame) : RMatrix := { m with frames := modifyAt m.frames fi f }

def RFrame.modSig (f : RFrame) (si : Nat) (g : RSig → RSig) : RFrame := { f with sigs := modifyAt f.sigs si g }

/-! ## what one line says (no comment being continued) -/

inductive Item
  | bo (b : BoLine)
  | sg (s : SgLine)
  | tx (t : TxLine)
  | cm (h : CmHead) (text : Str)            -- a comment complete on its line
  | cmOpen (h : CmHead) (first : Str)       -- the first line of a comment over several lines (text behind the opening quote, unescaped)
  | bu (names : List Str)
  | val (v : ValLine)
  | vt (v : VtLine)
  | adef (d : DefLine)
  | ba (b : BaLine)
  | grp (g : GroupLine)
  | valtype (id : Nat) (name : Str)
  | defdef (name value : Str)
  | mul (m : MulLine)
  | mulBad (id : Nat)                       -- an `SG_MUL_VAL_` line that matches its pattern but holds a range that is no `a-b` of two numbers
  deriving Repr, DecidableEq, Inhabited

inductive Scan
  | skip                -- empty, unknown keyword, not modelled, or a pattern that fails behind an `if temp:` guard
  | error               -- the pattern fails and the handler raises on `None`: "error with line no"
  | item (i : Item)
  deriving Repr, DecidableEq, Inhabited

/-- a run of non-blank characters followed by at least one blank: the token and what follows the blanks -/
def tokenSp (s : Str) : Option (Str × Str) :=
  match s.span (fun c => !isBlank c) with
  | ([], _) => none
  | (tok, ' ' :: r) => some (tok, skipSp r)
  | _ => none

/-- `^CM_ +SG_ +(\S+) +(\S+) +\"`, `^CM_ +BO_ +(\S+) +\"`, `^CM_ +BU_ +(\S+) +\"` on a line that the dispatcher has taken for a comment
of that class: the target and the text behind the opening quote.  The frame number is converted with `int()` only after the match
(`none` in the second component: the conversion raises). -/
def parseCmHead (k : LineKind) (s : Str) : Option (Option CmHead × Str) :=
  let afterClass := skipSp ((skipSp (s.drop 3)).drop 3)     -- behind `CM_ +XX_ +`
  match k with
  | .cmSg =>
    match tokenSp afterClass with
    | some (idS, r1) =>
      match tokenSp r1 with
      | some (name, '"' :: body) => some ((digitsToNat idS).map fun id => CmHead.sg id name, body)
      | _ => none
    | none => none
  | .cmBo =>
    match tokenSp afterClass with
    | some (idS, '"' :: body) => some ((digitsToNat idS).map CmHead.bo, body)
    | _ => none
  | .cmBu =>
    match tokenSp afterClass with
    | some (name, '"' :: body) => some (some (CmHead.bu name), body)
    | _ => none
  | _ => none

/-- `lstrip()` -/
def lstripWs (s : Str) : Str := s.dropWhile isWs

/-- the `BU_:` statement: `group(1).split(' ')`, every piece of more than one character (after `strip()`) is an ECU name -/
def parseBu (d : Str) : List Str := (splitRaw ' ' (d.drop 4)).filter fun e => (stripWs e).length > 1

/-- the pattern of `SG_MUL_VAL_` alone (frame number, two names each followed by blanks, anything up to the last semicolon): the
frame number -/
def mulHead (line : Str) : Option Nat :=
  if !startsWith line "SG_MUL_VAL_ ".toList then none else
  match (skipSp (line.drop 11)).span isDigit with
  | ([], _) => none
  | (idS, ' ' :: r1) =>
    match tokenSp (skipSp r1) with
    | some (_, r2) =>
      match tokenSp r2 with
      | some (_, r3) => (uptoLastSemicolon r3).bind fun _ => digitsToNat idS
      | none => none
    | none => none
  | _ => none

/-- does the `EV_` pattern match?
`^EV_ +([\S\-\_]+?) *\: +([0-9]+) +\[([0-9.+\-eE]+)\|([0-9.+\-eE]+)\] +\"(.*?)\" +([0-9.+\-eE]+) +([0-9.+\-eE]+) +([\S\-]+?) +(.*); *`
The lazy groups are resolved by trying the candidates in order: the name ends at the first position from which the rest matches,
the unit at the first quote from which the rest matches. -/
def evMatches (d : Str) : Bool :=
  let sp1 (s : Str) : Option Str := match s with      -- ` +`
    | ' ' :: r => some (skipSp r)
    | _ => none
  let num (s : Str) : Option Str := match s.span isNumChar with      -- `[0-9.+\-eE]+`
    | ([], _) => none
    | (_, r) => some r
  -- behind the closing quote of the unit: ` +num +num +token +(.*);`
  let tail (s : Str) : Bool :=
    match (sp1 s).bind num |>.bind sp1 |>.bind num |>.bind sp1 with
    | some r =>
      (match r.span (fun c => !isBlank c) with
       | ([], _) => false
       | (_, ' ' :: r2) => r2.contains ';'
       | _ => false)
    | none => false
  -- behind the opening quote of the unit: the first closing quote from which `tail` matches
  let rec unit (fuel : Nat) (s : Str) : Bool :=
    match fuel, s with
    | 0, _ => false
    | _, [] => false
    | fuel + 1, c :: r => (c == '"' && tail r) || unit fuel r
  -- behind the name: ` *: +digits +[num|num] +"`
  let afterName (s : Str) : Bool :=
    match skipSp s with
    | ':' :: r =>
      (match sp1 r with
       | some r1 =>
         (match r1.span isDigit with
          | ([], _) => false
          | (_, r2) =>
            (match sp1 r2 with
             | some ('[' :: r3) =>
               (match num r3 with
                | some ('|' :: r4) =>
                  (match num r4 with
                   | some (']' :: r5) =>
                     (match sp1 r5 with
                      | some ('"' :: r6) => unit (r6.length + 1) r6
                      | _ => false)
                   | _ => false)
                | _ => false)
             | _ => false))
       | none => false)
    | _ => false
  -- the name: at least one non-blank character, as few as possible
  let rec name (fuel : Nat) (s : Str) : Bool :=
    match fuel, s with
    | 0, _ => false
    | _, [] => false
    | fuel + 1, c :: r => !isBlank c && (afterName r || name fuel r)
  startsWith d "EV_ ".toList && name (d.length + 1) (skipSp (d.drop 3))

def scanLine (line : Str) : Scan :=
  let d := stripWs line
  if d.isEmpty then .skip else
  let opt {α} (o : Option α) (f : α → Item) (bad : Scan) : Scan :=
    match o with
    | some a => .item (f a)
    | none => bad
  match classify line with
  | .bo => opt (parseBo d) .bo .error
  | .sg => opt (parseSg d) .sg .error
  | .boTxBu => opt (parseTx d) .tx .error
  | .cmSg | .cmBo | .cmBu =>
    -- the one-line pattern is tried on the stripped line, the pattern for a first line on the line without its left margin
    match parseCmHead (classify line) d with
    | none => .skip
    | some (h, body) =>
      match closeOnLine body with
      | some t => (match h with
        | some h => .item (.cm h (unescapeQuotes t))
        | none => .error)
      | none =>
        match parseCmHead (classify line) (lstripWs line) with
        | some (some h, first) => .item (.cmOpen h (unescapeQuotes first))
        | some (none, _) => .error
        | none => .skip
  | .bu => .item (.bu (parseBu d))
  | .val => opt (parseVal d) .val .skip
  | .valTable => opt (parseVt d) .vt .skip
  | .baDefTyped | .baDef => opt (parseDef d) .adef .skip
  | .ba =>
    match parseBa d with
    | some b => .item (.ba b)
    | none => if baMismatch line == .errorPrinted then .error else .skip
  | .sigGroup => opt (parseGroup d) .grp .error
  | .sigValtype => opt (parseValType d) (fun (p : Nat × Str) => .valtype p.1 p.2) .error
  | .baDefDef => opt (parseDefDef d) (fun (p : Str × Str) => .defdef p.1 p.2) .skip
  | .sgMulVal =>
    match parseMul d with
    | some ml => .item (.mul ml)
    | none => opt (mulHead d) .mulBad .skip
  | .ev => if evMatches d then .skip else .error
  | .unknown => .skip

/-! ## what a statement does -/

/-- `Define.type`: decided by the first letters of the stripped definition, in the order of `Define.__init__` -/
def defType (definition : Str) : Str :=
  let d := stripWs definition
  if startsWith d "INT".toList then "INT".toList
  else if startsWith d "STRING".toList then "STRING".toList
  else if startsWith d "ENUM".toList then "ENUM".toList
  else if startsWith d "HEX".toList then "HEX".toList
  else if startsWith d "FLOAT".toList then "FLOAT".toList
  else []

/-- `str.split()`: the runs of non-blank characters -/
def splitBlanks (s : Str) : List Str :=
  let rec go (fuel : Nat) (s : Str) : List Str :=
    match fuel with
    | 0 => []
    | fuel + 1 =>
      match s.dropWhile isBlank with
      | [] => []
      | t => (t.takeWhile fun c => !isBlank c) :: go fuel (t.dropWhile fun c => !isBlank c)
  go (s.length + 1) s

/-- does `Define(definition)` return?  INT / HEX / FLOAT definitions unpack exactly two numbers -/
def defineOk (definition : Str) : Bool :=
  let d := stripWs definition
  let t := defType d
  let two (k : Nat) : Bool :=
    match splitBlanks (d.drop k) with
    | [a, b] => (strToDec a).isSome && (strToDec b).isSome
    | _ => false
  if t == "INT".toList || t == "HEX".toList then two 4 else if t == "FLOAT".toList then two 6 else true

/-- `check_numeric_attribute`: a value for an INT / HEX / FLOAT attribute of that level must be a number (an integer unless FLOAT) -/
def numericOk (m : RMatrix) (lvl : Level) (attr value : Str) : Bool :=
  match m.defs.find? (fun d => d.level == lvl && d.name == attr) with
  | none => true
  | some d =>
    let t := defType d.definition
    if t == "INT".toList || t == "HEX".toList || t == "FLOAT".toList then
      match strToDec (stripWs value) with
      | some x => t == "FLOAT".toList || x.coeff == 0 || x.exp ≥ 0 || x.coeff % 10 ^ x.exp.natAbs == 0
      | none => false
    else true

/-- the parts of a text between underscores -/
def splitUnderscores (s : Str) : List Str :=
  let rec go : Str → Str → List Str
    | [], cur => [cur.reverse]
    | c :: r, cur => if c == '_' then cur.reverse :: go r [] else go r (c :: cur)
  go s []

/-- an optional sign in front of a number text -/
def signSplit : Str → Bool × Str
  | '-' :: u => (true, u)
  | '+' :: u => (false, u)
  | u => (false, u)

/-- Python's `int(text)` on the key of a value table: blanks at the ends, an optional sign, ASCII digits, single underscores between
digits (digits of other scripts are outside the model) -/
def pyIntKey (s : Str) : Option Int :=
  let t := stripWs s
  let body : Bool × Str := signSplit t
  let groups := splitUnderscores body.2
  if groups.all (fun g => !g.isEmpty && g.all isDigit) then
    (digitsToNat groups.flatten).map fun n => if body.1 then -(n : Int) else (n : Int)
  else none

/-- `frame.add_signal_group(name, id, names)`: the members are the named signals that exist, each once -/
def groupOf (f : RFrame) (g : GroupLine) : RGroup :=
  { name := g.name, id := g.groupId,
    members := g.members.foldl (fun acc n => if (sigIdx f n).isSome && !acc.contains n then acc ++ [n] else acc) [] }

def addDefine (m : RMatrix) (d : DefLine) : RMatrix :=
  if m.defs.any (fun x => x.level == d.level && x.name == d.name) then m
  else if !defineOk d.definition then m.err
  else { m with defs := m.defs ++ [{ level := d.level, name := d.name, definition := d.definition }] }

/-- `m<k>M`: a multiplexed multiplexer makes its frame one with extended multiplexing -/
def tagIsValMuxer : Tag → Bool
  | .valMuxer _ => true
  | _ => false

/-- the identifier a `BO_` line gets: `Frame(name, arbitration_id=int(..), ..)` raises for a standard identifier above 0x7FF (then the
variable `frame` keeps its value); the pseudo frame of the signals without frame keeps its special number -/
def boKey (b : BoLine) : Option (Nat × Bool) :=
  if b.name == "VECTOR__INDEPENDENT_SIG_MSG".toList && b.id &&& 0x7FFFFFFF == 0x40000000 then
    (keyOfCompound b.id).map fun _ => (0x40000000, true)
  else match ArbId.fromCompound b.id with
    | .ok a => some (a.id, a.ext)
    | .error _ => none

def applyCore (m : RMatrix) : Item → RMatrix
  | .bo b =>
    match boKey b with
    | some k =>
      { m with frames := m.frames ++ [{ key := k, name := b.name, size := b.size, transmitters := [b.transmitter] }],
               cur := some m.frames.length }
    | none => m.err
  | .sg s =>
    match m.cur with
    | some fi =>
      m.modFrame fi fun f =>
        { f with sigs := f.sigs ++ [{ sg := s }],
                 complexMux := f.complexMux || tagIsValMuxer s.tag }
    | none => m.err
  | .tx t =>
    let fi := frameIdx m t.id
    let m := { m with cur := fi }
    match fi with
    | some fi => m.modFrame fi fun f => { f with transmitters := addTransmitters f.transmitters t.ecus }
    | none => m.err
  | .cm (.sg id name) text =>
    let fi := frameIdx m id
    let m := { m with cur := fi }
    match fi with
    | some fi =>
      match (m.frames[fi]?).bind (sigIdx · name) with
      | some si => m.modFrame fi fun f => f.modSig si fun s => { s with comment := some text }
      | none => m
    | none => m.err
  | .cm (.bo id) text =>
    let fi := frameIdx m id
    let m := { m with cur := fi }
    match fi with
    | some fi => m.modFrame fi fun f => { f with comment := some text }
    | none => m
  | .cm (.bu name) text =>
    match ecuIdx m name with
    | some ei => { m with ecus := modifyAt m.ecus ei fun e => { e with comment := some text } }
    | none => m
  | .cmOpen (.sg id name) first =>
    let fi := frameIdx m id
    let m := { m with cur := fi }
    match fi with
    | some fi => { m with pending := some (.sig fi ((m.frames[fi]?).bind (sigIdx · name)), first) }
    | none => m.err
  | .cmOpen (.bo id) first =>
    let fi := frameIdx m id
    { m with cur := fi, pending := some (.frame fi, first) }
  | .cmOpen (.bu name) first =>
    match ecuIdx m name with
    | some ei => { m with pending := some (.ecu ei, first) }
    | none => m
  | .bu names => { m with ecus := m.ecus ++ names.map fun n => { name := n } }
  | .val v =>
    -- (inside its own `try`: a failure is logged, not printed as a line error)
    let fi := frameIdx m v.id
    let m := { m with cur := fi }
    match fi with
    | some fi =>
      match (m.frames[fi]?).bind (sigIdx · v.name) with
      | some si => m.modFrame fi fun f => f.modSig si fun s => { s with values := v.entries.foldl (fun acc (k, t) => assocSet acc k t) s.values }
      | none => m
    | none => m
  | .vt v =>
    -- `value_hash[key.strip()] = text` entry by entry, then `add_value_table`: `{int(k): v}` - a key that is no number raises
    let byText := v.entries.foldl (fun acc (e : Str × Str) => assocSet acc e.1 e.2) ([] : List (Str × Str))
    match byText.mapM (fun (e : Str × Str) => (pyIntKey e.1).map fun i => (i, e.2)) with
    | some es =>
      let byInt := es.foldl (fun acc (e : Int × Str) => assocSet acc e.1 e.2) ([] : List (Int × Str))
      { m with tables := assocSetTable m.tables ⟨v.name, byInt.map fun e => (intDigits e.1, e.2)⟩ }
    | none => m.err
  | .adef d => addDefine m d
  | .ba b =>
    match b.target with
    | .global =>
      if numericOk m .global b.attr b.value then { m with attrs := assocSet m.attrs b.attr (stripWs b.value) } else m.err
    | .ecu n =>
      if !numericOk m .ecu b.attr b.value then m.err else
      match ecuIdx m n with
      | some ei => { m with ecus := modifyAt m.ecus ei fun e => { e with attrs := assocSet e.attrs b.attr (stripWs b.value) } }
      | none => m.err
    | .frame id =>
      if !numericOk m .frame b.attr b.value then m.err else
      match frameIdx m id with
      | some fi => m.modFrame fi fun f => { f with attrs := assocSet f.attrs b.attr (stripWs b.value) }
      | none => m.err
    | .signal id n =>
      if !numericOk m .signal b.attr b.value then m.err else
      match frameIdx m id with
      | some fi =>
        match (m.frames[fi]?).bind (sigIdx · n) with
        | some si => m.modFrame fi fun f => f.modSig si fun s => { s with attrs := assocSet s.attrs b.attr (stripWs b.value) }
        | none => m.err
      | none => m.err
  | .grp g =>
    let fi := frameIdx m g.frameId
    let m := { m with cur := fi }
    match fi with
    | some fi => m.modFrame fi fun f => { f with groups := f.groups ++ [groupOf f g] }
    | none => m
  | .valtype id name =>
    let fi := frameIdx m id
    let m := { m with cur := fi }
    match fi with
    | some fi =>
      match (m.frames[fi]?).bind (sigIdx · name) with
      | some si => m.modFrame fi fun f => f.modSig si fun s => { s with isFloat := true }
      | none => m.err            -- `signal` is None: AttributeError
    | none => m
  | .defdef name value =>
    -- `check_numeric_attribute` on every level that has the name: a default that is no number for an INT / HEX / FLOAT definition raises
    if [Level.signal, Level.frame, Level.ecu, Level.global].all (fun l => numericOk m l name value) then
      { m with defs := m.defs.map fun d => if d.name == name && d.level != .env then { d with default := some value } else d }
    else m.err
  | .mul ml =>
    let fi := frameIdx m ml.id
    let m := { m with cur := fi }
    match fi with
    | some fi =>
      match (m.frames[fi]?).bind (sigIdx · ml.sig) with
      | some si =>
        m.modFrame fi fun f =>
          { (f.modSig si fun s => { s with muxer := some ml.muxer, ranges := s.ranges ++ ml.ranges }) with complexMux := true }
      | none => m
    | none => m
  | .mulBad id =>
    let fi := frameIdx m id
    let m := { m with cur := fi }
    if fi.isSome then m.err else m
where
  /-- `value_tables[name] = table` -/
  assocSetTable (ts : List VtLine) (v : VtLine) : List VtLine :=
    match ts with
    | [] => [v]
    | t :: r => if t.name == v.name then v :: r else t :: assocSetTable r v

/-- the frame number a statement converts into an identifier -/
def Item.frameNo : Item → Option Nat
  | .tx t => some t.id
  | .cm (.sg id _) _ | .cm (.bo id) _ | .cmOpen (.sg id _) _ | .cmOpen (.bo id) _ => some id
  | .val v => some v.id
  | .ba b => (match b.target with
    | .frame id => some id
    | .signal id _ => some id
    | _ => none)
  | .grp g => some g.frameId
  | .valtype id _ => some id
  | .mul ml => some ml.id
  | .mulBad id => some id
  | _ => none

/-- A statement whose frame number denotes no identifier (`ArbitrationId` raises: a standard identifier above 0x7FF) fails before
anything is assigned - also the variable `frame` keeps its value; the `VAL_` handler catches this itself and prints nothing. -/
def applyItem (m : RMatrix) (it : Item) : RMatrix :=
  match it.frameNo with
  | some n =>
    if (keyOfCompound n).isNone then
      (match it with
       | .val _ => m
       | _ => m.err)
    else applyCore m it
  | none => applyCore m it

/-- giving a finished comment to its object -/
def closeComment (m : RMatrix) (t : CmTarget) (text : Str) : RMatrix :=
  let m := { m with pending := none }
  match t with
  | .sig fi (some si) => m.modFrame fi fun f => f.modSig si fun s => { s with comment := some text }
  | .sig _ none => m
  | .frame (some fi) => m.modFrame fi fun f => { f with comment := some text }
  | .frame none => m
  | .ecu ei => { m with ecus := modifyAt m.ecus ei fun e => { e with comment := some text } }

/-- one line of the file -/
def stepFile (m : RMatrix) (line : Str) : RMatrix :=
  match m.pending with
  | some (t, acc) =>
    let acc' := acc ++ '\n' :: unescapeQuotes line
    if endsStatement line then closeComment m t (dropClosing acc') else { m with pending := some (t, acc') }
  | none =>
    match scanLine line with
    | .skip => m
    | .error => m.err
    | .item it => applyItem m it

def readFile (lines : List Str) : RMatrix := lines.foldl stepFile {}

/-! ## the writer's side: the statements of a file, one line each (comments: see `CmStmt` below) -/

inductive Stmt
  | bo (b : BoLine)
  | sg (s : SgLine)
  | gap                              -- an empty line
  | tx (t : TxLine)
  | val (v : ValLine)
  | vt (v : VtLine)
  | adef (d : DefLine)
  | defdef (d : DefDefLine)
  | ba (b : BaLine)
  | grp (g : GroupLine)
  | valtype (v : ValTypeLine)
  | mul (m : MulLine)
  | bu (names : List Str)           -- the list of ECUs: `BU_: A B C `
  deriving Repr, DecidableEq, Inhabited

/-- `"BU_: "` and every name followed by a blank -/
def renderBu (names : List Str) : Str := "BU_: ".toList ++ names.flatMap fun n => n ++ [' ']

def Stmt.line : Stmt → Str
  | .bo b => renderBo b
  | .sg s => renderSg s
  | .gap => []
  | .tx t => renderTx t
  | .val v => renderVal v
  | .vt v => renderVt v
  | .adef d => renderDef d
  | .defdef d => renderDefDef d
  | .ba b => renderBa b
  | .grp g => renderGroup g
  | .valtype v => renderValType v
  | .mul m => renderMul m
  | .bu names => renderBu names

/-- what the statement says to the reader (numbers of an `SG_` line as they are read back) -/
def Stmt.item : Stmt → Option Item
  | .bo b => some (.bo b)
  | .sg s => some (.sg (rereadSg s))
  | .gap => none
  | .tx t => some (.tx t)
  | .val v => some (.val v)
  | .vt v => some (.vt v)
  | .adef d => some (.adef d)
  | .defdef d => some (.defdef d.name d.value)
  | .ba b => some (.ba b)
  | .grp g => some (.grp g)
  | .valtype v => some (.valtype v.id v.name)
  | .mul m => some (.mul m)
  | .bu names => some (.bu names)

/-- the envelope of each statement kind (what the writer emits: identifier-like names, `VAL_` and `SG_MUL_VAL_` never without entries) -/
def Stmt.wf : Stmt → Bool
  | .bo b => wfBo b
  | .sg s => wfSg s
  | .gap => true
  | .tx t => wfTx t
  | .val v => wfVal v && !v.entries.isEmpty
  | .vt v => wfVt v
  | .adef d => wfDef d
  | .defdef d => wfDefDef d
  | .ba b => wfBa b
  | .grp g => wfGroup g
  | .valtype v => wfValType v
  | .mul m => wfMul m && !m.ranges.isEmpty
  | .bu names => names.all fun n => isIdent n && n.length ≥ 2      -- (the reader drops names of one character)

def writeStmts (ss : List Stmt) : List Str := ss.map Stmt.line

/-- the effect of a statement on the matrix under construction -/
def applyStmt (m : RMatrix) (s : Stmt) : RMatrix :=
  match s.item with
  | some it => applyItem m it
  | none => m

/-! ## comments: one statement, one or several lines -/

/-- `"CM_ " + class + " " + ident + ' "'` with the identifiers `"%d "` (frame), `"%d " + name` (signal), the name (ECU) -/
def renderCmHead : CmHead → Str
  | .sg id name => "CM_ SG_ ".toList ++ natDigits id ++ ' ' :: name ++ " \"".toList
  | .bo id => "CM_ BO_ ".toList ++ natDigits id ++ "  \"".toList
  | .bu name => "CM_ BU_ ".toList ++ name ++ " \"".toList

/-- the lines of a comment statement -/
def cmLines (h : CmHead) (text : Str) : List Str :=
  match renderCommentBody text with
  | first :: rest => (renderCmHead h ++ first) :: rest
  | [] => []

/-- a statement of a file: one of the one-line kinds, or a comment -/
inductive FileStmt
  | one (s : Stmt)
  | cm (h : CmHead) (text : Str)
  deriving Repr, DecidableEq, Inhabited

def FileStmt.lines : FileStmt → List Str
  | .one s => [s.line]
  | .cm h text => cmLines h text

def FileStmt.apply (m : RMatrix) : FileStmt → RMatrix
  | .one s => applyStmt m s
  | .cm h text => applyItem m (.cm h text)

def wfCmHead : CmHead → Bool
  | .sg _ name => isIdent name
  | .bo _ => true
  | .bu name => isIdent name

/-- Can the statement be read at this point of the file?  A comment over several lines is recognised as one only when the reader enters
its follow-up state: for a signal comment the frame must be known, for a frame comment the number must denote an identifier, for an ECU
comment the ECU must be listed (otherwise the first line is skipped and the further lines are read as statements of their own). -/
def FileStmt.okIn (m : RMatrix) : FileStmt → Bool
  | .one s => s.wf
  | .cm h text =>
    wfCmHead h && wfComment text &&
    (!text.contains '\n' ||
      match h with
      | .sg id _ => (frameIdx m id).isSome
      | .bo id => (keyOfCompound id).isSome
      | .bu name => (ecuIdx m name).isSome)

def writeFile (fs : List FileStmt) : List Str := fs.flatMap FileStmt.lines

/-- every statement can be read at its point of the file -/
def okFile (m : RMatrix) : List FileStmt → Bool
  | [] => true
  | f :: fs => f.okIn m && okFile (f.apply m) fs

/-! ## the core of the writer: frames with their signals, further senders, comments of frames and signals

`dump` writes the frame section, then a `BO_TX_BU_` line for every frame with more than one sender, then the comments of the frames, then
the comments of the signals (formats/dbc.py ~300-370).  `WFrame` is a frame as this part of the writer sees it. -/

structure WSig where
  sg : SgLine
  comment : Option Str := none
  values : List (Int × Str) := []     -- the value table, in the order the `VAL_` line lists it
  isFloat : Bool := false             -- `SIG_VALTYPE_`
  muxer : Option Str := none          -- extended multiplexing: the multiplexer the signal is bound to and the selector ranges
  ranges : List (Nat × Nat) := []
  attrs : List (Str × Str) := []      -- attribute name and value as written (`writeCoreF`)
  deriving Repr, DecidableEq, Inhabited

structure WFrame where
  bo : BoLine                      -- number, name, length, first sender
  sigs : List WSig
  moreSenders : List Str := []     -- the senders after the first
  comment : Option Str := none
  groups : List RGroup := []
  attrs : List (Str × Str) := []   -- attribute name and value as written (`writeCoreF`)
  deriving Repr, DecidableEq, Inhabited

def WFrame.block (f : WFrame) : Block := ⟨f.bo, f.sigs.map (·.sg)⟩

def WFrame.senders (f : WFrame) : List Str := f.bo.transmitter :: f.moreSenders

def WFrame.txStmts (f : WFrame) : List FileStmt :=
  if f.moreSenders.isEmpty then [] else [.one (.tx ⟨f.bo.id, f.senders⟩)]

def WFrame.cmStmts (f : WFrame) : List FileStmt :=
  match f.comment with
  | some c => [.cm (.bo f.bo.id) c]
  | none => []

def WFrame.sigCmStmts (f : WFrame) : List FileStmt :=
  f.sigs.filterMap fun s => s.comment.map fun c => .cm (.sg f.bo.id s.sg.name) c

def WFrame.valStmts (f : WFrame) : List FileStmt :=
  f.sigs.filterMap fun s => if s.values.isEmpty then none else some (.one (.val ⟨f.bo.id, s.sg.name, s.values⟩))

def WFrame.valtypeStmts (f : WFrame) : List FileStmt :=
  f.sigs.filterMap fun s => if s.isFloat then some (.one (.valtype ⟨f.bo.id, s.sg.name, decide (s.sg.size > 32)⟩)) else none

def WFrame.grpStmts (f : WFrame) : List FileStmt :=
  f.groups.map fun g => .one (.grp ⟨f.bo.id, g.name, g.id, g.members⟩)

def WFrame.mulStmts (f : WFrame) : List FileStmt :=
  f.sigs.filterMap fun s => s.muxer.map fun mx => .one (.mul ⟨f.bo.id, s.sg.name, mx, s.ranges⟩)

/-- the lines of the core of a file: frame section, further senders, comments of the frames, comments of the signals, value tables of the
signals, float types, signal groups, extended-multiplexing bindings (the sections in the order of `dump`; the attribute statements that
stand between the comments and the `VAL_` lines are not part of the core) -/
def writeCore (fs : List WFrame) : List Str :=
  writeFrames (fs.map WFrame.block) ++
  writeFile (fs.flatMap WFrame.txStmts ++ fs.flatMap WFrame.cmStmts ++ fs.flatMap WFrame.sigCmStmts ++ fs.flatMap WFrame.valStmts ++
    fs.flatMap WFrame.valtypeStmts ++ fs.flatMap WFrame.grpStmts ++ fs.flatMap WFrame.mulStmts)

/-- what the reader is expected to have built for such a frame (numbers of the `SG_` lines as they are read back) -/
def WFrame.expect (f : WFrame) (k : Nat × Bool) : RFrame :=
  { key := k, name := f.bo.name, size := f.bo.size, transmitters := f.senders,
    sigs := f.sigs.map fun s => { sg := rereadSg s.sg, comment := s.comment, values := s.values, isFloat := s.isFloat,
                                  muxer := s.muxer, ranges := s.ranges },
    comment := f.comment, groups := f.groups,
    complexMux := (f.sigs.any fun s => tagIsValMuxer s.sg.tag) || f.sigs.any fun s => s.muxer.isSome }

/-- the envelope: well-formed lines, the number denotes the identifier `k`, senders pairwise different identifiers, comments the statement
can carry, value texts without backslash or line break and pairwise different keys, bindings with ranges, groups of pairwise different existing
signals, signal names pairwise different -/
def WFrame.wf (f : WFrame) (k : Nat × Bool) : Bool :=
  wfBlock f.block && boKey f.bo == some k && keyOfCompound f.bo.id == some k &&
  f.senders.all isIdent && decide f.senders.Nodup &&
  (match f.comment with | some c => wfComment c | none => true) &&
  f.sigs.all (fun s => match s.comment with | some c => wfComment c | none => true) &&
  f.sigs.all (fun s => s.values.all (fun e => wfText e.2) && decide ((s.values.map (·.1)).Nodup)) &&
  f.sigs.all (fun s => match s.muxer with | some mx => isIdent mx && !s.ranges.isEmpty | none => s.ranges.isEmpty) &&
  f.groups.all (fun g => isIdent g.name && decide g.members.Nodup && g.members.all fun n => (f.sigs.map (·.sg.name)).contains n) &&
  decide ((f.sigs.map (·.sg.name)).Nodup)

/-! ## the ECUs of the file: the `BU_:` line at its beginning and the comments of the ECUs behind the comments of the signals -/

structure WEcu where
  name : Str
  comment : Option Str := none
  attrs : List (Str × Str) := []     -- attribute name and value as written (a text in its quotes, a number as it is)
  deriving Repr, DecidableEq, Inhabited

def ecuCmStmts (es : List WEcu) : List FileStmt := es.filterMap fun e => e.comment.map fun c => .cm (.bu e.name) c

/-- the core of a file with its ECUs -/
def writeCoreE (es : List WEcu) (fs : List WFrame) : List Str :=
  [renderBu (es.map (·.name)), []] ++ writeFrames (fs.map WFrame.block) ++
  writeFile (fs.flatMap WFrame.txStmts ++ fs.flatMap WFrame.cmStmts ++ fs.flatMap WFrame.sigCmStmts ++ ecuCmStmts es ++
    fs.flatMap WFrame.valStmts ++ fs.flatMap WFrame.valtypeStmts ++ fs.flatMap WFrame.grpStmts ++ fs.flatMap WFrame.mulStmts)

def WEcu.expect (e : WEcu) : REcu := { name := e.name, comment := e.comment }

/-- ECU names: identifiers of at least two characters, pairwise different; comments the statement can carry -/
def wfEcus (es : List WEcu) : Bool :=
  es.all (fun e => isIdent e.name && e.name.length ≥ 2 && (match e.comment with | some c => wfComment c | none => true)) &&
  decide ((es.map (·.name)).Nodup)

/-! ## attribute definitions, their defaults, the attributes of the ECUs and of the matrix

`BA_DEF_` lines (all levels, in the order of the file), `BA_DEF_DEF_` lines, `BA_ .. BU_` lines ECU by ECU, then the `BA_` lines of the
matrix - between the comments and the value tables, as `dump` writes them. -/

def defStmts (ds : List DefLine) : List FileStmt := ds.map fun d => .one (.adef d)
def defdefStmts (dds : List DefDefLine) : List FileStmt := dds.map fun d => .one (.defdef d)
def ecuBaStmts (es : List WEcu) : List FileStmt := es.flatMap fun e => e.attrs.map fun kv => .one (.ba ⟨kv.1, .ecu e.name, kv.2⟩)
def globalBaStmts (ga : List (Str × Str)) : List FileStmt := ga.map fun kv => .one (.ba ⟨kv.1, .global, kv.2⟩)

def writeCoreD (es : List WEcu) (ds : List DefLine) (dds : List DefDefLine) (ga : List (Str × Str)) (fs : List WFrame) : List Str :=
  [renderBu (es.map (·.name)), []] ++ writeFrames (fs.map WFrame.block) ++
  writeFile ((fs.flatMap WFrame.txStmts ++ fs.flatMap WFrame.cmStmts ++ fs.flatMap WFrame.sigCmStmts ++ ecuCmStmts es) ++
    ((defStmts ds ++ defdefStmts dds ++ ecuBaStmts es ++ globalBaStmts ga) ++
     (fs.flatMap WFrame.valStmts ++ fs.flatMap WFrame.valtypeStmts ++ fs.flatMap WFrame.grpStmts ++ fs.flatMap WFrame.mulStmts)))

/-- a dictionary after the assignments `d[k] = v.strip()` in their order -/
def attrsOf (kvs : List (Str × Str)) : List (Str × Str) := kvs.foldl (fun a kv => assocSet a kv.1 (stripWs kv.2)) []

/-- the definitions the reader is expected to hold: each `BA_DEF_` line, with the value of the last `BA_DEF_DEF_` line of its name -/
def expectDefs (ds : List DefLine) (dds : List DefDefLine) : List RDef :=
  ds.map fun d => { level := d.level, name := d.name, definition := d.definition,
                    default := dds.foldl (fun acc dd => if d.name == dd.name && d.level != .env then some dd.value else acc) none }

def WEcu.expectA (e : WEcu) : REcu := { name := e.name, comment := e.comment, attrs := attrsOf e.attrs }

/-- defaults: well-formed lines, and a number where a definition of that name on a level says so -/
def wfDefaults (ds : List DefLine) (dds : List DefDefLine) : Bool :=
  dds.all fun dd => wfDefDef dd &&
    [Level.signal, Level.frame, Level.ecu, Level.global].all fun l =>
      numericOk { defs := ds.map fun d => { level := d.level, name := d.name, definition := d.definition } } l dd.name dd.value

/-- definitions: well-formed lines the constructor of `Define` accepts, pairwise different in level and name -/
def wfDefs (ds : List DefLine) : Bool :=
  ds.all (fun d => wfDef d && defineOk d.definition) && decide ((ds.map fun d => (d.level, d.name)).Nodup)

/-- attribute lines of one level: well formed, and numeric where the definition of that level says so -/
def wfAttrs (defs : List RDef) (lvl : Level) (target : BaTarget) (kvs : List (Str × Str)) : Bool :=
  kvs.all fun kv => wfBa ⟨kv.1, target, kv.2⟩ && numericOk { defs := defs } lvl kv.1 kv.2

/-! ## the attributes of frames and signals: `BA_ .. BO_` lines frame by frame, then `BA_ .. SG_` lines signal by signal -/

def WFrame.baStmts (f : WFrame) : List FileStmt := f.attrs.map fun kv => .one (.ba ⟨kv.1, .frame f.bo.id, kv.2⟩)
def WFrame.sigBaStmts (f : WFrame) : List FileStmt :=
  f.sigs.flatMap fun s => s.attrs.map fun kv => .one (.ba ⟨kv.1, .signal f.bo.id s.sg.name, kv.2⟩)

/-- the core of a file with all its attribute statements -/
def writeCoreF (es : List WEcu) (ds : List DefLine) (dds : List DefDefLine) (ga : List (Str × Str)) (fs : List WFrame) : List Str :=
  [renderBu (es.map (·.name)), []] ++ writeFrames (fs.map WFrame.block) ++
  writeFile ((fs.flatMap WFrame.txStmts ++ fs.flatMap WFrame.cmStmts ++ fs.flatMap WFrame.sigCmStmts ++ ecuCmStmts es) ++
    ((defStmts ds ++ defdefStmts dds ++ ecuBaStmts es ++ globalBaStmts ga) ++
     ((fs.flatMap WFrame.baStmts ++ fs.flatMap WFrame.sigBaStmts) ++
      (fs.flatMap WFrame.valStmts ++ fs.flatMap WFrame.valtypeStmts ++ fs.flatMap WFrame.grpStmts ++ fs.flatMap WFrame.mulStmts))))

/-- the frame the reader is expected to have built, with the attribute dictionaries of the frame and of its signals -/
def WFrame.expectA (f : WFrame) (k : Nat × Bool) : RFrame :=
  { f.expect k with
    attrs := attrsOf f.attrs,
    sigs := f.sigs.map fun s => { sg := rereadSg s.sg, comment := s.comment, values := s.values, isFloat := s.isFloat,
                                  muxer := s.muxer, ranges := s.ranges, attrs := attrsOf s.attrs } }

/-- the attribute lines of a frame and of its signals are well formed and numeric where their definitions say so -/
def WFrame.wfA (defs : List RDef) (f : WFrame) : Bool :=
  wfAttrs defs .frame (.frame f.bo.id) f.attrs && f.sigs.all fun s => wfAttrs defs .signal (.signal f.bo.id s.sg.name) s.attrs

/-! ## the value tables of the matrix: `VAL_TABLE_` lines between the `BU_:` line and the frame section -/

structure WTable where
  name : Str
  entries : List (Nat × Str)      -- (the writer prints the keys of the dictionary with `str`; negative keys are outside this envelope)
  deriving Repr, DecidableEq, Inhabited

def WTable.line (t : WTable) : VtLine := ⟨t.name, t.entries.map fun e => (natDigits e.1, e.2)⟩

/-- the whole file: `writeCoreF` with the value tables of the matrix -/
def writeCoreH (es : List WEcu) (ts : List WTable) (ds : List DefLine) (dds : List DefDefLine) (ga : List (Str × Str)) (fs : List WFrame) :
    List Str :=
  [renderBu (es.map (·.name)), []] ++ writeStmts (ts.map fun t => .vt t.line) ++ [[]] ++ writeFrames (fs.map WFrame.block) ++
  writeFile ((fs.flatMap WFrame.txStmts ++ fs.flatMap WFrame.cmStmts ++ fs.flatMap WFrame.sigCmStmts ++ ecuCmStmts es) ++
    ((defStmts ds ++ defdefStmts dds ++ ecuBaStmts es ++ globalBaStmts ga) ++
     ((fs.flatMap WFrame.baStmts ++ fs.flatMap WFrame.sigBaStmts) ++
      (fs.flatMap WFrame.valStmts ++ fs.flatMap WFrame.valtypeStmts ++ fs.flatMap WFrame.grpStmts ++ fs.flatMap WFrame.mulStmts))))

/-- tables: identifier-like names, pairwise different; texts the statement can carry; pairwise different keys -/
def wfTables (ts : List WTable) : Bool :=
  ts.all (fun t => isIdent t.name && t.entries.all (fun e => wfText e.2) && decide ((t.entries.map (·.1)).Nodup)) &&
  decide ((ts.map (·.name)).Nodup)

/-! ## the file as `dump` writes it, line for line

For a matrix without environment variables the file is: the fixed header, the `BU_:` line, the value tables, the frame section, and the
sections of `writeCoreH` with the empty lines `dump` puts behind some of them. -/

def dbcHeader : List Str := ["VERSION \"created by canmatrix\"".toList, [], [], "NS_ :".toList, [], "BS_:".toList, []]

def gapStmt : FileStmt := .one .gap

/-- every line of the file (the text is these lines, each followed by a line feed) -/
def writeDbc (es : List WEcu) (ts : List WTable) (ds : List DefLine) (dds : List DefDefLine) (ga : List (Str × Str)) (fs : List WFrame) :
    List Str :=
  dbcHeader ++ [renderBu (es.map (·.name)), []] ++ writeStmts (ts.map fun t => .vt t.line) ++ [[]] ++ writeFrames (fs.map WFrame.block) ++ [[]] ++
  writeFile ((fs.flatMap WFrame.txStmts ++ fs.flatMap WFrame.cmStmts ++ [gapStmt] ++ fs.flatMap WFrame.sigCmStmts ++ [gapStmt] ++ ecuCmStmts es ++ [gapStmt]) ++
    ((defStmts ds ++ defdefStmts dds ++ ecuBaStmts es ++ [gapStmt] ++ globalBaStmts ga ++ [gapStmt]) ++
     ((fs.flatMap WFrame.baStmts ++ [gapStmt] ++ fs.flatMap WFrame.sigBaStmts ++ [gapStmt]) ++
      (fs.flatMap WFrame.valStmts ++ fs.flatMap WFrame.valtypeStmts ++ fs.flatMap WFrame.grpStmts ++ fs.flatMap WFrame.mulStmts))))

end CanVerif.Dbc
