/-!
# Model of `Signal.set_startbit` / `Signal.get_startbit`  (canmatrix.py ~330-366)

Python source mirrored line by line.  `bitNumbering` is `None | 0 | 1` (compared with the
bool `is_little_endian` by `!=`), `startLittle` is significant only when it `is True`.
Python's `%` with a positive divisor is the floor modulus, which on `Int` is `Int.emod` (`%`).
-/
namespace CanVerif

/-- `start_bit - (start_bit % 8) + 7 - (start_bit % 8)` -/
def flipI (s : Int) : Int := s - (s % 8) + 7 - (s % 8)

/-- `Signal.set_startbit(start_bit, bitNumbering, startLittle)`; `none` = `StartbitLowerZero`
raised, nothing stored. -/
def setStartbit (little : Bool) (size : Int) (start : Int) (bn : Option Bool) (sl : Bool) : Option Int :=
  let s1 := match bn with
    | some b => if b != little then flipI start else start
    | none => start
  let s2 := if sl && !little then s1 + 1 - size else s1
  if s2 < 0 then none else some s2

/-- `Signal.get_startbit(bit_numbering, start_little)` on the stored `start_bit`. -/
def getStartbit (little : Bool) (size : Int) (internal : Int) (bn : Option Bool) (sl : Bool) : Int :=
  let s1 := if sl && !little then internal + size - 1 else internal
  match bn with
    | some b => if b != little then flipI s1 else s1
    | none => s1

end CanVerif
