"""C15: a PEAK SYM 5.0 writer following the section/line layout of the samples under tests/files/sym, independent of canmatrix's
writer.  Lexical freedom of the format (its tools emit single separators): line ends, number renderings, order and omission of
optional switches, decimal or hexadecimal multiplexer values, enum table placement."""
from lib.c15 import net as N
from lib.c15.dbc import Lex  # noqa: F401  (same choice object)

NET_OPTS = {"multiline": False, "multi_tx": False, "lengths": [1, 2, 4, 8, 8, 8], "attributes": False, "sym": True}
# SYM knows neither ECUs nor senders/receivers; value tables are enums; the multiplexer has no name of its own
SKIP = ("transmitters", "receivers", "attrs", "group")


def sym_start(sig):
    # Intel: least significant bit; Motorola (-m): most significant bit counted from the most significant bit of byte 0
    return N.internal_start(sig)


def q(text):
    return '"' + text + '"' if (" " in text or text == "") else text


def var_line(L, s, enum_name):
    typ = "float" if s["float"] and s["size"] == 32 else "double" if s["float"] else "signed" if s["signed"] else "unsigned"
    if L.level and typ == "unsigned":
        r = L.rng.random()
        if s["size"] == 1 and r < 0.4:
            typ = "bit"
        elif enum_name and r < 0.4:
            typ, enum_name = enum_name, None        # an enum may stand in the type column
    head = "Var=%s %s %d,%d" % (s["name"], typ, sym_start(s), s["size"])
    sw = []
    if L.level and L.rng.random() < 0.2:
        sw.append("-h")
    if L.level and L.rng.random() < 0.2:
        sw.append("/p:2")
    if L.level and L.rng.random() < 0.2:
        sw.append('/ln:"Long name of %s"' % s["name"])
    if not s["little"]:
        sw.append("-m")
    if s["unit"]:
        sw.append("/u:" + q(s["unit"]))
    if s["factor"] != "1" or (L.level and L.rng.random() < 0.5):
        sw.append("/f:" + L.num(s["factor"], N.NUMBERS))
    if s["offset"] != "0" or (L.level and L.rng.random() < 0.5):
        sw.append("/o:" + L.num(s["offset"], N.OFFSETS))
    if s["min"] is not None:
        sw.append("/min:" + s["min"])
        sw.append("/max:" + s["max"])
    if enum_name:
        sw.append("/e:" + enum_name)
    sw = L.order(sw)
    line = " ".join([head] + sw)
    if s["comment"]:
        line += "\t// " + s["comment"]
    return line


def render(net, lex, opts=None):
    L = lex
    L.crlf = L.level and L.rng.random() < 0.3
    out = ["FormatVersion=5.0 // Do not edit this line!", 'Title="c15"', ""]
    enums = []
    enum_of = {}
    for f in net["frames"]:
        for s in f["signals"]:
            if s["values"] and s["mux"] != "M":
                name = "Vt_" + s["name"]
                enum_of[s["name"]] = name
                items = sorted(s["values"].items(), key=lambda kv: int(kv[0]))
                if L.level and len(items) > 1 and L.rng.random() < 0.4:
                    # an enum may run over several lines (one value per line, the comma at the line end)
                    enums.append("enum %s(%s)" % (name, (", " + L.eol() + "  ").join('%s="%s"' % (k, v) for k, v in items)))
                else:
                    enums.append("enum %s(%s)" % (name, ", ".join('%s="%s"' % (k, v) for k, v in items)))
    if enums:
        out.append("{ENUMS}")
        out.extend(L.order(enums))
        out.append("")
    sections = {"{SEND}": [], "{RECEIVE}": [], "{SENDRECEIVE}": []}
    for f in net["frames"]:
        sections[L.rng.choice(list(sections)) if L.level else "{SENDRECEIVE}"].append(f)
    for sec in ["{SEND}", "{RECEIVE}", "{SENDRECEIVE}"]:
      if not sections[sec]:
        continue
      out.append(sec)
      out.append("")
      for f in sections[sec]:
          muxer = next((s for s in f["signals"] if s["mux"] == "M"), None)
          statics = [s for s in f["signals"] if s["mux"] is None]
          groups = sorted({s["mux"] for s in f["signals"] if isinstance(s["mux"], int)})

          def header(first):
              h = ["[%s]" % f["name"]]
              if first:
                  idl = "ID=%Xh" % f["id"]
                  if f["comment"]:
                      idl += "\t// " + f["comment"]
                  h.append(idl)
                  if f["ext"]:
                      h.append("Type=Extended")
                  elif L.level and L.rng.random() < 0.5:
                      h.append("Type=Standard")
              h.append("DLC=%d" % f["size"])
              if first and f.get("cycle"):
                  h.append("CycleTime=%d" % f["cycle"])
              return h
          if muxer is None:
              out.extend(header(True))
              for s in f["signals"]:
                  out.append(var_line(L, s, enum_of.get(s["name"])))
              out.append("")
          else:
              for gi, g in enumerate(groups):
                  out.extend(header(gi == 0))
                  val = ("%Xh" % g) if (L.level and L.rng.random() < 0.5) else str(g)
                  if gi == 0:
                      # variables in front of the Mux line are valid for every multiplexer value
                      for s in statics:
                          out.append(var_line(L, s, enum_of.get(s["name"])))
                  mux_line = "Mux=%s %d,%d %s%s" % (muxer["values_names"][str(g)], sym_start(muxer), muxer["size"], val, "" if muxer["little"] else " -m")
                  if muxer.get("group_comments", {}).get(str(g)):
                      # a Mux= line carries a comment like a Var= line (tests/files/sym/test.sym: "Mux=LFM_Limits 0,16 3  -m<TAB>// Line Frequency Monitor limits.")
                      mux_line += "\t// " + muxer["group_comments"][str(g)]
                  out.append(mux_line)
                  for s in f["signals"]:
                      if s["mux"] == g:
                          out.append(var_line(L, s, enum_of.get(s["name"])))
                  out.append("")
    return L.eol().join(out) + L.eol()
