import CanVerif.Model.Fields
import CanVerif.Props.C06
/-!
# C07 — round trips preserve value interpretation where the format carries it (field kernels)

Type words: what each format stores for signedness / float type comes back as the same
(signed, float) pair - for integer signals the sign, for float signals the float flag (a float's
sign flag carries no meaning and DBF/KCD/SYM do not store it).
Number renderings (factor/offset as exact decimals) are in `Props/Num.lean`.
-/
namespace CanVerif.C07
open CanVerif

/-- what has to survive: the float flag, and for integers the sign -/
def typeKept (signed isFloat : Bool) (r : Bool × Bool) : Prop := r.2 = isFloat ∧ (isFloat = false → r.1 = signed)

theorem dbf_type_roundtrip (signed isFloat : Bool) (size : Nat) :
    typeKept signed isFloat (dbfParseType (dbfTypeWord signed isFloat size)) := by
  unfold typeKept dbfParseType dbfTypeWord
  cases signed <;> cases isFloat <;> by_cases h : size > 32 <;> simp [h] <;> decide

theorem kcd_type_roundtrip (signed isFloat : Bool) (size : Nat) :
    typeKept signed isFloat (kcdParseType (kcdTypeWord signed isFloat size)) := by
  unfold typeKept kcdParseType kcdTypeWord
  cases signed <;> cases isFloat <;> by_cases h : size > 32 <;> simp [h] <;> decide

theorem sym_type_roundtrip (signed isFloat : Bool) :
    typeKept signed isFloat (symParseType (symTypeWord signed isFloat)) := by
  unfold typeKept symParseType symTypeWord
  cases signed <;> cases isFloat <;> simp <;> decide

/-- pre-fix witness: a float signal whose sign flag is set lost its float type in SYM -/
theorem sym_prefix_witness : (symParseType (symTypeWordPreFix true true)).2 ≠ true := by decide

/-- DBC: the sign character and the value-type code determine the pair -/
theorem dbc_type_roundtrip (signed isFloat : Bool) (size : Nat) :
    (dbcSignChar signed == '-') = signed ∧ ((dbcValType isFloat size).isSome = isFloat) := by
  unfold dbcSignChar dbcValType
  cases signed <;> cases isFloat <;> simp <;> decide

/-- SYM keeps a unit up to 16 characters unchanged -/
theorem sym_unit_kept (u : String) (h : u.toList.length ≤ 16) : symUnit u = u := by
  unfold symUnit
  rw [List.take_of_length_le h]
  simp

end CanVerif.C07
