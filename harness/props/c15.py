"""C15 - readers recover exactly what a well-formed file describes, whoever wrote it."""
import contextlib
import importlib
import io
import json
import random
import re

import canmatrix.formats
import canmatrix.formats.dbc
from lib.c15 import net as N
from props import c05

PID = "C15"
EXTRA_PROPS = ("Num", "C05", "C05b", "C05c")
FORMATS = ["dbc", "dbc", "sym", "kcd", "json", "dbf", "arxml"]
RULE = ("case 'read' = (format out of dbc, sym, kcd, json, dbf, arxml; an abstract network description inside the format's envelope: frames "
        "with identifier/format/length/senders/comment/cycle time, signals given by the payload bits they occupy, byte order, type, "
        "factor/offset/limits as decimals, unit, receivers, multiplexer role and selector value, value table, comment, attribute "
        "definitions/defaults/values on four levels for dbc and dbf; a lexical seed; level 0 = canonical rendering, 1 = the freedom the "
        "format allows; one described frame): the file is rendered by the independent writers in harness/lib/c15 (not by canmatrix), "
        "read with canmatrix.formats.loads, and the normal form of the frame that was read is compared with the described one on every "
        "feature the format carries; comments run over one to five lines where the format allows it (dbc, json, kcd, arxml), and a DBC file with CR LF "
        "line ends has them inside such texts too; the free texts (comments of frames, signals, ECUs and SYM multiplexer groups, units, value "
        "texts) also hold the punctuation of the statement grammars - double quotes, //, =, switches, brackets, keywords, markup characters - wherever "
        "the format's definition lets a text hold it (GRAMMAR_TEXTS and the tables below it); an ARXML file of level 1 states the computation method and the data "
        "constraint of a signal at any of the places the schema offers (NETWORK-REPRESENTATION-PROPS of the I-SIGNAL, PHYSICAL-PROPS of the SYSTEM-SIGNAL as in the "
        "shipped Vector samples, both), references the unit from the COMPU-METHOD, the properties of the I-SIGNAL or both, with DATA-TYPE-POLICY LEGACY, OVERRIDE or left out, I-SIGNAL-TYPE and DYNAMIC-LENGTH present or left out; an ARXML file may describe further CAN-CLUSTERs (before and after "
        "Main) on which some of the CAN-FRAMEs are triggered as well, sent on by a gateway or another ECU and received by other ECUs (FRAME-PORTs of connectors of their own): "
        "with 'bus' the frame is looked up in the matrix of that cluster and compared with what that cluster's triggering describes, the frames of Main with what Main "
        "describes; 'ecus' with 'bus' = the ECUs connected to that cluster are present in its matrix. case 'ecus' = the described ECUs are present; with 'facts' = what the file says about each ECU "
        "(comment, also over several lines; attribute values for dbc and dbf) is among what was read; for sym, which knows no ECUs, the same case carries what "
        "the file says about each multiplexer group (the comment behind its Mux= line, the empty text where there is none). case 'defs' with 'facts' (dbc, dbf) = the attribute "
        "values on network level and the named value tables (dbc) are read as described, and no others. case 'defs' (dbc, dbf) = every described attribute definition is "
        "present on its level with its type, parameters (range, ENUM values) and default (also the empty text). cases 'sgx'/'box' = one SG_/BO_ line of such a DBC "
        "file in its varied spacing through the real reader and through the Lean tokenizers; 'num' = one number text through Decimal() "
        "and strToDec. Non-trivial = distinct case.")
PARTIAL = ["Lean theorems cover the lexical freedom of the DBC SG_/BO_ statements and the renderings of numbers; the other formats' readers "
           "(XML walks, reference resolution, section state machines) are decided by the read-back comparison only",
           "ARXML: AUTOSAR 4 subset without MULTIPLEXED-I-PDU, container and secured PDUs; KCD: one bus; SYM: format version 5.0",
           "the independent writers are part of the harness and trusted to follow the format definitions; position conventions follow the "
           "formats' writers in canmatrix (C06) where the definition leaves the numbering open"]
ASSUMPTIONS = ["ARXML with several clusters: the first cluster in the file that holds a frame which later clusters hold too is an open finding, generated for one frame in four and classified (CanCluster.update_frames/"
               "update_signals of the unchanged code add the later clusters' senders and receivers to that frame object); further clusters state reception per frame, "
               "not per signal, and by ECUs that receive nothing of the frame on Main",
               "DBC: blanks (not tabs) between tokens; SYM and DBF: single separators as their tools emit them",
               "ARXML: denominators whose quotient is a finite decimal; one port direction per frame and ECU",
               "DBF: limits are not compared (the raw/physical convention of the two number fields is tool specific); ENUM attribute values are not generated"]
TRUSTED = ["independent writers harness/lib/c15/{dbc,sym,kcd,json,dbf,arxml}.py", "lxml, json used by the readers"]
CORRESPONDENCE = "SG_/BO_ lines in varied spacing and number texts: real reader == CanVerif.Dbc.parseSg / parseBo / strToDec"
NSHARDS = {"quick": 16, "thorough": 16}

_cache = {}
NUM_TEXTS = sorted({t for _, forms in N.NUMBERS + N.OFFSETS for t in forms} | {"1E-3", "1e-03", "+0.0010", "-12.5", "1E+003", "007", "1.50", "0E0", "-0.0", "12e1"})


def module(fmt):
    return importlib.import_module("lib.c15." + fmt)


def run(net, fmt, lexseed, level, enc=None):
    key = json.dumps([net, fmt, lexseed, level, enc], sort_keys=True)
    if key in _cache:
        return _cache[key]
    R = module(fmt)
    res = {"exc": None, "db": None, "dbs": {}, "errors": 0, "text": None, "notes": {}}
    try:
        lex = R.Lex(random.Random(lexseed), level)
        text = R.render(net, lex)
        res["notes"] = getattr(lex, "notes", None) or {}       # which of several permitted places the writer chose (arxml)
        data = text.encode(enc or "iso-8859-1") if isinstance(text, str) else text
        res["text"] = data
        out = io.StringIO()
        opts = {}
        if enc and isinstance(text, str):
            # the text formats are read with the import encoding option that says how the file is encoded
            opts = {"dbcImportEncoding": enc, "dbcImportCommentEncoding": enc, "symImportEncoding": enc, "dbfImportEncoding": enc}
        with contextlib.redirect_stdout(out):
            dbs = canmatrix.formats.loads(data, fmt, **opts)
        db = (dbs["Main"] if "Main" in dbs else list(dbs.values())[0]) if isinstance(dbs, dict) else dbs
        res["db"] = db
        res["dbs"] = dict(dbs) if isinstance(dbs, dict) else {}      # every bus the file describes (arxml: one matrix per CAN-CLUSTER)
        res["errors"] = out.getvalue().count("error with line no") + len(getattr(db, "load_errors", []) or [])
    except Exception as e:  # noqa
        import traceback
        res["exc"] = type(e).__name__ + ": " + str(e)[:160] + " @ " + traceback.format_exc().strip().split("\n")[-3].strip()[:100]
    if len(_cache) > 6:
        _cache.clear()
    _cache[key] = res
    return res


def line_ends(data):
    """line ends of a text file (for the distribution in the evidence)"""
    crlf = data.count(b"\r\n")
    lf = data.count(b"\n") - crlf
    return "LF" if not crlf else "CR LF" if not lf else "mixed"


def uses_native_float(data):
    """JSON: a factor/offset written as native float (known finding: read through binary floating point)"""
    try:
        doc = json.loads(data.decode("utf-8"))
    except Exception:  # noqa
        return False
    for m in doc.get("messages", []):
        for s in m.get("signals", []):
            for k in ("factor", "offset"):
                if isinstance(s.get(k), float):
                    return True
    return False


LEVELS = ("frame", "signal", "ecu", "global")


def num_norm(x):
    return N.dec_norm(str(x))


def want_defs(net, fmt):
    """attribute definitions as described: level -> name -> [type, parameters, default]"""
    out = {}
    for lvl in LEVELS:
        out[lvl] = {}
        for name, kind, par, default in net["defs"][lvl]:
            if fmt == "dbf" and default is None:
                # a DBF definition line always carries a default: the independent writer puts 0 / the first value / the empty text
                default = "0" if kind in ("INT", "HEX", "FLOAT") else par[0] if kind == "ENUM" else ""
            params = [num_norm(p) for p in par] if kind in ("INT", "HEX", "FLOAT") else list(par)
            out[lvl][name] = [kind, params, default]
    return out


def got_defs(db):
    out = {}
    for lvl, dd in (("frame", db.frame_defines), ("signal", db.signal_defines), ("ecu", db.ecu_defines), ("global", db.global_defines)):
        out[lvl] = {}
        for name, d in dd.items():
            if name.startswith("Gen") or name in ("BusType", "ProtocolType", "VFrameFormat") or name.startswith("System"):
                continue        # carrier attributes the readers and writers add themselves
            params = [num_norm(d.min), num_norm(d.max)] if d.type in ("INT", "HEX", "FLOAT") else list(getattr(d, "values", []) or [])
            out[lvl][name] = [d.type, params, None if d.defaultValue is None else str(d.defaultValue)]
    return out


ECU_COMMENTS = ("dbc", "dbf", "json", "arxml")      # formats whose definition gives an ECU a comment
LEVEL_VALUES = ("dbc", "dbf")                        # formats with attribute values on ECU and network level
VALUE_TABLES = ("dbc",)                              # formats with named value tables on network level


def fact(ecu, what, value):
    return "%s: %s = %s" % (ecu, what, json.dumps(value, sort_keys=True, ensure_ascii=True))


def carrier(name):
    """attributes the readers add themselves"""
    return name.startswith("Gen") or name.startswith("NWM") or name.startswith("System") or name in ("BusType", "ProtocolType", "VFrameFormat", "NmNode", "NmStationAddress")


def want_ecu_facts(net, fmt):
    """what the file says about each ECU beyond its name, as a list of statements (the 'ecus' case compares lists of texts):
    the comment (the empty text where none is described), every attribute value, and the names of the attributes that have a value"""
    out = []
    for e in net["ecus"]:
        if fmt in ECU_COMMENTS:
            out.append(fact(e, "comment", net.get("ecu_comments", {}).get(e) or ""))
        if fmt in LEVEL_VALUES:
            attrs = net.get("ecu_attrs", {}).get(e, {})
            out.append(fact(e, "attributes with a value", sorted(attrs)))
            for k, v in sorted(attrs.items()):
                out.append(fact(e, "attribute " + k, v))
    return out


def got_ecu_facts(db, fmt):
    out = []
    for e in db.ecus:
        if fmt in ECU_COMMENTS:
            out.append(fact(e.name, "comment", e.comment or ""))
        if fmt in LEVEL_VALUES:
            attrs = {k: str(v) for k, v in e.attributes.items() if not carrier(k)}
            out.append(fact(e.name, "attributes with a value", sorted(attrs)))
            for k, v in sorted(attrs.items()):
                out.append(fact(e.name, "attribute " + k, v))
    return out


def want_global(net, fmt):
    """what the file says on network level, in the shape of the 'defs' case (level -> name -> content): the attribute values, the
    names of the attributes that have a value, and (dbc) the named value tables"""
    g = {"attributes with a value": sorted(net.get("gattrs", {}))}
    for k, v in net.get("gattrs", {}).items():
        g["value of " + k] = v
    if fmt in VALUE_TABLES:
        g["value tables"] = sorted(net.get("value_tables", {}))
        for k, tab in net.get("value_tables", {}).items():
            g["value table " + k] = {str(a): b for a, b in tab.items()}
    return {"frame": {}, "signal": {}, "ecu": {}, "global": g}


def got_global(db, fmt):
    attrs = {k: str(v) for k, v in db.attributes.items() if not carrier(k)}
    g = {"attributes with a value": sorted(attrs)}
    for k, v in attrs.items():
        g["value of " + k] = v
    if fmt in VALUE_TABLES:
        g["value tables"] = sorted(db.value_tables)
        for k, tab in db.value_tables.items():
            g["value table " + k] = {str(a): b for a, b in tab.items()}
    return {"frame": {}, "signal": {}, "ecu": {}, "global": g}


# Free text that holds the punctuation of the statement grammars.  A comment is free text in every format: behind '//' up to the line
# end in SYM, between (escaped) quotes in DBC, an element's text in KCD/ARXML, a JSON string - so double quotes (an even and an odd
# number of them), a second '//', '=', text that looks like a switch, a section, a keyword or markup belong to what a reader has to
# take as it stands.  (None of them ends in a backslash or in quote + semicolon: DBC has no way to write those unambiguously.)
GRAMMAR_TEXTS = ['speed "over ground"', 'brightness of the 5" display', '"quoted" from one end to the "other"', 'a "b" c" d', 'see // note',
                 '// twice // over', 'ID=12h', 'x /u:V -m /f:2', '[Frame9]', 'two  blanks inside', 'Var=a unsigned 0,1', "driver's door", 'a\\b',
                 'a < b & c > d', ']]> end', 'CM_ BO_ 5 "x" is no statement here', 'semicolon at end;', '100 %s %d', '{SEND}', '#hash', 'a,b',
                 'BO_ 12 X: 8 Y', '[END_DESC_SIG]', '5 S x "y"', 'Mux=m 0,1 1', 'enum e(0="a")', "&quot;", "<!-- -->"]
# units and value texts stand inside the statements themselves: what they may hold depends on how the format delimits them
GRAMMAR_UNITS = {"all": ["km / h", "m/s^2", "[V]", "x=1", "#/min", "100 %s", "a;b"],
                 "dbc": ["a,b", "a < b & c", "(1/min)"], "json": ["a,b", "a < b & c", 'in "Hg"', "a\\b"], "kcd": ["a,b", "a < b & c", 'in "Hg"', "a\\b"],
                 "arxml": ["a,b", "a < b & c", 'in "Hg"', "a\\b"], "sym": ["a,b", "a < b & c", "/f:2", "-m"], "dbf": []}
# (SYM: an enum text with '=' or '//' in it used to be cut by the reader: repaired, known_findings.json C15-sym-enum-text-with-equals and
# C15-sym-double-slash-in-quotes); DBF and SYM have no way to write a quote inside a quoted text
GRAMMAR_VALUES = {"all": ["a,b", "driver's door", "x /u:V -m", "[Frame9]", "a;b", "{SEND}", "#hash", "two  blanks"],
                  "dbc": ["x=1", "see // note", 'said "no"'], "json": ["x=1", "see // note", 'said "no"', "a < b & c"],
                  "kcd": ["x=1", "see // note", 'said "no"', "a < b & c"], "arxml": ["x=1", "see // note", 'said "no"', "a < b & c"],
                  "sym": ["x=1", "see // note"], "dbf": ["x=1", "see // note"]}


def first_line(text, new):
    """`text` with its first line replaced"""
    rest = text.split("\n", 1)
    return new + ("\n" + rest[1] if len(rest) > 1 else "")


def spice(rng, net, fmt):
    """let the free texts of a description hold the punctuation of the statement grammars: existing comments get another first
    line, places without a comment get one now and then, units and value texts are replaced now and then; SYM multiplexer groups
    get the comment their Mux= line may carry (the reader hands the first group's comment on as the multiplexer's comment)"""
    def text():
        return rng.choice(GRAMMAR_TEXTS)

    def comment(old, p_new):
        if old:
            return first_line(old, text()) if rng.random() < 0.6 else old
        return text() if rng.random() < p_new else old
    units = GRAMMAR_UNITS["all"] + GRAMMAR_UNITS[fmt]
    values = GRAMMAR_VALUES["all"] + GRAMMAR_VALUES[fmt]
    for f in net["frames"]:
        f["comment"] = comment(f["comment"], 0.3)
        for s in f["signals"]:
            nameless = s["mux"] == "M" and fmt in ("sym", "arxml")       # the multiplexer has no statement of its own there
            if not nameless:
                s["comment"] = comment(s["comment"], 0.2)
            if s["mux"] != "M" and rng.random() < 0.25:
                s["unit"] = rng.choice(units)
            if s["values"] and s["mux"] != "M":
                for k in sorted(s["values"]):
                    if rng.random() < 0.3:
                        s["values"][k] = rng.choice(values) + " " + k      # the texts of one table stay distinct
            if fmt == "sym" and s["mux"] == "M" and s.get("values_names"):
                groups = sorted(s["values_names"], key=int)
                s["group_comments"] = {g: (text() if rng.random() < 0.5 else rng.choice(N.TEXTS)) for g in groups if rng.random() < 0.6}
                s["comment"] = s["group_comments"].get(groups[0], "")
    if fmt in ECU_COMMENTS:
        for e in net["ecus"]:
            new = comment(net["ecu_comments"].get(e, ""), 0.15)
            if new:
                net["ecu_comments"][e] = new
    return net


def want_group_facts(net):
    """SYM: what the file says about each multiplexer group (in the shape of the 'ecus' case with facts: a list of statements)"""
    out = []
    for f in net["frames"]:
        for s in f["signals"]:
            if s["mux"] == "M" and s.get("values_names"):
                for g in sorted(s["values_names"], key=int):
                    out.append(fact("%s multiplexer group %s" % (f["name"], g), "comment", s.get("group_comments", {}).get(g, "")))
    return out


def got_group_facts(db):
    out = []
    for fr in db.frames:
        for s in fr.signals:
            if s.is_multiplexer:
                for g, text in sorted(getattr(s, "comments", {}).items()):
                    out.append(fact("%s multiplexer group %s" % (fr.name, g), "comment", text or ""))
    return out


CLUSTER_NAMES = ["Body", "Chassis", "Aux"]       # names before and after "Main" in every order a reader might sort them by


def route(rng, net):
    """an AUTOSAR system with further CAN-CLUSTERs: some of the described CAN-FRAMEs are triggered on another cluster as well (a gateway
    sends them on), with the senders and receivers of that cluster's CAN-FRAME-TRIGGERING / I-SIGNAL-TRIGGERINGs.  Returns the description
    with net["clusters"] = [{"name", "before_main", "ecus", "frames": {frame name: {"tx": [...], "receivers": {signal name: [...]}}}}]"""
    import copy
    net = copy.deepcopy(net)
    ecus = net["ecus"]
    net["clusters"] = []
    for cn in rng.sample(CLUSTER_NAMES, rng.choice([1, 1, 2])):
        frames = {}
        for f in rng.sample(net["frames"], rng.randint(1, len(net["frames"]))):
            rx_main = sorted({r for s in f["signals"] for r in s["receivers"]})
            others = [e for e in ecus if e not in f["tx"]]
            kind = rng.random()
            if kind < 0.5 and rx_main:
                tx = [rng.choice(rx_main)]                  # the gateway: receives the frame on Main, sends it here
            elif kind < 0.85 and others:
                tx = rng.sample(others, rng.choice([1, 1, 2]) if len(others) > 1 else 1)
            else:
                tx = []                                     # no sender stated on this cluster
            # reception on this cluster is stated per frame (FRAME-PORT IN); the PDU-TRIGGERING of the further cluster has no I-SIGNAL-TRIGGERINGs
            # of its own (they are optional), so no signal has a receiver there.  Kept out of the stream for now, because the unchanged reader
            # gets them wrong (see DESIGN 10.3 / final report of this strengthening): I-SIGNAL-TRIGGERINGs with ports on two clusters (the receivers
            # of a signal are taken from whichever triggering comes last in the file, for every cluster), and an ECU that receives the frame on
            # this cluster and a signal of it on Main (it is read as receiver of the signal here too)
            free = [e for e in ecus if e not in tx and e not in rx_main]
            rx = sorted(rng.sample(free, min(len(free), rng.choice([0, 1, 1, 2]))))
            frames[f["name"]] = {"tx": tx, "rx": rx, "receivers": {}, "signal_triggerings": False}
        attached = sorted({e for r in frames.values() for e in r["tx"] + r["rx"]})
        silent = [e for e in ecus if e not in attached]
        if silent and rng.random() < 0.3:
            attached.append(rng.choice(silent))              # connected to the cluster without sending or receiving
        net["clusters"].append({"name": cn, "before_main": rng.random() < 0.5, "ecus": attached, "frames": frames})
    # the order in which the clusters stand in the file (the writer puts a "before_main" cluster in front of what is there)
    order = ["Main"]
    for c in net["clusters"]:
        order = [c["name"]] + order if c["before_main"] else order + [c["name"]]
    net["cluster_order"] = order
    return net


def routed_frame(f, r):
    """the frame as the triggerings of a further cluster describe it"""
    return dict(f, tx=list(r["tx"]), signals=[dict(s, receivers=list(r["receivers"].get(s["name"], []))) for s in f["signals"]])


def gen(rng, tier, shard, nshards):
    total = {"quick": 1600, "thorough": 16000}[tier] // nshards + 1
    for _ in range(total):
        fmt = rng.choice(FORMATS)
        R = module(fmt)
        net = N.gen_net(rng, getattr(R, "NET_OPTS", {}))
        if rng.random() < 0.5:
            net = spice(rng, net, fmt)
        level = 0 if rng.random() < 0.2 else 1
        lexseed = rng.randrange(1 << 30)
        base = {"fmt": fmt, "net": net, "lexseed": lexseed, "level": level}
        if fmt in ("dbc", "sym", "dbf"):
            base["enc"] = rng.choice(["iso-8859-1", "utf-8"])
        for f in net["frames"]:
            yield {"op": "read", "c": dict(base, fid=f["id"], ext=f["ext"], desc=N.expected_frame(f))}
        if fmt != "sym":          # SYM knows no ECUs
            yield {"op": "ecus", "c": dict(base, ecus=list(net["ecus"]))}
        if fmt in ECU_COMMENTS:
            # what the file says about the ECUs themselves: comments (also over several lines), attribute values
            yield {"op": "ecus", "c": dict(base, facts=True, ecus=want_ecu_facts(net, fmt))}
        if fmt == "sym" and want_group_facts(net):
            # SYM knows no ECUs; what its file says about each multiplexer group (the comment behind the Mux= line) goes the same way
            yield {"op": "ecus", "c": dict(base, facts=True, ecus=want_group_facts(net))}
        if any(net.get("defs", {}).get(lvl) for lvl in LEVELS):
            yield {"op": "defs", "c": dict(base, want=want_defs(net, fmt))}
        if fmt in LEVEL_VALUES:
            # network level: attribute values, value tables
            yield {"op": "defs", "c": dict(base, facts=True, want=want_global(net, fmt))}
        if fmt == "arxml" and rng.random() < 0.6:
            # the same system with further CAN-CLUSTERs on which some of the frames are triggered too: every cluster's matrix holds the
            # frame with the senders and receivers of that cluster's triggering, and the frames of Main stay what they were
            net2 = route(rng, net)
            base2 = dict(base, net=net2)
            by_name = {c["name"]: c for c in net2["clusters"]}
            for f in net2["frames"]:
                holders = [b for b in net2["cluster_order"] if b == "Main" or f["name"] in by_name[b]["frames"]]
                # the first cluster in the file that holds a frame which other clusters hold too is an open finding (known_findings.json
                # C15-arxml-frame-on-several-clusters: CanCluster.update_frames/update_signals add the senders and receivers of the later
                # clusters to that frame object): it is generated for one frame in four, marked `first_holder`, and classified
                for n, bus in enumerate(holders):
                    if n == 0 and len(holders) > 1 and rng.random() >= 0.25:
                        continue
                    d = f if bus == "Main" else routed_frame(f, by_name[bus]["frames"][f["name"]])
                    cc = dict(base2, bus=bus, nclusters=len(holders), fid=f["id"], ext=f["ext"], desc=N.expected_frame(d))
                    if n == 0 and len(holders) > 1:
                        cc["first_holder"] = True
                    yield {"op": "read", "c": cc}
            for c in net2["clusters"]:
                yield {"op": "ecus", "c": dict(base2, bus=c["name"], ecus=list(c["ecus"]))}
        if fmt == "dbc":
            r = run(net, fmt, lexseed, level, base.get("enc"))
            if r["text"] is not None:
                lines = [l.rstrip("\r") for l in r["text"].decode("iso-8859-1").split("\n")]
                sg = [l for l in lines if l.lstrip().startswith("SG_ ")]
                bo = [l for l in lines if l.startswith("BO_ ")]
                for l in rng.sample(sg, min(len(sg), 4)):
                    yield {"op": "sgx", "c": {"line": l}}
                for l in rng.sample(bo, min(len(bo), 2)):
                    yield {"op": "box", "c": {"line": l}}
        if rng.random() < 0.3:
            yield {"op": "num", "c": {"text": rng.choice(NUM_TEXTS)}}


def observe(case):
    c = case["c"]
    op = case["op"]
    if op == "num":
        import decimal
        try:
            t = decimal.Decimal(c["text"]).as_tuple()
            return {"value": [bool(t.sign), "".join(map(str, t.digits)).lstrip("0") or "0", int(t.exponent)]}
        except decimal.InvalidOperation:
            return {"value": None}
    if op == "sgx":
        rb = c05.real_blocks(["BO_ 1 F: 64 X", c["line"]], "iso-8859-1")
        return {"parsed": rb[0]["sigs"][0] if rb and rb[0]["sigs"] else None}
    if op == "box":
        rb = c05.real_blocks([c["line"], ' SG_ x : 0|1@1+ (1,0) [0|1] "" X'], "iso-8859-1")
        return {"parsed": rb[0]["bo"] if rb else None}
    r = run(c["net"], c["fmt"], c["lexseed"], c["level"], c.get("enc"))
    if r["exc"]:
        return {"exc": r["exc"], "got": None, "errors": 0, "ecus": []}
    db = r["db"]
    if c.get("bus"):
        # one matrix per bus the file describes (arxml: per CAN-CLUSTER)
        db = r["dbs"].get(c["bus"])
        if db is None:
            return {"exc": None, "errors": r["errors"], "got": None, "ecus": [], "places": []}
    if op == "ecus" and c.get("facts"):
        return {"exc": None, "ecus": got_group_facts(db) if c["fmt"] == "sym" else got_ecu_facts(db, c["fmt"])}
    if op == "ecus":
        return {"exc": None, "ecus": sorted(e.name for e in db.ecus)}
    if op == "defs" and c.get("facts"):
        return {"exc": None, "got": got_global(db, c["fmt"])}
    if op == "defs":
        return {"exc": None, "got": got_defs(db)}
    fr = next((x for x in db.frames if x.arbitration_id.id == c["fid"] and bool(x.arbitration_id.extended) == c["ext"]), None)
    return {"exc": None, "errors": r["errors"], "got": N.got_frame(fr) if fr is not None else None,
            "native": c["fmt"] == "json" and uses_native_float(r["text"]), "eol": line_ends(r["text"]) if c["fmt"] in ("dbc", "sym", "dbf") else None,
            "places": sorted({n for s in c["desc"]["signals"] for n in r["notes"].get(s["name"], [])})}


def project(impl):
    if "parsed" in impl:
        return {"parsed": impl["parsed"]}
    if "value" in impl:
        return {"value": impl["value"]}
    return {}


def lines_class(text):
    n = text.count("\n") + 1
    return "1 line" if n == 1 else "2 lines" if n == 2 else "3+ lines"


def punct_class(text):
    """which punctuation of the statement grammars a free text holds (for the distribution in the evidence)"""
    q = text.count('"')
    out = []
    if q:
        out.append("quotes:even" if q % 2 == 0 else "quotes:odd")
    if "//" in text:
        out.append("//")
    if any(x in text for x in ("=", "[", "{", "/u:", "-m", "BO_", "Var", "Mux", "enum")):
        out.append("statement-like")
    if any(x in text for x in ("<", "&", "]]>")):
        out.append("markup")
    if "\\" in text:
        out.append("backslash")
    return out


def features(case, impl):
    c = case["c"]
    yield "op=" + case["op"]
    if case["op"] in ("read", "ecus", "defs"):
        yield "fmt=%s/level%d" % (c["fmt"], c["level"])
        if c.get("enc"):
            yield "encoding=%s/%s" % (c["fmt"], c["enc"])
    if case["op"] in ("ecus", "defs") and c.get("facts"):
        yield "facts:" + ("ecu" if case["op"] == "ecus" else "network")
        texts = [t for t in c["net"].get("ecu_comments", {}).values()] if (case["op"] == "ecus" and c["fmt"] in ECU_COMMENTS) else []
        for t in texts:
            yield "ecu comment:%s" % lines_class(t)
            for k in punct_class(t):
                yield "%s:ecu comment with %s" % (c["fmt"], k)
        if case["op"] == "ecus" and c["fmt"] == "sym":
            for f in c["net"]["frames"]:
                for sg in f["signals"]:
                    for t in sg.get("group_comments", {}).values():
                        yield "sym:multiplexer group comment"
                        for k in punct_class(t):
                            yield "sym:multiplexer group comment with %s" % k
        if case["op"] == "defs":
            if c["want"]["global"].get("value tables"):
                yield "network:value table"
            if c["want"]["global"]["attributes with a value"]:
                yield "network:attribute value"
        return
    if case["op"] == "defs":
        for lvl in LEVELS:
            for name, (kind, _, default) in c["want"][lvl].items():
                yield "define:%s%s" % (kind, "" if default is None else ("+empty-default" if default == "" else "+default"))
    if case["op"] == "read":
        d = c["desc"]
        if impl.get("eol"):
            yield "%s:line ends:%s" % (c["fmt"], impl["eol"])
            if any("\n" in t for t in [d["comment"]] + [s["comment"] for s in d["signals"]]):
                yield "%s:line ends:%s with a text over several lines" % (c["fmt"], impl["eol"])
        if d["comment"]:
            yield "%s:frame comment:%s" % (c["fmt"], lines_class(d["comment"]))
            for k in punct_class(d["comment"]):
                yield "%s:frame comment with %s" % (c["fmt"], k)
        for s in d["signals"]:
            if s["comment"]:
                yield "%s:signal comment:%s" % (c["fmt"], lines_class(s["comment"]))
                for k in punct_class(s["comment"]):
                    yield "%s:signal comment with %s" % (c["fmt"], k)
            for k in punct_class(s["unit"]) + ([] if " " not in s["unit"] else ["blank"]):
                yield "%s:unit with %s" % (c["fmt"], k)
            for k in sorted({k for v in s["values"].values() for k in punct_class(v)}):
                yield "%s:value text with %s" % (c["fmt"], k)
            yield "%s:%s%s" % (c["fmt"], "intel" if s["little"] else "motorola", "/float" if s["float"] else "")
            if s["mux"] is not None:
                yield c["fmt"] + ":mux"
            if s["values"]:
                yield c["fmt"] + ":values"
        for n in impl.get("places") or []:
            yield "%s:%s" % (c["fmt"], n)
        if c.get("bus"):
            order = c["net"]["cluster_order"]
            yield "%s:%d clusters in the file" % (c["fmt"], len(order))
            yield "%s:frame triggered on %d clusters, read from %s" % (c["fmt"], c["nclusters"], "Main" if c["bus"] == "Main" else "a further cluster")
            if c["bus"] != "Main":
                r = next(x for x in c["net"]["clusters"] if x["name"] == c["bus"])["frames"][d["name"]]
                main = next(f for f in c["net"]["frames"] if f["name"] == d["name"])
                yield "%s:further cluster:%s" % (c["fmt"], "no sender" if not r["tx"] else "sent by a receiver on Main (gateway)" if any(
                    e in {x for s in main["signals"] for x in s["receivers"]} for e in r["tx"]) else "sent by another ECU")
                yield "%s:further cluster:%d receiving ECUs" % (c["fmt"], len(r["rx"]))
        if impl.get("exc"):
            yield "exception:" + c["fmt"]


def nontrivial(case, impl):
    return True


def classify(case, impl, spec):
    if case["op"] == "read" and case["c"]["fmt"] == "json" and impl.get("native") and re.search(r"(factor|offset) differs", spec or ""):
        return "C15-json-native-float"
    if case["op"] == "read" and case["c"]["fmt"] == "arxml" and case["c"].get("first_holder") and re.search(r"(senders|receivers) differ", spec or ""):
        return "C15-arxml-frame-on-several-clusters"
    return None


def recipe(case):
    c = case["c"]
    if case["op"] in ("read", "ecus", "defs"):
        return ("python: from lib.c15 import %s as R; text = R.render(case['c']['net'], R.Lex(random.Random(case['c']['lexseed']), case['c']['level'])); "
                "canmatrix.formats.loads(text, '%s') and compare lib.c15.net.got_frame(frame) with case['c']['desc']" % (c["fmt"], c["fmt"]))
    return "see props/c15.py observe()"
