import CanVerif.Model.Layout
import CanVerif.Proofs.Layout
import CanVerif.Proofs.Compress
/-! helper lemmas for C16: `Frame.compress` on Intel frames (`_compress_little`): no overlap, no gap, order, termination -/
namespace CanVerif.CompressLittle
open CanVerif

/-- Intel signals only, own names, at least one bit, inside the frame, pairwise disjoint
(`Occ s j` is `s.start ≤ j < s.start + s.size`, here read in the Intel numbering) -/
def CLit (f : Frame) : Prop :=
  (∀ s ∈ f.sigs, s.little = true ∧ 1 ≤ s.size ∧ s.start + s.size ≤ 8 * f.size) ∧ (f.sigs.map (·.name)).Nodup ∧
  (∀ a ∈ f.sigs, ∀ b ∈ f.sigs, a.name ≠ b.name → ∀ j, ¬ (Occ a j ∧ Occ b j))

/-! ## the order in which `_compress_little` visits the usage map -/

/-- index in the usage map of the Intel position `p` -/
def idx (p : Nat) : Nat := p / 8 * 8 + (7 - p % 8)

theorem order_eq (m : Nat) :
    ((List.range m).flatMap fun byte => (List.range 8).map fun k => byte * 8 + (7 - k))
      = (List.range (8 * m)).map idx := by
  induction m with
  | zero => rfl
  | succ m ih =>
    have e0 : List.range (m + 1) = List.range m ++ [m] := List.range_succ
    rw [e0, List.flatMap_append, ih]
    have e : 8 * (m + 1) = 8 * m + 8 := by omega
    rw [e, List.range_add, List.map_append, List.map_map]
    congr 1
    simp only [List.flatMap_cons, List.flatMap_nil, List.append_nil]
    apply List.map_congr_left
    intro k hk
    have hk8 : k < 8 := List.mem_range.1 hk
    simp only [Function.comp, idx]
    omega

/-! ## the scan of `compressLittleStep`, in position space -/

def lstep (acc : ScanAcc) (c : List String) : ScanAcc :=
  match acc.2 with
  | some _ => acc
  | none =>
    match c with
    | [] => (match acc.1 with | none => (some 1, none) | some g => (some (g + 1), none))
    | nm :: _ => (match acc.1 with | some g => (acc.1, some (nm, g)) | none => acc)

/-- scan of the positions `0 … n-1`; `cell p` is the content of the usage map at position `p` -/
def lscan (cell : Nat → List String) (n : Nat) : ScanAcc :=
  (List.range n).foldl (fun acc p => lstep acc (cell p)) (none, none)

theorem lscan_succ (cell : Nat → List String) (n : Nat) :
    lscan cell (n + 1) = lstep (lscan cell n) (cell n) := by
  unfold lscan
  rw [List.range_succ, List.foldl_append]
  rfl

theorem compressLittleStep_eq (f : Frame) :
    compressLittleStep f = match (lscan (fun p => f.layout.getD (idx p) []) (8 * f.size)).2 with
      | some (nm, g) => some { f with sigs := setStartOf f.sigs nm (fun st => st - g) }
      | none => none := by
  have hl : 8 * (f.layout.length / 8) = 8 * f.size := by rw [layout_length']; omega
  unfold compressLittleStep lscan
  simp only []
  rw [order_eq, hl, List.foldl_map]
  rfl

/-- loop invariant of the scan after the positions `0 … k-1` -/
def LInv (cell : Nat → List String) (k : Nat) : ScanAcc → Prop
  | (_, some (nm, g)) => ∃ q, 1 ≤ g ∧ g ≤ q ∧ q < k ∧ (∀ i, q - g ≤ i → i < q → cell i = []) ∧
      (∀ i, i < q - g → cell i ≠ []) ∧ ∃ rest, cell q = nm :: rest
  | (none, none) => ∀ i, i < k → cell i ≠ []
  | (some g, none) => 1 ≤ g ∧ g ≤ k ∧ (∀ i, k - g ≤ i → i < k → cell i = []) ∧ (∀ i, i < k - g → cell i ≠ [])

theorem lstep_inv (cell : Nat → List String) (k : Nat) (acc : ScanAcc) (h : LInv cell k acc) :
    LInv cell (k + 1) (lstep acc (cell k)) := by
  rcases acc with ⟨a1, a2⟩
  cases a2 with
  | some q =>
    rcases q with ⟨nm, g⟩
    have e : lstep (a1, some (nm, g)) (cell k) = (a1, some (nm, g)) := rfl
    rw [e]
    obtain ⟨q, h1, h2, h3, h4, h5, h6⟩ := h
    exact ⟨q, h1, h2, by omega, h4, h5, h6⟩
  | none =>
    cases a1 with
    | none =>
      have h : ∀ i, i < k → cell i ≠ [] := h
      cases hc : cell k with
      | nil =>
        have e : lstep (none, none) [] = (some 1, none) := rfl
        rw [e]
        refine ⟨Nat.le_refl _, by omega, ?_, ?_⟩
        · intro i h1 h2
          have : i = k := by omega
          rw [this, hc]
        · intro i hi; exact h i (by omega)
      | cons x xs =>
        have e : lstep (none, none) (x :: xs) = (none, none) := rfl
        rw [e]
        intro i hi
        by_cases hik : i < k
        · exact h i hik
        · have : i = k := by omega
          rw [this, hc]; simp
    | some g =>
      obtain ⟨h1, h2, h3, h4⟩ := h
      cases hc : cell k with
      | nil =>
        have e : lstep (some g, none) [] = (some (g + 1), none) := rfl
        rw [e]
        refine ⟨by omega, by omega, ?_, ?_⟩
        · intro i h5 h6
          by_cases hik : i < k
          · exact h3 i (by omega) hik
          · have : i = k := by omega
            rw [this, hc]
        · intro i hi; exact h4 i (by omega)
      | cons x xs =>
        have e : lstep (some g, none) (x :: xs) = (some g, some (x, g)) := rfl
        rw [e]
        exact ⟨k, h1, h2, by omega, h3, h4, xs, hc⟩

theorem lscan_inv (cell : Nat → List String) (n : Nat) : LInv cell n (lscan cell n) := by
  induction n with
  | zero =>
    have e : lscan cell 0 = (none, none) := rfl
    rw [e]
    intro i hi; omega
  | succ n ih =>
    rw [lscan_succ]
    exact lstep_inv cell n _ ih

/-- the scan found something: `q` is the first used position after an unused one, the `g` positions below it are
exactly the unused ones so far, `nm` is the first name at `q` -/
theorem lscan_some (cell : Nat → List String) (n : Nat) (nm : String) (g : Nat) (h : (lscan cell n).2 = some (nm, g)) :
    ∃ q, 1 ≤ g ∧ g ≤ q ∧ q < n ∧ (∀ i, q - g ≤ i → i < q → cell i = []) ∧
      (∀ i, i < q - g → cell i ≠ []) ∧ ∃ rest, cell q = nm :: rest := by
  have hi := lscan_inv cell n
  rcases hr : lscan cell n with ⟨a1, a2⟩
  rw [hr] at hi h
  simp only at h
  subst h
  exact hi

/-- the scan found nothing: no used position after an unused one -/
theorem lscan_none (cell : Nat → List String) (n : Nat) (h : (lscan cell n).2 = none) (i p : Nat) (hip : i < p) (hp : p < n)
    (hi : cell i = []) : cell p = [] := by
  have hv := lscan_inv cell n
  rcases hr : lscan cell n with ⟨a1, a2⟩
  rw [hr] at hv h
  simp only at h
  subst h
  cases a1 with
  | none => exact absurd hi (hv i (by omega))
  | some g =>
    obtain ⟨h1, h2, h3, h4⟩ := hv
    have hgi : n - g ≤ i := by
      apply Classical.byContradiction; intro hlt
      exact h4 i (by omega) hi
    exact h3 p (by omega) hp

/-! ## the usage map of an Intel frame -/

theorem idx_lt (p n : Nat) (hp : p < 8 * n) : idx p < 8 * n := by
  unfold idx; omega

theorem layout_mem_little (f : Frame) (hlit : ∀ s ∈ f.sigs, s.little = true) (p : Nat) (hp : p < 8 * f.size) (x : String) :
    x ∈ f.layout.getD (idx p) [] ↔ ∃ s ∈ f.sigs, s.name = x ∧ Occ s p := by
  rw [layout_mem f (idx p) (idx_lt p f.size hp)]
  have e1 : idx p / 8 = p / 8 := by unfold idx; omega
  have e2 : idx p % 8 = 7 - p % 8 := by unfold idx; omega
  rw [e1, e2]
  constructor
  · rintro (⟨s, hs, _, hn, h1, h2⟩ | ⟨s, hs, hl, _⟩)
    · exact ⟨s, hs, hn, by omega, by omega⟩
    · rw [hlit s hs] at hl; cases hl
  · rintro ⟨s, hs, hn, h1, h2⟩
    exact Or.inl ⟨s, hs, hlit s hs, hn, by omega, by omega⟩

theorem layout_nil_little (f : Frame) (hlit : ∀ s ∈ f.sigs, s.little = true) (p : Nat) (hp : p < 8 * f.size) :
    f.layout.getD (idx p) [] = [] ↔ ∀ s ∈ f.sigs, ¬ Occ s p := by
  rw [List.eq_nil_iff_forall_not_mem]
  constructor
  · intro h s hs ho
    exact h s.name ((layout_mem_little f hlit p hp _).2 ⟨s, hs, rfl, ho⟩)
  · intro h x hx
    obtain ⟨s, hs, _, ho⟩ := (layout_mem_little f hlit p hp x).1 hx
    exact h s hs ho

/-! ## `setStartOf` with a function of the old start -/

theorem setStartOf_eq_map' (sigs : List Sig) (hnd : (sigs.map (·.name)).Nodup) (s : Sig) (hs : s ∈ sigs) (gf : Nat → Nat) :
    setStartOf sigs s.name gf = sigs.map (mv s.name (gf s.start)) := by
  induction sigs with
  | nil => simp at hs
  | cons a l ih =>
    simp only [List.map_cons, List.nodup_cons] at hnd
    unfold setStartOf
    by_cases h : a.name = s.name
    · have hb : (a.name == s.name) = true := by simpa using h
      have has : s = a := by
        rcases List.mem_cons.1 hs with e | hs'
        · exact e
        · exact absurd (List.mem_map.2 ⟨s, hs', h.symm⟩) hnd.1
      subst has
      rw [if_pos hb, List.map_cons, map_mv_of_not_mem _ _ l hnd.1]
      unfold mv; rw [if_pos rfl]
    · have hb : ¬ (a.name == s.name) = true := by simpa using h
      have hs' : s ∈ l := by
        rcases List.mem_cons.1 hs with e | hs'
        · exact absurd (e ▸ rfl) h
        · exact hs'
      rw [if_neg hb, List.map_cons, ih hnd.2 hs']
      unfold mv; rw [if_neg h]

/-! ## one round -/

/-- what one successful round does: the signal `s` starting at the first used position after the first run of `g` unused
positions is moved down by `g`, to the first unused position -/
theorem step_facts (f f' : Frame) (hf : CLit f) (h : compressLittleStep f = some f') :
    ∃ s fs, s ∈ f.sigs ∧ fs < s.start ∧ (∀ i, i < fs → ∃ t ∈ f.sigs, Occ t i) ∧
      (∀ i, fs ≤ i → i < s.start → ∀ t ∈ f.sigs, ¬ Occ t i) ∧
      f' = { f with sigs := f.sigs.map (mv s.name fs) } := by
  obtain ⟨hin, hnd, hov⟩ := hf
  have hlit : ∀ s ∈ f.sigs, s.little = true := fun s hs => (hin s hs).1
  rw [compressLittleStep_eq] at h
  split at h
  · rename_i nm g hsc
    obtain ⟨q, hg1, hg2, hq, hp4, hp3, rest, hp5⟩ := lscan_some _ _ nm g hsc
    have hmem : nm ∈ f.layout.getD (idx q) [] := by rw [hp5]; simp
    obtain ⟨s, hs, hn, ho1, ho2⟩ := (layout_mem_little f hlit q hq nm).1 hmem
    have hfree : ∀ i, q - g ≤ i → i < q → ∀ t ∈ f.sigs, ¬ Occ t i := fun i h1 h2 =>
      (layout_nil_little f hlit i (by omega)).1 (hp4 i h1 h2)
    have hstart : s.start = q := by
      apply Classical.byContradiction; intro hne
      have hlt : s.start < q := by omega
      exact hfree (q - 1) (by omega) (by omega) s hs ⟨by omega, by omega⟩
    subst hstart
    subst hn
    refine ⟨s, s.start - g, hs, by omega, ?_, hfree, ?_⟩
    · intro i hi
      have hne := hp3 i hi
      obtain ⟨x, xs, hx⟩ := List.exists_cons_of_ne_nil hne
      have hxm : x ∈ f.layout.getD (idx i) [] := by rw [hx]; simp
      obtain ⟨t, ht, _, hto⟩ := (layout_mem_little f hlit i (by omega) x).1 hxm
      exact ⟨t, ht, hto⟩
    · simp only [Option.some.injEq] at h
      rw [← h, setStartOf_eq_map' _ hnd s hs]
  · cases h

/-- moving one signal `s` down to `fs`, over positions no signal uses, keeps everything (any byte order `L`) -/
theorem move_keeps (L : Bool) (f : Frame) (s : Sig) (fs : Nat)
    (hin : ∀ s ∈ f.sigs, s.little = L ∧ 1 ≤ s.size ∧ s.start + s.size ≤ 8 * f.size)
    (hnd : (f.sigs.map (·.name)).Nodup)
    (hov : ∀ a ∈ f.sigs, ∀ b ∈ f.sigs, a.name ≠ b.name → ∀ j, ¬ (Occ a j ∧ Occ b j))
    (hs : s ∈ f.sigs) (hlt : fs < s.start)
    (hfree : ∀ i, fs ≤ i → i < s.start → ∀ t ∈ f.sigs, ¬ Occ t i) :
    let f' : Frame := { f with sigs := f.sigs.map (mv s.name fs) }
    (∀ s ∈ f'.sigs, s.little = L ∧ 1 ≤ s.size ∧ s.start + s.size ≤ 8 * f'.size) ∧
    (∀ a ∈ f'.sigs, ∀ b ∈ f'.sigs, a.name ≠ b.name → ∀ j, ¬ (Occ a j ∧ Occ b j)) ∧
    OrdKept f f' ∧ startSum f'.sigs < startSum f.sigs := by
  intro f'
  have hsin := hin s hs
  have hocc : ∀ t ∈ f.sigs, ∀ j, Occ (mv s.name fs t) j → Occ t j ∨ (t.name = s.name ∧ fs ≤ j ∧ j < s.start) := by
    intro t ht j ho
    unfold Occ at ho
    rw [mv_start, mv_size] at ho
    by_cases hn : t.name = s.name
    · have hts := eq_of_name_eq hnd ht hs hn
      subst hts
      rw [if_pos rfl] at ho
      by_cases hj : j < t.start
      · exact Or.inr ⟨rfl, ho.1, hj⟩
      · exact Or.inl ⟨by omega, by omega⟩
    · rw [if_neg hn] at ho
      exact Or.inl ho
  refine ⟨?_, ?_, ?_, ?_⟩
  · intro x hx
    obtain ⟨t, ht, rfl⟩ := List.mem_map.1 hx
    have htin := hin t ht
    rw [mv_little, mv_size, mv_start]
    refine ⟨htin.1, htin.2.1, ?_⟩
    split
    · rename_i hn
      have hts := eq_of_name_eq hnd ht hs hn
      subst hts
      show fs + t.size ≤ 8 * f.size
      omega
    · exact htin.2.2
  · intro a' ha' b' hb' hne j ⟨hoa, hob⟩
    obtain ⟨a, ha, rfl⟩ := List.mem_map.1 ha'
    obtain ⟨b, hb, rfl⟩ := List.mem_map.1 hb'
    rw [mv_name, mv_name] at hne
    rcases hocc a ha j hoa with h1 | ⟨h1, h2, h3⟩
    · rcases hocc b hb j hob with h4 | ⟨_, h5, h6⟩
      · exact hov a ha b hb hne j ⟨h1, h4⟩
      · exact hfree j h5 h6 a ha h1
    · rcases hocc b hb j hob with h4 | ⟨h4, _, _⟩
      · exact hfree j h2 h3 b hb h4
      · exact hne (h1.trans h4.symm)
  · intro a ha b hb hab a' ha' b' hb' hna hnb
    obtain ⟨a0, ha0, rfl⟩ := List.mem_map.1 ha'
    obtain ⟨b0, hb0, rfl⟩ := List.mem_map.1 hb'
    rw [mv_name] at hna hnb
    have := eq_of_name_eq hnd ha0 ha hna
    subst this
    have := eq_of_name_eq hnd hb0 hb hnb
    subst this
    rw [mv_start, mv_start]
    by_cases h1 : a0.name = s.name <;> by_cases h2 : b0.name = s.name
    · have e1 := eq_of_name_eq hnd ha0 hs h1
      have e2 := eq_of_name_eq hnd hb0 hs h2
      subst e1; subst e2; omega
    · have e1 := eq_of_name_eq hnd ha0 hs h1
      subst e1
      rw [if_pos rfl, if_neg h2]; omega
    · have e2 := eq_of_name_eq hnd hb0 hs h2
      subst e2
      rw [if_neg h1, if_pos rfl]
      apply Classical.byContradiction; intro hc
      exact hfree a0.start (by omega) hab a0 ha0 ⟨Nat.le_refl _, by have := (hin a0 ha0).2.1; omega⟩
    · rw [if_neg h1, if_neg h2]; exact hab
  · have := startSum_map_mv f.sigs hnd s hs fs
    show startSum (f.sigs.map (mv s.name fs)) < startSum f.sigs
    omega

/-- a successful round keeps the frame compressible, keeps names and order, and lowers the sum of the start positions -/
theorem step_keeps (f f' : Frame) (hf : CLit f) (h : compressLittleStep f = some f') :
    CLit f' ∧ f'.sigs.map (·.name) = f.sigs.map (·.name) ∧ f'.size = f.size ∧ OrdKept f f' ∧
      startSum f'.sigs < startSum f.sigs := by
  obtain ⟨s, fs, hs, hlt, _, hfree, rfl⟩ := step_facts f f' hf h
  obtain ⟨hin, hnd, hov⟩ := hf
  obtain ⟨k1, k2, k3, k4⟩ := move_keeps true f s fs hin hnd hov hs hlt hfree
  refine ⟨⟨k1, ?_, k2⟩, map_name_map_mv _ _ _, rfl, k3, k4⟩
  show ((f.sigs.map (mv s.name fs)).map (·.name)).Nodup
  rw [map_name_map_mv]; exact hnd

/-- when no round is possible any more, every position below a signal is used -/
theorem none_no_gap (g : Frame) (hg : CLit g) (h : compressLittleStep g = none) :
    ∀ s ∈ g.sigs, ∀ j, j < s.start → ∃ t ∈ g.sigs, Occ t j := by
  obtain ⟨hin, hnd, hov⟩ := hg
  have hlit : ∀ s ∈ g.sigs, s.little = true := fun s hs => (hin s hs).1
  intro s hs j hj
  have hsin := hin s hs
  apply Classical.byContradiction; intro hno
  have hnil : g.layout.getD (idx j) [] = [] :=
    (layout_nil_little g hlit j (by omega)).2 (fun t ht ho => hno ⟨t, ht, ho⟩)
  have hsc : (lscan (fun p => g.layout.getD (idx p) []) (8 * g.size)).2 = none := by
    rw [compressLittleStep_eq] at h
    split at h
    · cases h
    · rename_i hx
      exact hx
  have := lscan_none _ _ hsc j s.start hj (by omega) hnil
  exact (layout_nil_little g hlit s.start (by omega)).1 this s hs ⟨Nat.le_refl _, by omega⟩

/-! ## the loop -/

theorem iter_little (fuel : Nat) (f g : Frame) (hf : CLit f) (h : iterStep compressLittleStep fuel f = .ok g) :
    CLit g ∧ compressLittleStep g = none ∧ g.sigs.map (·.name) = f.sigs.map (·.name) ∧ OrdKept f g := by
  induction fuel generalizing f with
  | zero => simp [iterStep] at h
  | succ k ih =>
    unfold iterStep at h
    split at h
    · rename_i hstep
      cases h
      exact ⟨hf, hstep, rfl, OrdKept.refl _ hf.2.1⟩
    · rename_i f' hstep
      obtain ⟨hc, hn, _, ho, _⟩ := step_keeps f f' hf hstep
      obtain ⟨h1, h2, h3, h4⟩ := ih f' hc h
      exact ⟨h1, h2, h3.trans hn, OrdKept.trans ho h4 hn⟩

theorem iter_little_terminates (fuel : Nat) (f : Frame) (hf : CLit f) (hfuel : startSum f.sigs < fuel) :
    ∃ g, iterStep compressLittleStep fuel f = .ok g := by
  induction fuel generalizing f with
  | zero => omega
  | succ k ih =>
    unfold iterStep
    cases hstep : compressLittleStep f with
    | none => exact ⟨f, rfl⟩
    | some f' =>
      obtain ⟨hc, _, _, _, hlt⟩ := step_keeps f f' hf hstep
      exact ih f' hc (by omega)

/-- a frame with at least one signal, all Intel, takes the `_compress_little` branch -/
theorem compress_little_eq (f : Frame) (hf : CLit f) (hne : f.sigs ≠ []) :
    f.compress = iterStep compressLittleStep (8 * f.size * (f.sigs.length + 1) + 1) f := by
  have h1 : f.sigs.any (·.little) = true := by
    obtain ⟨a, l, hal⟩ := List.exists_cons_of_ne_nil hne
    rw [List.any_eq_true]
    exact ⟨a, by rw [hal]; simp, (hf.1 a (by rw [hal]; simp)).1⟩
  have h2 : f.sigs.any (fun s => !s.little) = false := by
    rw [List.any_eq_false]
    intro s hs
    simp [(hf.1 s hs).1]
  unfold Frame.compress
  simp [h1, h2]

/-- without signals `compress` takes the Motorola branch; such a frame is compressible in that sense too -/
theorem cbig_of_nil (f : Frame) (hnil : f.sigs = []) : CBig f := by
  refine ⟨?_, ?_, ?_⟩
  · intro s hs; rw [hnil] at hs; simp at hs
  · rw [hnil]; simp
  · intro a ha; rw [hnil] at ha; simp at ha

theorem compress_little_spec (f g : Frame) (hf : CLit f) (h : f.compress = .ok g) :
    (∀ a ∈ g.sigs, ∀ b ∈ g.sigs, a.name ≠ b.name → ∀ j, ¬ (Occ a j ∧ Occ b j)) ∧
    (∀ s ∈ g.sigs, ∀ j, j < s.start → ∃ t ∈ g.sigs, Occ t j) ∧ OrdKept f g := by
  by_cases hnil : f.sigs = []
  · obtain ⟨hg, hnone, _, ho⟩ := compress_big_spec f g (cbig_of_nil f hnil) h
    exact ⟨hg.2.2, CanVerif.none_no_gap g hg hnone, ho⟩
  · rw [compress_little_eq f hf hnil] at h
    obtain ⟨hg, hnone, _, ho⟩ := iter_little _ f g hf h
    exact ⟨hg.2.2, none_no_gap g hg hnone, ho⟩

theorem compress_little_ok (f : Frame) (hf : CLit f) : ∃ g, f.compress = .ok g := by
  by_cases hnil : f.sigs = []
  · exact compress_big_ok f (cbig_of_nil f hnil)
  · rw [compress_little_eq f hf hnil]
    apply iter_little_terminates _ f hf
    have h := startSum_le f.sigs (8 * f.size) (fun s hs => by have := hf.1 s hs; omega)
    rw [Nat.mul_succ]
    omega

end CanVerif.CompressLittle
