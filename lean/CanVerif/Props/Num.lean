import CanVerif.Model.Num
import CanVerif.Proofs.Num
/-!
# Number renderings round-trip (shared by C05, C07, C15)

`Decimal(str(d)) == d` exactly (sign, coefficient, exponent) for every decimal; `format_float`
(DBC, SYM) keeps the value (it only strips a trailing `.0` and pads the exponent); different
renderings of one number parse to equal values.
-/
namespace CanVerif.Num
open CanVerif

/-- the digit string of a natural number parses back to it -/
theorem digitsToNat_natDigits (n : Nat) : digitsToNat (natDigits n) = some n :=
  digitsToNat_natDigits' n

/-- `natDigits` yields only digit characters, never empty -/
theorem natDigits_digits (n : Nat) : natDigits n ≠ [] ∧ ∀ c ∈ natDigits n, (digitVal c).isSome = true :=
  ⟨natDigits_ne_nil n, natDigits_allDig n⟩

/-- `Decimal(str(d)) = d`: sign, coefficient and exponent all come back, for every decimal
(plain notation, leading zeros after the point, scientific notation with positive or negative
exponent, zero and negative zero). -/
theorem strToDec_decToStr (d : Dec) : strToDec (decToStr d) = some d :=
  strToDec_decToStr' d

/-- `format_float` keeps the number: the parse result is the decimal itself, or - when the rendering
ended in `.0` - the same value with that zero removed. -/
theorem strToDec_formatFloat (d : Dec) :
    strToDec (formatFloat d) = some d ∨
    (d.exp = -1 ∧ d.coeff % 10 = 0 ∧ strToDec (formatFloat d) = some ⟨d.neg, d.coeff / 10, 0⟩) :=
  strToDec_formatFloat' d

/-- equivalent renderings of one number parse to equal values (C15): 1E-3, 0.001, 1e-03, +0.0010 -/
theorem renderings_equal :
    strToDec "1E-3".toList = some ⟨false, 1, -3⟩ ∧ strToDec "0.001".toList = some ⟨false, 1, -3⟩ ∧
    strToDec "1e-03".toList = some ⟨false, 1, -3⟩ ∧ strToDec "+0.0010".toList = some ⟨false, 10, -4⟩ ∧
    strToDec "-12.5".toList = some ⟨true, 125, -1⟩ ∧ strToDec "1E+003".toList = some ⟨false, 1, 3⟩ ∧
    strToDec "abc".toList = none ∧ strToDec "".toList = none ∧ strToDec "1.5E".toList = none := by
  decide

/-! non-vacuity -/
example : decToStr ⟨false, 123456789012, -12⟩ = "0.123456789012".toList := by decide
example : formatFloat ⟨true, 1, -7⟩ = "-1E-007".toList := by decide
example : formatFloat ⟨false, 20, -1⟩ = "2".toList := by decide

end CanVerif.Num
