import Driver.J
import CanVerif.Model.DbcText
import CanVerif.Spec.DbcRT
import CanVerif.Model.DbcStart
import CanVerif.Model.DbcStmt
import CanVerif.Model.DbcAttr
import CanVerif.Model.DbcComment
import CanVerif.Model.DbcTables
import CanVerif.Model.DbcFile
import CanVerif.Model.DbcPost
import CanVerif.Model.DbcPrep
open Lean CanVerif CanVerif.Dbc

namespace D05

def decOf (j : Json) : Except String Dec := do
  let neg ← J.bool (← J.idx j 0)
  let cs ← J.str (← J.idx j 1)
  let e ← J.int (← J.idx j 2)
  match cs.toNat? with
  | some c => pure ⟨neg, c, e⟩
  | none => throw "bad coefficient"

def decJ (d : Dec) : Json := J.ofList [Json.bool d.neg, Json.str (toString d.coeff), J.ofInt d.exp]

def tagOfJ (j : Json) : Except String Tag :=
  match j with
  | .null => pure .none
  | .str "M" => pure .muxer
  | _ => do
    let k ← J.str (← J.idx j 0)
    let n ← J.nat (← J.idx j 1)
    if k == "m" then pure (.val n) else if k == "mM" then pure (.valMuxer n) else throw "bad tag"

def tagJ : Tag → Json
  | .none => .null
  | .muxer => .str "M"
  | .val k => J.ofList [.str "m", J.ofNat k]
  | .valMuxer k => J.ofList [.str "mM", J.ofNat k]

def sgOf (j : Json) : Except String SgLine := do
  pure { name := (← J.str (← J.key j "name")).toList, tag := ← tagOfJ (← J.key j "tag"), start := ← J.nat (← J.key j "start"),
         size := ← J.nat (← J.key j "size"), little := ← J.bool (← J.key j "little"), signed := ← J.bool (← J.key j "signed"),
         factor := ← decOf (← J.key j "factor"), offset := ← decOf (← J.key j "offset"), min := ← decOf (← J.key j "min"),
         max := ← decOf (← J.key j "max"), unit := (← J.str (← J.key j "unit")).toList,
         receivers := (← J.strList (← J.key j "receivers")).map String.toList }

def sgJ (s : SgLine) : Json :=
  J.obj [("name", .str (String.ofList s.name)), ("tag", tagJ s.tag), ("start", J.ofNat s.start), ("size", J.ofNat s.size),
         ("little", .bool s.little), ("signed", .bool s.signed), ("factor", decJ s.factor), ("offset", decJ s.offset),
         ("min", decJ s.min), ("max", decJ s.max), ("unit", .str (String.ofList s.unit)),
         ("receivers", J.ofStrList (s.receivers.map String.ofList))]

def optJ {α} (f : α → Json) : Option α → Json
  | none => .null
  | some a => f a

def boOf (j : Json) : Except String BoLine := do
  pure { id := ← J.nat (← J.key j "id"), name := (← J.str (← J.key j "name")).toList, size := ← J.nat (← J.key j "size"),
         transmitter := (← J.str (← J.key j "tx")).toList }

def boJ (b : BoLine) : Json :=
  J.obj [("id", J.ofNat b.id), ("name", .str (String.ofList b.name)), ("size", J.ofNat b.size), ("tx", .str (String.ofList b.transmitter))]

def blockOf (j : Json) : Except String Block := do
  pure { bo := ← boOf (← J.key j "bo"), sigs := ← (← J.arr (← J.key j "sigs")).mapM sgOf }

def blockJ (b : Block) : Json := J.obj [("bo", boJ b.bo), ("sigs", J.ofList (b.sigs.map sgJ))]

def valOf (j : Json) : Except String ValLine := do
  let es ← (← J.arr (← J.key j "entries")).mapM fun e => do
    pure ((← J.int (← J.idx e 0)), (← J.str (← J.idx e 1)).toList)
  pure { id := ← J.nat (← J.key j "id"), name := (← J.str (← J.key j "name")).toList, entries := es }

def valJ (v : ValLine) : Json :=
  J.obj [("id", J.ofNat v.id), ("name", .str (String.ofList v.name)),
         ("entries", J.ofList (v.entries.map fun (k, t) => J.ofList [J.ofInt k, .str (String.ofList t)]))]

/-- canonical form of a decimal for comparison with `Decimal.normalize()`: no trailing zeros in the coefficient, zero is +0E0 -/
partial def normDec (d : Dec) : Dec :=
  if d.coeff == 0 then ⟨false, 0, 0⟩
  else if d.coeff % 10 == 0 then normDec ⟨d.neg, d.coeff / 10, d.exp + 1⟩ else d

def optDec (j : Json) : Except String (Option Dec) := if J.isNull j then pure none else some <$> decOf j

/-! the matrix under construction (Model/DbcFile.lean) as JSON -/
def strJ (s : Str) : Json := .str (String.ofList s)
def optStrJ : Option Str → Json
  | none => .null
  | some [] => .null          -- (an empty comment and no comment are the same observation)
  | some s => strJ s
def pairsJ (l : List (Str × Str)) : Json := J.ofList (l.map fun (k, v) => J.ofList [strJ k, strJ v])
def keyJ (k : Str) : Json := match parseInt (stripWs k) with
  | some n => J.ofInt n
  | none => strJ k
def rsigJ (s : RSig) : Json :=
  J.obj [("sg", sgJ s.sg), ("comment", optStrJ s.comment), ("attrs", pairsJ s.attrs),
         ("values", J.ofList (s.values.map fun (k, t) => J.ofList [J.ofInt k, strJ t])), ("float", .bool s.isFloat),
         ("muxer", optStrJ s.muxer), ("ranges", J.ofList (s.ranges.map fun (a, b) => J.ofList [J.ofNat a, J.ofNat b]))]
def rframeJ (f : RFrame) : Json :=
  J.obj [("id", J.ofNat f.key.1), ("ext", .bool f.key.2), ("name", strJ f.name), ("size", J.ofNat f.size),
         ("tx", J.ofStrList (f.transmitters.map String.ofList)), ("comment", optStrJ f.comment), ("attrs", pairsJ f.attrs),
         ("groups", J.ofList (f.groups.map fun g => J.obj [("name", strJ g.name), ("id", J.ofNat g.id), ("members", J.ofStrList (g.members.map String.ofList))])),
         ("complex", .bool f.complexMux), ("sigs", J.ofList (f.sigs.map rsigJ))]
def rmatrixJ (m : RMatrix) : Json :=
  let lv (l : Level) : Json := J.ofList ((m.defs.filter (·.level == l)).map fun d =>
    J.obj [("name", strJ d.name), ("definition", strJ d.definition), ("default", match d.default with | none => Json.null | some v => strJ v)])
  J.obj [("ecus", J.ofList (m.ecus.map fun e => J.obj [("name", strJ e.name), ("comment", optStrJ e.comment), ("attrs", pairsJ e.attrs)])),
         ("frames", J.ofList (m.frames.map rframeJ)),
         ("defs", J.obj [("signal", lv .signal), ("frame", lv .frame), ("ecu", lv .ecu), ("global", lv .global)]),
         ("attrs", pairsJ m.attrs),
         ("tables", J.ofList (m.tables.map fun t => J.obj [("name", strJ t.name), ("entries", J.ofList (t.entries.map fun (k, v) => J.ofList [keyJ k, strJ v]))])),
         ("errors", J.ofNat m.errors)]

/-- ops:
"start": c = {"size","signed","factor","offset","min","max","initial","dflt"}; i = {"attr": raw number written | null, "initial": what comes back}
"sg":   c = {"sg": SgLine}; i = {"line": text of the line in the file, "parsed": SgLine the real reader makes of it | null}
"bo":   c = {"bo": BoLine}; i likewise
"val":  c = {"val": ValLine}; i likewise
"file": c = {"blocks": [Block]}; i = {"section": [lines of the frame section], "lines": [all lines], "read": [Block] the real reader
        makes of the whole file's BO_/SG_ lines}
"rt":   i = {"exc": null|text, "err": bool, "fixed": bool, "diffs": [[path, before, after]]} -/
def handle (op : String) (c i : Json) : Except String (Json × String) := do
  match op with
  | "sg" =>
    let s ← sgOf (← J.key c "sg")
    let line ← J.str (← J.key i "line")
    let m := J.obj [("line", .str (String.ofList (renderSg s))), ("parsed", optJ sgJ (parseSg (stripWs line.toList)))]
    let p := ← J.key i "parsed"
    let verdict := if J.isNull p then "fail: the reader did not accept the SG_ line the writer produced"
      else match sgOf p with
        | .ok q => if SpecRT.sgSame q s then "ok" else "fail: the SG_ line reads back as a different signal"
        | .error e => "fail: " ++ e
    pure (m, verdict)
  | "bo" =>
    let b ← boOf (← J.key c "bo")
    let line ← J.str (← J.key i "line")
    let m := J.obj [("line", .str (String.ofList (renderBo b))), ("parsed", optJ boJ (parseBo (stripWs line.toList)))]
    let p := ← J.key i "parsed"
    let verdict := if J.isNull p then "fail: the reader did not accept the BO_ line the writer produced"
      else match boOf p with
        | .ok q => if q == b then "ok" else "fail: the BO_ line reads back as a different frame"
        | .error e => "fail: " ++ e
    pure (m, verdict)
  | "val" =>
    let v ← valOf (← J.key c "val")
    let line ← J.str (← J.key i "line")
    let m := J.obj [("line", .str (String.ofList (renderVal v))), ("parsed", optJ valJ (parseVal (stripWs line.toList)))]
    let p := ← J.key i "parsed"
    let verdict := if J.isNull p then "fail: the reader did not accept the VAL_ line the writer produced"
      else match valOf p with
        | .ok q => if q == v then "ok" else "fail: the VAL_ line reads back as a different value table"
        | .error e => "fail: " ++ e
    pure (m, verdict)
  | "tx" =>
    -- c = {"tx": {"id", "ecus"}}; i = {"line": BO_TX_BU_ line of the file, "parsed": {"id", "ecus": senders of a frame without other senders after the line}}
    let t : TxLine := { id := ← J.nat (← J.key (← J.key c "tx") "id"), ecus := (← J.strList (← J.key (← J.key c "tx") "ecus")).map String.toList }
    let line ← J.str (← J.key i "line")
    let txJ (q : TxLine) : Json := J.obj [("id", J.ofNat q.id), ("ecus", J.ofStrList ((addTransmitters [] q.ecus).map String.ofList))]
    let m := J.obj [("line", .str (String.ofList (renderTx t))), ("parsed", optJ txJ (parseTx (stripWs line.toList)))]
    let p := ← J.key i "parsed"
    let verdict := if J.isNull p then "fail: the reader did not accept the BO_TX_BU_ line the writer produced"
      else if p == txJ t then "ok" else "fail: the BO_TX_BU_ line reads back as other senders"
    pure (m, verdict)
  | "vt" =>
    -- c = {"vt": {"id", "name", "double"}}; i = {"line", "parsed": {"id", "name", "float": is_float of that signal after the line}}
    let v : ValTypeLine := { id := ← J.nat (← J.key (← J.key c "vt") "id"), name := (← J.str (← J.key (← J.key c "vt") "name")).toList,
                             double := ← J.bool (← J.key (← J.key c "vt") "double") }
    let line ← J.str (← J.key i "line")
    let vtJ (q : Nat × Str) : Json := J.obj [("id", J.ofNat q.1), ("name", .str (String.ofList q.2)), ("float", .bool true)]
    let m := J.obj [("line", .str (String.ofList (renderValType v))), ("parsed", optJ vtJ (parseValType (stripWs line.toList)))]
    let p := ← J.key i "parsed"
    let verdict := if J.isNull p then "fail: the reader did not accept the SIG_VALTYPE_ line the writer produced"
      else if p == vtJ (v.id, v.name) then "ok" else "fail: the SIG_VALTYPE_ line does not make that signal a float"
    pure (m, verdict)
  | "mul" =>
    -- c = {"mul": {"id", "sig", "muxer", "ranges"}}; i = {"line", "parsed": the same fields as the reader stored them}
    let mj ← J.key c "mul"
    let rs ← (← J.arr (← J.key mj "ranges")).mapM fun r => do pure ((← J.nat (← J.idx r 0)), (← J.nat (← J.idx r 1)))
    let ml : MulLine := { id := ← J.nat (← J.key mj "id"), sig := (← J.str (← J.key mj "sig")).toList, muxer := (← J.str (← J.key mj "muxer")).toList, ranges := rs }
    let line ← J.str (← J.key i "line")
    let mulJ (q : MulLine) : Json := J.obj [("id", J.ofNat q.id), ("sig", .str (String.ofList q.sig)), ("muxer", .str (String.ofList q.muxer)),
                                            ("ranges", J.ofList (q.ranges.map fun (a, b) => J.ofList [J.ofNat a, J.ofNat b]))]
    let m := J.obj [("line", .str (String.ofList (renderMul ml))), ("parsed", optJ mulJ (parseMul (stripWs line.toList)))]
    let p := ← J.key i "parsed"
    let verdict := if J.isNull p then "fail: the reader did not accept the SG_MUL_VAL_ line the writer produced"
      else if p == mulJ ml then "ok" else "fail: the SG_MUL_VAL_ line reads back as another binding"
    pure (m, verdict)
  | "def" =>
    -- c = {"def": {"level", "name", "definition"}}; i = {"line": BA_DEF_ line of the file, "parsed": the same fields as the reader stored them}
    let dj ← J.key c "def"
    let lvl ← match (← J.str (← J.key dj "level")) with
      | "ecu" => pure Level.ecu | "frame" => pure Level.frame | "signal" => pure Level.signal | "env" => pure Level.env
      | "global" => pure Level.global | x => throw s!"bad level {x}"
    let lvlName : Level → String
      | .ecu => "ecu" | .frame => "frame" | .signal => "signal" | .env => "env" | .global => "global"
    let d : DefLine := { level := lvl, name := (← J.str (← J.key dj "name")).toList, definition := (← J.str (← J.key dj "definition")).toList }
    let line ← J.str (← J.key i "line")
    let defJ (q : DefLine) : Json := J.obj [("level", .str (lvlName q.level)), ("name", .str (String.ofList q.name)), ("definition", .str (String.ofList q.definition))]
    let m := J.obj [("line", .str (String.ofList (renderDef d))), ("parsed", optJ defJ (parseDef (stripWs line.toList)))]
    let p := ← J.key i "parsed"
    let verdict := if J.isNull p then "fail: the reader did not accept the BA_DEF_ line the writer produced"
      else if p == defJ d then "ok" else "fail: the BA_DEF_ line reads back as another definition"
    pure (m, verdict)
  | "dd" =>
    -- c = {"dd": {"name", "text": bool, "value"}}; i = {"line": BA_DEF_DEF_ line, "parsed": {"name", "value": default stored}}
    let dj ← J.key c "dd"
    let d : DefDefLine := { name := (← J.str (← J.key dj "name")).toList, isText := ← J.bool (← J.key dj "text"), value := (← J.str (← J.key dj "value")).toList }
    let line ← J.str (← J.key i "line")
    let ddJ (q : Str × Str) : Json := J.obj [("name", .str (String.ofList q.1)), ("value", .str (String.ofList q.2))]
    let m := J.obj [("line", .str (String.ofList (renderDefDef d))), ("parsed", optJ ddJ (parseDefDef (stripWs line.toList)))]
    let p := ← J.key i "parsed"
    let verdict := if J.isNull p then "fail: the reader did not accept the BA_DEF_DEF_ line the writer produced"
      else if p == ddJ (d.name, d.value) then "ok" else "fail: the BA_DEF_DEF_ line reads back as another default"
    pure (m, verdict)
  | "ba" =>
    -- c = {"ba": {"attr", "target": ["global"] | ["ecu", name] | ["frame", id] | ["signal", id, name], "value": text as written}}
    -- i = {"line": BA_ line, "parsed": the same fields, value as stored before the post-processing}
    let bj ← J.key c "ba"
    let tj ← J.key bj "target"
    let kind ← J.str (← J.idx tj 0)
    let tgt ← match kind with
      | "global" => pure BaTarget.global
      | "ecu" => do pure (BaTarget.ecu (← J.str (← J.idx tj 1)).toList)
      | "frame" => do pure (BaTarget.frame (← J.nat (← J.idx tj 1)))
      | "signal" => do pure (BaTarget.signal (← J.nat (← J.idx tj 1)) (← J.str (← J.idx tj 2)).toList)
      | x => throw s!"bad target {x}"
    let b : BaLine := { attr := (← J.str (← J.key bj "attr")).toList, target := tgt, value := (← J.str (← J.key bj "value")).toList }
    let line ← J.str (← J.key i "line")
    let tJ : BaTarget → Json
      | .global => J.ofList [.str "global"]
      | .ecu n => J.ofList [.str "ecu", .str (String.ofList n)]
      | .frame id => J.ofList [.str "frame", J.ofNat id]
      | .signal id n => J.ofList [.str "signal", J.ofNat id, .str (String.ofList n)]
    let baJ (q : BaLine) : Json := J.obj [("attr", .str (String.ofList q.attr)), ("target", tJ q.target), ("value", .str (String.ofList q.value))]
    let m := J.obj [("line", .str (String.ofList (renderBa b))), ("parsed", optJ baJ (parseBa (stripWs line.toList)))]
    let p := ← J.key i "parsed"
    let verdict := if J.isNull p then "fail: the reader did not accept the BA_ line the writer produced"
      else if p == baJ b then "ok" else "fail: the BA_ line reads back as another attribute value"
    pure (m, verdict)
  | "cm" =>
    -- c = {"cm": {"head": "CM_ SG_ <id> <name>", "text": comment}}; i = {"lines": the statement's lines in the file behind the opening
    -- quote, "parsed": the comment the real reader makes of them | null}
    let text := (← J.str (← J.key (← J.key c "cm") "text")).toList
    let want := renderCommentBody text
    let parsedM := match want with
      | first :: rest => readCommentBody first rest
      | [] => none
    let m := J.obj [("lines", J.ofStrList (want.map String.ofList)), ("parsed", optJ (fun t => Json.str (String.ofList t)) parsedM)]
    let p := ← J.key i "parsed"
    let verdict := if !wfComment text then "ok"      -- outside the statement's envelope: the whole-file case and the known findings decide
      else if p == Json.str (String.ofList text) then "ok" else "fail: the comment does not come back as written"
    pure (m, verdict)
  | "vtab" =>
    -- c = {"vtab": {"name", "entries": [[key text, text], ...]}}; i = {"line": VAL_TABLE_ line of the file, "parsed": the same as read}
    let vj ← J.key c "vtab"
    let es ← (← J.arr (← J.key vj "entries")).mapM fun e => do pure ((← J.str (← J.idx e 0)).toList, (← J.str (← J.idx e 1)).toList)
    let v : VtLine := { name := (← J.str (← J.key vj "name")).toList, entries := es }
    let line ← J.str (← J.key i "line")
    let vtJ (q : VtLine) : Json := J.obj [("name", .str (String.ofList q.name)),
      ("entries", J.ofList (q.entries.map fun (k, t) => J.ofList [.str (String.ofList k), .str (String.ofList t)]))]
    let m := J.obj [("line", .str (String.ofList (renderVt v))), ("parsed", optJ vtJ (parseVt (stripWs line.toList)))]
    let p := ← J.key i "parsed"
    let verdict := if J.isNull p then "fail: the reader did not accept the VAL_TABLE_ line the writer produced"
      else if p == vtJ v then "ok" else "fail: the VAL_TABLE_ line reads back as another table"
    pure (m, verdict)
  | "grp" =>
    -- c = {"grp": {"frame", "name", "id", "members"}}; i = {"line": SIG_GROUP_ line, "parsed": the same as read}
    let gj ← J.key c "grp"
    let g : GroupLine := { frameId := ← J.nat (← J.key gj "frame"), name := (← J.str (← J.key gj "name")).toList, groupId := ← J.nat (← J.key gj "id"),
                           members := (← J.strList (← J.key gj "members")).map String.toList }
    let line ← J.str (← J.key i "line")
    let gJ (q : GroupLine) : Json := J.obj [("frame", J.ofNat q.frameId), ("name", .str (String.ofList q.name)), ("id", J.ofNat q.groupId),
      ("members", J.ofStrList (q.members.map String.ofList))]
    let m := J.obj [("line", .str (String.ofList (renderGroup g))), ("parsed", optJ gJ (parseGroup (stripWs line.toList)))]
    let p := ← J.key i "parsed"
    let verdict := if J.isNull p then "fail: the reader did not accept the SIG_GROUP_ line the writer produced"
      else if p == gJ g then "ok" else "fail: the SIG_GROUP_ line reads back as another group"
    pure (m, verdict)
  | "file" =>
    let bs ← (← J.arr (← J.key c "blocks")).mapM blockOf
    let lines ← J.strList (← J.key i "lines")
    let m := J.obj [("section", J.ofStrList ((writeFrames bs).map String.ofList)),
                    ("read", J.ofList ((readFrames (lines.map String.toList)).map blockJ))]
    let rd ← (← J.arr (← J.key i "read")).mapM blockOf
    pure (m, if SpecRT.blocksSame rd bs then "ok" else "fail: frames or signals of the frame section read back differently")
  | "core" =>
    -- c = {"frames": [{"bo", "sigs": [{"sg", "comment"}], "more": [senders after the first], "comment"}]}
    -- i = {"core": the lines of the frame section, the BO_TX_BU_ lines, the frame comments and the signal comments of the real file}
    if !J.isNull (J.keyD i "skipped" Json.null) then return (J.obj [], "ok")
    let optStr (j : Json) : Except String (Option Str) := if J.isNull j then pure none else do pure (some (← J.str j).toList)
    let pairsOf0 (j : Json) : Except String (List (Str × Str)) := do
      (← J.arr j).mapM fun e => do pure ((← J.str (← J.idx e 0)).toList, (← J.str (← J.idx e 1)).toList)
    let fs ← (← J.arr (← J.key c "frames")).mapM fun fj => do
      let sigs ← (← J.arr (← J.key fj "sigs")).mapM fun sj => do
        let vals ← (← J.arr (← J.key sj "values")).mapM fun e => do pure ((← J.int (← J.idx e 0)), (← J.str (← J.idx e 1)).toList)
        let rngs ← (← J.arr (← J.key sj "ranges")).mapM fun r => do pure ((← J.nat (← J.idx r 0)), (← J.nat (← J.idx r 1)))
        let sat := J.keyD sj "attrs" Json.null
        let sats ← if J.isNull sat then pure [] else pairsOf0 sat
        pure ({ sg := ← sgOf (← J.key sj "sg"), comment := ← optStr (← J.key sj "comment"), values := vals,
                isFloat := ← J.bool (← J.key sj "float"), muxer := ← optStr (← J.key sj "muxer"), ranges := rngs, attrs := sats } : WSig)
      let fat := J.keyD fj "attrs" Json.null
      let fats ← if J.isNull fat then pure [] else pairsOf0 fat
      pure ({ bo := ← boOf (← J.key fj "bo"), sigs := sigs, moreSenders := (← J.strList (← J.key fj "more")).map String.toList,
              comment := ← optStr (← J.key fj "comment"), attrs := fats,
              groups := ← (← J.arr (← J.key fj "groups")).mapM fun gj => do
                pure ({ name := (← J.str (← J.key gj "name")).toList, id := ← J.nat (← J.key gj "id"),
                        members := (← J.strList (← J.key gj "members")).map String.toList } : RGroup) } : WFrame)
    -- with "ecus": [{"name", "comment"}] in c the file starts with the `BU_:` line and carries the comments of the ECUs (writeCoreE)
    if J.isNull (J.keyD c "ecus" Json.null) then
      pure (J.obj [("core", J.ofStrList ((writeCore fs).map String.ofList))], "ok")
    else
      let pairsOf (j : Json) : Except String (List (Str × Str)) := do
        (← J.arr j).mapM fun e => do pure ((← J.str (← J.idx e 0)).toList, (← J.str (← J.idx e 1)).toList)
      let es ← (← J.arr (← J.key c "ecus")).mapM fun ej => do
        let at_ := J.keyD ej "attrs" Json.null
        let ats ← if J.isNull at_ then pure [] else pairsOf at_
        pure ({ name := (← J.str (← J.key ej "name")).toList, comment := ← optStr (← J.key ej "comment"), attrs := ats } : WEcu)
      -- with "defs", "defaults", "gattrs" the attribute definitions, their defaults, the attributes of the ECUs and of the matrix (writeCoreD)
      if J.isNull (J.keyD c "defs" Json.null) then
        pure (J.obj [("core", J.ofStrList ((writeCoreE es fs).map String.ofList))], "ok")
      else
        let ds ← (← J.arr (← J.key c "defs")).mapM fun dj => do
          let lvl ← match (← J.str (← J.key dj "level")) with
            | "ecu" => pure Level.ecu | "frame" => pure Level.frame | "signal" => pure Level.signal | "env" => pure Level.env
            | "global" => pure Level.global | x => throw s!"bad level {x}"
          pure ({ level := lvl, name := (← J.str (← J.key dj "name")).toList, definition := (← J.str (← J.key dj "definition")).toList } : DefLine)
        let dds ← (← J.arr (← J.key c "defaults")).mapM fun dj => do
          pure ({ name := (← J.str (← J.key dj "name")).toList, isText := ← J.bool (← J.key dj "text"), value := (← J.str (← J.key dj "value")).toList } : DefDefLine)
        let ga ← pairsOf (← J.key c "gattrs")
        -- with "fattrs" the attributes of frames and signals as well (writeCoreF)
        if J.isNull (J.keyD c "fattrs" Json.null) then
          pure (J.obj [("core", J.ofStrList ((writeCoreD es ds dds ga fs).map String.ofList))], "ok")
        else
          -- with "tables" the value tables of the matrix as well: the whole file (writeCoreH)
          if J.isNull (J.keyD c "tables" Json.null) then
            pure (J.obj [("core", J.ofStrList ((writeCoreF es ds dds ga fs).map String.ofList))], "ok")
          else
            let ts ← (← J.arr (← J.key c "tables")).mapM fun tj => do
              let ents ← (← J.arr (← J.key tj "entries")).mapM fun e => do pure ((← J.nat (← J.idx e 0)), (← J.str (← J.idx e 1)).toList)
              pure ({ name := (← J.str (← J.key tj "name")).toList, entries := ents } : WTable)
            -- with "exact" the file line for line (writeDbc: header and the empty lines between the sections)
            if J.isNull (J.keyD c "exact" Json.null) then
              pure (J.obj [("core", J.ofStrList ((writeCoreH es ts ds dds ga fs).map String.ofList))], "ok")
            else
              pure (J.obj [("core", J.ofStrList ((writeDbc es ts ds dds ga fs).map String.ofList))], "ok")
  | "prep" =>
    -- c = {"kind": "frame" | "ecu", "name", "attrs": [[k, v]]}: an object of the caller's matrix
    -- i = {"name": its name in the matrix dump works on, "long": the value of its long-name attribute there or null}
    if !J.isNull (J.keyD i "skipped" Json.null) then return (J.obj [], "ok")
    let attr := if (← J.str (← J.key c "kind")) == "frame" then "SystemMessageLongSymbol" else "SystemNodeLongSymbol"
    let attrs ← (← J.arr (← J.key c "attrs")).mapM fun e => do pure ((← J.str (← J.idx e 0)).toList, (← J.str (← J.idx e 1)).toList)
    let p := prepLong attr (← J.str (← J.key c "name")).toList attrs
    pure (J.obj [("name", .str (String.ofList p.1)), ("long", match lookupAttr p.2 attr.toList with | some v => .str (String.ofList v) | none => Json.null)], "ok")
  | "post" =>
    -- i = {"lines": the lines of a file, "final": the projection of the matrix dbc.load returns (names, senders, receivers, comments,
    -- attributes that are neither carriers nor ENUM)}
    if !J.isNull (J.keyD i "skipped" Json.null) then return (J.obj [], "ok")
    let lines ← J.strList (← J.key i "lines")
    let pm := postProcess (readFile (lines.map String.toList))
    let psigJ (s : PSig) : Json := J.obj [("name", strJ s.name), ("cycle", J.ofInt s.cycle), ("receivers", J.ofStrList (s.receivers.map String.ofList)),
      ("attrs", pairsJ s.attrs), ("comment", optStrJ s.comment)]
    let pframeJ (f : PFrame) : Json := J.obj [("id", J.ofNat f.key.1), ("ext", .bool f.key.2), ("name", strJ f.name), ("cycle", J.ofInt f.cycle),
      ("tx", J.ofStrList (f.tx.map String.ofList)), ("rx", J.ofStrList (f.rx.map String.ofList)), ("attrs", pairsJ f.attrs),
      ("comment", optStrJ f.comment), ("sigs", J.ofList (f.sigs.map psigJ))]
    pure (J.obj [("final", J.obj [("ecus", J.ofStrList (pm.ecus.map String.ofList)), ("frames", J.ofList (pm.frames.map pframeJ)),
      ("free", J.ofList (pm.free.map psigJ)), ("attrs", pairsJ pm.attrs)])], "ok")
  | "whole" =>
    -- i = {"lines": the lines of a file, "snap": the matrix the real reader has built when its line loop ends (before the post-processing)}
    if !J.isNull (J.keyD i "skipped" Json.null) then return (J.obj [], "ok")
    let lines ← J.strList (← J.key i "lines")
    pure (J.obj [("snap", rmatrixJ (readFile (lines.map String.toList)))], "ok")
  | "start" =>
    let g : StartSig := { s := { size := ← J.nat (← J.key c "size"), signed := ← J.bool (← J.key c "signed"), factor := ← decOf (← J.key c "factor"),
                                 offset := ← decOf (← J.key c "offset") },
                          min := ← decOf (← J.key c "min"), max := ← decOf (← J.key c "max"), initial := ← decOf (← J.key c "initial") }
    let dflt ← optDec (← J.key c "dflt")
    let w := g.writeStart dflt
    let m := J.obj [("attr", J.ofOptInt w), ("initial", decJ (normDec (g.readStart w dflt)))]
    if !J.isNull (J.keyD i "exc" Json.null) then return (m, "fail: the round trip raised")
    let back ← decOf (← J.key i "initial")
    pure (m, if SpecRT.decEq back g.initial then "ok" else "fail: the initial value does not survive the DBC round trip")
  | "rt" =>
    let exc := ← J.key i "exc"
    let err ← J.bool (← J.key i "err")
    let fixed ← J.bool (← J.key i "fixed")
    let diffs ← J.arr (← J.key i "diffs")
    let verdict := if !J.isNull exc then "fail: the round trip raised"
      else if err then "fail: reading canmatrix's own DBC output reported line errors"
      else if !diffs.isEmpty then "fail: the re-read matrix differs from the original"
      else if !fixed then "fail: the second export is not byte-identical to the first"
      else "ok"
    pure (J.obj [], verdict)
  | _ => throw s!"C05: unknown op {op}"

end D05
