import CanVerif.Model.Codec
/-!
# Model of the layout utilities of `Frame` / `CanMatrix` (C16)

canmatrix.py: `get_frame_layout` (~1264), `create_dummy_signals` (~1302, after fix 1c35f36), `calc_dlc` (~1234),
`fit_dlc` (~1252), `recalc_dlc` (~2160), `set_fd_type` (~2384), `compress` (~1654), `_compress_little` (~1627).
Signals are identified by name in the layout (the Python lists hold the signal objects).
-/
namespace CanVerif

/-- `for x in arr[a:b]: x.append(name)` -/
def appendRange (arr : List (List String)) (a b : Nat) (name : String) : List (List String) :=
  (List.range arr.length).map fun j =>
    let cell := arr.getD j []
    if a ≤ j && j < b then cell ++ [name] else cell

/-- `Frame.get_frame_layout` -/
def Frame.layout (f : Frame) : List (List String) :=
  let nbits := f.size * 8
  let empty : List (List String) := List.replicate nbits []
  let little := f.sigs.foldl (fun arr s =>
      if s.little then
        let least := nbits - s.start
        let most := least - s.size
        appendRange arr most least s.name
      else arr) empty
  let big := f.sigs.foldl (fun arr s =>
      if s.little then arr
      else appendRange arr s.start (s.start + s.size) s.name) empty
  (List.zip (reverseGroups f.size little) big).map fun (l, b) => l ++ b

/-- loop state of `create_dummy_signals`: (startBit or none, sigCount, new signals so far) -/
structure DummyState where
  startBit : Option Nat := none
  count : Nat := 0
  out : List Sig := []

def dummyName (frameName : String) (k : Nat) : String := "_Dummy_" ++ frameName ++ "_" ++ toString k

/-- `Frame.create_dummy_signals`: returns the signals appended to the frame -/
def createDummies (frameName : String) (bitfield : List (List String)) : List Sig :=
  let n := bitfield.length
  let st := (List.zip (List.range n) bitfield).foldl (fun (st : DummyState) (p : Nat × List String) =>
      let index := p.1
      let cell := p.2
      let st1 := if cell.isEmpty && st.startBit.isNone then { st with startBit := some index } else st
      match st1.startBit with
      | some sb =>
        if index == n - 1 || !cell.isEmpty then
          let idx := if index == n - 1 && cell.isEmpty then n else index
          { startBit := none, count := st1.count + 1,
            out := st1.out ++ [{ name := dummyName frameName st1.count, start := sb, size := idx - sb, little := false, signed := true }] }
        else st1
      | none => st1) {}
  st.out

def Frame.createDummySignals (f : Frame) (frameName : String) : Frame :=
  { f with sigs := f.sigs ++ createDummies frameName f.layout }

/-- `max(get_startbit() + size)` over the signals -/
def maxBit (sigs : List Sig) : Nat := sigs.foldl (fun m s => if s.start + s.size > m then s.start + s.size else m) 0

/-- `Frame.calc_dlc` (no PDUs) -/
def Frame.calcDlc (f : Frame) : Frame := { f with size := max f.size ((maxBit f.sigs + 7) / 8) }

/-- `recalc_dlc("force")` for one frame -/
def Frame.forceDlc (f : Frame) : Frame := { f with size := (maxBit f.sigs + 7) / 8 }

/-- `CanMatrix.recalc_dlc`: the loop over the frames of the matrix (`maxBit = 0` is set anew for every frame) -/
def recalcDlc (strategy : String) (frames : List Frame) : List Frame :=
  frames.map fun f => if strategy == "max" then f.calcDlc else if strategy == "force" then f.forceDlc else f

/-- `Frame.fit_dlc` -/
def fitDlc (size : Nat) : Nat :=
  let rec go (last : Nat) : List Nat → Nat
    | [] => size
    | m :: rest => if size > last && size < m then m else go m rest
  go 8 [12, 16, 20, 24, 32, 48, 64]

/-- `set_fd_type`: is the frame marked FD afterwards -/
def setFdType (size : Nat) (isFd : Bool) : Bool := if size > 8 then true else isFd

/-- replace the start of the first signal named `name` -/
def setStartOf (sigs : List Sig) (name : String) (g : Nat → Nat) : List Sig :=
  match sigs with
  | [] => []
  | s :: t => if s.name == name then { s with start := g s.start } :: t else s :: setStartOf t name g

/-- one round of the Motorola `compress` loop: `none` = no gap before a signal (loop ends) -/
def compressBigStep (f : Frame) : Option Frame :=
  let lay := f.layout
  let r := (List.zip (List.range lay.length) lay).foldl
    (fun (acc : Option Nat × Option (String × Nat)) (p : Nat × List String) =>
      match acc.2 with
      | some _ => acc
      | none =>
        match p.2 with
        | [] => (match acc.1 with | none => (some p.1, none) | some _ => acc)
        | nm :: _ => (match acc.1 with | some fs => (acc.1, some (nm, fs)) | none => acc)) (none, none)
  match r.2 with
  | some (nm, fs) => some { f with sigs := setStartOf f.sigs nm (fun _ => fs) }
  | none => none

/-- one round of `_compress_little`: scan bytes ascending, bits 7..0 of the layout index -/
def compressLittleStep (f : Frame) : Option Frame :=
  let lay := f.layout
  let order := (List.range (lay.length / 8)).flatMap fun byte => (List.range 8).map fun k => byte * 8 + (7 - k)
  let r := order.foldl
    (fun (acc : Option Nat × Option (String × Nat)) (bitNr : Nat) =>
      match acc.2 with
      | some _ => acc
      | none =>
        match lay.getD bitNr [] with
        | [] => (match acc.1 with | none => (some 1, none) | some g => (some (g + 1), none))
        | nm :: _ => (match acc.1 with | some g => (acc.1, some (nm, g)) | none => acc)) (none, none)
  match r.2 with
  | some (nm, g) => some { f with sigs := setStartOf f.sigs nm (fun st => st - g) }
  | none => none

def iterStep (step : Frame → Option Frame) : Nat → Frame → Except Err Frame
  | 0, _ => .error .diverges
  | fuel + 1, f => match step f with
    | none => .ok f
    | some f' => iterStep step fuel f'

/-- `Frame.compress` -/
def Frame.compress (f : Frame) : Except Err Frame :=
  let fuel := 8 * f.size * (f.sigs.length + 1) + 1
  if f.sigs.any (·.little) then
    if f.sigs.any (fun s => !s.little) then .ok f      -- `_compress_little` returns at once on a mixed frame
    else iterStep compressLittleStep fuel f
  else iterStep compressBigStep fuel f

end CanVerif
