import CanVerif.Model.DbcText
import CanVerif.Spec.DbcRT
import CanVerif.Proofs.Num
import CanVerif.Proofs.DbcText
/-! helper lemmas for Props/C15.lean: number texts, statements with free spacing -/
namespace CanVerif.Dbc
open CanVerif CanVerif.Num

/-! ## number texts -/

theorem allDig_of_all {s : Str} (h : s.all isDigit = true) : AllDig s := by
  intro c hc
  exact (isDigit_iff c).mp (List.all_eq_true.mp h c hc)

theorem foldlM_digits_some (cs : Str) (h : AllDig cs) (acc : Nat) :
    ∃ n, cs.foldlM (fun acc c => (digitVal c).map (acc * 10 + ·)) acc = some n := by
  induction cs generalizing acc with
  | nil => exact ⟨acc, rfl⟩
  | cons a t ih =>
    have ha : IsDig a := h a (by simp)
    obtain ⟨v, hv⟩ := Option.isSome_iff_exists.mp ha
    obtain ⟨n, hn⟩ := ih (fun c hc => h c (by simp [hc])) (acc * 10 + v)
    exact ⟨n, by simp [List.foldlM_cons, hv, hn]⟩

theorem digitsToNat_some_of_allDig (cs : Str) (h : AllDig cs) : ∃ n, digitsToNat cs = some n :=
  foldlM_digits_some cs h 0

/-- the point and the fraction digits, if any -/
def dotOpt : Option Str → Str
  | some f => '.' :: f
  | none => []

theorem dotOpt_drop (fp : Option Str) : (dotOpt fp).drop 1 = fp.getD [] := by
  cases fp <;> rfl

/-- `parseBody` on `ip [. fp] expo` where the point may stand without digits on either side (not both) -/
theorem parseBody_gen (neg : Bool) (ip : Str) (fp : Option Str) (expo : Str) (c : Nat) (e : Int)
    (hip : AllDig ip) (hfp : AllDig (fp.getD [])) (hne : ¬ (ip = [] ∧ fp.getD [] = []))
    (hc : digitsToNat (ip ++ fp.getD []) = some c)
    (hex : expo = [] ∨ ∃ x t, expo = x :: t ∧ (x = 'E' ∨ x = 'e')) (he : expoVal expo = some e) :
    parseBody neg (ip ++ dotOpt fp ++ expo) = some ⟨neg, c, e - ((fp.getD []).length : Int)⟩ := by
  have h1 : (ip ++ dotOpt fp ++ expo).span (fun c => c != 'E' && c != 'e') = (ip ++ dotOpt fp, expo) := by
    apply span_append_of
    · intro x hx
      rw [List.mem_append] at hx
      rcases hx with hx | hx
      · have := (hip x hx).ne_E; have := (hip x hx).ne_e; simp_all
      · cases fp with
        | none => simp [dotOpt] at hx
        | some f =>
          rcases List.mem_cons.mp hx with rfl | hx
          · decide
          · have := (hfp x hx).ne_E; have := (hfp x hx).ne_e; simp_all
    · rcases hex with rfl | ⟨x, t, rfl, rfl | rfl⟩
      · exact Or.inl rfl
      · exact Or.inr ⟨_, _, rfl, by decide⟩
      · exact Or.inr ⟨_, _, rfl, by decide⟩
  have h2 : (ip ++ dotOpt fp).span (· != '.') = (ip, dotOpt fp) := by
    apply span_append_of
    · intro x hx
      have := (hip x hx).ne_dot; simp_all
    · cases fp with
      | none => exact Or.inl rfl
      | some f => exact Or.inr ⟨_, _, rfl, by decide⟩
  have h4 : (ip.isEmpty && (fp.getD []).isEmpty) = false := by
    cases ip with
    | cons a t => rfl
    | nil =>
      cases hf : fp.getD [] with
      | cons a t => rfl
      | nil => exact absurd ⟨rfl, hf⟩ hne
  unfold parseBody
  simp only [h1, h2, dotOpt_drop, h4, hc, he, Bool.false_eq_true, if_false]
  rfl

theorem sgn_plus (t : Str) : sgn ('+' :: t) = (false, t) := rfl

theorem sgn_of_head (s : Str) (c : Char) (h : s.head? = some c) (h1 : c ≠ '-') (h2 : c ≠ '+') : sgn s = (false, s) := by
  cases s with
  | nil => rfl
  | cons x t => simp at h; subst h; exact sgn_nosign x t h1 h2

/-- the exponent part of a number text -/
def expOpt : Option (Bool × Bool × Str) → Str
  | some (lower, neg, ds) => (if lower then 'e' else 'E') :: (if neg then ['-'] else []) ++ ds
  | none => []

def expOptVal : Option (Bool × Bool × Str) → Option Int
  | some (_, neg, ds) => (digitsToNat ds).map fun e => if neg then -(e : Int) else (e : Int)
  | none => some 0

theorem expoVal_neg (x : Char) (ds : Str) (hne : ds ≠ []) :
    expoVal (x :: '-' :: ds) = (digitsToNat ds).map fun n => -(n : Int) := by
  have : ds.isEmpty = false := by cases ds <;> simp_all
  simp [expoVal, this]

theorem expoVal_pos (x : Char) (ds : Str) (hne : ds ≠ []) (hd : AllDig ds) :
    expoVal (x :: ds) = (digitsToNat ds).map fun n => (n : Int) := by
  obtain ⟨a, t, rfl⟩ := List.exists_cons_of_ne_nil hne
  have ha : IsDig a := hd a (by simp)
  have h1 := ha.ne_minus
  have h2 := ha.ne_plus
  unfold expoVal
  split
  · rename_i heq; cases heq
  · rename_i heq; injection heq with _ heq; injection heq with heq _; exact absurd heq h1
  · rename_i heq; injection heq with _ heq; injection heq with heq _; exact absurd heq h2
  · rename_i heq; injection heq with _ heq; subst heq; simp

theorem expoVal_expOpt (ex : Option (Bool × Bool × Str))
    (h : ∀ l n ds, ex = some (l, n, ds) → ds ≠ [] ∧ AllDig ds) : expoVal (expOpt ex) = expOptVal ex := by
  match ex, h with
  | none, _ => rfl
  | some (l, n, ds), h =>
    obtain ⟨hne, hd⟩ := h l n ds rfl
    cases n with
    | true =>
      simp only [expOpt, expOptVal, if_true, List.cons_append, List.nil_append]
      exact expoVal_neg _ ds hne
    | false =>
      simp only [expOpt, expOptVal, Bool.false_eq_true, if_false]
      exact expoVal_pos _ ds hne hd

theorem expOpt_head (ex : Option (Bool × Bool × Str)) :
    expOpt ex = [] ∨ ∃ x t, expOpt ex = x :: t ∧ (x = 'E' ∨ x = 'e') := by
  match ex with
  | none => exact Or.inl rfl
  | some (true, n, ds) => exact Or.inr ⟨'e', _, rfl, Or.inr rfl⟩
  | some (false, n, ds) => exact Or.inr ⟨'E', _, rfl, Or.inl rfl⟩

theorem NumText.render_eq (n : NumText) :
    n.render = (if n.neg then ['-'] else if n.plus then ['+'] else []) ++ (n.ip ++ dotOpt n.fp ++ expOpt n.exp) := by
  obtain ⟨ng, pl, ip, fp, ex⟩ := n
  cases fp <;> rcases ex with _ | ⟨l, g, ds⟩ <;> simp [NumText.render, dotOpt, expOpt]

theorem NumText.denotes_eq (n : NumText) :
    n.denotes = (digitsToNat (n.ip ++ n.fp.getD [])).bind fun c =>
      (expOptVal n.exp).map fun e => ⟨n.neg, c, e - ((n.fp.getD []).length : Int)⟩ := by
  unfold NumText.denotes
  match n.exp with
  | none => rfl
  | some (l, ng, ds) => rfl

theorem NumText.wf_unpack {n : NumText} (h : n.wf = true) :
    AllDig n.ip ∧ AllDig (n.fp.getD []) ∧ ¬ (n.ip = [] ∧ n.fp.getD [] = []) ∧
      ∀ l ng ds, n.exp = some (l, ng, ds) → ds ≠ [] ∧ AllDig ds := by
  unfold NumText.wf at h
  simp only [Bool.and_eq_true] at h
  obtain ⟨⟨⟨h1, h2⟩, h3⟩, h4⟩ := h
  refine ⟨allDig_of_all h1, allDig_of_all h2, ?_, ?_⟩
  · rintro ⟨e1, e2⟩
    rw [e1, e2] at h3
    simp at h3
  · intro l ng ds he
    rw [he] at h4
    simp only [Bool.and_eq_true] at h4
    refine ⟨?_, allDig_of_all h4.2⟩
    rintro rfl
    simp at h4

/-- the head of the unsigned part of a number text is a digit or the point -/
theorem body_head (ip : Str) (fp : Option Str) (ex : Str) (hip : AllDig ip) (hne : ¬ (ip = [] ∧ fp.getD [] = [])) :
    ∃ c, (ip ++ dotOpt fp ++ ex).head? = some c ∧ c ≠ '-' ∧ c ≠ '+' ∧ isNumChar c = true := by
  cases ip with
  | cons a t =>
    have ha : IsDig a := hip a (by simp)
    exact ⟨a, rfl, ha.ne_minus, ha.ne_plus, isNumChar_of_isDig ha⟩
  | nil =>
    cases fp with
    | none => exact absurd ⟨rfl, rfl⟩ hne
    | some f => exact ⟨'.', rfl, by decide, by decide, by decide⟩

theorem strToDec_render (n : NumText) (h : n.wf = true) :
    ∃ c e, digitsToNat (n.ip ++ n.fp.getD []) = some c ∧ expOptVal n.exp = some e ∧
      strToDec n.render = some ⟨n.neg, c, e - ((n.fp.getD []).length : Int)⟩ := by
  obtain ⟨h1, h2, h3, h4⟩ := NumText.wf_unpack h
  obtain ⟨c, hc⟩ := digitsToNat_some_of_allDig _ (allDig_append h1 h2)
  have hev : ∃ e, expOptVal n.exp = some e := by
    match hx : n.exp with
    | none => exact ⟨0, rfl⟩
    | some (l, ng, ds) =>
      obtain ⟨k, hk⟩ := digitsToNat_some_of_allDig ds (h4 l ng ds hx).2
      exact ⟨if ng then -(k : Int) else (k : Int), by simp [expOptVal, hk]⟩
  obtain ⟨e, he⟩ := hev
  have hbody : ∀ b, parseBody b (n.ip ++ dotOpt n.fp ++ expOpt n.exp) =
      some ⟨b, c, e - ((n.fp.getD []).length : Int)⟩ := fun b =>
    parseBody_gen b n.ip n.fp _ c e h1 h2 h3 hc (expOpt_head n.exp) (by rw [expoVal_expOpt n.exp h4, he])
  refine ⟨c, e, hc, he, ?_⟩
  rw [NumText.render_eq, strToDec_eq]
  cases hn : n.neg with
  | true =>
    simp only [if_true, List.cons_append, List.nil_append, sgn_minus]
    exact hbody true
  | false =>
    cases hp : n.plus with
    | true =>
      simp only [Bool.false_eq_true, if_false, if_true, List.cons_append, List.nil_append, sgn_plus]
      exact hbody false
    | false =>
      simp only [Bool.false_eq_true, if_false, List.nil_append]
      obtain ⟨x, hx, hx1, hx2, _⟩ := body_head n.ip n.fp (expOpt n.exp) h1 h3
      rw [sgn_of_head _ x hx hx1 hx2]
      exact hbody false

theorem number_text_value' (n : NumText) (h : n.wf = true) :
    ∃ d, n.denotes = some d ∧ strToDec n.render = some d := by
  obtain ⟨c, e, hc, he, hs⟩ := strToDec_render n h
  refine ⟨_, ?_, hs⟩
  rw [NumText.denotes_eq, hc, he]
  rfl

theorem render_numChars (n : NumText) (h : n.wf = true) : ∀ c ∈ n.render, isNumChar c = true := by
  obtain ⟨h1, h2, _, h4⟩ := NumText.wf_unpack h
  rw [NumText.render_eq]
  intro c hc
  simp only [List.mem_append] at hc
  rcases hc with hc | (hc | hc) | hc
  · split at hc
    · simp at hc; subst hc; decide
    · split at hc
      · simp at hc; subst hc; decide
      · simp at hc
  · exact isNumChar_of_isDig (h1 c hc)
  · cases hf : n.fp with
    | none => rw [hf] at hc; simp [dotOpt] at hc
    | some f =>
      rw [hf] at hc h2
      rcases List.mem_cons.mp hc with rfl | hc
      · decide
      · exact isNumChar_of_isDig (h2 c hc)
  · match hx : n.exp with
    | none => rw [hx] at hc; simp [expOpt] at hc
    | some (l, ng, ds) =>
      rw [hx] at hc
      simp only [expOpt, List.cons_append, List.mem_cons, List.mem_append] at hc
      rcases hc with rfl | hc | hc
      · cases l <;> decide
      · cases ng <;> simp at hc
        subst hc; decide
      · exact isNumChar_of_isDig ((h4 l ng ds hx).2 c hc)

theorem render_ne_nil (n : NumText) (h : n.wf = true) : n.render ≠ [] := by
  obtain ⟨h1, _, h3, _⟩ := NumText.wf_unpack h
  obtain ⟨x, hx, _⟩ := body_head n.ip n.fp (expOpt n.exp) h1 h3
  rw [NumText.render_eq]
  intro hn
  have := (List.append_eq_nil_iff.mp hn).2
  rw [this] at hx
  simp at hx

theorem number_text_valid' (n : NumText) (h : n.wf = true) : validNum n.render = true := by
  obtain ⟨d, _, hd⟩ := number_text_value' n h
  have hne := render_ne_nil n h
  have he : n.render.isEmpty = false := by cases hr : n.render <;> simp_all
  have ha : n.render.all isNumChar = true := List.all_eq_true.mpr (render_numChars n h)
  simp [validNum, he, ha, hd]

/-! ## tokenizer pieces with free spacing -/

theorem lit_sg3 : "SG_".toList = ['S', 'G', '_'] := by decide
theorem lit_bo3 : "BO_".toList = ['B', 'O', '_'] := by decide

theorem numChar_ne_space {c : Char} (h : isNumChar c = true) : c ≠ ' ' := by
  rintro rfl; revert h; decide

theorem validNum_unpack {t : Str} (h : validNum t = true) :
    t ≠ [] ∧ (∀ c ∈ t, isNumChar c = true) ∧ ∃ d, strToDec t = some d := by
  simp only [validNum, Bool.and_eq_true, Bool.not_eq_true', List.all_eq_true] at h
  obtain ⟨⟨h1, h2⟩, h3⟩ := h
  refine ⟨?_, h2, Option.isSome_iff_exists.mp h3⟩
  rintro rfl
  simp at h1

theorem numThen_text (stop : Char) (t : Str) (d : Dec) (r : Str) (hne : t ≠ [])
    (hall : ∀ c ∈ t, isNumChar c = true) (hd : strToDec t = some d) (hs : isNumChar stop = false) :
    numThen stop (t ++ stop :: r) = some (d, r) := by
  rw [numThen_of_span stop _ t r hne, hd]
  · rfl
  · exact span_append_of isNumChar _ _ hall (Or.inr ⟨_, _, rfl, hs⟩)

theorem stripWs_sps (n : Nat) (s : Str) : stripWs (sps n ++ s) = stripWs s := by
  induction n with
  | zero => rfl
  | succ n ih => rw [sps_succ, List.cons_append, stripWs_drop_ws ' ' _ (by decide)]; exact ih

theorem sps_ne_comma (n : Nat) : ∀ c ∈ sps n, c ≠ ',' := by
  intro c hc
  rw [sps, List.mem_replicate] at hc
  rw [hc.2]; decide

theorem sps_reverse (n : Nat) : (sps n).reverse = sps n := List.reverse_replicate ..

/-! ## receivers with blanks after the commas -/

theorem joinCommaSp_cons2 (n : Nat) (a b : Str) (r : List Str) :
    joinCommaSp n (a :: b :: r) = a ++ ',' :: (sps n ++ joinCommaSp n (b :: r)) := by
  simp only [joinCommaSp, List.append_assoc, List.cons_append]

theorem splitOn_go_joinCommaSp (n : Nat) (a : Str) (rs : List Str) (cur : Str)
    (h : ∀ r ∈ a :: rs, ∀ c ∈ r, c ≠ ',') :
    splitOn.go ',' cur (joinCommaSp n (a :: rs)) = (cur.reverse ++ a) :: rs.map (sps n ++ ·) := by
  induction rs generalizing a cur with
  | nil =>
    have := splitOn_go_append a cur [] (h a (by simp))
    simp only [List.append_nil] at this
    simp [joinCommaSp, this, splitOn.go]
  | cons b rs ih =>
    rw [joinCommaSp_cons2, splitOn_go_append a cur _ (h a (by simp))]
    simp only [splitOn.go, beq_self_eq_true, if_true]
    rw [splitOn_go_append (sps n) [] _ (sps_ne_comma n), ih b _ (fun r hr => h r (List.mem_cons_of_mem _ hr))]
    simp [sps_reverse]

theorem splitOn_joinCommaSp (n : Nat) (a : Str) (rs : List Str) (h : ∀ r ∈ a :: rs, ∀ c ∈ r, c ≠ ',') :
    splitOn ',' (joinCommaSp n (a :: rs)) = a :: rs.map (sps n ++ ·) := by
  unfold splitOn
  rw [splitOn_go_joinCommaSp n a rs [] h]
  simp

theorem receivers_lex (n : Nat) (rs : List Str) (hne : rs ≠ []) (hr : ∀ r ∈ rs, isIdent r = true) :
    (splitOn ',' (joinCommaSp n rs)).map stripWs = rs := by
  obtain ⟨a, t, rfl⟩ := List.exists_cons_of_ne_nil hne
  rw [splitOn_joinCommaSp n a t (fun r hr' c hc => identChar_ne_comma (isIdent_all (hr r hr') c hc))]
  rw [List.map_cons, List.map_map, stripWs_ident (hr a (by simp))]
  have : t.map (stripWs ∘ fun x => sps n ++ x) = t.map id := by
    apply List.map_congr_left
    intro r hr'
    simp only [Function.comp, id]
    rw [stripWs_sps, stripWs_ident (hr r (List.mem_cons_of_mem _ hr'))]
  rw [this, List.map_id]

theorem joinCommaSp_head (n : Nat) (rs : List Str) (hne : rs ≠ []) (hr : ∀ r ∈ rs, isIdent r = true) :
    ∃ x t, joinCommaSp n rs = x :: t ∧ isIdentChar x = true := by
  obtain ⟨a, rs, rfl⟩ := List.exists_cons_of_ne_nil hne
  have ha := hr a (by simp)
  obtain ⟨x, t, hx⟩ := List.exists_cons_of_ne_nil (isIdent_ne_nil ha)
  have hxi : isIdentChar x = true := isIdent_all ha x (by rw [hx]; simp)
  cases rs with
  | nil => exact ⟨x, t, by simp [joinCommaSp, hx], hxi⟩
  | cons b rs => exact ⟨x, _, by rw [joinCommaSp_cons2, hx]; rfl, hxi⟩

theorem skipSp_sps_joinCommaSp (k n : Nat) (rs : List Str) (hne : rs ≠ []) (hr : ∀ r ∈ rs, isIdent r = true) :
    skipSp (sps k ++ joinCommaSp n rs) = joinCommaSp n rs := by
  obtain ⟨x, t, e, hx⟩ := joinCommaSp_head n rs hne hr
  rw [e]
  exact skipSp_sps_cons k x t (identChar_ne_space hx)

theorem LastOK.joinCommaSp (n : Nat) (rs : List Str) (hne : rs ≠ []) (h : ∀ r ∈ rs, isIdent r = true) :
    LastOK (joinCommaSp n rs) := by
  induction rs with
  | nil => exact absurd rfl hne
  | cons a rs ih =>
    cases rs with
    | nil => exact LastOK.of_isIdent (h a (by simp))
    | cons b rs =>
      rw [joinCommaSp_cons2]
      exact LastOK.append a (LastOK.cons ',' (LastOK.append _
        (ih (by simp) (fun r hr => h r (List.mem_cons_of_mem _ hr)))))

theorem joinCommaSp_zero (rs : List Str) : joinCommaSp 0 rs = joinComma rs := by
  induction rs with
  | nil => rfl
  | cons a rs ih =>
    cases rs with
    | nil => rfl
    | cons b rs => rw [joinCommaSp_cons2, ih]; rfl

/-! ## the `SG_` statement with free spacing -/

/-- the part of an `SG_` line from the colon on -/
def sgTailLex (lx : SgLex) (nm : SgNums) (s : SgLine) : Str :=
  ':' :: (sps lx.postColon ++ (natDigits s.start ++ '|' :: (natDigits s.size ++ '@' :: (if s.little then '1' else '0') ::
    (if s.signed then '-' else '+') :: (sps lx.preParen ++ '(' :: (nm.factor ++ ',' :: (sps lx.postComma ++ (nm.offset ++
    ')' :: (sps lx.preBracket ++ '[' :: (nm.min ++ '|' :: (nm.max ++ ']' :: (sps lx.preUnit ++ '"' :: (s.unit ++
    '"' :: (sps lx.preRx ++ joinCommaSp lx.rx s.receivers)))))))))))))

theorem renderSgLex_eq (lx : SgLex) (nm : SgNums) (s : SgLine) :
    renderSgLex lx nm s =
      sps lx.lead ++ 'S' :: 'G' :: '_' :: (sps lx.kw ++ (s.name ++ (lexTag lx s.tag ++ sgTailLex lx nm s))) := by
  unfold renderSgLex sgTailLex
  rw [lit_sg3]
  simp only [List.append_assoc, List.cons_append, List.nil_append]

theorem LastOK.sgTailLex (lx : SgLex) (nm : SgNums) (s : SgLine) (hne : s.receivers ≠ [])
    (hr : ∀ r ∈ s.receivers, isIdent r = true) : LastOK (sgTailLex lx nm s) := by
  unfold Dbc.sgTailLex
  repeat (first | apply LastOK.cons | apply LastOK.append)
  exact LastOK.joinCommaSp _ _ hne hr

theorem parseSgTail_lex (name : Str) (tag : Tag) (cs : Bool) (k : Nat) (lx : SgLex) (nm : SgNums) (s : SgLine)
    (fa ofs mi ma : Dec) (hfa : strToDec nm.factor = some fa) (hof : strToDec nm.offset = some ofs)
    (hmi : strToDec nm.min = some mi) (hma : strToDec nm.max = some ma)
    (vfa : nm.factor ≠ [] ∧ ∀ c ∈ nm.factor, isNumChar c = true)
    (vof : nm.offset ≠ [] ∧ ∀ c ∈ nm.offset, isNumChar c = true)
    (vmi : nm.min ≠ [] ∧ ∀ c ∈ nm.min, isNumChar c = true)
    (vma : nm.max ≠ [] ∧ ∀ c ∈ nm.max, isNumChar c = true)
    (pu pr : Nat) (hpu : lx.preUnit = pu + 1) (hpr : lx.preRx = pr + 1) (hcs : cs = true ∨ lx.postComma = 0)
    (hu : ∀ c ∈ s.unit, c ≠ '"') (hne : s.receivers ≠ []) (hr : ∀ r ∈ s.receivers, isIdent r = true) :
    parseSgTail name tag cs (sps k ++ sgTailLex lx nm s) =
      some { s with name := name, tag := tag, factor := fa, offset := ofs, min := mi, max := ma } := by
  have hspanU : ∀ r, (s.unit ++ '"' :: r).span (· != '"') = (s.unit, '"' :: r) := fun r =>
    span_append_of _ _ _ (by intro c hc; simpa using hu c hc) (Or.inr ⟨_, _, rfl, by decide⟩)
  have hsplit : (splitOn ',' (joinCommaSp lx.rx s.receivers)).map stripWs = s.receivers :=
    receivers_lex _ _ hne hr
  have hoff : ∀ r, (if cs = true then skipSp (sps lx.postComma ++ (nm.offset ++ r)) else sps lx.postComma ++ (nm.offset ++ r))
      = nm.offset ++ r := by
    intro r
    have h1 := skipSp_sps_app lx.postComma nm.offset r vof.1 (fun c hc => numChar_ne_space (vof.2 c hc))
    rcases hcs with rfl | h0
    · simpa using h1
    · rw [h0] at h1 ⊢
      have h2 : sps 0 ++ (nm.offset ++ r) = nm.offset ++ r := rfl
      rw [h2] at h1 ⊢
      rw [h1, ite_self]
  unfold parseSgTail sgTailLex
  rw [hpu, hpr, sps_succ, sps_succ, skipSp_sps_cons k ':' _ (by decide)]
  simp only [skipSp_sps, skipSp_natDigits]
  rw [natThen_natDigits '|' _ _ (by decide)]
  simp only [Option.bind_some]
  rw [natThen_natDigits '@' _ _ (by decide)]
  simp only [Option.bind_some]
  cases hl : s.little <;> cases hsg : s.signed <;>
    simp only [if_true, if_false, Bool.false_eq_true] <;>
    rw [span_one isDigit _ _ _ (by decide) (by decide)] <;>
    simp only []
  all_goals
    simp only [show ('+' != '+' && '+' != '-' && '+' != '|') = false by decide,
      show ('-' != '+' && '-' != '-' && '-' != '|') = false by decide,
      show digitsToNat ['0'] = some 0 by decide, show digitsToNat ['1'] = some 1 by decide,
      Bool.false_eq_true, if_false, Option.bind_some, skipSp_sps_cons _ '(' _ (by decide),
      numThen_text ',' _ _ _ vfa.1 vfa.2 hfa (by decide), hoff, numThen_text ')' _ _ _ vof.1 vof.2 hof (by decide),
      numThen_text '|' _ _ _ vmi.1 vmi.2 hmi (by decide), numThen_text ']' _ _ _ vma.1 vma.2 hma (by decide),
      skipSp_sps_cons _ '[' _ (by decide), skipSp_sps_cons _ '"' _ (by decide), List.cons_append,
      hspanU, skipSp_sps_joinCommaSp _ _ _ hne hr, hsplit]
  all_goals
    obtain ⟨n0, t0, st, sz, li, sgn', f0, o0, mn0, mx0, un, rc⟩ := s
    simp only at hl hsg
    subst hl hsg
    rfl

theorem span_name_stop (name rest : Str) (h : isIdent name = true)
    (hrest : rest = [] ∨ ∃ c t, rest = c :: t ∧ (!isBlank c && c != ':') = false) :
    (name ++ rest).span (fun c => !isBlank c && c != ':') = (name, rest) := by
  apply span_append_of _ _ _ _ hrest
  intro c hc
  exact tokChar_of_identChar (isIdent_all h c hc)

/-- the hypotheses of the tail lemma, collected -/
structure TailOK (lx : SgLex) (nm : SgNums) (s : SgLine) (fa ofs mi ma : Dec) (pu pr : Nat) : Prop where
  hfa : strToDec nm.factor = some fa
  hof : strToDec nm.offset = some ofs
  hmi : strToDec nm.min = some mi
  hma : strToDec nm.max = some ma
  vfa : nm.factor ≠ [] ∧ ∀ c ∈ nm.factor, isNumChar c = true
  vof : nm.offset ≠ [] ∧ ∀ c ∈ nm.offset, isNumChar c = true
  vmi : nm.min ≠ [] ∧ ∀ c ∈ nm.min, isNumChar c = true
  vma : nm.max ≠ [] ∧ ∀ c ∈ nm.max, isNumChar c = true
  hpu : lx.preUnit = pu + 1
  hpr : lx.preRx = pr + 1
  hu : ∀ c ∈ s.unit, c ≠ '"'
  hne : s.receivers ≠ []
  hr : ∀ r ∈ s.receivers, isIdent r = true

theorem TailOK.parse {lx : SgLex} {nm : SgNums} {s : SgLine} {fa ofs mi ma : Dec} {pu pr : Nat}
    (t : TailOK lx nm s fa ofs mi ma pu pr) (name : Str) (tag : Tag) (cs : Bool) (k : Nat)
    (hcs : cs = true ∨ lx.postComma = 0) :
    parseSgTail name tag cs (sps k ++ sgTailLex lx nm s) =
      some { s with name := name, tag := tag, factor := fa, offset := ofs, min := mi, max := ma } :=
  parseSgTail_lex name tag cs k lx nm s fa ofs mi ma t.hfa t.hof t.hmi t.hma t.vfa t.vof t.vmi t.vma pu pr
    t.hpu t.hpr hcs t.hu t.hne t.hr

theorem sgTailLex_colon (lx : SgLex) (nm : SgNums) (s : SgLine) : ∃ tl, sgTailLex lx nm s = ':' :: tl := ⟨_, rfl⟩

theorem parseSg_plain_lex (k pc : Nat) (name : Str) {lx : SgLex} {nm : SgNums} {s : SgLine} {fa ofs mi ma : Dec}
    {pu pr : Nat} (t : TailOK lx nm s fa ofs mi ma pu pr) (hname : isIdent name = true) :
    parseSg ('S' :: 'G' :: '_' :: ' ' :: (sps k ++ (name ++ (sps pc ++ sgTailLex lx nm s)))) =
      some { s with name := name, tag := .none, factor := fa, offset := ofs, min := mi, max := ma } := by
  have hlast : LastOK ('S' :: 'G' :: '_' :: ' ' :: (sps k ++ (name ++ (sps pc ++ sgTailLex lx nm s)))) := by
    repeat (first | apply LastOK.cons | apply LastOK.append)
    exact LastOK.joinCommaSp _ _ t.hne t.hr
  have hq : (('S' :: 'G' :: '_' :: ' ' :: (sps k ++ (name ++ (sps pc ++ sgTailLex lx nm s)))).getLast? == some '"')
      = false := by
    simpa using hlast.ne_quote
  obtain ⟨tl, htl⟩ := sgTailLex_colon lx nm s
  have hsk : ∀ r, skipSp (sps k ++ (name ++ r)) = name ++ r := fun r =>
    skipSp_sps_app k name r (isIdent_ne_nil hname) (fun c hc => identChar_ne_space (isIdent_all hname c hc))
  have hspan : (name ++ (sps pc ++ sgTailLex lx nm s)).span (fun c => !isBlank c && c != ':') =
      (name, sps pc ++ sgTailLex lx nm s) := by
    apply span_name_stop _ _ hname
    rw [htl]
    exact sps_colon_stop _ (by decide) (by decide) pc tl
  have hcol : skipSp (sps pc ++ sgTailLex lx nm s) = ':' :: tl := by
    rw [htl]; exact skipSp_sps_cons pc ':' tl (by decide)
  obtain ⟨x, tn, hx⟩ := List.exists_cons_of_ne_nil (isIdent_ne_nil hname)
  unfold parseSg
  rw [lit_sg, lit_vec]
  simp only [hq, Bool.false_eq_true, if_false]
  simp only [startsWith, List.take, List.length, List.drop, skipSp_space, hsk, hspan, beq_self_eq_true, Bool.not_true]
  subst hx
  simp only [hcol]
  exact t.parse _ _ _ _ (Or.inl rfl)

theorem parseSg_tagged_lex (k nt pc : Nat) (name : Str) (c0 : Char) (tk : Str) (tag : Tag)
    {lx : SgLex} {nm : SgNums} {s : SgLine} {fa ofs mi ma : Dec}
    {pu pr : Nat} (t : TailOK lx nm s fa ofs mi ma pu pr) (hname : isIdent name = true)
    (htok : ∀ c ∈ c0 :: tk, (!isBlank c && c != ':') = true) (hpt : parseTag (c0 :: tk) = some tag)
    (hpc : lx.postComma = 0) :
    parseSg ('S' :: 'G' :: '_' :: ' ' :: (sps k ++ (name ++ ' ' :: (sps nt ++ ((c0 :: tk) ++ (sps pc ++ sgTailLex lx nm s)))))) =
      some { s with name := name, tag := tag, factor := fa, offset := ofs, min := mi, max := ma } := by
  have hlast : LastOK ('S' :: 'G' :: '_' :: ' ' :: (sps k ++ (name ++ ' ' :: (sps nt ++ ((c0 :: tk) ++
      (sps pc ++ sgTailLex lx nm s)))))) := by
    repeat (first | apply LastOK.cons | apply LastOK.append)
    exact LastOK.joinCommaSp _ _ t.hne t.hr
  have hq : (('S' :: 'G' :: '_' :: ' ' :: (sps k ++ (name ++ ' ' :: (sps nt ++ ((c0 :: tk) ++
      (sps pc ++ sgTailLex lx nm s)))))).getLast? == some '"') = false := by
    simpa using hlast.ne_quote
  have hc0 := htok c0 (by simp)
  have hc0s : c0 ≠ ' ' := by rintro rfl; revert hc0; decide
  have hc0c : c0 ≠ ':' := by rintro rfl; revert hc0; decide
  obtain ⟨tl, htl⟩ := sgTailLex_colon lx nm s
  have hsk : ∀ r, skipSp (sps k ++ (name ++ r)) = name ++ r := fun r =>
    skipSp_sps_app k name r (isIdent_ne_nil hname) (fun c hc => identChar_ne_space (isIdent_all hname c hc))
  have hspan : ∀ r, (name ++ ' ' :: r).span (fun c => !isBlank c && c != ':') = (name, ' ' :: r) := fun r =>
    span_name name r hname
  have hskt : ∀ r, skipSp (sps nt ++ (c0 :: tk ++ r)) = c0 :: (tk ++ r) := fun r =>
    skipSp_sps_cons nt c0 _ hc0s
  have hspant : (c0 :: (tk ++ (sps pc ++ sgTailLex lx nm s))).span (fun c => !isBlank c && c != ':') =
      (c0 :: tk, sps pc ++ sgTailLex lx nm s) := by
    rw [← List.cons_append]
    apply span_append_of _ _ _ htok
    rw [htl]
    exact sps_colon_stop _ (by decide) (by decide) pc tl
  obtain ⟨x, tn, hx⟩ := List.exists_cons_of_ne_nil (isIdent_ne_nil hname)
  unfold parseSg
  rw [lit_sg, lit_vec]
  simp only [hq, Bool.false_eq_true, if_false]
  simp only [startsWith, List.take, List.length, List.drop, skipSp_space, hsk, hspan, beq_self_eq_true, Bool.not_true]
  subst hx
  simp only [Bool.false_eq_true, if_false, skipSp_space, hskt]
  split
  · rename_i heq
    injection heq with h1 h2
    exact absurd h1 hc0c
  · rw [hspant]
    simp only [hpt, Option.bind_some]
    exact t.parse _ _ _ _ (Or.inr hpc)

/-- the tag token of a tagged line -/
theorem lexTag_tok (lx : SgLex) (tag : Tag) (htag : tag ≠ .none) (r : Str) :
    ∃ c0 tk, lexTag lx tag ++ r = sps lx.nameTag ++ ((c0 :: tk) ++ (sps lx.preColon ++ r)) ∧
      (∀ c ∈ c0 :: tk, (!isBlank c && c != ':') = true) ∧ parseTag (c0 :: tk) = some tag := by
  cases tag with
  | none => exact absurd rfl htag
  | muxer =>
    refine ⟨'M', [], ?_, ?_, parseTag_muxer⟩
    · simp only [lexTag, List.append_assoc, List.cons_append, List.nil_append]
    · intro c hc; simp at hc; subst hc; decide
  | val k =>
    refine ⟨'m', natDigits k, ?_, ?_, parseTag_val k⟩
    · simp only [lexTag, List.append_assoc, List.cons_append]
    · intro c hc
      rcases List.mem_cons.mp hc with rfl | hc
      · decide
      · exact tokChar_of_identChar (isDig_identChar (natDigits_allDig k c hc))
  | valMuxer k =>
    refine ⟨'m', natDigits k ++ ['M'], ?_, ?_, parseTag_valMuxer k⟩
    · simp only [lexTag, List.append_assoc, List.cons_append, List.nil_append]
    · intro c hc
      rcases List.mem_cons.mp hc with rfl | hc
      · decide
      · rcases List.mem_append.mp hc with hc | hc
        · exact tokChar_of_identChar (isDig_identChar (natDigits_allDig k c hc))
        · simp at hc; subst hc; decide

theorem lexOk_unpack {lx : SgLex} {nm : SgNums} {tag : Tag} (h : lexOk lx nm tag = true) :
    1 ≤ lx.kw ∧ 1 ≤ lx.preUnit ∧ 1 ≤ lx.preRx ∧ (tag = .none ∨ (1 ≤ lx.nameTag ∧ lx.postComma = 0)) ∧
      validNum nm.factor = true ∧ validNum nm.offset = true ∧ validNum nm.min = true ∧ validNum nm.max = true := by
  simpa [lexOk, and_assoc] using h

theorem stripWs_renderSgLex (lx : SgLex) (nm : SgNums) (s : SgLine) (hne : s.receivers ≠ [])
    (hr : ∀ r ∈ s.receivers, isIdent r = true) :
    stripWs (renderSgLex lx nm s) =
      'S' :: 'G' :: '_' :: (sps lx.kw ++ (s.name ++ (lexTag lx s.tag ++ sgTailLex lx nm s))) := by
  rw [renderSgLex_eq, stripWs_sps]
  apply stripWs_id_of _ 'S' rfl (by decide)
  repeat (first | apply LastOK.cons | apply LastOK.append)
  exact LastOK.joinCommaSp _ _ hne hr

theorem parseSg_renderSgLex (lx : SgLex) (nm : SgNums) (s : SgLine) (h : wfSg s = true)
    (hl : lexOk lx nm s.tag = true) : parseSg (stripWs (renderSgLex lx nm s)) = some (withNums nm s) := by
  obtain ⟨h1, h2, h3, h4⟩ := wfSg_unpack h
  obtain ⟨l1, l2, l3, l4, v1, v2, v3, v4⟩ := lexOk_unpack hl
  obtain ⟨n1, c1, fa, d1⟩ := validNum_unpack v1
  obtain ⟨n2, c2, ofs, d2⟩ := validNum_unpack v2
  obtain ⟨n3, c3, mi, d3⟩ := validNum_unpack v3
  obtain ⟨n4, c4, ma, d4⟩ := validNum_unpack v4
  obtain ⟨kw, hkw⟩ : ∃ kw, lx.kw = kw + 1 := ⟨lx.kw - 1, by omega⟩
  obtain ⟨pu, hpu⟩ : ∃ pu, lx.preUnit = pu + 1 := ⟨lx.preUnit - 1, by omega⟩
  obtain ⟨pr, hpr⟩ : ∃ pr, lx.preRx = pr + 1 := ⟨lx.preRx - 1, by omega⟩
  have t : TailOK lx nm s fa ofs mi ma pu pr :=
    ⟨d1, d2, d3, d4, ⟨n1, c1⟩, ⟨n2, c2⟩, ⟨n3, c3⟩, ⟨n4, c4⟩, hpu, hpr, h2, h3, h4⟩
  have hres : withNums nm s = { s with factor := fa, offset := ofs, min := mi, max := ma } := by
    simp only [withNums, d1, d2, d3, d4, Option.getD_some]
  rw [stripWs_renderSgLex lx nm s h3 h4, hkw, sps_succ, List.cons_append, hres]
  by_cases htag : s.tag = .none
  · rw [htag]
    simp only [lexTag]
    rw [parseSg_plain_lex kw lx.preColon s.name t h1, ← htag]
  · obtain ⟨l4a, l4b⟩ := l4.resolve_left htag
    obtain ⟨nt, hnt⟩ : ∃ nt, lx.nameTag = nt + 1 := ⟨lx.nameTag - 1, by omega⟩
    obtain ⟨c0, tk, e, ht, hp⟩ := lexTag_tok lx s.tag htag (sgTailLex lx nm s)
    rw [e, hnt, sps_succ, List.cons_append, parseSg_tagged_lex kw nt lx.preColon s.name c0 tk s.tag t h1 ht hp l4b]

theorem renderSg_lex_default (s : SgLine) :
    renderSg s = renderSgLex {} ⟨formatFloat s.factor, formatFloat s.offset, formatFloat s.min, formatFloat s.max⟩ s := by
  have e0 : ∀ r : Str, sps 0 ++ r = r := fun _ => rfl
  have e1 : ∀ r : Str, sps 1 ++ r = ' ' :: r := fun _ => rfl
  have e1' : sps 1 = [' '] := rfl
  rw [renderSg_eq, renderSgLex_eq]
  unfold sgTail sgTailLex
  simp only [e0, e1, joinCommaSp_zero]
  cases s.tag with
  | none => simp only [renderTag, lexTag, e1', List.nil_append, List.cons_append]
  | muxer => rw [renderTag, lit_M]; simp only [lexTag, e1', List.nil_append, List.cons_append]
  | val k => simp only [renderTag, lexTag, e1', List.nil_append, List.cons_append, List.append_assoc]
  | valMuxer k =>
    rw [renderTag, lit_M]; simp only [lexTag, e1', List.nil_append, List.cons_append, List.append_assoc]

/-! ## the `BO_` statement with free spacing -/

theorem renderBoLex_eq (lx : BoLex) (b : BoLine) :
    renderBoLex lx b = 'B' :: 'O' :: '_' :: (sps lx.kw ++ (natDigits b.id ++ (sps lx.idName ++ (b.name ++
      (sps lx.preColon ++ ':' :: (sps lx.postColon ++ (natDigits b.size ++ (sps lx.preTx ++ b.transmitter)))))))) := by
  unfold renderBoLex
  rw [lit_bo3]
  simp only [List.append_assoc, List.cons_append, List.nil_append]

theorem parseBo_renderBoLex (lx : BoLex) (b : BoLine) (h : wfBo b = true) (hl : boLexOk lx = true) :
    parseBo (stripWs (renderBoLex lx b)) = some b := by
  obtain ⟨h1, h2⟩ := wfBo_unpack h
  have hl' : 1 ≤ lx.kw ∧ 1 ≤ lx.idName ∧ 1 ≤ lx.preTx := by simpa [boLexOk, and_assoc] using hl
  obtain ⟨k1, e1⟩ : ∃ k, lx.kw = k + 1 := ⟨lx.kw - 1, by omega⟩
  obtain ⟨k2, e2⟩ : ∃ k, lx.idName = k + 1 := ⟨lx.idName - 1, by omega⟩
  obtain ⟨k5, e5⟩ : ∃ k, lx.preTx = k + 1 := ⟨lx.preTx - 1, by omega⟩
  have hs : stripWs (renderBoLex lx b) = renderBoLex lx b := by
    rw [renderBoLex_eq]
    apply stripWs_id_of _ 'B' rfl (by decide)
    repeat (first | apply LastOK.cons | apply LastOK.append)
    exact LastOK.of_isIdent h2
  rw [hs, renderBoLex_eq, e1, e2, e5, sps_succ, sps_succ, sps_succ]
  simp only [List.cons_append]
  exact parseBo_lex_core k1 k2 lx.preColon lx.postColon k5 _ _ _ _ b.id b.size (natDigits_ne_nil _)
    (fun c hc => isDig_ne_space (natDigits_allDig _ c hc))
    (isIdent_ne_nil h1) (fun c hc => ⟨identChar_ne_space (isIdent_all h1 c hc), identChar_ne_colon (isIdent_all h1 c hc)⟩)
    (natDigits_ne_nil _) (fun c hc => isDig_ne_space (natDigits_allDig _ c hc))
    (isIdent_ne_nil h2) (fun c hc => identChar_ne_space (isIdent_all h2 c hc))
    (digitsToNat_natDigits' _) (digitsToNat_natDigits' _)

end CanVerif.Dbc
