/-!
# Model of `fnmatch.fnmatchcase` for the pattern language `*`, `?`, `[seq]`, `[!seq]`, `[a-z]`

Python translates the pattern to a regular expression; a `[` that is never closed is a literal `[`.
A `]` directly after `[` or `[!` belongs to the class.
-/
namespace CanVerif

/-- parse a bracket class starting after `[`; returns (negated, items, rest after `]`) or none if unclosed -/
def parseClassBody : List Char → List Char → Option (List Char × List Char)
  | [], _ => none
  | ']' :: rest, acc => if acc.isEmpty then parseClassBody rest [']'] else some (acc.reverse, rest)
  | c :: rest, acc => parseClassBody rest (c :: acc)

def classMatches : List Char → Char → Bool
  | a :: '-' :: b :: rest, c => (a ≤ c && c ≤ b) || classMatches rest c
  | a :: rest, c => a == c || classMatches rest c
  | [], _ => false

def globMatchAux : Nat → List Char → List Char → Bool
  | 0, _, _ => false
  | _ + 1, [], s => s.isEmpty
  | fuel + 1, '*' :: p, s =>
    globMatchAux fuel p s || (match s with
      | [] => false
      | _ :: t => globMatchAux fuel ('*' :: p) t)
  | fuel + 1, '?' :: p, s =>
    match s with
    | [] => false
    | _ :: t => globMatchAux fuel p t
  | fuel + 1, '[' :: p, s =>
    let (neg, body) := match p with
      | '!' :: q => (true, q)
      | q => (false, q)
    match parseClassBody body [] with
    | none =>
      -- unclosed: literal '['
      (match s with
       | c :: t => c == '[' && globMatchAux fuel p t
       | [] => false)
    | some (items, rest) =>
      match s with
      | [] => false
      | c :: t => (classMatches items c != neg) && globMatchAux fuel rest t
  | fuel + 1, c :: p, s =>
    match s with
    | [] => false
    | d :: t => c == d && globMatchAux fuel p t

/-- `fnmatch.fnmatchcase(name, pattern)` -/
def globMatch (pattern name : String) : Bool :=
  let p := pattern.toList
  let s := name.toList
  globMatchAux (2 * (p.length + s.length) + 2) p s

end CanVerif
