"""C16 - layout utilities agree with the codec: usage map, dummies, length, compress."""
import signal as pysignal

import canmatrix.canmatrix as cm
from lib import frames as F

PID = "C16"
EXTRA_PROPS = ("C16L",)
RULE = ("ops: layout (frame 1..64 bytes, 0..8 in-frame signals, Intel/Motorola mixed, overlaps allowed) ; dummies (same frames, "
        "non-overlapping and overlapping) ; dlc (declared length 0..64, signals anywhere, strategy max/force) ; fit (every length 0..70 "
        "x FD flag) ; compress (frames whose signals share one byte order and do not overlap, random gaps; mixed frames as a no-op "
        "check). Exhaustive part: every gap pattern of frames <= 2 bytes built from 1..4 Motorola or Intel signals (quick: 1 byte). "
        "For dlc the frame stands in a matrix among 0..3 other frames. "
        "case 'dummies2' = pad, take the first signal out, pad again. Non-trivial = distinct case with at least one signal and (for compress/dummies) at least one gap.")
EXHAUSTIVE = {"quick": False, "thorough": False}
PARTIAL = ["compress: the theorems (compress_big_*, compress_little_*) are about frames of one byte order with disjoint, uniquely named "
           "signals inside the frame; termination of the two Python while-loops is the model's fuel bound (proved sufficient) plus a "
           "wall-clock guard on the implementation",
           "PDU-container frames (calc_dlc adds PDU sizes) are not modelled"]
ASSUMPTIONS = ["signals lie inside the frame for layout/dummies/compress", "compress: one byte order, no overlap"]
TRUSTED = ["itertools grouper/chain semantics as modelled by reverseGroups"]
CORRESPONDENCE = "Frame.get_frame_layout/create_dummy_signals/calc_dlc/fit_dlc/compress, CanMatrix.recalc_dlc/set_fd_type == Model/Layout.lean"


def sd5(d):
    return d


def gen_frame(rng, disjoint, maxn=8, order=None, sizes=None):
    n = rng.choice(sizes or F.ALL_LENGTHS)
    if disjoint:
        sigs = F.rand_disjoint_sigs(rng, n, maxn=maxn, allow_float=False)
    else:
        sigs = [F.rand_sig(rng, "s%d" % k, n, allow_float=False) for k in range(rng.randint(0, maxn))]
    if order is not None:
        # re-place with one byte order, keeping disjointness
        used = set()
        out = []
        for d in sigs:
            for _ in range(10):
                c = F.rand_sig(rng, d[0], n, allow_float=False)
                c[3] = order
                a = set(F.sig_addrs(c[3], c[1], c[2]))
                if not (a & used):
                    used |= a
                    out.append(c)
                    break
        sigs = out
    return {"size": n, "sigs": sigs}


def gen(rng, tier, shard, nshards):
    total = {"quick": 8000, "thorough": 120000}[tier] // nshards
    for _ in range(total):
        k = rng.random()
        if k < 0.25:
            yield {"op": "layout", "c": {"f": gen_frame(rng, rng.random() < 0.5)}}
        elif k < 0.5:
            yield {"op": "dummies" if rng.random() < 0.7 else "dummies2", "c": {"f": gen_frame(rng, rng.random() < 0.8, sizes=[1, 2, 3, 4, 8, 8, 12, 64]), "name": "Fr"}}
        elif k < 0.7:
            n = rng.randint(1, 64)
            fd = {"size": rng.choice([0, rng.randint(0, 64), n]),
                  "sigs": [F.rand_sig(rng, "s%d" % j, n, allow_float=False) for j in range(rng.randint(0, 6))]}
            # the frame stands in a matrix among other frames (each frame's length is its own business)
            def other():
                m = rng.randint(1, 64)
                return {"size": rng.choice([0, rng.randint(0, 64), m]), "sigs": [F.rand_sig(rng, "o%d" % j, m, allow_float=False) for j in range(rng.randint(0, 3))]}
            yield {"op": "dlc", "c": {"f": fd, "strategy": rng.choice(["max", "force"]),
                                      "before": [other() for _ in range(rng.choice([0, 0, 1, 2]))], "after": [other() for _ in range(rng.choice([0, 0, 1]))]}}
        else:
            order = rng.random() < 0.5
            fd = gen_frame(rng, True, maxn=6, order=order, sizes=[1, 2, 3, 4, 8, 8, 8, 12, 16])
            if rng.random() < 0.08 and len(fd["sigs"]) >= 2:
                fd["sigs"][0][3] = not fd["sigs"][0][3]   # mixed byte orders: compress must leave it alone ... or overlap; checked as no-op only if still disjoint
                used = set()
                ok = True
                for d in fd["sigs"]:
                    a = set(F.sig_addrs(d[3], d[1], d[2]))
                    ok = ok and not (a & used)
                    used |= a
                if not ok:
                    continue
            yield {"op": "compress", "c": {"f": fd}}
    if shard == 0:
        for n in range(0, 71):
            for fdflag in (False, True):
                yield {"op": "fit", "c": [n, fdflag]}
        # every gap pattern of small frames: choose which bits are covered, cut the covered runs into signals
        nbytes_list = [1] if tier == "quick" else [1, 2]
        for nbytes in nbytes_list:
            nbits = 8 * nbytes
            step = 1 if nbytes == 1 else 37
            for mask in range(0, 1 << nbits, step):
                for little in (False, True):
                    sigs = []
                    j = 0
                    while j < nbits:
                        if (mask >> j) & 1:
                            k = j
                            while k < nbits and (mask >> k) & 1 and k - j < 5:
                                k += 1
                            sigs.append(F.sigdesc("s%d" % len(sigs), j, k - j, little, False))
                            j = k
                        else:
                            j += 1
                    fd = {"size": nbytes, "sigs": sigs}
                    yield {"op": "dummies", "c": {"f": fd, "name": "G"}}
                    if len(sigs) <= 4:
                        yield {"op": "compress", "c": {"f": fd}}
                        yield {"op": "layout", "c": {"f": fd}}


def neighbours(case, rng, shard, nshards):
    for _ in range(150 // nshards + 1):
        if case["op"] == "fit":
            yield {"op": "fit", "c": [rng.randint(0, 70), rng.random() < 0.5]}
        elif case["op"] == "compress":
            yield {"op": "compress", "c": {"f": gen_frame(rng, True, maxn=5, order=rng.random() < 0.5, sizes=[1, 2, 3, 4, 8])}}
        elif case["op"] == "dlc":
            n = rng.randint(1, 64)
            yield {"op": "dlc", "c": {"f": {"size": rng.randint(0, 64), "sigs": [F.rand_sig(rng, "s%d" % j, n, allow_float=False) for j in range(rng.randint(0, 4))]},
                                     "strategy": case["c"]["strategy"]}}
        else:
            yield {"op": case["op"], "c": dict(case["c"], f=gen_frame(rng, True, sizes=[1, 2, 3, 4, 8]))}


class Timeout(Exception):
    pass


def _alarm(signum, frame):
    raise Timeout()


def sig5(s):
    return [s.name, s.start_bit, s.size, bool(s.is_little_endian), bool(s.is_signed)]


def observe(case):
    op, c = case["op"], case["c"]
    if op == "fit":
        fr = cm.Frame("F", arbitration_id=cm.ArbitrationId(1, False), size=c[0], is_fd=c[1])
        db = cm.CanMatrix()
        db.add_frame(fr)
        db.set_fd_type()
        fd = fr.is_fd
        fr.fit_dlc()
        return [fr.size, bool(fd)]
    fr = F.mkframe(c["f"], name=c.get("name", "F"))
    if op == "layout":
        return [[s.name for s in cell] for cell in fr.get_frame_layout()]
    if op == "dummies":
        fr.create_dummy_signals()
        return [sig5(s) for s in fr.signals]
    if op == "dummies2":
        fr.create_dummy_signals()
        if fr.signals:
            fr.signals.pop(0)
        mid = [sig5(s) for s in fr.signals]
        fr.create_dummy_signals()
        return {"mid": mid, "after": [sig5(s) for s in fr.signals]}
    if op == "dlc":
        db = cm.CanMatrix()
        k = 0
        for od in c.get("before", []):
            k += 1
            db.add_frame(F.mkframe(od, name="O%d" % k, arbid=0x700 + k))
        db.add_frame(fr)
        for od in c.get("after", []):
            k += 1
            db.add_frame(F.mkframe(od, name="O%d" % k, arbid=0x700 + k))
        db.recalc_dlc(c["strategy"])
        return fr.size
    if op == "compress":
        old = pysignal.signal(pysignal.SIGALRM, _alarm)
        pysignal.setitimer(pysignal.ITIMER_REAL, 5.0)
        try:
            fr.compress()
        except Timeout:
            return {"err": "diverges"}
        finally:
            pysignal.setitimer(pysignal.ITIMER_REAL, 0)
            pysignal.signal(pysignal.SIGALRM, old)
        return {"ok": [sig5(s) for s in fr.signals]}


def project(impl):
    return impl


def features(case, impl):
    yield "op=" + case["op"]
    if case["op"] == "fit":
        return
    f = case["c"]["f"]
    yield "%s:nsigs=%s" % (case["op"], len(f["sigs"]) if len(f["sigs"]) < 4 else "4+")
    orders = {s[3] for s in f["sigs"]}
    yield "%s:%s" % (case["op"], "mixed" if len(orders) == 2 else "intel" if orders == {True} else "motorola" if orders else "empty")
    if case["op"] == "compress" and "ok" in impl:
        moved = any(a[1] != b[1] for a, b in zip(f["sigs"], impl["ok"]))
        yield "compress:" + ("moved" if moved else "already-packed")
    if case["op"] == "dummies":
        yield "dummies:added=%s" % min(len(impl) - len(f["sigs"]), 3)


def nontrivial(case, impl):
    if case["op"] == "fit":
        return True
    return len(case["c"]["f"]["sigs"]) > 0


def shrink_candidates(case):
    if case["op"] == "fit":
        return
    c = case["c"]
    f = c["f"]
    for i in range(len(f["sigs"])):
        yield {"op": case["op"], "c": dict(c, f=dict(f, sigs=f["sigs"][:i] + f["sigs"][i + 1:]))}
