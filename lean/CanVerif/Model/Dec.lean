/-!
# Model of Python's `decimal` arithmetic in the default context (prec = 28, ROUND_HALF_EVEN)
and of canmatrix's physical scaling (canmatrix.py: Signal.raw2phys ~463, phys2raw ~426,
calculate_raw_range ~368, calc_min/calc_max ~401/420, DecodedSignal.phys_value/named_value ~540)

A decimal is `(-1)^neg · coeff · 10^exp`.  Integer-only transcription of the General Decimal
Arithmetic rules that libmpdec implements (DESIGN appendix A.5), validated against the `decimal`
module by the correspondence check (operations `dec_*`).
-/
namespace CanVerif

structure Dec where
  neg : Bool
  coeff : Nat
  exp : Int
  deriving Repr, DecidableEq, Inhabited

def PREC : Nat := 28

/-- number of decimal digits (`len(str(c))`, 1 for 0) -/
def ndAux : Nat → Nat → Nat
  | 0, _ => 1
  | fuel + 1, c => if c < 10 then 1 else ndAux fuel (c / 10) + 1

/-- (structural recursion with fuel `c`, enough because `c / 10 < c` for `c ≥ 10`; reduces in the kernel) -/
def nd (c : Nat) : Nat := ndAux c c

namespace Dec

def ofInt (i : Int) : Dec := { neg := i < 0, coeff := i.natAbs, exp := 0 }

/-- context rounding of a result: at most 28 digits, half-even -/
def fix (neg : Bool) (c : Nat) (e : Int) : Dec :=
  if c = 0 then ⟨neg, 0, e⟩
  else
    let d := nd c
    if d ≤ PREC then ⟨neg, c, e⟩
    else
      let k := d - PREC
      let q := c / 10 ^ k
      let r := c % 10 ^ k
      let half := 5 * 10 ^ (k - 1)
      let q1 := if r > half || (r == half && q % 2 == 1) then q + 1 else q
      let e1 := e + (k : Int)
      if nd q1 > PREC then ⟨neg, q1 / 10, e1 + 1⟩ else ⟨neg, q1, e1⟩

def mul (a b : Dec) : Dec := fix (a.neg != b.neg) (a.coeff * b.coeff) (a.exp + b.exp)

/-- signed coefficient aligned to exponent `e` (`e ≤ a.exp`) -/
def aligned (a : Dec) (e : Int) : Int :=
  let m : Int := (a.coeff : Int) * (10 : Int) ^ (a.exp - e).toNat
  if a.neg then -m else m

def add (a b : Dec) : Dec :=
  let e := min a.exp b.exp
  let s := aligned a e + aligned b e
  if s = 0 then fix (a.neg && b.neg) 0 e
  else fix (s < 0) s.natAbs e

def sub (a b : Dec) : Dec := add a { b with neg := !b.neg }

/-- strip trailing zeros of an exact quotient up to the ideal exponent -/
def reduceExact : Nat → Nat → Int → Int → Nat × Int
  | 0, q, e, _ => (q, e)
  | fuel + 1, q, e, ideal => if e < ideal && q % 10 == 0 && q != 0 then reduceExact fuel (q / 10) (e + 1) ideal else (q, e)

/-- division (`b.coeff ≠ 0`) -/
def div (a b : Dec) : Dec :=
  let neg := a.neg != b.neg
  if a.coeff = 0 then ⟨neg, 0, a.exp - b.exp⟩
  else
    let shift : Int := (nd b.coeff : Int) - (nd a.coeff : Int) + (PREC : Int) + 1
    let e : Int := a.exp - b.exp - shift
    let (q, r) :=
      if shift ≥ 0 then ((a.coeff * 10 ^ shift.toNat) / b.coeff, (a.coeff * 10 ^ shift.toNat) % b.coeff)
      else (a.coeff / (b.coeff * 10 ^ (-shift).toNat), a.coeff % (b.coeff * 10 ^ (-shift).toNat))
    if r != 0 then
      fix neg (if q % 5 == 0 then q + 1 else q) e
    else
      let (q', e') := reduceExact (nd q + 1) q e (a.exp - b.exp)
      fix neg q' e'

/-- `int(round(d))`: round half even to an integer -/
def roundInt (a : Dec) : Int :=
  let v : Nat :=
    if a.exp ≥ 0 then a.coeff * 10 ^ a.exp.toNat
    else
      let p := 10 ^ (-a.exp).toNat
      let q := a.coeff / p
      let r := a.coeff % p
      let half := 5 * 10 ^ ((-a.exp).toNat - 1)
      if r > half || (r == half && q % 2 == 1) then q + 1 else q
  if a.neg then -(v : Int) else (v : Int)

/-- numeric comparison `a == b` of decimals (used by the named-value lookup) -/
def eqInt (a : Dec) (i : Int) : Bool :=
  let e := min a.exp 0
  aligned a e == i * (10 : Int) ^ (0 - e).toNat

end Dec

/-- what scaling needs to know about a signal -/
structure ScaleSig where
  size : Nat
  signed : Bool
  factor : Dec
  offset : Dec
  values : List (Int × String) := []     -- value table in insertion order
  deriving Repr, Inhabited

/-- the `factor` converter: `0` is normalised to `1` -/
def normFactor (f : Dec) : Dec := if f.coeff = 0 then ⟨false, 1, 0⟩ else f

/-- `Signal.raw2phys(raw)` for an integer signal -/
def ScaleSig.raw2phys (s : ScaleSig) (raw : Int) : Dec := Dec.add (Dec.mul (Dec.ofInt raw) s.factor) s.offset

/-- `Signal.phys2raw(value)` for a numeric value -/
def ScaleSig.phys2raw (s : ScaleSig) (value : Dec) : Int := (Dec.div (Dec.sub value s.offset) s.factor).roundInt

/-- `Signal.phys2raw(label)`: the first key whose label matches -/
def ScaleSig.labelToRaw (s : ScaleSig) (label : String) : Option Int := (s.values.find? (·.2 == label)).map (·.1)

/-- `DecodedSignal.named_value`: the label if some key equals the raw value, else the scaled number -/
def ScaleSig.namedValue (s : ScaleSig) (raw : Int) : Sum String Dec :=
  match s.values.find? (·.1 == raw) with
  | some kv => .inl kv.2
  | none => .inr (s.raw2phys raw)

/-- `calculate_raw_range` -/
def ScaleSig.rawRange (s : ScaleSig) : Int × Int :=
  let sz := if s.size ≤ 128 then s.size else 128
  let r : Int := (2 : Int) ^ (sz - (if s.signed then 1 else 0))
  (if s.signed then -r else 0, r - 1)

/-- `calc_min` / `calc_max`: `offset + Decimal(raw) * factor` -/
def ScaleSig.calcMin (s : ScaleSig) : Dec := Dec.add s.offset (Dec.mul (Dec.ofInt s.rawRange.1) s.factor)
def ScaleSig.calcMax (s : ScaleSig) : Dec := Dec.add s.offset (Dec.mul (Dec.ofInt s.rawRange.2) s.factor)

end CanVerif
