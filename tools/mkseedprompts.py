#!/usr/bin/env python3
"""tools/mkseedprompts.py <round> <outdir> <template-dir>: prompts for the next round of seeded changes.  A prompt holds the text of
one property and the summaries of the changes already kept for it (so that the sub-agent looks elsewhere) - nothing about how the
checks work.  Built from the previous round's prompt by renumbering."""
import json, os, re, sys
rnd, outdir, tdir = int(sys.argv[1]), sys.argv[2], sys.argv[3]
a, b = 2 * rnd - 1, 2 * rnd
os.makedirs(outdir, exist_ok=True)
for k in range(1, 21):
    pid = "C%02d" % k
    t = open(os.path.join(tdir, pid + ".txt")).read()
    prev_round = int(re.search(r"/tmp/wt(\d+)-", t).group(1))
    pa, pb = 2 * prev_round - 1, 2 * prev_round
    t = t.replace("/tmp/wt%d-" % prev_round, "/tmp/wt%d-" % rnd)
    t = re.sub(r"\bm%d\b" % pa, "m%d" % a, t)
    t = re.sub(r"\bm%d\b" % pb, "m%d" % b, t)
    t = t.replace("(%d,%d)" % (pa, pb), "(%d,%d)" % (a, b))
    extra = []
    for m in (pa, pb):
        p = os.path.join("/verif/seeded", "%s-m%d" % (pid, m), "meta.json")
        if os.path.exists(p):
            s = (json.load(open(p)).get("summary") or "").replace("\n", " ")
            extra.append("- " + s[:330])
    marker = "\n\n\nPython to use:"
    assert marker in t, pid
    t = t.replace(marker, "\n" + "\n".join(extra) + marker, 1)
    open(os.path.join(outdir, pid + ".txt"), "w").write(t)
print("written", outdir)
