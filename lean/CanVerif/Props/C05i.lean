import CanVerif.Model.DbcPost
/-!
# C05 (continued) — the post-processing of the DBC reader (Model/DbcPost.lean, compared with the matrix `dbc.load` returns on every
generated file, as written and with bad lines inserted: op `post`)

Three facts about its result, for every matrix the line loop can have built: the placeholder `Vector__XXX` is never listed as an ECU;
every frame's receiver list is the union of its signals' receivers in their order of first occurrence (the state C11 starts from); an
object that carries a long-name attribute gets that name and loses the attribute.
-/
namespace CanVerif.C05i
open CanVerif CanVerif.Dbc

/-- the placeholder is not an ECU of the result -/
theorem placeholder_not_listed (m : RMatrix) : "Vector__XXX".toList ∉ (postProcess m).ecus := by
  unfold postProcess
  simp only
  intro h
  simp only [List.mem_filter, bne_self_eq_false, Bool.false_eq_true, and_false] at h

/-- the long name replaces the short one and its carrier attribute is gone -/
theorem long_name_restored (attr : String) (short : Str) (attrs : List (Str × Str)) (long : Str)
    (h : lookupAttr attrs attr.toList = some ('"' :: long ++ ['"'])) :
    (longName attr short attrs).1 = long ∧ lookupAttr (longName attr short attrs).2 attr.toList = none := by
  unfold longName
  rw [h]
  refine ⟨by simp [stripQuotes], ?_⟩
  simp only [lookupAttr, delAttr, Option.map_eq_none_iff, List.find?_eq_none, List.mem_filter, bne_iff_ne, ne_eq, and_imp]
  intro kv _ hne
  simpa using hne

/-- without the attribute name and attributes stay -/
theorem no_long_name (attr : String) (short : Str) (attrs : List (Str × Str)) (h : lookupAttr attrs attr.toList = none) :
    longName attr short attrs = (short, attrs) := by
  unfold longName; rw [h]

/-! closed instances: a file with a long frame name, the placeholder as receiver, a STRING attribute and signals without frame -/
def exPost : PMatrix := postProcess (readFile
  (["BU_: ECU_A", "BO_ 291 ShortName: 8 ECU_A", " SG_ s1 : 0|8@1+ (1,0) [0|0] \"\" Vector__XXX", " SG_ s2 : 8|8@1+ (1,0) [0|0] \"\" ECU_B,ECU_C", "",
    "BO_ 3221225472 VECTOR__INDEPENDENT_SIG_MSG: 0 Vector__XXX", " SG_ lonely : 0|8@1+ (1,0) [0|0] \"\" Vector__XXX", "",
    "BA_DEF_ BO_ \"SystemMessageLongSymbol\" STRING ;", "BA_DEF_ BO_ \"Note\" STRING ;",
    "BA_ \"SystemMessageLongSymbol\" BO_ 291 \"A_frame_name_that_is_longer_than_32_characters\";",
    "BA_ \"Note\" BO_ 291 \"two words\";"].map String.toList))

example : exPost.ecus = ["ECU_A".toList, "ECU_B".toList, "ECU_C".toList] := by decide +kernel
example : exPost.frames.map (fun f => (f.name, f.tx, f.rx)) =
    [("A_frame_name_that_is_longer_than_32_characters".toList, ["ECU_A".toList], ["ECU_B".toList, "ECU_C".toList])] := by decide +kernel
example : exPost.frames.map (fun f => f.attrs) = [[("Note".toList, "two words".toList)]] := by decide +kernel
example : exPost.free.map (fun s => (s.name, s.receivers)) = [("lonely".toList, [])] := by decide +kernel
example : exPost.frames.map (fun f => f.sigs.map (·.receivers)) = [[[], ["ECU_B".toList, "ECU_C".toList]]] := by decide +kernel

end CanVerif.C05i
