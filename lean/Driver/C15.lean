import Driver.J
import Driver.C05
import CanVerif.Model.DbcText
import CanVerif.Spec.DbcRT
open Lean CanVerif CanVerif.Dbc

namespace D15

/-- which parts of a description a format can carry (the property's feature list per format) -/
def carries (fmt key : String) : Bool :=
  match fmt with
  | "dbc" => true
  | "json" => !["attrs", "group"].contains key
  | "kcd" => !["attrs", "group"].contains key
  | "sym" => !["transmitters", "receivers", "attrs", "group"].contains key
  | "dbf" => !["group", "cycle", "min", "max"].contains key
  | "arxml" => !["attrs", "group"].contains key
  | _ => false

def sortedStrs (j : Json) : Except String (List String) := do
  let l ← J.strList j
  pure (l.toArray.qsort (· < ·)).toList

def getK (j : Json) (k : String) : Json := J.keyD j k Json.null

/-- first difference between the described frame and the frame that was read, if any -/
def frameDiff (fmt : String) (desc got : Json) : Except String (Option String) := do
  let mut bad : Option String := none
  let note (b : Option String) (msg : String) : Option String := match b with | some x => some x | none => some msg
  for k in ["name", "size", "comment", "cycle", "attrs", "group"] do
    if carries fmt k && getK desc k != getK got k then bad := note bad s!"frame {k} differs"
  if carries fmt "transmitters" then
    let d ← J.strList (getK desc "transmitters")
    let g ← J.strList (getK got "transmitters")
    let g := g.filter (· != "Vector__XXX")
    -- DBF carries one sender; ARXML and KCD carry a set
    let ok := if fmt == "dbf" then d.take 1 == g.take 1
      else if fmt == "arxml" || fmt == "kcd" || fmt == "json" then (d.toArray.qsort (· < ·)) == (g.toArray.qsort (· < ·))
      else d == g
    if !ok then bad := note bad "senders differ"
  let ds ← J.arr (getK desc "signals")
  let gs ← J.arr (getK got "signals")
  if ds.length != gs.length then bad := note bad "number of signals differs"
  for s in ds do
    let n := getK s "name"
    match gs.find? (fun g => getK g "name" == n) with
    | none => bad := note bad s!"signal {n} missing"
    | some g =>
      let isFloat := getK s "float" == Json.bool true
      for k in ["start", "size", "little", "float", "factor", "offset", "unit", "mux", "values", "comment", "attrs"] do
        if carries fmt k && getK s k != getK g k then bad := note bad s!"signal {n}: {k} differs"
      if !isFloat && getK s "signed" != getK g "signed" then bad := note bad s!"signal {n}: signed differs"
      if fmt == "dbc" then
        for k in ["muxval", "grp", "muxer_for"] do
          if getK s k != getK g k then bad := note bad s!"signal {n}: {k} differs (extended multiplexing)"
      for k in ["min", "max"] do
        if carries fmt k && !J.isNull (getK s k) && getK s k != getK g k then bad := note bad s!"signal {n}: {k} differs"
      if carries fmt "receivers" then
        if (← sortedStrs (getK s "receivers")) != (← sortedStrs (getK g "receivers")) then bad := note bad s!"signal {n}: receivers differ"
  pure bad

def decJopt (d : Option Dec) : Json := match d with | some x => D05.decJ x | none => .null

/-- ops:
"read": c = {"fmt", "desc": frame normal form described}; i = {"got": frame normal form | null, "exc": text|null, "errors": n}
"ecus": c = {"fmt", "ecus": [names]}; i = {"ecus": [names], "exc": ..}
"sgx" / "box": c = {"line": text}; i = {"parsed": statement record | null}   (lexical variants through the Lean tokenizers)
"num": c = {"text": t}; i = {"value": [neg, coeff, exp] | null} -/
def handle (op : String) (c i : Json) : Except String (Json × String) := do
  match op with
  | "read" =>
    let fmt ← J.str (← J.key c "fmt")
    let desc ← J.key c "desc"
    if !J.isNull (getK i "exc") then return (J.obj [], "fail: reading the file raised")
    let errs ← J.nat (J.keyD i "errors" (J.ofNat 0))
    if errs != 0 then return (J.obj [], "fail: the reader reported errors for a well-formed file")
    let got := getK i "got"
    if J.isNull got then return (J.obj [], "fail: the described frame (identifier and format) is missing")
    match ← frameDiff fmt desc got with
    | some msg => pure (J.obj [], "fail: " ++ msg)
    | none => pure (J.obj [], "ok")
  | "ecus" =>
    if !J.isNull (getK i "exc") then return (J.obj [], "fail: reading the file raised")
    let want ← J.strList (← J.key c "ecus")
    let got ← J.strList (getK i "ecus")
    pure (J.obj [], if want.all got.contains then "ok" else "fail: a described ECU is missing")
  | "defs" =>
    -- c = {"want": level -> name -> [type, parameters, default]}; i = {"got": the same from the matrix read, "exc"}
    if !J.isNull (getK i "exc") then return (J.obj [], "fail: reading the file raised")
    let want ← J.key c "want"
    let got := getK i "got"
    let lv := ["frame", "signal", "ecu", "global"]
    let bad ← lv.filterMapM fun l => do
      let w ← J.key want l
      let g := J.keyD got l (J.obj [])
      match w with
      | .obj kvs =>
        let miss := kvs.toList.filterMap fun (name, v) =>
          match g.getObjVal? name with
          | .ok gv => if gv == v then none else some s!"attribute definition {name} ({l}): type, parameters or default differ from the described ones"
          | .error _ => some s!"attribute definition {name} ({l}) is missing"
        pure miss.head?
      | _ => pure none
    pure (J.obj [], match bad with
      | [] => "ok"
      | b :: _ => "fail: " ++ b)
  | "sgx" =>
    let line ← J.str (← J.key c "line")
    pure (J.obj [("parsed", D05.optJ D05.sgJ (parseSg (stripWs line.toList)))], "ok")
  | "box" =>
    let line ← J.str (← J.key c "line")
    pure (J.obj [("parsed", D05.optJ D05.boJ (parseBo (stripWs line.toList)))], "ok")
  | "num" =>
    let t ← J.str (← J.key c "text")
    pure (J.obj [("value", decJopt (strToDec t.toList))], "ok")
  | _ => throw s!"C15: unknown op {op}"

end D15
