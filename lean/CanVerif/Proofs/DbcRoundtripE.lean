import CanVerif.Proofs.DbcRoundtrip
/-!
# The core round trip with the ECUs of the file: the `BU_:` line and the comments of the ECUs
-/
namespace CanVerif.Dbc.FileProofs
open CanVerif CanVerif.Dbc

/-- statements that leave the frames alone: the list of ECUs and the comments of ECUs -/
def isEcuItem : Item → Bool
  | .bu _ => true
  | .cm (.bu _) _ => true
  | _ => false

theorem ecuItem_frames (m : RMatrix) (it : Item) (h : isEcuItem it = true) : (applyItem m it).frames = m.frames := by
  cases it with
  | bu names => rfl
  | cm hd text =>
    cases hd with
    | bu name =>
      simp only [applyItem, Item.frameNo, applyCore]
      split <;> rfl
    | _ => simp [isEcuItem] at h
  | _ => simp [isEcuItem] at h

theorem ecuItem_upd (it : Item) (h : isEcuItem it = true) (f : RFrame) : itemUpd it f = f := by
  cases it with
  | bu names => rfl
  | cm hd text =>
    cases hd with
    | bu name => rfl
    | _ => simp [isEcuItem] at h
  | _ => simp [isEcuItem] at h

/-- frames after a sequence of statements about frames, signals and ECUs -/
theorem frames_after_items' (its : List Item) (m : RMatrix) (hu : KeysUnique m)
    (hall : ∀ it ∈ its, (itemFrameUpd it).isSome = true ∨ isEcuItem it = true) :
    (its.foldl applyItem m).frames = m.frames.map fun f => its.foldl (fun acc it => itemUpd it acc) f := by
  induction its generalizing m with
  | nil => simp
  | cons it its ih =>
    simp only [List.foldl_cons]
    have h1 : (applyItem m it).frames = m.frames.map (itemUpd it) := by
      rcases hall it (by simp) with h | h
      · exact applyItem_frames' m hu it h
      · rw [ecuItem_frames m it h]
        rw [List.map_congr_left (g := id) (fun f _ => ecuItem_upd it h f)]
        simp
    have hu' : KeysUnique (applyItem m it) := by
      apply keysUnique_of_keys m _ _ hu
      rw [h1, List.map_map]
      apply List.map_congr_left
      intro f _
      exact itemUpd_key it f
    rw [ih (applyItem m it) hu' (fun x hx => hall x (List.mem_cons_of_mem _ hx)), h1, List.map_map]
    rfl

/-- the ECUs after the list of ECUs and their comments; statements about frames and signals leave them alone -/
def ecuUpd : Item → List REcu → List REcu
  | .bu names, es => es ++ names.map fun n => { name := n }
  | .cm (.bu name) text, es =>
    match es.findIdx? (fun e => e.name == name) with
    | some ei => modifyAt es ei fun e => { e with comment := some text }
    | none => es
  | _, es => es

theorem ecus_step (m : RMatrix) (it : Item) (h : (itemFrameUpd it).isSome = true ∨ isEcuItem it = true) :
    (applyItem m it).ecus = ecuUpd it m.ecus := by
  cases it with
  | bu names => rfl
  | cm hd text =>
    cases hd with
    | bu name =>
      simp only [applyItem, Item.frameNo, applyCore, ecuUpd, ecuIdx]
      cases List.findIdx? (fun e => e.name == name) m.ecus <;> rfl
    | bo id => simp only [applyItem, Item.frameNo, applyCore, ecuUpd]; repeat' split
               all_goals rfl
    | sg id name => simp only [applyItem, Item.frameNo, applyCore, ecuUpd]; repeat' split
                    all_goals rfl
  | tx t => simp only [applyItem, Item.frameNo, applyCore, ecuUpd]; repeat' split
            all_goals rfl
  | val v => simp only [applyItem, Item.frameNo, applyCore, ecuUpd]; repeat' split
             all_goals rfl
  | valtype id name => simp only [applyItem, Item.frameNo, applyCore, ecuUpd]; repeat' split
                       all_goals rfl
  | grp g => simp only [applyItem, Item.frameNo, applyCore, ecuUpd]; repeat' split
             all_goals rfl
  | mul ml => simp only [applyItem, Item.frameNo, applyCore, ecuUpd]; repeat' split
              all_goals rfl
  | _ => rcases h with h | h <;> simp [itemFrameUpd, isEcuItem] at h

theorem ecus_after_items (its : List Item) (m : RMatrix)
    (hall : ∀ it ∈ its, (itemFrameUpd it).isSome = true ∨ isEcuItem it = true) :
    (its.foldl applyItem m).ecus = its.foldl (fun es it => ecuUpd it es) m.ecus := by
  induction its generalizing m with
  | nil => rfl
  | cons it its ih =>
    simp only [List.foldl_cons]
    rw [ih _ (fun x hx => hall x (List.mem_cons_of_mem _ hx)), ecus_step m it (hall it (by simp))]

theorem fold_ecu_items (its : List Item) (h : ∀ it ∈ its, isEcuItem it = true) (f : RFrame) :
    its.foldl (fun acc it => itemUpd it acc) f = f := by
  induction its with
  | nil => rfl
  | cons it its ih =>
    simp only [List.foldl_cons]
    rw [ecuItem_upd it (h it (by simp)) f]
    exact ih (fun x hx => h x (List.mem_cons_of_mem _ hx))

/-- `per_frame` with the comments of the ECUs standing behind the comments of the signals: they leave every frame alone -/
theorem per_frameE (extra : List Item) (hextra : ∀ it ∈ extra, isEcuItem it = true) (ps : List (WFrame × (Nat × Bool))) (hwf : ∀ p ∈ ps, p.1.wf p.2 = true) (hdist : ps.Pairwise fun p q => p.2 ≠ q.2)
    (p : WFrame × (Nat × Bool)) (hp : p ∈ ps) :
    ((ps.flatMap fun q => txItems q.1) ++ (ps.flatMap fun q => cmItems q.1) ++ (ps.flatMap fun q => sigCmItems q.1) ++ extra ++
      (ps.flatMap fun q => valItems q.1) ++ (ps.flatMap fun q => valtypeItems q.1) ++ (ps.flatMap fun q => grpItems q.1) ++
      (ps.flatMap fun q => mulItems q.1)).foldl
      (fun acc it => itemUpd it acc) (frameOfBlock p.1.block p.2) = p.1.expect p.2 := by
  obtain ⟨f, k⟩ := p
  obtain ⟨_, _, hnum, _, hnd, _, _, hnames, hvals, hmux, hgrp⟩ := wf_unpack (hwf (f, k) hp)
  simp only at hnum hnd hnames hvals hmux hgrp
  have hnumAll : ∀ q ∈ ps, keyOfCompound q.1.bo.id = some q.2 := fun q hq => (wf_unpack (hwf q hq)).2.2.1
  simp only [List.foldl_append]
  rw [sec_fold txItems txItems_num ps hnumAll hdist (f, k) hp _ rfl]
  rw [tx_section f _ hnum rfl hnd]
  rw [sec_fold cmItems cmItems_num ps hnumAll hdist (f, k) hp _ rfl]
  rw [cm_section f _ hnum rfl]
  rw [sec_fold sigCmItems sigCmItems_num ps hnumAll hdist (f, k) hp _ rfl]
  have h3 := sigsec_fold f.bo.id (sigCmItem f.bo.id) (fun s x => { x with comment := s.comment }) plainSig cmSig
    (by intro s it h; unfold sigCmItem at h; cases hc : s.comment with
        | none => rw [hc] at h; simp at h
        | some c => rw [hc] at h; simp only [Option.map_some, Option.some.injEq] at h; subst h; rfl)
    (by intro s h; unfold sigCmItem at h; cases hc : s.comment with
        | none => simp [cmSig, plainSig, hc]
        | some c => rw [hc] at h; simp at h)
    (fun _ => True) (by intro s it _ _; rfl) (fun _ => rfl) (fun _ => rfl)
    f.sigs [] (fun _ _ => trivial) { (frameOfBlock f.block k) with transmitters := f.senders, comment := f.comment } hnum
    (by simp [frameOfBlock, sigsOf, WFrame.block, plainSig]) (by simpa using hnames)
  have e3 : sigCmItems f = f.sigs.filterMap (sigCmItem f.bo.id) := rfl
  rw [e3, h3]
  rw [fold_ecu_items extra hextra]
  rw [sec_fold valItems valItems_num ps hnumAll hdist (f, k) hp _ rfl]
  have h4 := sigsec_fold f.bo.id (valItem f.bo.id)
    (fun s x => { x with values := s.values.foldl (fun acc (x : Int × Str) => match x with | (k, t) => assocSet acc k t) x.values }) cmSig valSig
    (by intro s it h; unfold valItem at h; split at h
        · simp at h
        · simp only [Option.some.injEq] at h; subst h; rfl)
    (by intro s h; unfold valItem at h; split at h
        · rename_i he; simp [valSig, cmSig, List.isEmpty_iff.mp he]
        · simp at h)
    (fun s => (s.values.map (·.1)).Nodup)
    (by intro s it hP _
        simp only [cmSig, valSig]
        rw [assocSet_fold s.values [] (by simpa using hP)]
        simp)
    (fun _ => rfl) (fun _ => rfl)
    f.sigs [] (fun s hs => (hvals s hs).2)
    { (frameOfBlock f.block k) with transmitters := f.senders, comment := f.comment, sigs := ([] ++ f.sigs).map cmSig } hnum
    (by simp) (by simpa using hnames)
  have e4 : valItems f = f.sigs.filterMap (valItem f.bo.id) := rfl
  rw [e4, h4]
  rw [sec_fold valtypeItems valtypeItems_num ps hnumAll hdist (f, k) hp _ rfl]
  have h5 := sigsec_fold f.bo.id (valtypeItem f.bo.id) (fun _ x => { x with isFloat := true }) valSig ftSig
    (by intro s it h; unfold valtypeItem at h; split at h
        · simp only [Option.some.injEq] at h; subst h; rfl
        · simp at h)
    (by intro s h; unfold valtypeItem at h; split at h
        · simp at h
        · rename_i hf; simp [ftSig, valSig, hf])
    (fun _ => True)
    (by intro s it _ h; unfold valtypeItem at h; split at h
        · rename_i hf; simp [ftSig, valSig, hf]
        · simp at h)
    (fun _ => rfl) (fun _ => rfl)
    f.sigs [] (fun _ _ => trivial)
    { (frameOfBlock f.block k) with transmitters := f.senders, comment := f.comment, sigs := ([] ++ f.sigs).map valSig } hnum
    (by simp) (by simpa using hnames)
  have e5 : valtypeItems f = f.sigs.filterMap (valtypeItem f.bo.id) := rfl
  rw [e5, h5]
  rw [sec_fold grpItems grpItems_num ps hnumAll hdist (f, k) hp _ rfl]
  have h6 := grp_section f
    { (frameOfBlock f.block k) with transmitters := f.senders, comment := f.comment, sigs := ([] ++ f.sigs).map ftSig } hnum rfl
    (by
      intro g hg
      refine ⟨(hgrp g hg).2.1, ?_⟩
      intro n hn
      obtain ⟨w, hw, hwn⟩ := List.mem_map.mp ((hgrp g hg).2.2 n hn)
      obtain ⟨j, hj⟩ := List.getElem?_of_mem hw
      have hget : (([] ++ f.sigs).map ftSig)[j]? = some (ftSig w) := by simp [hj]
      have hnu : NamesUnique { (frameOfBlock f.block k) with transmitters := f.senders, comment := f.comment, sigs := ([] ++ f.sigs).map ftSig } :=
        namesUnique_of _ (f.sigs.map (·.sg.name)) (by simp [ftSig, rereadSg_name, Function.comp_def]) hnames
      have := lookup_signal _ hnu j (ftSig w) hget
      rw [← hwn]
      simp only [ftSig, rereadSg_name] at this
      rw [this]; rfl)
  rw [h6]
  rw [sec_fold mulItems mulItems_num ps hnumAll hdist (f, k) hp _ rfl]
  have h7 := mulsec_fold f.bo.id f.sigs []
    { (frameOfBlock f.block k) with transmitters := f.senders, comment := f.comment, sigs := ([] ++ f.sigs).map ftSig, groups := f.groups }
    hnum (by simp) (by simpa using hnames) (fun s hs => (hmux s hs).2)
  unfold mulItems
  rw [h7]
  simp [WFrame.expect, frameOfBlock, fullSig, WFrame.block, List.any_map, Function.comp_def]


def ecuCmItems (es : List WEcu) : List Item := es.filterMap fun e => e.comment.map fun c => Item.cm (.bu e.name) c

theorem ecuCmItems_eq (es : List WEcu) : (ecuCmStmts es).filterMap FileStmt.toItem = ecuCmItems es := by
  unfold ecuCmStmts ecuCmItems
  rw [List.filterMap_filterMap]
  congr 1
  funext e
  cases e.comment <;> rfl

theorem ecuCmItems_ecu (es : List WEcu) : ∀ it ∈ ecuCmItems es, isEcuItem it = true := by
  intro it h
  unfold ecuCmItems at h
  obtain ⟨e, _, he⟩ := List.mem_filterMap.mp h
  cases hc : e.comment with
  | none => rw [hc] at he; simp at he
  | some c => rw [hc] at he; simp only [Option.map_some, Option.some.injEq] at he; subst he; rfl

theorem ecuUpd_other (it : Item) (h : (itemFrameUpd it).isSome = true) (es : List REcu) : ecuUpd it es = es := by
  cases it with
  | cm hd text => cases hd <;> first | rfl | simp [itemFrameUpd] at h
  | bu names => simp [itemFrameUpd] at h
  | _ => rfl

def plainEcu (e : WEcu) : REcu := { name := e.name }

/-- the comments of the ECUs reach their ECUs -/
theorem ecucm_fold (todo done : List WEcu) (es : List REcu) (hs : es = done.map WEcu.expect ++ todo.map plainEcu)
    (hnd : ((done ++ todo).map (·.name)).Nodup) :
    (todo.filterMap fun e => e.comment.map fun c => Item.cm (.bu e.name) c).foldl (fun es it => ecuUpd it es) es =
      (done ++ todo).map WEcu.expect := by
  induction todo generalizing done es with
  | nil => simp [hs]
  | cons e rest ih =>
    cases hc : e.comment with
    | none =>
      simp only [List.filterMap_cons, hc, Option.map_none]
      have hfp : WEcu.expect e = plainEcu e := by simp [WEcu.expect, plainEcu, hc]
      have := ih (done ++ [e]) es (by rw [hs]; simp [hfp]) (by simpa using hnd)
      simpa using this
    | some c =>
      simp only [List.filterMap_cons, hc, Option.map_some, List.foldl_cons]
      have hidx : es.findIdx? (fun x => x.name == e.name) = some done.length := by
        have hget : es[done.length]? = some (plainEcu e) := by rw [hs]; simp
        apply findIdx_unique _ _ done.length (plainEcu e) hget (by simp [plainEcu])
        have hn : es.map (·.name) = (done ++ e :: rest).map (·.name) := by
          rw [hs]; simp [WEcu.expect, plainEcu, Function.comp_def]
        have hp : (es.map (·.name)).Pairwise (· ≠ ·) := by rw [hn]; exact hnd
        rw [List.pairwise_map] at hp
        clear hget hs ih hn
        induction es with
        | nil => trivial
        | cons a r ihr =>
          rw [List.pairwise_cons] at hp
          refine ⟨?_, ihr hp.2⟩
          intro ha b hb
          have hak : a.name = e.name := by simpa using ha
          have := hp.1 b hb
          rw [hak] at this
          simp only [beq_eq_false_iff_ne, ne_eq]
          exact fun e' => this e'.symm
      have hstep : ecuUpd (Item.cm (.bu e.name) c) es = modifyAt es done.length fun x => { x with comment := some c } := by
        simp only [ecuUpd, hidx]
      rw [hstep]
      have hmod : (modifyAt es done.length fun x => { x with comment := some c }) =
          (done ++ [e]).map WEcu.expect ++ rest.map plainEcu := by
        rw [hs]
        have e1 : done.map WEcu.expect ++ (e :: rest).map plainEcu = done.map WEcu.expect ++ plainEcu e :: rest.map plainEcu := by simp
        have hl : done.length = (done.map WEcu.expect).length := by simp
        rw [e1, hl, modifyAt_mid]
        simp [WEcu.expect, plainEcu, hc]
      rw [hmod]
      have := ih (done ++ [e]) _ rfl (by simpa using hnd)
      simpa using this

/-- `staticOk` extended by the comments of listed ECUs -/
def staticOkE (keys : List (Nat × Bool)) (enames : List Str) : FileStmt → Prop
  | .cm (.bu name) text => wfCmHead (.bu name) = true ∧ wfComment text = true ∧ name ∈ enames
  | s => staticOk keys s

theorem ecuIdx_some_of_mem (m : RMatrix) (name : Str) (h : name ∈ m.ecus.map (·.name)) : (ecuIdx m name).isSome = true := by
  unfold ecuIdx
  rw [List.findIdx?_isSome]
  obtain ⟨e, he, rfl⟩ := List.mem_map.mp h
  exact List.any_eq_true.mpr ⟨e, he, by simp⟩

theorem modifyAt_names (es : List REcu) (i : Nat) (c : Option Str) :
    (modifyAt es i fun e => { e with comment := c }).map (·.name) = es.map (·.name) := by
  induction es generalizing i with
  | nil => cases i <;> rfl
  | cons a r ih =>
    cases i with
    | zero => rfl
    | succ j => simp only [modifyAt, List.map_cons]; rw [ih]

theorem ecuUpd_names (name text : Str) (es : List REcu) : (ecuUpd (.cm (.bu name) text) es).map (·.name) = es.map (·.name) := by
  simp only [ecuUpd]
  split
  · exact modifyAt_names es _ _
  · rfl

theorem okFile_staticE (stmts : List FileStmt) (m : RMatrix) (hu : KeysUnique m)
    (h : ∀ s ∈ stmts, staticOkE (m.frames.map (·.key)) (m.ecus.map (·.name)) s) : okFile m stmts = true := by
  induction stmts generalizing m with
  | nil => rfl
  | cons s rest ih =>
    simp only [okFile, Bool.and_eq_true]
    have hs := h s (by simp)
    by_cases hecu : ∃ name text, s = .cm (.bu name) text
    · obtain ⟨name, text, rfl⟩ := hecu
      obtain ⟨hw, hc, hmem⟩ := hs
      refine ⟨?_, ?_⟩
      · simp only [FileStmt.okIn, hw, hc, Bool.and_self, Bool.true_and, Bool.or_eq_true, Bool.not_eq_true']
        right
        exact ecuIdx_some_of_mem m name hmem
      · have happ : (FileStmt.cm (.bu name) text).apply m = applyItem m (.cm (.bu name) text) := rfl
        rw [happ]
        have hfr := ecuItem_frames m (.cm (.bu name) text) rfl
        have hec := ecus_step m (.cm (.bu name) text) (Or.inr rfl)
        apply ih _ (keysUnique_of_keys m _ (by rw [hfr]) hu)
        intro x hx
        rw [hfr, hec, ecuUpd_names]
        exact h x (List.mem_cons_of_mem _ hx)
    · have hs' : staticOk (m.frames.map (·.key)) s := by
        cases s with
        | one st => exact hs
        | cm hd text =>
          cases hd with
          | bu name => exact absurd ⟨name, text, rfl⟩ hecu
          | bo id => exact hs
          | sg id nm => exact hs
      have hitem : ∃ it, FileStmt.toItem s = some it ∧ (itemFrameUpd it).isSome = true ∧ s.apply m = applyItem m it := by
        cases s with
        | one st =>
          obtain ⟨_, it, hit, hsome⟩ := hs'
          exact ⟨it, hit, hsome, by simp [FileStmt.apply, applyStmt, hit]⟩
        | cm hd text => exact ⟨_, rfl, hs'.2.2.1, rfl⟩
      obtain ⟨it, _, hsome, happ⟩ := hitem
      refine ⟨?_, ?_⟩
      · cases s with
        | one st => exact hs'.1
        | cm hd text =>
          obtain ⟨hw, hc, _, n, k, hform, hk, hmem⟩ := hs'
          simp only [FileStmt.okIn, hw, hc, Bool.and_self, Bool.true_and, Bool.or_eq_true, Bool.not_eq_true']
          right
          rcases hform with rfl | ⟨name, rfl⟩
          · simp [hk]
          · exact frameIdx_some_of_mem m hu n k hk hmem
      · rw [happ]
        have hkeys := apply_keys m hu it hsome
        have hec := ecus_step m it (Or.inl hsome)
        rw [ecuUpd_other it hsome] at hec
        apply ih _ (keysUnique_of_keys m _ hkeys hu)
        intro x hx
        rw [hkeys, hec]
        exact h x (List.mem_cons_of_mem _ hx)

theorem staticOkE_of (keys : List (Nat × Bool)) (enames : List Str) (s : FileStmt) (h : staticOk keys s) : staticOkE keys enames s := by
  cases s with
  | one st => exact h
  | cm hd text =>
    cases hd with
    | bu name =>
      obtain ⟨_, _, hsome, _⟩ := h
      simp [itemFrameUpd] at hsome
    | bo id => exact h
    | sg id nm => exact h

theorem fold_other_ecus (its : List Item) (h : ∀ it ∈ its, (itemFrameUpd it).isSome = true) (es : List REcu) :
    its.foldl (fun es it => ecuUpd it es) es = es := by
  induction its with
  | nil => rfl
  | cons it its ih =>
    simp only [List.foldl_cons]
    rw [ecuUpd_other it (h it (by simp))]
    exact ih (fun x hx => h x (List.mem_cons_of_mem _ hx))

/-- **The core round trip with the ECUs.**  For any list of ECUs with pairwise different names (each with or without a comment over any
number of lines) and any list of frames as in `roundtrip_core`: reading the file the core of the writer makes of them - the `BU_:` line,
the frame section, senders, comments of frames, of signals and of ECUs, value tables, float types, signal groups, multiplexer bindings -
builds exactly these ECUs and exactly these frames, and leaves no comment open. -/
theorem roundtrip_coreE (es : List WEcu) (hes : wfEcus es = true) (ps : List (WFrame × (Nat × Bool))) (hwf : ∀ p ∈ ps, p.1.wf p.2 = true)
    (hdist : ps.Pairwise fun p q => p.2 ≠ q.2) :
    (readFile (writeCoreE es (ps.map (·.1)))).ecus = es.map WEcu.expect ∧
    (readFile (writeCoreE es (ps.map (·.1)))).frames = ps.map (fun p => p.1.expect p.2) ∧
    (readFile (writeCoreE es (ps.map (·.1)))).pending = none := by
  unfold readFile writeCoreE
  simp only [wfEcus, Bool.and_eq_true, List.all_eq_true, decide_eq_true_eq] at hes
  obtain ⟨hall, hnd⟩ := hes
  have hbuwf : (Stmt.bu (es.map (·.name))).wf = true := by
    simp only [Stmt.wf, List.all_eq_true, Bool.and_eq_true, decide_eq_true_eq]
    intro n hn
    obtain ⟨e, he, rfl⟩ := List.mem_map.mp hn
    exact (hall e he).1
  rw [List.foldl_append, List.foldl_append]
  have h0 : [renderBu (es.map (·.name)), ([] : Str)].foldl stepFile {} = { ecus := es.map plainEcu } := by
    simp only [List.foldl_cons, List.foldl_nil]
    have := step_stmt {} (.bu (es.map (·.name))) rfl hbuwf
    simp only [Stmt.line] at this
    rw [this, step_skip _ [] rfl (by decide)]
    simp [applyStmt, Stmt.item, applyItem, Item.frameNo, applyCore, plainEcu, Function.comp_def]
  rw [h0]
  have hblocks : (ps.map (·.1)).map WFrame.block = ps.map fun p => p.1.block := by rw [List.map_map]; rfl
  have hkeys : (ps.map fun p => p.1.block).map (fun b => boKey b.bo) = (ps.map (·.2)).map some := by
    rw [List.map_map, List.map_map]
    apply List.map_congr_left
    intro p hp
    exact (wf_unpack (hwf p hp)).2.1
  have hA := frames_fold (ps.map fun p => p.1.block) (ps.map (·.2)) { ecus := es.map plainEcu } rfl
    (by intro b hb; obtain ⟨p, hp, rfl⟩ := List.mem_map.mp hb; exact (wf_unpack (hwf p hp)).1) hkeys
  rw [hblocks]
  generalize hmA : (writeFrames (ps.map fun p => p.1.block)).foldl stepFile { ecus := es.map plainEcu } = mA at hA
  obtain ⟨hAf, hAp, hAe, _⟩ := hA
  rw [framesOfBlocks_ps] at hAf
  simp only [List.nil_append] at hAf hAe
  have hAkeys : mA.frames.map (·.key) = ps.map (·.2) := by
    rw [hAf, List.map_map]; rfl
  have hAnames : mA.ecus.map (·.name) = es.map (·.name) := by
    rw [hAe, List.map_map]; rfl
  have huA : KeysUnique mA := by
    unfold KeysUnique
    have : (mA.frames.map (·.key)).Pairwise (· ≠ ·) := by
      rw [hAkeys, List.pairwise_map]; exact hdist
    rwa [List.pairwise_map] at this
  have hstatic : ∀ s ∈ ((ps.map (·.1)).flatMap WFrame.txStmts ++ (ps.map (·.1)).flatMap WFrame.cmStmts ++
      (ps.map (·.1)).flatMap WFrame.sigCmStmts ++ ecuCmStmts es ++ (ps.map (·.1)).flatMap WFrame.valStmts ++
      (ps.map (·.1)).flatMap WFrame.valtypeStmts ++
      (ps.map (·.1)).flatMap WFrame.grpStmts ++ (ps.map (·.1)).flatMap WFrame.mulStmts),
      staticOkE (mA.frames.map (·.key)) (mA.ecus.map (·.name)) s := by
    intro s hs
    rw [hAkeys, hAnames]
    simp only [List.mem_append, List.mem_flatMap, List.mem_map] at hs
    rcases hs with ((((((⟨f, ⟨p, hp, rfl⟩, hsf⟩ | ⟨f, ⟨p, hp, rfl⟩, hsf⟩) | ⟨f, ⟨p, hp, rfl⟩, hsf⟩) | hsf) | ⟨f, ⟨p, hp, rfl⟩, hsf⟩) |
      ⟨f, ⟨p, hp, rfl⟩, hsf⟩) | ⟨f, ⟨p, hp, rfl⟩, hsf⟩) | ⟨f, ⟨p, hp, rfl⟩, hsf⟩
    · exact staticOkE_of _ _ _ (tx_static p.1 p.2 (hwf p hp) _ s hsf)
    · exact staticOkE_of _ _ _ (cm_static p.1 p.2 (hwf p hp) _ (List.mem_map.mpr ⟨p, hp, rfl⟩) s hsf)
    · exact staticOkE_of _ _ _ (sigcm_static p.1 p.2 (hwf p hp) _ (List.mem_map.mpr ⟨p, hp, rfl⟩) s hsf)
    · unfold ecuCmStmts at hsf
      obtain ⟨e, he, hse⟩ := List.mem_filterMap.mp hsf
      cases hc : e.comment with
      | none => rw [hc] at hse; simp at hse
      | some c =>
        rw [hc] at hse; simp only [Option.map_some, Option.some.injEq] at hse; subst hse
        have := hall e he
        rw [hc] at this
        refine ⟨?_, ?_, List.mem_map.mpr ⟨e, he, rfl⟩⟩
        · simp only [wfCmHead]; exact this.1.1
        · simpa using this.2
    · exact staticOkE_of _ _ _ (val_static p.1 p.2 (hwf p hp) _ s hsf)
    · exact staticOkE_of _ _ _ (valtype_static p.1 p.2 (hwf p hp) _ s hsf)
    · exact staticOkE_of _ _ _ (grp_static p.1 p.2 (hwf p hp) _ s hsf)
    · exact staticOkE_of _ _ _ (mul_static p.1 p.2 (hwf p hp) _ s hsf)
  have hok := okFile_staticE _ mA huA hstatic
  rw [read_file _ mA hAp hok, apply_eq_items]
  simp only [List.filterMap_append, filterMap_flatMap, List.flatMap_map, txItems_eq, cmItems_eq, sigCmItems_eq, valItems_eq, valtypeItems_eq, grpItems_eq, mulItems_eq, ecuCmItems_eq]
  have hkinds : ∀ it ∈ ((ps.flatMap fun q => txItems q.1) ++ (ps.flatMap fun q => cmItems q.1) ++ (ps.flatMap fun q => sigCmItems q.1) ++
      ecuCmItems es ++ (ps.flatMap fun q => valItems q.1) ++ (ps.flatMap fun q => valtypeItems q.1) ++
      (ps.flatMap fun q => grpItems q.1) ++ (ps.flatMap fun q => mulItems q.1)),
      (itemFrameUpd it).isSome = true ∨ isEcuItem it = true := by
    intro it hit
    simp only [List.mem_append, List.mem_flatMap] at hit
    rcases hit with ((((((⟨p, _, h⟩ | ⟨p, _, h⟩) | ⟨p, _, h⟩) | h) | ⟨p, _, h⟩) | ⟨p, _, h⟩) | ⟨p, _, h⟩) | ⟨p, _, h⟩
    · obtain ⟨g, hg⟩ := txItems_num p.1 it h; left; rw [hg]; rfl
    · obtain ⟨g, hg⟩ := cmItems_num p.1 it h; left; rw [hg]; rfl
    · obtain ⟨g, hg⟩ := sigCmItems_num p.1 it h; left; rw [hg]; rfl
    · right; exact ecuCmItems_ecu es it h
    · obtain ⟨g, hg⟩ := valItems_num p.1 it h; left; rw [hg]; rfl
    · obtain ⟨g, hg⟩ := valtypeItems_num p.1 it h; left; rw [hg]; rfl
    · obtain ⟨g, hg⟩ := grpItems_num p.1 it h; left; rw [hg]; rfl
    · obtain ⟨g, hg⟩ := mulItems_num p.1 it h; left; rw [hg]; rfl
  refine ⟨?_, ?_, ?_⟩
  · rw [ecus_after_items _ mA hkinds, hAe]
    simp only [List.foldl_append]
    have hfr : ∀ (sec : WFrame → List Item), (∀ f it, it ∈ sec f → ∃ g, itemFrameUpd it = some (f.bo.id, g)) →
        ∀ x, (ps.flatMap fun q => sec q.1).foldl (fun es it => ecuUpd it es) x = x := by
      intro sec hsec x
      apply fold_other_ecus
      intro it hit
      obtain ⟨p, _, h⟩ := List.mem_flatMap.mp hit
      obtain ⟨g, hg⟩ := hsec p.1 it h; rw [hg]; rfl
    rw [hfr txItems txItems_num, hfr cmItems cmItems_num, hfr sigCmItems sigCmItems_num]
    have := ecucm_fold es [] (es.map plainEcu) (by simp) (by simpa using hnd)
    unfold ecuCmItems
    rw [this]
    rw [hfr valItems valItems_num, hfr valtypeItems valtypeItems_num, hfr grpItems grpItems_num, hfr mulItems mulItems_num]
    simp
  · rw [frames_after_items' _ mA huA hkinds]
    rw [hAf, List.map_map]
    apply List.map_congr_left
    intro p hp
    exact per_frameE (ecuCmItems es) (ecuCmItems_ecu es) ps hwf hdist p hp
  · have : ∀ (its : List Item) (m : RMatrix), m.pending = none → (∀ it ∈ its, ∀ hd first, it ≠ .cmOpen hd first) →
        (its.foldl applyItem m).pending = none := by
      intro its
      induction its with
      | nil => intro m hm _; exact hm
      | cons it its ih =>
        intro m hm hall
        simp only [List.foldl_cons]
        exact ih _ (applyItem_pending m it hm (hall it (by simp))) (fun x hx => hall x (List.mem_cons_of_mem _ hx))
    apply this _ mA hAp
    intro it hit hd first e
    subst e
    rcases hkinds _ hit with h | h
    · simp [itemFrameUpd] at h
    · simp [isEcuItem] at h

end CanVerif.Dbc.FileProofs
