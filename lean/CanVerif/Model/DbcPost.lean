import CanVerif.Model.DbcFile
/-!
# Model of the post-processing of the DBC reader (formats/dbc.py `load`, "Backtracking", ~983-1090), in the parts that decide names,
references and texts

After the line loop the reader
* gives ECUs, frames and signals the long names their `System…LongSymbol` attributes carry (`value[1:-1]`) and deletes those attributes,
* recomputes every frame's receiver list from its signals (`Frame.update_receiver`),
* strips the quotes of the values of STRING attributes on all four levels (for every attribute name defined as STRING on that level),
* adds every referenced ECU to the ECU list (`update_ecu_list`: senders, then the receivers of the signals, frame by frame; an ECU is
  listed when a listed name equals it after `strip()`),
* removes the placeholder `Vector__XXX` from the ECU list and - once per listed ECU of that name - its first occurrence from every
  sender list and every signal's receiver list (`del_ecu`), recomputing the frame receivers,
* moves the signals of the pseudo frame `VECTOR__INDEPENDENT_SIG_MSG` (identifier 0x40000000) to the matrix and deletes that frame.

Not modelled here (decided by the round-trip observation): cycle times, start values (Model/DbcStart.lean), ENUM index-to-name conversion,
`multiplex_signals`, the CAN FD / J1939 flags, environment variables.  The result is the projection that is compared with the matrix
`dbc.load` returns: names, senders, receivers, comments and the attributes that are neither carriers nor of an ENUM type.
-/
namespace CanVerif.Dbc
open CanVerif

structure PSig where
  name : Str
  receivers : List Str
  attrs : List (Str × Str)
  comment : Option Str
  deriving Repr, DecidableEq, Inhabited

structure PFrame where
  key : Nat × Bool
  name : Str
  tx : List Str
  rx : List Str
  attrs : List (Str × Str)
  comment : Option Str
  sigs : List PSig
  deriving Repr, DecidableEq, Inhabited

structure PMatrix where
  ecus : List Str
  frames : List PFrame
  free : List PSig
  attrs : List (Str × Str)
  deriving Repr, DecidableEq, Inhabited

def lookupAttr (a : List (Str × Str)) (k : Str) : Option Str := (a.find? fun kv => kv.1 == k).map (·.2)

def delAttr (a : List (Str × Str)) (k : Str) : List (Str × Str) := a.filter fun kv => kv.1 != k

/-- the name an object gets from its long-symbol attribute, and its attributes without it -/
def longName (attr : String) (name : Str) (attrs : List (Str × Str)) : Str × List (Str × Str) :=
  match lookupAttr attrs attr.toList with
  | some v => (stripQuotes v, delAttr attrs attr.toList)
  | none => (name, attrs)

/-- `value[1:-1]` for every attribute that the level defines as STRING -/
def stripStrings (defs : List RDef) (lvl : Level) (attrs : List (Str × Str)) : List (Str × Str) :=
  attrs.map fun (k, v) =>
    if defs.any (fun d => d.level == lvl && d.name == k && defType d.definition == "STRING".toList) then (k, stripQuotes v) else (k, v)

def addUniqueStr (l : List Str) (x : Str) : List Str := if l.contains x then l else l ++ [x]

/-- `list.remove(x)` if present -/
def removeFirst (l : List Str) (x : Str) : List Str :=
  match l with
  | [] => []
  | a :: r => if a == x then r else a :: removeFirst r x

/-- `add_ecu(Ecu(name))`: nothing when a listed name equals it after `strip()` -/
def addEcu (ecus : List Str) (name : Str) : List Str := if ecus.any (fun e => stripWs e == name) then ecus else ecus ++ [name]

def isCarrier (k : Str) : Bool :=
  startsWith k "Gen".toList || startsWith k "System".toList || k == "VFrameFormat".toList || k == "BusType".toList || k == "ProtocolType".toList

/-- the attributes the projection keeps: neither carriers nor of an ENUM type on that level -/
def keptAttrs (defs : List RDef) (lvl : Level) (attrs : List (Str × Str)) : List (Str × Str) :=
  attrs.filter fun (k, _) => !isCarrier k && !defs.any (fun d => d.level == lvl && d.name == k && defType d.definition == "ENUM".toList)

def repeatN {α} (n : Nat) (f : α → α) (x : α) : α :=
  match n with
  | 0 => x
  | n + 1 => repeatN n f (f x)

def postProcess (m : RMatrix) : PMatrix :=
  -- long names
  let ecus1 : List (Str × List (Str × Str)) := m.ecus.map fun e => longName "SystemNodeLongSymbol" e.name e.attrs
  let sigOf (s : RSig) : PSig :=
    let (n, a) := longName "SystemSignalLongSymbol" s.sg.name s.attrs
    { name := n, receivers := s.sg.receivers, attrs := a, comment := s.comment }
  let frames1 : List PFrame := m.frames.map fun f =>
    let (n, a) := longName "SystemMessageLongSymbol" f.name f.attrs
    { key := f.key, name := n, tx := f.transmitters, rx := [], attrs := a, comment := f.comment, sigs := f.sigs.map sigOf }
  -- texts of STRING attributes
  let gattrs := stripStrings m.defs .global m.attrs
  let ecus2 := ecus1.map fun (n, a) => (n, stripStrings m.defs .ecu a)
  let frames2 : List PFrame := frames1.map fun (f : PFrame) =>
    { f with attrs := stripStrings m.defs .frame f.attrs,
             sigs := f.sigs.map fun (s : PSig) => { s with attrs := stripStrings m.defs .signal s.attrs } }
  -- referenced ECUs
  let names0 := ecus2.map (·.1)
  let names1 := frames2.foldl (fun acc (f : PFrame) => (f.sigs.flatMap PSig.receivers).foldl addEcu (f.tx.foldl addEcu acc)) names0
  -- the placeholder
  let v := "Vector__XXX".toList
  let nV := (names1.filter fun n => n == v).length
  let names2 := names1.filter fun n => n != v
  let dropV (l : List Str) : List Str := repeatN nV (fun x => removeFirst x v) l
  let frames3 : List PFrame := frames2.map fun (f : PFrame) =>
    let sigs' : List PSig := f.sigs.map fun (s : PSig) => { s with receivers := dropV s.receivers }
    { f with tx := dropV f.tx, sigs := sigs', rx := (sigs'.flatMap PSig.receivers).foldl addUniqueStr [] }
  -- signals without frame
  let isDummy (f : PFrame) : Bool := f.name == "VECTOR__INDEPENDENT_SIG_MSG".toList
  let (frames4, free) :=
    match frames3.find? isDummy with
    | some d =>
      if d.key.1 == 0x40000000 then
        -- `del_frame`: the first frame that equals it is removed
        let rec dropFirst : List PFrame → List PFrame
          | [] => []
          | a :: r => if a == d then r else a :: dropFirst r
        (dropFirst frames3, d.sigs)
      else (frames3, [])
    | none => (frames3, [])
  let keepSig (s : PSig) : PSig := { s with attrs := keptAttrs m.defs .signal s.attrs }
  { ecus := names2,
    frames := frames4.map fun (f : PFrame) => { f with attrs := keptAttrs m.defs .frame f.attrs, sigs := f.sigs.map keepSig },
    free := free.map keepSig,
    attrs := keptAttrs m.defs .global gattrs }

end CanVerif.Dbc
