import CanVerif.Model.Convert
import CanVerif.Spec.ConvertSpec
/-! helper lemmas for Props/C18.lean -/
namespace CanVerif.Conv
open CanVerif CanVerif.ConvSpec

/-! ## the initial refresh and `core` -/

/-- the first step of `convert`: frames with an empty cached receiver list are refreshed -/
def init (m : KMat) : KMat :=
  { m with frames := m.frames.map fun f => if f.frx.isEmpty then refresh f else f }

theorem coreF_refresh (f : KFrame) : coreF (refresh f) = coreF f := rfl

theorem coreF_initF (f : KFrame) : coreF (if f.frx.isEmpty then refresh f else f) = coreF f := by
  split <;> rfl

theorem core_frames (m : KMat) : (core m).frames = m.frames.map coreF := rfl
theorem core_ecus (m : KMat) : (core m).ecus = m.ecus := rfl

theorem core_init (m : KMat) : core (init m) = core m := by
  show ({ ecus := m.ecus, frames := (m.frames.map _).map coreF } : KMat) = { ecus := m.ecus, frames := m.frames.map coreF }
  rw [List.map_map]
  have : (coreF ∘ fun f : KFrame => if f.frx.isEmpty then refresh f else f) = coreF := by
    funext f; exact coreF_initF f
  rw [this]

theorem init_ecus (m : KMat) : (init m).ecus = m.ecus := rfl

theorem init_names (m : KMat) : (init m).frames.map (·.name) = m.frames.map (·.name) := by
  show (m.frames.map _).map _ = _
  rw [List.map_map]
  apply List.map_congr_left
  intro f _
  show (if f.frx.isEmpty then refresh f else f).name = f.name
  split <;> rfl

theorem init_sigs (m : KMat) : ∀ g ∈ (init m).frames, ∃ f ∈ m.frames, g.sigs = f.sigs ∧ g.tx = f.tx := by
  intro g hg
  obtain ⟨f, hf, rfl⟩ := List.mem_map.1 hg
  refine ⟨f, hf, ?_⟩
  split <;> exact ⟨rfl, rfl⟩

/-- generic: a fold of model steps, seen through `core`, is the fold of the specification steps -/
theorem core_foldl {α : Type} (step sstep : KMat → α → KMat) (inv : KMat → Prop)
    (hA : ∀ m a, inv m → core (step m a) = sstep (core m) a)
    (hI : ∀ m a, inv m → inv (step m a)) :
    ∀ (l : List α) (m : KMat), inv m → core (l.foldl step m) = l.foldl sstep (core m) := by
  intro l
  induction l with
  | nil => intro m _; rfl
  | cons a l ih =>
    intro m hm
    rw [List.foldl_cons, List.foldl_cons, ih _ (hI m a hm), hA m a hm]

theorem core_foldl' {α : Type} (step sstep : KMat → α → KMat)
    (hA : ∀ m a, core (step m a) = sstep (core m) a) (l : List α) (m : KMat) :
    core (l.foldl step m) = l.foldl sstep (core m) :=
  core_foldl step sstep (fun _ => True) (fun m a _ => hA m a) (fun _ _ _ => trivial) l m trivial

/-- steps that map the frames -/
theorem core_mapFrames (m : KMat) (g g' : KFrame → KFrame) (h : ∀ f ∈ m.frames, coreF (g f) = g' (coreF f)) :
    core { m with frames := m.frames.map g } = { core m with frames := (core m).frames.map g' } := by
  show ({ ecus := m.ecus, frames := (m.frames.map g).map coreF } : KMat) = { ecus := m.ecus, frames := (m.frames.map coreF).map g' }
  rw [List.map_map, List.map_map]
  have : m.frames.map (coreF ∘ g) = m.frames.map (g' ∘ coreF) := List.map_congr_left h
  rw [this]

/-- steps that filter the frames by a predicate that does not look at `frx` -/
theorem core_filterFrames (m : KMat) (p p' : KFrame → Bool) (h : ∀ f, p f = p' (coreF f)) :
    core { m with frames := m.frames.filter p } = { core m with frames := (core m).frames.filter p' } := by
  show ({ ecus := m.ecus, frames := (m.frames.filter p).map coreF } : KMat) = { ecus := m.ecus, frames := (m.frames.map coreF).filter p' }
  rw [List.filter_map]
  have : p = p' ∘ coreF := by funext f; exact h f
  rw [this]

/-! ## first-match recursions under unique names -/

theorem map_eq_self {α : Type} (f : α → α) (l : List α) (h : ∀ x ∈ l, f x = x) : l.map f = l := by
  have := List.map_congr_left (f := f) (g := id) (l := l) (by intro x hx; exact h x hx)
  rw [this, List.map_id]

theorem delFirst_eq_filter : ∀ (fs : List KFrame) (n : String), (fs.map (·.name)).Nodup →
    delFirst fs n = fs.filter (·.name != n)
  | [], _, _ => rfl
  | f :: t, n, h => by
    rw [List.map_cons, List.nodup_cons] at h
    unfold delFirst
    by_cases hn : f.name = n
    · have h1 : (f.name == n) = true := by simp [hn]
      have h2 : (f.name != n) = false := by simp [hn]
      rw [if_pos h1, List.filter_cons, h2]
      simp only [Bool.false_eq_true, if_false]
      symm
      apply List.filter_eq_self.2
      intro g hg
      have : g.name ≠ n := by
        intro hgn
        apply h.1
        rw [hn, ← hgn]
        exact List.mem_map.2 ⟨g, hg, rfl⟩
      simp [this]
    · have h1 : ¬ (f.name == n) = true := by simp [hn]
      have h2 : (f.name != n) = true := by simp [hn]
      rw [if_neg h1, List.filter_cons, h2, if_pos rfl, delFirst_eq_filter t n h.2]

theorem updFirst_eq_map (g : KFrame → KFrame) : ∀ (fs : List KFrame) (n : String), (fs.map (·.name)).Nodup →
    updFirst fs n g = fs.map (fun f => if f.name == n then g f else f)
  | [], _, _ => rfl
  | f :: t, n, h => by
    rw [List.map_cons, List.nodup_cons] at h
    unfold updFirst
    by_cases hn : f.name = n
    · have h1 : (f.name == n) = true := by simp [hn]
      rw [if_pos h1, List.map_cons, if_pos h1]
      congr 1
      symm
      apply map_eq_self
      intro x hx
      have : x.name ≠ n := by
        intro hxn
        apply h.1
        rw [hn, ← hxn]
        exact List.mem_map.2 ⟨x, hx, rfl⟩
      have h3 : ¬ (x.name == n) = true := by simp [this]
      rw [if_neg h3]
    · have h1 : ¬ (f.name == n) = true := by simp [hn]
      rw [if_neg h1, List.map_cons, if_neg h1, updFirst_eq_map g t n h.2]

/-! ## closing lemmas -/

theorem alone_fold {α : Type} (step sstep : KMat → α → KMat) (inv : KMat → Prop) (l : List α) (m : KMat)
    (hA : ∀ m a, inv m → core (step m a) = sstep (core m) a)
    (hI : ∀ m a, inv m → inv (step m a))
    (hB : ∀ m a, core (sstep m a) = sstep (core m) a) (h0 : inv (init m)) :
    (some (l.foldl step (init m))).map core = (some (l.foldl sstep m)).map core := by
  rw [Option.map_some, Option.map_some, core_foldl step sstep inv hA hI l _ h0, core_init,
    core_foldl' sstep sstep hB]

theorem alone_fold' {α : Type} (step sstep : KMat → α → KMat) (l : List α) (m : KMat)
    (hA : ∀ m a, core (step m a) = sstep (core m) a)
    (hB : ∀ m a, core (sstep m a) = sstep (core m) a) :
    (some (l.foldl step (init m))).map core = (some (l.foldl sstep m)).map core :=
  alone_fold step sstep (fun _ => True) l m (fun m a _ => hA m a) (fun _ _ _ => trivial) hB trivial

theorem alone_one (step sstep : KMat → KMat) (m : KMat)
    (hA : core (step (init m)) = sstep (core m))
    (hB : core (sstep m) = sstep (core m)) :
    (some (step (init m))).map core = (some (sstep m)).map core := by
  rw [Option.map_some, Option.map_some, hA, hB]

/-! ## no options -/

theorem no_options_main (m : KMat) : (convert {} m).map core = some (core m) := by
  show (some (init m)).map core = _
  rw [Option.map_some, core_init]

/-! ## deleteFrame, setFrameFd, unsetFrameFd -/

def namesNodup (m : KMat) : Prop := (m.frames.map (·.name)).Nodup

theorem namesNodup_init {m : KMat} (h : uniqueNames m) : namesNodup (init m) := by
  unfold namesNodup
  rw [init_names]
  exact h.1

def stepDeleteFrame (m : KMat) (n : String) : KMat := { m with frames := delFirst m.frames n }

theorem sDeleteFrame_B (m : KMat) (n : String) : core (sDeleteFrame m n) = sDeleteFrame (core m) n :=
  core_filterFrames m (·.name != n) (·.name != n) (fun _ => rfl)

theorem deleteFrame_A (m : KMat) (n : String) (h : namesNodup m) : core (stepDeleteFrame m n) = sDeleteFrame (core m) n := by
  unfold stepDeleteFrame
  rw [delFirst_eq_filter _ _ h]
  exact sDeleteFrame_B m n

theorem deleteFrame_I (m : KMat) (n : String) (h : namesNodup m) : namesNodup (stepDeleteFrame m n) := by
  unfold stepDeleteFrame namesNodup
  rw [delFirst_eq_filter _ _ h]
  exact List.Nodup.sublist (List.Sublist.map _ List.filter_sublist) h

theorem deleteFrame_main (m : KMat) (ns : List String) (h : uniqueNames m) :
    (convert { deleteFrame := some ns } m).map core = (expected { deleteFrame := some ns } m).map core :=
  alone_fold stepDeleteFrame sDeleteFrame namesNodup ns m deleteFrame_A deleteFrame_I sDeleteFrame_B (namesNodup_init h)

def stepSetFd (v : Bool) (m : KMat) (n : String) : KMat := { m with frames := updFirst m.frames n fun f => { f with fd := v } }

theorem coreF_setFd (v : Bool) (n : String) (f : KFrame) :
    coreF (if f.name == n then { f with fd := v } else f) = (if (coreF f).name == n then { coreF f with fd := v } else coreF f) := by
  show _ = (if f.name == n then { coreF f with fd := v } else coreF f)
  split <;> rfl

theorem sSetFd_B (v : Bool) (m : KMat) (n : String) : core (sSetFd v m n) = sSetFd v (core m) n :=
  core_mapFrames m _ _ (fun f _ => coreF_setFd v n f)

theorem setFd_A (v : Bool) (m : KMat) (n : String) (h : namesNodup m) : core (stepSetFd v m n) = sSetFd v (core m) n := by
  unfold stepSetFd
  rw [updFirst_eq_map _ _ _ h]
  exact sSetFd_B v m n

theorem setFd_I (v : Bool) (m : KMat) (n : String) (h : namesNodup m) : namesNodup (stepSetFd v m n) := by
  unfold stepSetFd namesNodup
  rw [updFirst_eq_map _ _ _ h]
  show ((m.frames.map _).map _).Nodup
  rw [List.map_map]
  have : m.frames.map ((fun f : KFrame => f.name) ∘ fun f => if f.name == n then { f with fd := v } else f) = m.frames.map (·.name) := by
    apply List.map_congr_left
    intro f _
    show (if f.name == n then { f with fd := v } else f).name = f.name
    split <;> rfl
  rw [this]
  exact h

theorem setFrameFd_main (m : KMat) (ns : List String) (h : uniqueNames m) :
    (convert { setFrameFd := some ns } m).map core = (expected { setFrameFd := some ns } m).map core :=
  alone_fold (stepSetFd true) (sSetFd true) namesNodup ns m (setFd_A true) (setFd_I true) (sSetFd_B true) (namesNodup_init h)

theorem unsetFrameFd_main (m : KMat) (ns : List String) (h : uniqueNames m) :
    (convert { unsetFrameFd := some ns } m).map core = (expected { unsetFrameFd := some ns } m).map core :=
  alone_fold (stepSetFd false) (sSetFd false) namesNodup ns m (setFd_A false) (setFd_I false) (sSetFd_B false) (namesNodup_init h)

/-! ## skipLongDlc -/

def stepSkipLong (t : Nat) (m : KMat) : KMat := { m with frames := m.frames.filter fun f => !(f.size > t) }

theorem skipLong_pred (t : Nat) (f : KFrame) : (!(decide (f.size > t))) = decide ((coreF f).size ≤ t) := by
  show (!(decide (f.size > t))) = decide (f.size ≤ t)
  by_cases h : f.size ≤ t
  · have : ¬ f.size > t := by omega
    simp [h, this]
  · have : f.size > t := by omega
    simp [h, this]

theorem skipLong_A (t : Nat) (m : KMat) : core (stepSkipLong t m) = sSkipLong t (core m) :=
  core_filterFrames m _ (fun f => decide (f.size ≤ t)) (skipLong_pred t)

theorem sSkipLong_B (t : Nat) (m : KMat) : core (sSkipLong t m) = sSkipLong t (core m) :=
  core_filterFrames m _ (fun f => decide (f.size ≤ t)) (fun _ => rfl)

theorem skipLongDlc_main (m : KMat) (t : Nat) :
    (convert { skipLongDlc := some t } m).map core = (expected { skipLongDlc := some t } m).map core :=
  alone_one (stepSkipLong t) (sSkipLong t) m (skipLong_A t _ |>.trans (by rw [core_init])) (sSkipLong_B t m)

theorem skipLongDlc_boundary_main (m r : KMat) (t : Nat) (h : convert { skipLongDlc := some t } m = some r) (f : KFrame) :
    coreF f ∈ (core r).frames ↔ (coreF f ∈ (core m).frames ∧ f.size ≤ t) := by
  have hr : r = stepSkipLong t (init m) := (Option.some.inj h).symm
  rw [hr, skipLong_A, core_init]
  show coreF f ∈ (core m).frames.filter (fun f => decide (f.size ≤ t)) ↔ _
  rw [List.mem_filter]
  show _ ∧ decide (f.size ≤ t) = true ↔ _
  rw [decide_eq_true_iff]

/-! ## lengths -/

theorem foldl_max_init_le : ∀ (l : List Nat) (a : Nat), a ≤ l.foldl max a
  | [], _ => Nat.le_refl _
  | x :: l, a => by
    rw [List.foldl_cons]
    exact Nat.le_trans (Nat.le_max_left a x) (foldl_max_init_le l _)

theorem foldl_max_ge : ∀ (l : List Nat) (a x : Nat), x ∈ l → x ≤ l.foldl max a
  | [], _, _, h => by cases h
  | y :: l, a, x, h => by
    rw [List.foldl_cons]
    rcases List.mem_cons.1 h with rfl | h
    · exact Nat.le_trans (Nat.le_max_right a x) (foldl_max_init_le l _)
    · exact foldl_max_ge l _ x h

theorem foldl_max_le : ∀ (l : List Nat) (a b : Nat), a ≤ b → (∀ x ∈ l, x ≤ b) → l.foldl max a ≤ b
  | [], _, _, ha, _ => ha
  | y :: l, a, b, ha, h => by
    rw [List.foldl_cons]
    apply foldl_max_le l _ b
    · exact Nat.max_le.2 ⟨ha, h y (List.mem_cons_self)⟩
    · intro x hx; exact h x (List.mem_cons_of_mem _ hx)

theorem sigEnd_le_needed (f : KFrame) (s : KSig) (h : s ∈ f.sigs) : s.start + s.size ≤ neededBytes f * 8 := by
  have h1 : s.start + s.size ≤ (f.sigs.map sigEnd).foldl max 0 :=
    foldl_max_ge _ 0 (sigEnd s) (List.mem_map.2 ⟨s, h, rfl⟩)
  unfold neededBytes
  omega

theorem needed_le (f : KFrame) (n : Nat) (h : ∀ s ∈ f.sigs, s.start + s.size ≤ n * 8) : neededBytes f ≤ n := by
  have h1 : (f.sigs.map sigEnd).foldl max 0 ≤ n * 8 := by
    apply foldl_max_le _ 0 _ (Nat.zero_le _)
    intro x hx
    obtain ⟨s, hs, rfl⟩ := List.mem_map.1 hx
    exact h s hs
  unfold neededBytes
  omega

theorem neededBytes_eq (f : KFrame) : neededBytes f = sNeeded f.sigs := rfl

/-! ## cutLongFrames -/

theorem cutLong_short (t : Nat) (f : KFrame) (h : f.size ≤ t) : cutLong t f = f := by
  unfold cutLong
  have : ¬ f.size > t := by omega
  rw [if_neg this]

theorem cutLong_kept_pred (t : Nat) (s : KSig) : (!(decide (sigEnd s > t * 8))) = decide (s.start + s.size ≤ t * 8) := by
  unfold sigEnd
  by_cases h : s.start + s.size ≤ t * 8
  · have : ¬ s.start + s.size > t * 8 := by omega
    simp [h, this]
  · have : s.start + s.size > t * 8 := by omega
    simp [h, this]

theorem cutLong_of_long (t : Nat) (f : KFrame) (h : t < f.size) :
    cutLong t f = { f with sigs := f.sigs.filter (fun s => decide (s.start + s.size ≤ t * 8)),
                           size := sNeeded (f.sigs.filter (fun s => decide (s.start + s.size ≤ t * 8))) } := by
  unfold cutLong
  rw [if_pos h]
  have hp : (fun s : KSig => !(decide (sigEnd s > t * 8))) = (fun s => decide (s.start + s.size ≤ t * 8)) := by
    funext s; exact cutLong_kept_pred t s
  simp only [hp, Nat.zero_max]
  rfl

theorem cutLong_long_main (t : Nat) (f : KFrame) (h : t < f.size) (s : KSig) :
    (s ∈ (cutLong t f).sigs ↔ (s ∈ f.sigs ∧ s.start + s.size ≤ t * 8)) ∧
    (∀ s ∈ (cutLong t f).sigs, s.start + s.size ≤ (cutLong t f).size * 8) ∧ (cutLong t f).size ≤ t := by
  rw [cutLong_of_long t f h]
  refine ⟨?_, ?_, ?_⟩
  · show s ∈ f.sigs.filter _ ↔ _
    rw [List.mem_filter, decide_eq_true_iff]
  · intro s' hs'
    exact sigEnd_le_needed { f with sigs := f.sigs.filter (fun s => decide (s.start + s.size ≤ t * 8)) } s' hs'
  · apply needed_le { f with sigs := f.sigs.filter (fun s => decide (s.start + s.size ≤ t * 8)) } t
    intro s' hs'
    have := (List.mem_filter.1 hs').2
    exact of_decide_eq_true this

theorem coreF_cutLong (t : Nat) (f : KFrame) :
    coreF (cutLong t f) =
      (fun f : KFrame => if f.size ≤ t then f else
        let kept := f.sigs.filter fun s => s.start + s.size ≤ t * 8
        { f with sigs := kept, size := sNeeded kept }) (coreF f) := by
  show _ = (if f.size ≤ t then coreF f else _)
  by_cases h : f.size ≤ t
  · rw [cutLong_short t f h, if_pos h]
  · rw [cutLong_of_long t f (by omega), if_neg h]
    rfl

def stepCutLong (t : Nat) (m : KMat) : KMat := { m with frames := m.frames.map (cutLong t) }

theorem cutLong_A (t : Nat) (m : KMat) : core (stepCutLong t m) = sCutLong t (core m) :=
  core_mapFrames m _ _ (fun f _ => coreF_cutLong t f)

theorem sCutLong_B (t : Nat) (m : KMat) : core (sCutLong t m) = sCutLong t (core m) := by
  apply core_mapFrames m _ _
  intro f _
  show _ = (if f.size ≤ t then coreF f else _)
  split <;> rfl

theorem cutLongFrames_main (m : KMat) (t : Nat) :
    (convert { cutLongFrames := some t } m).map core = (expected { cutLongFrames := some t } m).map core :=
  alone_one (stepCutLong t) (sCutLong t) m (cutLong_A t _ |>.trans (by rw [core_init])) (sCutLong_B t m)

/-! ## recalcDLC -/

theorem recalc_fits_main (force : Bool) (f : KFrame) : ∀ s ∈ f.sigs, s.start + s.size ≤ (recalc force f).size * 8 := by
  intro s hs
  have h := sigEnd_le_needed f s hs
  unfold recalc
  cases force
  · show _ ≤ max f.size (neededBytes f) * 8
    have := Nat.le_max_right f.size (neededBytes f)
    omega
  · exact h

theorem recalc_force_least_main (f : KFrame) (n : Nat) (h : ∀ s ∈ f.sigs, s.start + s.size ≤ n * 8) : (recalc true f).size ≤ n :=
  needed_le f n h

theorem recalc_max_never_shortens_main (f : KFrame) : f.size ≤ (recalc false f).size :=
  Nat.le_max_left _ _

theorem coreF_recalc (force : Bool) (f : KFrame) :
    coreF (recalc force f) = (fun f : KFrame => { f with size := if force then sNeeded f.sigs else max f.size (sNeeded f.sigs) }) (coreF f) := by
  cases force <;> rfl

def stepRecalc (force : Bool) (m : KMat) : KMat := { m with frames := m.frames.map (recalc force) }

theorem recalc_A (force : Bool) (m : KMat) : core (stepRecalc force m) = sRecalc force (core m) :=
  core_mapFrames m _ _ (fun f _ => coreF_recalc force f)

theorem sRecalc_B (force : Bool) (m : KMat) : core (sRecalc force m) = sRecalc force (core m) :=
  core_mapFrames m _ _ (fun _ _ => rfl)

theorem recalcDLC_main (m : KMat) (force : Bool) :
    (convert { recalcDLC := some force } m).map core = (expected { recalcDLC := some force } m).map core :=
  alone_one (stepRecalc force) (sRecalc force) m (recalc_A force _ |>.trans (by rw [core_init])) (sRecalc_B force m)

/-! ## deleteSignal, deleteZeroSignals, delete…Attributes -/

def stepDeleteSignal (m : KMat) (pat : String) : KMat :=
  { m with frames := m.frames.map fun f => { f with sigs := f.sigs.filter fun s => !globMatch pat s.name } }

theorem sDeleteSignal_B (m : KMat) (pat : String) : core (sDeleteSignal m pat) = sDeleteSignal (core m) pat :=
  core_mapFrames m _ _ (fun _ _ => rfl)

theorem deleteSignal_main (m : KMat) (pats : List String) :
    (convert { deleteSignal := some pats } m).map core = (expected { deleteSignal := some pats } m).map core :=
  alone_fold' stepDeleteSignal sDeleteSignal pats m sDeleteSignal_B sDeleteSignal_B

def stepDeleteZero (m : KMat) : KMat := { m with frames := m.frames.map fun f => { f with sigs := f.sigs.filter (·.size != 0) } }

theorem deleteZero_pred : (fun s : KSig => s.size != 0) = (fun s : KSig => decide (s.size > 0)) := by
  funext s
  by_cases h : s.size = 0
  · simp [h]
  · have : s.size > 0 := by omega
    simp [h, this]

theorem deleteZero_A (m : KMat) : core (stepDeleteZero m) = sDeleteZero (core m) := by
  unfold stepDeleteZero
  rw [deleteZero_pred]
  exact core_mapFrames m _ _ (fun _ _ => rfl)

theorem sDeleteZero_B (m : KMat) : core (sDeleteZero m) = sDeleteZero (core m) :=
  core_mapFrames m _ _ (fun _ _ => rfl)

theorem deleteZeroSignals_main (m : KMat) :
    (convert { deleteZeroSignals := true } m).map core = (expected { deleteZeroSignals := true } m).map core :=
  alone_one stepDeleteZero sDeleteZero m (deleteZero_A _ |>.trans (by rw [core_init])) (sDeleteZero_B m)

theorem sDelSigAttrs_B (ns : List String) (m : KMat) : core (sDelSigAttrs ns m) = sDelSigAttrs ns (core m) :=
  core_mapFrames m _ _ (fun _ _ => rfl)

theorem deleteSignalAttributes_main (m : KMat) (ns : List String) :
    (convert { deleteSignalAttributes := some ns } m).map core = (expected { deleteSignalAttributes := some ns } m).map core :=
  alone_one (sDelSigAttrs ns) (sDelSigAttrs ns) m (sDelSigAttrs_B ns _ |>.trans (by rw [core_init])) (sDelSigAttrs_B ns m)

theorem sDelFrameAttrs_B (ns : List String) (m : KMat) : core (sDelFrameAttrs ns m) = sDelFrameAttrs ns (core m) :=
  core_mapFrames m _ _ (fun _ _ => rfl)

theorem deleteFrameAttributes_main (m : KMat) (ns : List String) :
    (convert { deleteFrameAttributes := some ns } m).map core = (expected { deleteFrameAttributes := some ns } m).map core :=
  alone_one (sDelFrameAttrs ns) (sDelFrameAttrs ns) m (sDelFrameAttrs_B ns _ |>.trans (by rw [core_init])) (sDelFrameAttrs_B ns m)

/-! ## changeFrameId -/

theorem go_nil (o n : Nat) : changeFrameId1.go o n [] = [] := rfl
theorem go_cons (o n : Nat) (f : KFrame) (t : List KFrame) :
    changeFrameId1.go o n (f :: t) = if f.id == o then { f with id := n } :: t else f :: changeFrameId1.go o n t := rfl

theorem go_map_coreF (o n : Nat) : ∀ fs : List KFrame,
    (changeFrameId1.go o n fs).map coreF = changeFrameId1.go o n (fs.map coreF)
  | [] => rfl
  | f :: t => by
    rw [go_cons, List.map_cons, go_cons]
    show _ = if f.id == o then _ else _
    split
    · rfl
    · rw [List.map_cons, go_map_coreF o n t]

theorem changeFrameId1_core (m : KMat) (o n : Nat) : core (changeFrameId1 m o n) = changeFrameId1 (core m) o n := by
  show ({ ecus := m.ecus, frames := (changeFrameId1.go o n m.frames).map coreF } : KMat) = { ecus := m.ecus, frames := changeFrameId1.go o n (m.frames.map coreF) }
  rw [go_map_coreF]

theorem zipIdx_map_other (n : Nat) : ∀ (t : List KFrame) (i k : Nat), k < i →
    (t.zipIdx i).map (fun (x : KFrame × Nat) => match x with | (f, j) => if j == k then { f with id := n } else f) = t
  | [], _, _, _ => rfl
  | f :: t, i, k, h => by
    rw [List.zipIdx_cons, List.map_cons, zipIdx_map_other n t (i + 1) k (by omega)]
    have : ¬ (i == k) = true := by
      have : i ≠ k := by omega
      simp [this]
    show (if i == k then _ else f) :: t = _
    rw [if_neg this]

theorem go_eq_zip (o n : Nat) : ∀ (fs : List KFrame) (i : Nat),
    changeFrameId1.go o n fs = match fs.findIdx? (·.id == o) with
      | none => fs
      | some k => (fs.zipIdx i).map fun (x : KFrame × Nat) => match x with | (f, j) => if j == k + i then { f with id := n } else f
  | [], _ => rfl
  | f :: t, i => by
    rw [go_cons, List.findIdx?_cons]
    by_cases h : (f.id == o) = true
    · rw [if_pos h, if_pos h]
      show _ = List.map _ ((f :: t).zipIdx i)
      rw [List.zipIdx_cons, List.map_cons, zipIdx_map_other n t (i + 1) (0 + i) (by omega)]
      show _ = (if i == 0 + i then _ else f) :: t
      have : (i == 0 + i) = true := by simp
      rw [if_pos this]
    · rw [if_neg h, if_neg h, go_eq_zip o n t (i + 1)]
      cases hk : t.findIdx? (·.id == o) with
      | none => rfl
      | some k =>
        show _ = List.map _ ((f :: t).zipIdx i)
        rw [List.zipIdx_cons, List.map_cons]
        have : ¬ (i == k + 1 + i) = true := by
          rw [beq_iff_eq]; omega
        show _ = (if i == k + 1 + i then _ else f) :: _
        rw [if_neg this]
        have e : k + (i + 1) = k + 1 + i := by omega
        show f :: List.map _ _ = _
        rw [e]

theorem sChangeId_eq (m : KMat) (p : Nat × Nat) : sChangeId m p = changeFrameId1 m p.1 p.2 := by
  unfold sChangeId changeFrameId1
  have := go_eq_zip p.1 p.2 m.frames 0
  cases hk : m.frames.findIdx? (·.id == p.1) with
  | none =>
    rw [hk] at this
    show m = { m with frames := changeFrameId1.go p.1 p.2 m.frames }
    rw [this]
  | some k =>
    rw [hk] at this
    show ({ m with frames := _ } : KMat) = { m with frames := changeFrameId1.go p.1 p.2 m.frames }
    rw [this]
    rfl

def stepChangeId (m : KMat) (p : Nat × Nat) : KMat := changeFrameId1 m p.1 p.2

theorem changeId_A (m : KMat) (p : Nat × Nat) : core (stepChangeId m p) = sChangeId (core m) p := by
  rw [sChangeId_eq]; exact changeFrameId1_core m p.1 p.2

theorem sChangeId_B (m : KMat) (p : Nat × Nat) : core (sChangeId m p) = sChangeId (core m) p := by
  rw [sChangeId_eq, sChangeId_eq]; exact changeFrameId1_core m p.1 p.2

theorem changeFrameId_main (m : KMat) (ps : List (Nat × Nat)) :
    (convert { changeFrameId := some ps } m).map core = (expected { changeFrameId := some ps } m).map core :=
  alone_fold' stepChangeId sChangeId ps m changeId_A sChangeId_B

/-! ## addFrameReceiver -/

def stepAddReceiver (m : KMat) (p : String × String) : KMat := addFrameReceiver1 m p.1 p.2

theorem coreF_addReceiver (p : String × String) (f : KFrame) :
    coreF (if globMatch p.1 f.name then refresh { f with sigs := f.sigs.map fun s => { s with receivers := addUnique s.receivers p.2 } } else f)
      = (fun f : KFrame => if globMatch p.1 f.name then mapSigs f fun s => { s with receivers := if s.receivers.contains p.2 then s.receivers else s.receivers ++ [p.2] } else f) (coreF f) := by
  show _ = if globMatch p.1 f.name then _ else _
  split <;> rfl

theorem addReceiver_A (m : KMat) (p : String × String) : core (stepAddReceiver m p) = sAddReceiver (core m) p :=
  core_mapFrames m _ _ (fun f _ => coreF_addReceiver p f)

theorem sAddReceiver_B (m : KMat) (p : String × String) : core (sAddReceiver m p) = sAddReceiver (core m) p := by
  apply core_mapFrames m _ _
  intro f _
  show _ = if globMatch p.1 f.name then _ else _
  split <;> rfl

theorem addFrameReceiver_main (m : KMat) (ps : List (String × String)) :
    (convert { addFrameReceiver := some ps } m).map core = (expected { addFrameReceiver := some ps } m).map core :=
  alone_fold' stepAddReceiver sAddReceiver ps m addReceiver_A sAddReceiver_B

/-! ## renameSignal, one exact name -/

theorem renameFirstSig_eq_map (old new : String) : ∀ ss : List KSig, (ss.map (·.name)).Nodup →
    renameFirstSig ss old new = ss.map (fun s => { s with name := if s.name == old then new else s.name })
  | [], _ => rfl
  | s :: t, h => by
    rw [List.map_cons, List.nodup_cons] at h
    unfold renameFirstSig
    by_cases hn : s.name = old
    · have h1 : (s.name == old) = true := by simp [hn]
      rw [if_pos h1, List.map_cons, if_pos h1]
      congr 1
      symm
      apply map_eq_self
      intro x hx
      have : x.name ≠ old := by
        intro hxn
        apply h.1
        rw [hn, ← hxn]
        exact List.mem_map.2 ⟨x, hx, rfl⟩
      have h3 : ¬ (x.name == old) = true := by simp [this]
      rw [if_neg h3]
    · have h1 : ¬ (s.name == old) = true := by simp [hn]
      rw [if_neg h1, List.map_cons, if_neg h1, renameFirstSig_eq_map old new t h.2]

theorem sRenameName_exact (old new name : String)
    (ho : old.toList.getLast? ≠ some '*' ∧ old.toList.head? ≠ some '*') :
    sRenameName old new name = if name == old then new else name := by
  unfold sRenameName
  have h1 : (old.toList.getLast? == some '*') = false := by
    rw [beq_eq_false_iff_ne]; exact ho.1
  have h2 : (old.toList.head? == some '*') = false := by
    rw [beq_eq_false_iff_ne]; exact ho.2
  simp only [h1, h2, Bool.false_and, Bool.false_eq_true, if_false]

theorem renameSignalIn_exact (old new : String) (f : KFrame)
    (ho : old.toList.getLast? ≠ some '*' ∧ old.toList.head? ≠ some '*') :
    renameSignalIn old new f = { f with sigs := renameFirstSig f.sigs old new } := by
  unfold renameSignalIn
  have h1 : (old.toList.getLast? == some '*') = false := by
    rw [beq_eq_false_iff_ne]; exact ho.1
  have h2 : (old.toList.head? == some '*') = false := by
    rw [beq_eq_false_iff_ne]; exact ho.2
  simp only [h1, h2, Bool.or_self, Bool.false_eq_true, if_false]

def sigNamesNodup (m : KMat) : Prop := ∀ f ∈ m.frames, (f.sigs.map (·.name)).Nodup

theorem sigNamesNodup_init {m : KMat} (h : uniqueNames m) : sigNamesNodup (init m) := by
  intro g hg
  obtain ⟨f, hf, hs, _⟩ := init_sigs m g hg
  rw [hs]
  exact h.2.1 f hf

def stepRenameSignal (m : KMat) (p : String × String) : KMat := { m with frames := m.frames.map (renameSignalIn p.1 p.2) }

theorem sRenameSignal_exact (m : KMat) (old new : String)
    (ho : old.toList.getLast? ≠ some '*' ∧ old.toList.head? ≠ some '*') :
    sRenameSignal m (old, new) = { m with frames := m.frames.map fun f => { f with sigs := f.sigs.map fun s => { s with name := if s.name == old then new else s.name } } } := by
  unfold sRenameSignal mapFrames mapSigs
  have : (fun s : KSig => { s with name := sRenameName (old, new).1 (old, new).2 s.name }) = fun s => { s with name := if s.name == old then new else s.name } := by
    funext s
    rw [sRenameName_exact old new s.name ho]
  rw [this]

theorem renameSignal_A (old new : String) (ho : old.toList.getLast? ≠ some '*' ∧ old.toList.head? ≠ some '*')
    (m : KMat) (h : sigNamesNodup m) : core (stepRenameSignal m (old, new)) = sRenameSignal (core m) (old, new) := by
  rw [sRenameSignal_exact _ _ _ ho]
  apply core_mapFrames m _ _
  intro f hf
  show coreF (renameSignalIn old new f) = _
  rw [renameSignalIn_exact old new f ho, renameFirstSig_eq_map old new f.sigs (h f hf)]
  rfl

theorem sRenameSignal_B (m : KMat) (p : String × String) : core (sRenameSignal m p) = sRenameSignal (core m) p :=
  core_mapFrames m _ _ (fun _ _ => rfl)

theorem renameSignal_exact_main (m : KMat) (old new : String) (h : uniqueNames m)
    (ho : old.toList.getLast? ≠ some '*' ∧ old.toList.head? ≠ some '*') :
    (convert { renameSignal := some [(old, new)] } m).map core = (expected { renameSignal := some [(old, new)] } m).map core :=
  alone_one (fun m => stepRenameSignal m (old, new)) (fun m => sRenameSignal m (old, new)) m
    (renameSignal_A old new ho _ (sigNamesNodup_init h) |>.trans (by rw [core_init])) (sRenameSignal_B m _)

/-! ## deleteObsoleteEcus (needs fresh cached receiver lists) -/

theorem mem_addUnique (l : List String) (y x : String) : x ∈ addUnique l y ↔ x ∈ l ∨ x = y := by
  unfold addUnique
  split
  · rename_i h
    have hy : y ∈ l := List.contains_iff_mem.1 h
    constructor
    · intro hx; exact Or.inl hx
    · rintro (hx | rfl)
      · exact hx
      · exact hy
  · rw [List.mem_append, List.mem_singleton]

theorem mem_foldl_addUnique (x : String) : ∀ (l acc : List String), x ∈ l.foldl addUnique acc ↔ x ∈ acc ∨ x ∈ l
  | [], acc => by simp
  | y :: l, acc => by
    rw [List.foldl_cons, mem_foldl_addUnique x l, mem_addUnique, List.mem_cons, or_assoc]

theorem mem_frameReceivers (f : KFrame) (x : String) : x ∈ frameReceivers f ↔ ∃ s ∈ f.sigs, x ∈ s.receivers := by
  unfold frameReceivers
  rw [mem_foldl_addUnique, List.mem_flatMap]
  simp

def fresh (m : KMat) : Prop := ∀ f ∈ m.frames, f.frx = frameReceivers f

theorem fresh_init {m : KMat} (h : ∀ f ∈ m.frames, f.frx = [] ∨ f.frx = frameReceivers f) : fresh (init m) := by
  intro g hg
  obtain ⟨f, hf, rfl⟩ := List.mem_map.1 hg
  show (if f.frx.isEmpty then refresh f else f).frx = frameReceivers (if f.frx.isEmpty then refresh f else f)
  split
  · rfl
  · rename_i hne
    rcases h f hf with h0 | h1
    · rw [h0] at hne; exact absurd rfl hne
    · exact h1

def usedP (fs : List KFrame) (e : String) : Bool := fs.any fun f => f.tx.contains e || f.sigs.any (·.receivers.contains e)

theorem usedP_map_coreF (fs : List KFrame) (e : String) : usedP (fs.map coreF) e = usedP fs e := by
  unfold usedP
  rw [List.any_map]
  rfl

theorem usedEcusWithFrx_contains (m : KMat) (h : fresh m) (e : String) :
    (usedEcusWithFrx m).contains e = usedP m.frames e := by
  rw [Bool.eq_iff_iff, List.contains_iff_mem]
  unfold usedEcusWithFrx usedP
  rw [List.mem_flatMap, List.any_eq_true]
  constructor
  · rintro ⟨f, hf, he⟩
    refine ⟨f, hf, ?_⟩
    rw [List.mem_append, List.mem_append, h f hf, mem_frameReceivers, List.mem_flatMap] at he
    rw [Bool.or_eq_true, List.contains_iff_mem, List.any_eq_true]
    rcases he with (he | ⟨s, hs, hes⟩) | ⟨s, hs, hes⟩
    · exact Or.inl he
    · exact Or.inr ⟨s, hs, List.contains_iff_mem.2 hes⟩
    · exact Or.inr ⟨s, hs, List.contains_iff_mem.2 hes⟩
  · rintro ⟨f, hf, he⟩
    refine ⟨f, hf, ?_⟩
    rw [Bool.or_eq_true, List.contains_iff_mem, List.any_eq_true] at he
    rw [List.mem_append, List.mem_append, List.mem_flatMap]
    rcases he with he | ⟨s, hs, hes⟩
    · exact Or.inl (Or.inl he)
    · exact Or.inr ⟨s, hs, List.contains_iff_mem.1 hes⟩

def stepObs (m : KMat) : KMat := { m with ecus := m.ecus.filter (usedEcusWithFrx m).contains }

theorem sObsoleteEcus_eq (m : KMat) : sObsoleteEcus m = { m with ecus := m.ecus.filter (usedP m.frames) } := rfl

theorem obs_A (m : KMat) (h : fresh m) : core (stepObs m) = sObsoleteEcus (core m) := by
  rw [sObsoleteEcus_eq]
  have : (usedEcusWithFrx m).contains = usedP ((core m).frames) := by
    funext e
    rw [usedEcusWithFrx_contains m h, core_frames, usedP_map_coreF]
  unfold stepObs
  rw [this]
  rfl

theorem sObs_B (m : KMat) : core (sObsoleteEcus m) = sObsoleteEcus (core m) := by
  rw [sObsoleteEcus_eq, sObsoleteEcus_eq]
  have : usedP ((core m).frames) = usedP m.frames := by
    funext e
    rw [core_frames, usedP_map_coreF]
  rw [this]
  rfl

/-- `deleteObsoleteEcus_alone` under the hypothesis it needs: no frame carries a stale cached receiver list -/
theorem deleteObsoleteEcus_alone_of_fresh (m : KMat) (hf : ∀ f ∈ m.frames, f.frx = [] ∨ f.frx = frameReceivers f) :
    (convert { deleteObsoleteEcus := true } m).map core = (expected { deleteObsoleteEcus := true } m).map core :=
  alone_one stepObs sObsoleteEcus m (obs_A _ (fresh_init hf) |>.trans (by rw [core_init])) (sObs_B m)

/-! ## deleteEcu, one pattern (needs reference lists without duplicates) -/

def delS (p : String → Bool) (s : KSig) : KSig := { s with receivers := s.receivers.filter (!p ·) }
def delFr (p : String → Bool) (f : KFrame) : KFrame := { f with tx := f.tx.filter (!p ·), sigs := f.sigs.map (delS p) }
def delP (p : String → Bool) (m : KMat) : KMat := { ecus := m.ecus.filter (!p ·), frames := m.frames.map (delFr p) }

theorem filter_not_false {α : Type} (p : α → Bool) (l : List α) (h : ∀ x, p x = false) : l.filter (!p ·) = l := by
  apply List.filter_eq_self.2
  intro x _
  rw [h x]; rfl

theorem delP_id (p : String → Bool) (m : KMat) (h : ∀ x, p x = false) : delP p m = m := by
  have hS : ∀ s : KSig, delS p s = s := by
    intro s; unfold delS; rw [filter_not_false p _ h]
  have hF : ∀ f : KFrame, delFr p f = f := by
    intro f; unfold delFr
    rw [filter_not_false p _ h, map_eq_self _ _ (fun s _ => hS s)]
  unfold delP
  rw [filter_not_false p _ h, map_eq_self _ _ (fun f _ => hF f)]

theorem delS_comp (p q : String → Bool) (s : KSig) : delS q (delS p s) = delS (fun x => p x || q x) s := by
  unfold delS
  show ({ s with receivers := (s.receivers.filter (!p ·)).filter (!q ·) } : KSig) = _
  rw [List.filter_filter]
  have : (fun a => (!q a && !p a)) = (fun x => !(p x || q x)) := by
    funext a; cases p a <;> cases q a <;> rfl
  rw [this]

theorem delFr_comp (p q : String → Bool) (f : KFrame) : delFr q (delFr p f) = delFr (fun x => p x || q x) f := by
  unfold delFr
  show ({ f with tx := (f.tx.filter (!p ·)).filter (!q ·), sigs := (f.sigs.map (delS p)).map (delS q) } : KFrame) = _
  rw [List.filter_filter, List.map_map]
  have h1 : (fun a => (!q a && !p a)) = (fun x => !(p x || q x)) := by
    funext a; cases p a <;> cases q a <;> rfl
  have h2 : (delS q ∘ delS p) = delS (fun x => p x || q x) := by
    funext s; exact delS_comp p q s
  rw [h1, h2]

theorem delP_comp (p q : String → Bool) (m : KMat) : delP q (delP p m) = delP (fun x => p x || q x) m := by
  unfold delP
  show ({ ecus := (m.ecus.filter (!p ·)).filter (!q ·), frames := (m.frames.map (delFr p)).map (delFr q) } : KMat) = _
  rw [List.filter_filter, List.map_map]
  have h1 : (fun a => (!q a && !p a)) = (fun x => !(p x || q x)) := by
    funext a; cases p a <;> cases q a <;> rfl
  have h2 : (delFr q ∘ delFr p) = delFr (fun x => p x || q x) := by
    funext f; exact delFr_comp p q f
  rw [h1, h2]

theorem core_delP (p : String → Bool) (m : KMat) : core (delP p m) = delP p (core m) := by
  show ({ ecus := m.ecus.filter (!p ·), frames := (m.frames.map (delFr p)).map coreF } : KMat) =
    { ecus := m.ecus.filter (!p ·), frames := (m.frames.map coreF).map (delFr p) }
  rw [List.map_map, List.map_map]
  rfl

theorem sDeleteEcu_eq (m : KMat) (pat : String) :
    sDeleteEcu m pat = delP (fun e => m.ecus.contains e && globMatch pat e) m := rfl

def invD (m : KMat) : Prop := m.ecus.Nodup ∧ ∀ f ∈ m.frames, f.tx.Nodup ∧ ∀ s ∈ f.sigs, s.receivers.Nodup

def eraseF (e : String) (f : KFrame) : KFrame :=
  refresh { f with tx := f.tx.erase e, sigs := f.sigs.map fun s => { s with receivers := s.receivers.erase e } }

def eraseE (m : KMat) (e : String) : KMat := { ecus := m.ecus.erase e, frames := m.frames.map (eraseF e) }

def stepE (m : KMat) (e : String) : KMat := if !m.ecus.contains e then m else eraseE m e

theorem deleteEcu1_eq (m : KMat) (pat : String) : deleteEcu1 m pat = (m.ecus.filter (globMatch pat ·)).foldl stepE m := rfl

theorem stepE_of_mem (m : KMat) (e : String) (he : e ∈ m.ecus) : stepE m e = eraseE m e := by
  unfold stepE
  have : ¬ (!m.ecus.contains e) = true := by
    rw [List.contains_iff_mem.2 he]; exact Bool.false_ne_true
  rw [if_neg this]

theorem erase_eq_filter_beq (l : List String) (e : String) (h : l.Nodup) : l.erase e = l.filter (fun x => !(x == e)) :=
  h.erase_eq_filter e

theorem stepE_core (m : KMat) (e : String) (he : e ∈ m.ecus) (h : invD m) :
    core (stepE m e) = delP (· == e) (core m) := by
  rw [stepE_of_mem m e he]
  show ({ ecus := m.ecus.erase e, frames := (m.frames.map (eraseF e)).map coreF } : KMat) =
    { ecus := m.ecus.filter (fun x => !(x == e)), frames := (m.frames.map coreF).map (delFr (· == e)) }
  rw [erase_eq_filter_beq _ _ h.1, List.map_map, List.map_map]
  have : ∀ f ∈ m.frames, (coreF ∘ eraseF e) f = (delFr (· == e) ∘ coreF) f := by
    intro f hf
    have hs : f.sigs.map (fun s : KSig => { s with receivers := s.receivers.erase e }) = f.sigs.map (delS (· == e)) := by
      apply List.map_congr_left
      intro s hs
      show ({ s with receivers := s.receivers.erase e } : KSig) = { s with receivers := s.receivers.filter (fun x => !(x == e)) }
      rw [erase_eq_filter_beq _ _ ((h.2 f hf).2 s hs)]
    show coreF (refresh { f with tx := f.tx.erase e, sigs := f.sigs.map fun s => { s with receivers := s.receivers.erase e } }) = delFr (· == e) (coreF f)
    rw [hs, erase_eq_filter_beq _ _ (h.2 f hf).1]
    rfl
  rw [List.map_congr_left this]

theorem stepE_inv (m : KMat) (e : String) (he : e ∈ m.ecus) (h : invD m) : invD (stepE m e) := by
  rw [stepE_of_mem m e he]
  refine ⟨h.1.erase e, ?_⟩
  intro g hg
  obtain ⟨f, hf, rfl⟩ := List.mem_map.1 (show g ∈ m.frames.map (eraseF e) from hg)
  refine ⟨(h.2 f hf).1.erase e, ?_⟩
  intro s' hs'
  obtain ⟨s, hs, rfl⟩ := List.mem_map.1 hs'
  exact ((h.2 f hf).2 s hs).erase e

theorem foldl_stepE_core : ∀ (L : List String) (m : KMat), invD m → L.Nodup → (∀ e ∈ L, e ∈ m.ecus) →
    core (L.foldl stepE m) = delP (fun x => L.contains x) (core m)
  | [], m, _, _, _ => by
    rw [List.foldl_nil, delP_id (fun x => ([] : List String).contains x) _ (fun _ => rfl)]
  | e :: L, m, h, hL, hsub => by
    rw [List.nodup_cons] at hL
    have he : e ∈ m.ecus := hsub e List.mem_cons_self
    have hsub' : ∀ e' ∈ L, e' ∈ (stepE m e).ecus := by
      intro e' he'
      rw [stepE_of_mem m e he]
      show e' ∈ m.ecus.erase e
      have hne : e' ≠ e := by
        intro heq; rw [heq] at he'; exact hL.1 he'
      exact (List.mem_erase_of_ne hne).2 (hsub e' (List.mem_cons_of_mem _ he'))
    rw [List.foldl_cons, foldl_stepE_core L (stepE m e) (stepE_inv m e he h) hL.2 hsub', stepE_core m e he h, delP_comp]
    have : (fun x => (x == e || L.contains x)) = (fun x => (e :: L).contains x) := by
      funext x; rw [List.contains_cons]
    rw [this]

theorem deleteEcu1_core (m : KMat) (pat : String) (h : invD m) : core (deleteEcu1 m pat) = sDeleteEcu (core m) pat := by
  rw [deleteEcu1_eq, foldl_stepE_core _ m h (List.Nodup.sublist List.filter_sublist h.1) (fun e he => (List.mem_filter.1 he).1),
    sDeleteEcu_eq]
  have : (fun x => (m.ecus.filter (globMatch pat ·)).contains x) = (fun e => (core m).ecus.contains e && globMatch pat e) := by
    funext x
    rw [core_ecus, Bool.eq_iff_iff, List.contains_iff_mem, Bool.and_eq_true, List.contains_iff_mem, List.mem_filter]
  rw [this]

theorem sDeleteEcu_B (m : KMat) (pat : String) : core (sDeleteEcu m pat) = sDeleteEcu (core m) pat := by
  rw [sDeleteEcu_eq, sDeleteEcu_eq, core_delP]
  rfl

theorem invD_init {m : KMat} (h : uniqueNames m) (hr : ∀ f ∈ m.frames, f.tx.Nodup ∧ ∀ s ∈ f.sigs, s.receivers.Nodup) : invD (init m) := by
  refine ⟨h.2.2, ?_⟩
  intro g hg
  obtain ⟨f, hf, hs, ht⟩ := init_sigs m g hg
  rw [hs, ht]
  exact hr f hf

/-- `deleteEcu_alone` under the hypothesis it needs: no sender / receiver list names an ECU twice -/
theorem deleteEcu_alone_of_nodup_refs (m : KMat) (pat : String) (h : uniqueNames m)
    (hr : ∀ f ∈ m.frames, f.tx.Nodup ∧ ∀ s ∈ f.sigs, s.receivers.Nodup) :
    (convert { deleteEcu := some [pat] } m).map core = (expected { deleteEcu := some [pat] } m).map core :=
  alone_one (fun m => deleteEcu1 m pat) (fun m => sDeleteEcu m pat) m
    (deleteEcu1_core _ pat (invD_init h hr) |>.trans (by rw [core_init])) (sDeleteEcu_B m pat)

/-! ## the two statements of Props/C18.lean that are false as written: machine-checked counterexamples -/

/-- a frame whose cached receiver list is stale (names an ECU no signal has) and not empty: `convert` does not refresh it -/
def staleFrxEx : KMat :=
  { ecus := ["A"], frames := [{ name := "F", id := 1, ext := false, size := 1, frx := ["A"] }] }

/-- `deleteObsoleteEcus_alone` fails on `staleFrxEx`: the pipeline keeps `A`, the documented effect removes it -/
theorem deleteObsoleteEcus_alone_false :
    (convert { deleteObsoleteEcus := true } staleFrxEx).map core ≠ (expected { deleteObsoleteEcus := true } staleFrxEx).map core := by
  decide

theorem deleteObsoleteEcus_alone_false_ecus :
    (convert { deleteObsoleteEcus := true } staleFrxEx).map (·.ecus) = some ["A"] ∧
    (expected { deleteObsoleteEcus := true } staleFrxEx).map (·.ecus) = some [] := by
  decide

/-- unique names, but the sender list names `A` twice: `erase` removes one occurrence, the documented filter both -/
def dupTxEx : KMat :=
  { ecus := ["A"], frames := [{ name := "F", id := 1, ext := false, size := 1, tx := ["A", "A"] }] }

theorem dupTxEx_uniqueNames : uniqueNames dupTxEx := by
  unfold uniqueNames
  decide

/-- `deleteEcu_alone` fails on `dupTxEx` with the pattern `A` -/
theorem deleteEcu_alone_false :
    (convert { deleteEcu := some ["A"] } dupTxEx).map core ≠ (expected { deleteEcu := some ["A"] } dupTxEx).map core := by
  decide

theorem deleteEcu_alone_false_tx :
    (convert { deleteEcu := some ["A"] } dupTxEx).map (·.frames.map (·.tx)) = some [["A"]] ∧
    (expected { deleteEcu := some ["A"] } dupTxEx).map (·.frames.map (·.tx)) = some [[]] := by
  decide

/-! ## every combination of the options that neither select nor rename -/

theorem foldl_inv {α : Type} (step : KMat → α → KMat) (inv : KMat → Prop) (hI : ∀ m a, inv m → inv (step m a)) :
    ∀ (l : List α) (m : KMat), inv m → inv (l.foldl step m)
  | [], _, h => h
  | a :: l, m, h => by
    rw [List.foldl_cons]
    exact foldl_inv step inv hI l _ (hI m a h)

def optStep {α : Type} (x : Option α) (step : α → KMat → KMat) (m : KMat) : KMat :=
  match x with
  | some a => step a m
  | none => m

theorem optStep_core {α : Type} (x : Option α) (step sstep : α → KMat → KMat)
    (hA : ∀ a m, core (step a m) = sstep a (core m)) (m : KMat) :
    core (optStep x step m) = optStep x sstep (core m) := by
  cases x with
  | none => rfl
  | some a => exact hA a m

/-- frame names survive a map that keeps each frame's name -/
theorem namesNodup_map (m : KMat) (e : List String) (g : KFrame → KFrame) (hg : ∀ f, (g f).name = f.name) (h : namesNodup m) :
    namesNodup { ecus := e, frames := m.frames.map g } := by
  unfold namesNodup
  show ((m.frames.map g).map (·.name)).Nodup
  rw [List.map_map]
  have : m.frames.map ((fun f : KFrame => f.name) ∘ g) = m.frames.map (·.name) :=
    List.map_congr_left (fun f _ => hg f)
  rw [this]
  exact h

/-! ### phase 1: deleteEcu, several patterns -/

def inv1 (m : KMat) : Prop := namesNodup m ∧ invD m

theorem stepE_inv' (m : KMat) (e : String) (h : invD m) : invD (stepE m e) := by
  by_cases he : e ∈ m.ecus
  · exact stepE_inv m e he h
  · unfold stepE
    have : (!m.ecus.contains e) = true := by
      have : m.ecus.contains e = false := by
        rw [Bool.eq_false_iff]; intro hc; exact he (List.contains_iff_mem.1 hc)
      rw [this]; rfl
    rw [if_pos this]
    exact h

theorem stepE_names (m : KMat) (e : String) (h : namesNodup m) : namesNodup (stepE m e) := by
  unfold stepE
  split
  · exact h
  · exact namesNodup_map m _ (eraseF e) (fun _ => rfl) h

theorem stepE_inv1 (m : KMat) (e : String) (h : inv1 m) : inv1 (stepE m e) :=
  ⟨stepE_names m e h.1, stepE_inv' m e h.2⟩

theorem deleteEcu1_inv1 (m : KMat) (pat : String) (h : inv1 m) : inv1 (deleteEcu1 m pat) := by
  rw [deleteEcu1_eq]
  exact foldl_inv stepE inv1 stepE_inv1 _ m h

theorem inv1_init {m : KMat} (h : uniqueNames m) (hr : ∀ f ∈ m.frames, f.tx.Nodup ∧ ∀ s ∈ f.sigs, s.receivers.Nodup) :
    inv1 (init m) := ⟨namesNodup_init h, invD_init h hr⟩

theorem phase1_core (l : List String) (m : KMat) (h : inv1 m) :
    core (l.foldl deleteEcu1 m) = l.foldl sDeleteEcu (core m) :=
  core_foldl deleteEcu1 sDeleteEcu inv1 (fun m a hm => deleteEcu1_core m a hm.2) deleteEcu1_inv1 l m h

theorem phase1_names (l : List String) (m : KMat) (h : inv1 m) : namesNodup (l.foldl deleteEcu1 m) :=
  (foldl_inv deleteEcu1 inv1 deleteEcu1_inv1 l m h).1

/-! ### phase 2: the steps that look frames up by name (and those between them) -/

theorem addReceiver_I (m : KMat) (p : String × String) (h : namesNodup m) : namesNodup (stepAddReceiver m p) := by
  apply namesNodup_map m m.ecus _ _ h
  intro f
  show (if globMatch p.1 f.name then _ else f).name = f.name
  split <;> rfl

theorem go_names (o n : Nat) : ∀ fs : List KFrame, (changeFrameId1.go o n fs).map (·.name) = fs.map (·.name)
  | [] => rfl
  | f :: t => by
    rw [go_cons]
    split
    · rfl
    · rw [List.map_cons, List.map_cons, go_names o n t]

theorem changeId_I (m : KMat) (p : Nat × Nat) (h : namesNodup m) : namesNodup (stepChangeId m p) := by
  unfold namesNodup
  show ((changeFrameId1.go p.1 p.2 m.frames).map (·.name)).Nodup
  rw [go_names]
  exact h

def mp2 (o : Opts) (m : KMat) : KMat :=
  (o.unsetFrameFd.getD []).foldl (stepSetFd false)
    ((o.setFrameFd.getD []).foldl (stepSetFd true)
      ((o.changeFrameId.getD []).foldl stepChangeId
        ((o.addFrameReceiver.getD []).foldl stepAddReceiver
          ((o.deleteFrame.getD []).foldl stepDeleteFrame m))))

def sp2 (o : Opts) (m : KMat) : KMat :=
  (o.unsetFrameFd.getD []).foldl (sSetFd false)
    ((o.setFrameFd.getD []).foldl (sSetFd true)
      ((o.changeFrameId.getD []).foldl sChangeId
        ((o.addFrameReceiver.getD []).foldl sAddReceiver
          ((o.deleteFrame.getD []).foldl sDeleteFrame m))))

theorem phase2_core (o : Opts) (m : KMat) (h : namesNodup m) : core (mp2 o m) = sp2 o (core m) := by
  unfold mp2 sp2
  have h1 := foldl_inv stepDeleteFrame namesNodup deleteFrame_I (o.deleteFrame.getD []) m h
  have h2 := foldl_inv stepAddReceiver namesNodup addReceiver_I (o.addFrameReceiver.getD []) _ h1
  have h3 := foldl_inv stepChangeId namesNodup changeId_I (o.changeFrameId.getD []) _ h2
  have h4 := foldl_inv (stepSetFd true) namesNodup (setFd_I true) (o.setFrameFd.getD []) _ h3
  rw [core_foldl (stepSetFd false) (sSetFd false) namesNodup (setFd_A false) (setFd_I false) _ _ h4,
    core_foldl (stepSetFd true) (sSetFd true) namesNodup (setFd_A true) (setFd_I true) _ _ h3,
    core_foldl' stepChangeId sChangeId changeId_A,
    core_foldl' stepAddReceiver sAddReceiver addReceiver_A,
    core_foldl stepDeleteFrame sDeleteFrame namesNodup deleteFrame_A deleteFrame_I _ _ h]

theorem sp2_core (o : Opts) (m : KMat) : core (sp2 o m) = sp2 o (core m) := by
  unfold sp2
  rw [core_foldl' (sSetFd false) (sSetFd false) (sSetFd_B false),
    core_foldl' (sSetFd true) (sSetFd true) (sSetFd_B true),
    core_foldl' sChangeId sChangeId sChangeId_B,
    core_foldl' sAddReceiver sAddReceiver sAddReceiver_B,
    core_foldl' sDeleteFrame sDeleteFrame sDeleteFrame_B]

/-! ### phase 3: the steps that need no hypothesis -/

def mp3 (o : Opts) (m : KMat) : KMat :=
  optStep o.recalcDLC stepRecalc
    (optStep o.deleteFrameAttributes sDelFrameAttrs
      (optStep o.deleteSignalAttributes sDelSigAttrs
        ((fun m => if o.deleteZeroSignals then stepDeleteZero m else m)
          ((o.deleteSignal.getD []).foldl stepDeleteSignal
            (optStep o.cutLongFrames stepCutLong
              (optStep o.skipLongDlc stepSkipLong m))))))

def sp3 (o : Opts) (m : KMat) : KMat :=
  optStep o.recalcDLC sRecalc
    (optStep o.deleteFrameAttributes sDelFrameAttrs
      (optStep o.deleteSignalAttributes sDelSigAttrs
        ((fun m => if o.deleteZeroSignals then sDeleteZero m else m)
          ((o.deleteSignal.getD []).foldl sDeleteSignal
            (optStep o.cutLongFrames sCutLong
              (optStep o.skipLongDlc sSkipLong m))))))

theorem ite_core (b : Bool) (step sstep : KMat → KMat) (hA : ∀ m, core (step m) = sstep (core m)) (m : KMat) :
    core ((fun m => if b then step m else m) m) = (fun m => if b then sstep m else m) (core m) := by
  cases b
  · rfl
  · exact hA m

theorem phase3_core (o : Opts) (m : KMat) : core (mp3 o m) = sp3 o (core m) := by
  unfold mp3 sp3
  rw [optStep_core _ stepRecalc sRecalc recalc_A,
    optStep_core _ sDelFrameAttrs sDelFrameAttrs sDelFrameAttrs_B,
    optStep_core _ sDelSigAttrs sDelSigAttrs sDelSigAttrs_B,
    ite_core _ stepDeleteZero sDeleteZero deleteZero_A,
    core_foldl' stepDeleteSignal sDeleteSignal sDeleteSignal_B,
    optStep_core _ stepCutLong sCutLong cutLong_A,
    optStep_core _ stepSkipLong sSkipLong skipLong_A]

theorem sp3_core (o : Opts) (m : KMat) : core (sp3 o m) = sp3 o (core m) := by
  unfold sp3
  rw [optStep_core _ sRecalc sRecalc sRecalc_B,
    optStep_core _ sDelFrameAttrs sDelFrameAttrs sDelFrameAttrs_B,
    optStep_core _ sDelSigAttrs sDelSigAttrs sDelSigAttrs_B,
    ite_core _ sDeleteZero sDeleteZero sDeleteZero_B,
    core_foldl' sDeleteSignal sDeleteSignal sDeleteSignal_B,
    optStep_core _ sCutLong sCutLong sCutLong_B,
    optStep_core _ sSkipLong sSkipLong sSkipLong_B]

/-! ### the pipeline under `plainOptions` -/

def modelPipe (o : Opts) (m : KMat) : KMat := mp3 o (mp2 o ((o.deleteEcu.getD []).foldl deleteEcu1 (init m)))
def specPipe (o : Opts) (m : KMat) : KMat := sp3 o (sp2 o ((o.deleteEcu.getD []).foldl sDeleteEcu m))

/-- the options that neither select nor rename (the hypothesis `plainOptions` of Props/C18.lean) -/
def plainOpts (o : Opts) : Prop :=
  o.ecus = none ∧ o.frames = none ∧ o.renameEcu = none ∧ o.renameFrame = none ∧ o.renameSignal = none ∧ o.deleteObsoleteEcus = false

theorem convert_plain (o : Opts) (m : KMat) (ho : plainOpts o) : convert o m = some (modelPipe o m) := by
  obtain ⟨ecus, frames, renameEcu, deleteEcu, renameFrame, deleteFrame, addFrameReceiver, changeFrameId, setFrameFd,
    unsetFrameFd, skipLongDlc, cutLongFrames, renameSignal, deleteSignal, deleteZeroSignals, deleteSignalAttributes,
    deleteFrameAttributes, deleteObsoleteEcus, recalcDLC⟩ := o
  obtain ⟨h1, h2, h3, h4, h5, h6⟩ := ho
  dsimp only at h1 h2 h3 h4 h5 h6
  subst h1 h2 h3 h4 h5 h6
  cases skipLongDlc <;> cases cutLongFrames <;> cases deleteZeroSignals <;> cases deleteSignalAttributes <;>
    cases deleteFrameAttributes <;> cases recalcDLC <;> rfl

theorem expected_plain (o : Opts) (m : KMat) (ho : plainOpts o) : expected o m = some (specPipe o m) := by
  obtain ⟨ecus, frames, renameEcu, deleteEcu, renameFrame, deleteFrame, addFrameReceiver, changeFrameId, setFrameFd,
    unsetFrameFd, skipLongDlc, cutLongFrames, renameSignal, deleteSignal, deleteZeroSignals, deleteSignalAttributes,
    deleteFrameAttributes, deleteObsoleteEcus, recalcDLC⟩ := o
  obtain ⟨h1, h2, h3, h4, h5, h6⟩ := ho
  dsimp only at h1 h2 h3 h4 h5 h6
  subst h1 h2 h3 h4 h5 h6
  cases skipLongDlc <;> cases cutLongFrames <;> cases deleteZeroSignals <;> cases deleteSignalAttributes <;>
    cases deleteFrameAttributes <;> cases recalcDLC <;> rfl

theorem modelPipe_core (o : Opts) (m : KMat) (h : uniqueNames m)
    (hr : ∀ f ∈ m.frames, f.tx.Nodup ∧ ∀ s ∈ f.sigs, s.receivers.Nodup) :
    core (modelPipe o m) = specPipe o (core m) := by
  unfold modelPipe specPipe
  have h0 := inv1_init h hr
  rw [phase3_core, phase2_core o _ (phase1_names _ _ h0), phase1_core _ _ h0, core_init]

theorem specPipe_core (o : Opts) (m : KMat) : core (specPipe o m) = specPipe o (core m) := by
  unfold specPipe
  rw [sp3_core, sp2_core, core_foldl' sDeleteEcu sDeleteEcu sDeleteEcu_B]

theorem plain_options_combined_main (o : Opts) (m : KMat) (ho : plainOpts o) (h : uniqueNames m)
    (hr : ∀ f ∈ m.frames, f.tx.Nodup ∧ ∀ s ∈ f.sigs, s.receivers.Nodup) :
    (convert o m).map core = (expected o m).map core := by
  rw [convert_plain o m ho, expected_plain o m ho, Option.map_some, Option.map_some, modelPipe_core o m h hr, specPipe_core]

/-! ## renaming with the `*` forms -/

/-- the hypothesis `plainPattern` of Props/C18.lean -/
def plainPat (old : String) : Prop :=
  let o := old.toList
  o ≠ [] ∧ (∀ c ∈ o.dropLast.drop 1, c ≠ '*') ∧ ¬ (o.head? = some '*' ∧ o.getLast? = some '*' ∧ 2 ≤ o.length)

theorem take_beq_eq_isPrefixOf (p n : List Char) : (n.take p.length == p) = p.isPrefixOf n := by
  rw [Bool.eq_iff_iff, beq_iff_eq, List.isPrefixOf_iff_prefix, List.prefix_iff_eq_take]
  exact eq_comm

theorem drop_beq_eq_isSuffixOf (s n : List Char) : (n.drop (n.length - s.length) == s) = s.isSuffixOf n := by
  rw [Bool.eq_iff_iff, beq_iff_eq, List.isSuffixOf_iff_suffix, List.suffix_iff_eq_drop]
  exact eq_comm

theorem ofList_beq (l : List Char) (s : String) : (String.ofList l == s) = (l == s.toList) := by
  rw [Bool.eq_iff_iff, beq_iff_eq, beq_iff_eq, ← String.toList_inj, String.toList_ofList]

theorem str_beq (a b : String) : (a == b) = (a.toList == b.toList) := by
  rw [Bool.eq_iff_iff, beq_iff_eq, beq_iff_eq, String.toList_inj]

/-- the three shapes of a plain pattern -/
theorem plainPat_cases (old : String) (hp : plainPat old) :
    (old.toList.getLast? ≠ some '*' ∧ old.toList.head? ≠ some '*') ∨
    (old.toList.getLast? ≠ some '*' ∧ old.toList.head? = some '*' ∧ 2 ≤ old.toList.length) ∨
    (old.toList = ['*']) ∨
    (old.toList.getLast? = some '*' ∧ old.toList.head? ≠ some '*' ∧ 2 ≤ old.toList.length) := by
  obtain ⟨h0, _, h3⟩ := hp
  generalize old.toList = o at *
  by_cases hl : o.getLast? = some '*'
  · right; right
    by_cases hlen : 2 ≤ o.length
    · right
      exact ⟨hl, fun hh => h3 ⟨hh, hl, hlen⟩, hlen⟩
    · left
      match o, h0, hl, hlen with
      | [c], _, hl, _ =>
        simp only [List.getLast?_singleton, Option.some.injEq] at hl
        rw [hl]
      | _ :: _ :: _, _, _, hlen => exact absurd (by simp) hlen
  · by_cases hh : o.head? = some '*'
    · right; left
      refine ⟨hl, hh, ?_⟩
      match o, h0, hl, hh with
      | [c], _, hl, hh =>
        exfalso; apply hl
        simpa using hh
      | _ :: _ :: _, _, _, _ => simp
    · left; exact ⟨hl, hh⟩


/-- exact form -/
theorem renameFrameName_exact (old new name : String)
    (ho : old.toList.getLast? ≠ some '*' ∧ old.toList.head? ≠ some '*') :
    renameFrameName old new name = if name == old then new else name := by
  unfold renameFrameName
  have h1 : (old.toList.getLast? == some '*') = false := by
    rw [beq_eq_false_iff_ne]; exact ho.1
  have h2 : (old.toList.head? == some '*') = false := by
    rw [beq_eq_false_iff_ne]; exact ho.2
  simp only [h1, h2, Bool.false_eq_true, if_false, String.ofList_toList]

/-- suffix form -/
theorem renameFrameName_suffix (old new name : String)
    (ho : old.toList.getLast? ≠ some '*' ∧ old.toList.head? = some '*' ∧ 2 ≤ old.toList.length) :
    renameFrameName old new name =
      if (old.toList.drop 1).isSuffixOf name.toList
      then String.ofList (name.toList.take (name.toList.length - (old.toList.length - 1)) ++ new.toList) else name := by
  unfold renameFrameName
  have h1 : (old.toList.getLast? == some '*') = false := by
    rw [beq_eq_false_iff_ne]; exact ho.1
  have h2 : (old.toList.head? == some '*') = true := by
    rw [beq_iff_eq]; exact ho.2.1
  have h3 : (old.toList.length - 1 == 0) = false := by
    rw [beq_eq_false_iff_ne]; have := ho.2.2; omega
  have h4 : old.toList.length - 1 = (old.toList.drop 1).length := by rw [List.length_drop]
  simp only [h1, h2, h3, Bool.false_eq_true, if_false, if_true, String.ofList_toList]
  rw [h4, drop_beq_eq_isSuffixOf]

theorem sRenameName_suffix (old new name : String)
    (ho : old.toList.getLast? ≠ some '*' ∧ old.toList.head? = some '*' ∧ 2 ≤ old.toList.length) :
    sRenameName old new name =
      if (old.toList.drop 1).isSuffixOf name.toList
      then String.ofList (name.toList.take (name.toList.length - (old.toList.length - 1)) ++ new.toList) else name := by
  unfold sRenameName
  have h1 : (old.toList.getLast? == some '*') = false := by
    rw [beq_eq_false_iff_ne]; exact ho.1
  have h2 : (old.toList.head? == some '*') = true := by
    rw [beq_iff_eq]; exact ho.2.1
  have h3 : decide (old.toList.length ≥ 2) = true := decide_eq_true ho.2.2
  simp only [h1, h2, h3, Bool.false_and, Bool.true_and, Bool.false_eq_true, if_false]
  by_cases hs : (old.toList.drop 1).isSuffixOf name.toList = true
  · rw [if_pos hs, if_pos hs]
  · rw [if_neg hs, if_neg hs]
    have : ¬ (name == old) = true := by
      intro he
      rw [beq_iff_eq] at he
      apply hs
      rw [he, List.isSuffixOf_iff_suffix]
      exact List.drop_suffix 1 _
    rw [if_neg this]

/-- the lone `*`: the new name is put in front -/
theorem renameFrameName_star (old new name : String) (ho : old.toList = ['*']) :
    renameFrameName old new name = String.ofList (new.toList ++ name.toList) := by
  unfold renameFrameName
  rw [ho]
  simp only [List.getLast?_singleton, List.head?_cons, List.length_singleton, Nat.sub_self, List.take_zero, List.drop_zero,
    List.dropLast_singleton, BEq.rfl, if_true, List.drop_succ_cons, List.nil_append]
  by_cases h : (new.toList ++ name.toList == []) = true
  · rw [if_pos h]
    rw [beq_iff_eq, List.append_eq_nil_iff] at h
    rw [h.2, List.append_nil]
  · rw [if_neg h]

theorem sRenameName_star (old new name : String) (ho : old.toList = ['*']) :
    sRenameName old new name = String.ofList (new.toList ++ name.toList) := by
  unfold sRenameName
  rw [ho]
  simp only [List.getLast?_singleton, List.length_singleton, Nat.sub_self, List.drop_zero,
    List.dropLast_singleton, BEq.rfl, List.isPrefixOf_nil_left, Bool.true_and, ge_iff_le, Nat.le_refl, decide_true, if_true]

/-- prefix form -/
theorem sRenameName_prefix (old new name : String)
    (ho : old.toList.getLast? = some '*' ∧ old.toList.head? ≠ some '*' ∧ 2 ≤ old.toList.length) :
    sRenameName old new name =
      if old.toList.dropLast.isPrefixOf name.toList
      then String.ofList (new.toList ++ name.toList.drop (old.toList.length - 1)) else if name == old then new else name := by
  unfold sRenameName
  have h1 : (old.toList.getLast? == some '*') = true := by
    rw [beq_iff_eq]; exact ho.1
  have h2 : (old.toList.head? == some '*') = false := by
    rw [beq_eq_false_iff_ne]; exact ho.2.1
  have h3 : decide (old.toList.length ≥ 1) = true := decide_eq_true (by have := ho.2.2; omega)
  simp only [h1, h2, h3, Bool.false_and, Bool.true_and, Bool.false_eq_true, if_false]

/-- `rename_frame` with a prefix pattern, as the source has it: when the renamed name equals the pattern itself,
the following `elif` renames it once more -/
theorem renameFrameName_prefix (old new name : String)
    (ho : old.toList.getLast? = some '*' ∧ old.toList.head? ≠ some '*' ∧ 2 ≤ old.toList.length) :
    renameFrameName old new name =
      if old.toList.dropLast.isPrefixOf name.toList
      then (if new.toList ++ name.toList.drop (old.toList.length - 1) == old.toList then new
            else String.ofList (new.toList ++ name.toList.drop (old.toList.length - 1)))
      else if name == old then new else name := by
  unfold renameFrameName
  have h1 : (old.toList.getLast? == some '*') = true := by
    rw [beq_iff_eq]; exact ho.1
  have h2 : (old.toList.head? == some '*') = false := by
    rw [beq_eq_false_iff_ne]; exact ho.2.1
  have h4 : old.toList.length - 1 = old.toList.dropLast.length := by rw [List.length_dropLast]
  simp only [h1, h2, Bool.false_eq_true, if_false, if_true]
  rw [ofList_beq]
  rw [h4, take_beq_eq_isPrefixOf]
  by_cases hs : old.toList.dropLast.isPrefixOf name.toList = true
  · simp only [hs, if_true]
  · simp only [hs, Bool.false_eq_true, if_false, String.ofList_toList]
    rw [str_beq]

/-- `rename_frame` does what the documentation says for plain patterns, provided that - for a prefix pattern -
the name to be renamed does not itself end in `*` -/
theorem renameFrameName_documented_of_last (old new name : String) (hp : plainPat old)
    (hn : old.toList.getLast? = some '*' → name.toList.getLast? ≠ some '*') :
    renameFrameName old new name = sRenameName old new name := by
  rcases plainPat_cases old hp with h | h | h | h
  · rw [renameFrameName_exact old new name h, sRenameName_exact old new name h]
  · rw [renameFrameName_suffix old new name h, sRenameName_suffix old new name h]
  · rw [renameFrameName_star old new name h, sRenameName_star old new name h]
  · rw [renameFrameName_prefix old new name h, sRenameName_prefix old new name h]
    by_cases hs : old.toList.dropLast.isPrefixOf name.toList = true
    · rw [if_pos hs, if_pos hs]
      by_cases he : (new.toList ++ name.toList.drop (old.toList.length - 1) == old.toList) = true
      · rw [if_pos he]
        rw [beq_iff_eq] at he
        have hr : name.toList.drop (old.toList.length - 1) = [] := by
          apply Classical.byContradiction
          intro hne
          have hl : (new.toList ++ name.toList.drop (old.toList.length - 1)).getLast? = some '*' := by rw [he]; exact h.1
          rw [List.getLast?_append] at hl
          have hd : (name.toList.drop (old.toList.length - 1)).getLast? = name.toList.getLast? := by
            rw [List.getLast?_drop]
            split
            · rename_i hle
              exact absurd (List.drop_eq_nil_iff.2 hle) hne
            · rfl
          rw [hd] at hl
          cases hx : name.toList.getLast? with
          | none =>
            rw [← hd, List.getLast?_eq_none_iff] at hx
            exact hne hx
          | some c =>
            rw [hx, Option.some_or] at hl
            rw [hl] at hx
            exact hn h.1 hx
        rw [hr, List.append_nil, String.ofList_toList]
      · rw [if_neg he]
    · rw [if_neg hs, if_neg hs]

theorem renameFrameName_documented_of_noStar (old new name : String) (hp : plainPat old) (hn : '*' ∉ name.toList) :
    renameFrameName old new name = sRenameName old new name :=
  renameFrameName_documented_of_last old new name hp (fun _ hl => hn (List.mem_of_getLast? hl))

/-- `rename_signal` (an `if` / `elif` chain) with a `*` form -/
theorem renameSigPattern_documented (old new name : String) (hp : plainPat old)
    (hs : old.toList.getLast? = some '*' ∨ old.toList.head? = some '*') :
    renameSigPattern old new name = sRenameName old new name := by
  rcases plainPat_cases old hp with h | h | h | h
  · exact absurd hs (by intro hs; rcases hs with hs | hs; exact h.1 hs; exact h.2 hs)
  · rw [sRenameName_suffix old new name h]
    unfold renameSigPattern
    have h1 : (old.toList.getLast? == some '*') = false := by
      rw [beq_eq_false_iff_ne]; exact h.1
    have h2 : (old.toList.head? == some '*') = true := by
      rw [beq_iff_eq]; exact h.2.1
    have h3 : (old.toList.length - 1 == 0) = false := by
      rw [beq_eq_false_iff_ne]; have := h.2.2; omega
    have h4 : old.toList.length - 1 = (old.toList.drop 1).length := by rw [List.length_drop]
    simp only [h1, h2, h3, Bool.false_eq_true, if_false, if_true]
    rw [h4, drop_beq_eq_isSuffixOf]
  · rw [sRenameName_star old new name h]
    unfold renameSigPattern
    rw [h]
    simp only [List.getLast?_singleton, List.length_singleton, Nat.sub_self, List.take_zero, List.drop_zero,
      List.dropLast_singleton, BEq.rfl, if_true]
  · rw [sRenameName_prefix old new name h]
    unfold renameSigPattern
    have h1 : (old.toList.getLast? == some '*') = true := by
      rw [beq_iff_eq]; exact h.1
    have h4 : old.toList.length - 1 = old.toList.dropLast.length := by rw [List.length_dropLast]
    simp only [h1, if_true]
    rw [h4, take_beq_eq_isPrefixOf]
    by_cases hpre : old.toList.dropLast.isPrefixOf name.toList = true
    · rw [if_pos hpre, if_pos hpre]
    · rw [if_neg hpre, if_neg hpre]
      have : ¬ (name == old) = true := by
        intro he
        rw [beq_iff_eq] at he
        apply hpre
        rw [he, List.isPrefixOf_iff_prefix]
        exact List.dropLast_prefix _
      rw [if_neg this]

/-! ### `--renameSignal` with a `*` form alone -/

theorem renameSignalIn_pattern (old new : String) (f : KFrame)
    (hs : old.toList.getLast? = some '*' ∨ old.toList.head? = some '*') :
    renameSignalIn old new f = { f with sigs := f.sigs.map fun s => { s with name := renameSigPattern old new s.name } } := by
  unfold renameSignalIn
  have h : (old.toList.getLast? == some '*' || old.toList.head? == some '*') = true := by
    rw [Bool.or_eq_true, beq_iff_eq, beq_iff_eq]; exact hs
  simp only [h, if_true]

theorem renameSignal_pattern_A (old new : String) (hp : plainPat old)
    (hs : old.toList.getLast? = some '*' ∨ old.toList.head? = some '*') (m : KMat) :
    core (stepRenameSignal m (old, new)) = sRenameSignal (core m) (old, new) := by
  apply core_mapFrames m _ _
  intro f _
  show coreF (renameSignalIn old new f) = _
  rw [renameSignalIn_pattern old new f hs]
  have : (fun s : KSig => { s with name := renameSigPattern old new s.name }) = fun s => { s with name := sRenameName old new s.name } := by
    funext s
    rw [renameSigPattern_documented old new s.name hp hs]
  rw [this]
  rfl

theorem renameSignal_pattern_main (m : KMat) (old new : String) (hp : plainPat old)
    (hs : old.toList.getLast? = some '*' ∨ old.toList.head? = some '*') :
    (convert { renameSignal := some [(old, new)] } m).map core = (expected { renameSignal := some [(old, new)] } m).map core :=
  alone_one (fun m => stepRenameSignal m (old, new)) (fun m => sRenameSignal m (old, new)) m
    (renameSignal_pattern_A old new hp hs _ |>.trans (by rw [core_init])) (sRenameSignal_B m _)

/-! ### `--renameFrame` alone -/

def stepRenameFrame (m : KMat) (p : String × String) : KMat :=
  { m with frames := m.frames.map fun f => { f with name := renameFrameName p.1 p.2 f.name } }

theorem renameFrame_A (old new : String) (hp : plainPat old) (m : KMat)
    (hn : old.toList.getLast? = some '*' → ∀ f ∈ m.frames, f.name.toList.getLast? ≠ some '*') :
    core (stepRenameFrame m (old, new)) = sRenameFrame (core m) (old, new) := by
  apply core_mapFrames m _ _
  intro f hf
  show coreF { f with name := renameFrameName old new f.name } = _
  rw [renameFrameName_documented_of_last old new f.name hp (fun hl => hn hl f hf)]
  rfl

theorem sRenameFrame_B (m : KMat) (p : String × String) : core (sRenameFrame m p) = sRenameFrame (core m) p :=
  core_mapFrames m _ _ (fun _ _ => rfl)

theorem init_frame_names (m : KMat) : ∀ g ∈ (init m).frames, ∃ f ∈ m.frames, g.name = f.name := by
  intro g hg
  obtain ⟨f, hf, rfl⟩ := List.mem_map.1 hg
  refine ⟨f, hf, ?_⟩
  split <;> rfl

/-- `--renameFrame` alone, for a plain pattern; with a prefix pattern no frame name may itself end in `*` -/
theorem renameFrame_alone_of_last (m : KMat) (old new : String) (hp : plainPat old)
    (hn : old.toList.getLast? = some '*' → ∀ f ∈ m.frames, f.name.toList.getLast? ≠ some '*') :
    (convert { renameFrame := some [(old, new)] } m).map core = (expected { renameFrame := some [(old, new)] } m).map core :=
  alone_one (fun m => stepRenameFrame m (old, new)) (fun m => sRenameFrame m (old, new)) m
    (renameFrame_A old new hp _ (fun hl g hg => by
        obtain ⟨f, hf, hgf⟩ := init_frame_names m g hg
        rw [hgf]; exact hn hl f hf) |>.trans (by rw [core_init])) (sRenameFrame_B m _)

/-- the same with the plainer hypothesis: no frame name contains a `*` -/
theorem renameFrame_alone_of_noStar (m : KMat) (old new : String) (hp : plainPat old)
    (hn : ∀ f ∈ m.frames, '*' ∉ f.name.toList) :
    (convert { renameFrame := some [(old, new)] } m).map core = (expected { renameFrame := some [(old, new)] } m).map core :=
  renameFrame_alone_of_last m old new hp (fun _ f hf hl => hn f hf (List.mem_of_getLast? hl))

/-! ### the two statements of Props/C18.lean on `rename_frame` that are false as written -/

theorem starPat_plain : plainPat "A*" := by
  unfold plainPat
  decide

/-- the prefix pattern `A*` (a plain pattern), new name `A`, a frame that is itself called `A*`: the first `if` of
`rename_frame` renames it to `A` + `*` = `A*`, which the exact comparison after the second `if` then takes for the
pattern and renames to `A`; the documented effect is the prefix replacement only -/
theorem renameFrameName_documented_false : renameFrameName "A*" "A" "A*" ≠ sRenameName "A*" "A" "A*" := by
  decide

theorem renameFrameName_documented_false_values :
    renameFrameName "A*" "A" "A*" = "A" ∧ sRenameName "A*" "A" "A*" = "A*" := by
  decide

def starNameEx : KMat := { frames := [{ name := "A*", id := 1, ext := false, size := 1 }] }

theorem renameFrame_alone_false :
    (convert { renameFrame := some [("A*", "A")] } starNameEx).map core ≠ (expected { renameFrame := some [("A*", "A")] } starNameEx).map core := by
  decide

theorem renameFrame_alone_false_names :
    (convert { renameFrame := some [("A*", "A")] } starNameEx).map (·.frames.map (·.name)) = some ["A"] ∧
    (expected { renameFrame := some [("A*", "A")] } starNameEx).map (·.frames.map (·.name)) = some ["A*"] := by
  decide

end CanVerif.Conv
