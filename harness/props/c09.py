"""C09 - CAN identifiers: range check, compound form, J1939 view, PGN based decode."""
import canmatrix.canmatrix as cm
from lib import frames as F

PID = "C09"
RULE = ("ops: mk (constructor, ints around 0 / 2^11 / 2^29 / 2^31 / 2^32 incl. negatives, both flags); compound / tocompound "
        "(both directions); fields (all J1939 getters of an identifier); set (priority / source / pgn setter, values incl. "
        "out-of-field ones that must be masked); frompgn; resolve (CanMatrix.decode in matrices mixing 11-bit and J1939 frames in "
        "any order, several source addresses per PGN, received id with other priority/source/destination). quick: all 2^11 standard "
        "ids for mk/compound + each field swept exhaustively with the others at boundary/random values + random; thorough: 10^6 more. "
        "Received identifiers include 29-bit ones with the number of an 11-bit frame of the matrix. "
        "The matrix of a 'resolve' case has a history (a frame carried the received identifier, was found under it, and got its own identifier back by assignment). case 'jdec' = canmatrix.j1939_decoder.decode(id, payload, matrix) on matrices whose frames carry PGNs the bundled J1939 database knows as well, and proprietary ones. Non-trivial = distinct case other than the zero identifier.")
EXHAUSTIVE = {"quick": False, "thorough": False}
PARTIAL = ["the payload decoding after frame resolution is C01's; here only which frame is chosen is compared"]
ASSUMPTIONS = ["identifiers are Python ints, the extended flag a bool (the deprecated extended=None wildcard is outside the domain)"]
TRUSTED = ["CPython unbounded int &, |, <<, >> semantics for non-negative ints = Lean Nat &&&, |||, <<<, >>>"]
CORRESPONDENCE = "ArbitrationId / CanMatrix.decode dispatch == CanVerif.ArbId / resolveForDecode"

LIMITS = [0, 1, 0x7FE, 0x7FF, 0x800, 0x801, 0xFFF, (1 << 29) - 2, (1 << 29) - 1, 1 << 29, (1 << 29) + 1, (1 << 31) - 1,
          1 << 31, (1 << 31) + 1, (1 << 31) + 0x7FF, (1 << 31) + (1 << 29) - 1, (1 << 31) + (1 << 29), (1 << 32) - 1, 1 << 32,
          (1 << 32) + 5, -1, -2, -0x800, -(1 << 29)]


def compose(prio, edp, dp, pf, ps, sa):
    return (prio << 26) | (edp << 25) | (dp << 24) | (pf << 16) | (ps << 8) | sa


def rand_ext(rng):
    c = rng.random()
    if c < 0.3:
        return compose(rng.choice([0, 3, 6, 7]), rng.randint(0, 1), rng.randint(0, 1), rng.choice([0, 239, 240, 254, 255, rng.randint(0, 255)]),
                       rng.choice([0, 255, rng.randint(0, 255)]), rng.choice([0, 255, rng.randint(0, 255)]))
    return rng.randrange(1 << 29)


def gen(rng, tier, shard, nshards):
    if shard == 0:
        for i in range(1 << 11):
            yield {"op": "mk", "c": [i, False]}
            yield {"op": "compound", "c": [i]}
            yield {"op": "tocompound", "c": [i, False]}
        for v in LIMITS:
            for ext in (False, True):
                yield {"op": "mk", "c": [v, ext]}
            if v >= 0:
                yield {"op": "compound", "c": [v]}
        for i in range(1 << 11):
            yield {"op": "fields", "c": [i, False]} if i % 64 == 0 else {"op": "mk", "c": [i + 0x800, True]}
    # each field exhaustively, the others at boundary / random values
    sweeps = [("prio", 8), ("edp", 2), ("dp", 2), ("pf", 256), ("ps", 256), ("sa", 256)]
    reps = 3 if tier == "quick" else 40
    for rep in range(shard, reps * nshards, nshards):
        for fi, (fname, n) in enumerate(sweeps):
            others = [rng.choice([0, m - 1, rng.randrange(m)]) for m in (8, 2, 2, 256, 256, 256)]
            for v in range(n):
                vals = list(others)
                vals[fi] = v
                i = compose(*vals)
                yield {"op": "fields", "c": [i, True]}
                yield {"op": "tocompound", "c": [i, True]}
                yield {"op": "compound", "c": [i | (1 << 31)]}
            # setters swept
            base = rand_ext(rng)
            if fname == "prio":
                for v in list(range(8)) + [8, 15, 255]:
                    yield {"op": "set", "c": [base, True, "prio", v]}
            if fname == "sa":
                for v in list(range(256)) + [256, 511, 0x1234]:
                    e = rng.random() < 0.9
                    yield {"op": "set", "c": [base if e else base % 2048, e, "src", v]}
            if fname == "pf":
                for v in range(256):
                    yield {"op": "set", "c": [base, True, "pgn", (rng.randrange(4) << 16) | (v << 8) | rng.choice([0, 255, rng.randrange(256)])]}
                    yield {"op": "frompgn", "c": [(rng.randrange(4) << 16) | (v << 8) | rng.choice([0, 255, rng.randrange(256)])]}
    total = {"quick": 20000, "thorough": 1000000}[tier] // nshards
    for _ in range(total):
        c = rng.random()
        if c < 0.15:
            yield {"op": "mk", "c": [rng.choice([rng.randrange(-5, 1 << 12), rng.randrange(1 << 33), rng.choice(LIMITS)]), rng.random() < 0.5]}
        elif c < 0.25:
            yield {"op": "compound", "c": [rng.choice([rng.randrange(1 << 32), rand_ext(rng) | (1 << 31), rng.randrange(1 << 11)])]}
        elif c < 0.4:
            yield {"op": "fields", "c": [rand_ext(rng), True]}
        elif c < 0.55:
            which = rng.choice(["prio", "src", "pgn"])
            v = rng.choice([rng.randrange(8), rng.randrange(256), rng.randrange(1 << 18), rng.randrange(1 << 20)])
            ext = rng.random() < 0.85
            yield {"op": "set", "c": [rand_ext(rng) if ext else rng.randrange(1 << 11), ext, which, v]}
        elif c < 0.6:
            yield {"op": "frompgn", "c": [rng.randrange(1 << 18)]}
        elif c < 0.9:
            yield resolve_case(rng)
        else:
            yield jdec_case(rng)


KNOWN_PGNS = [0xF004, 0xF002, 0xFE4A, 0xFEF1, 0x0100, 0xFEEE]      # PGNs the bundled j1939.dbc defines as well
OWN_PGNS = [0xFF04, 0xFF21, 0x1200, 0xEF00]                          # proprietary ones


def jdec_case(rng):
    """canmatrix.j1939_decoder.decode(id, payload, matrix): the matrix's own frame of that PGN comes first"""
    frames = []
    used = set()
    for k in range(rng.randint(1, 4)):
        if rng.random() < 0.25:
            i, ext = rng.randrange(1 << 11), False
        else:
            p = rng.choice(KNOWN_PGNS + OWN_PGNS)
            i, ext = (rng.randrange(8) << 26) | (p << 8) | rng.choice([0, 1, 254]), True
        if (i, ext) in used:
            continue
        used.add((i, ext))
        frames.append(["f%d" % k, i, ext, ext])
    p = rng.choice(KNOWN_PGNS + OWN_PGNS + [0x1300])
    kid = (rng.randrange(8) << 26) | (p << 8) | rng.randrange(256)
    if p < 0xF000 and rng.random() < 0.5:
        kid |= rng.randrange(256) << 8          # PDU1: a destination address
    return {"op": "jdec", "c": {"frames": frames, "k": [kid, True]}}


def resolve_case(rng):
    frames = []
    pgns = [(rng.randint(0, 1), rng.randint(0, 1), rng.choice([0, 100, 239, 240, 241, 254, 255]), rng.choice([0, 1, 33, 255])) for _ in range(rng.randint(1, 4))]
    used = set()
    for k in range(rng.randint(1, 7)):
        if rng.random() < 0.3:
            i, ext, j = rng.randrange(1 << 11), False, False
        else:
            edp, dp, pf, ps = rng.choice(pgns)
            i = compose(rng.randrange(8), edp, dp, pf, ps if pf >= 240 or rng.random() < 0.7 else rng.randrange(256), rng.choice([0, 1, 2, 254]))
            ext, j = True, rng.random() < 0.85
        if (i, ext) in used:
            continue
        used.add((i, ext))
        frames.append(["f%d" % k, i, ext, j])
    if rng.random() < 0.85 and not any(f[3] for f in frames):
        frames.append(["fj", compose(3, 0, 0, 254, 17, 5), True, True])
    rng.shuffle(frames)
    c = rng.random()
    std = [f for f in frames if not f[2]]
    if std and rng.random() < 0.15:
        # a received 29-bit identifier with the number of an 11-bit frame of the matrix is another identifier
        k = [rng.choice(std)[1], True]
    elif c < 0.55:
        edp, dp, pf, ps = rng.choice(pgns)
        k = [compose(rng.randrange(8), edp, dp, pf, ps if pf >= 240 else rng.randrange(256), rng.randrange(256)), True]
    elif c < 0.75:
        f = rng.choice(frames)
        k = [f[1], f[2]]
    elif c < 0.9:
        k = [rand_ext(rng), True]
    else:
        k = [rng.randrange(1 << 11), False]
    return {"op": "resolve", "c": {"frames": frames, "k": k}}


def neighbours(case, rng, shard, nshards):
    for _ in range(200 // nshards + 1):
        if case["op"] == "resolve":
            yield resolve_case(rng)
        elif case["op"] in ("fields", "tocompound"):
            yield {"op": case["op"], "c": [rand_ext(rng), True]}
        elif case["op"] == "set":
            yield {"op": "set", "c": [rand_ext(rng), True, case["c"][2], rng.randrange(1 << 18)]}
        else:
            yield {"op": case["op"], "c": [rng.randrange(1 << 32)] + case["c"][1:]}


def aid(a):
    return [a.id, bool(a.extended)]


def observe(case):
    op, c = case["op"], case["c"]
    try:
        if op == "mk":
            return {"ok": aid(cm.ArbitrationId(c[0], c[1]))}
        if op == "compound":
            a = cm.ArbitrationId.from_compound_integer(c[0])
            return {"ok": aid(a) + [a.to_compound_integer()]}
        if op == "tocompound":
            a = cm.ArbitrationId(c[0], c[1])
            n = a.to_compound_integer()
            try:
                back = {"ok": aid(cm.ArbitrationId.from_compound_integer(n))}
            except Exception as e:  # noqa
                back = {"err": F.errname(e)}
            return {"ok": [n, back]}
        if op == "fields":
            a = cm.ArbitrationId(c[0], c[1])
            return {"ok": {"pgn": a.pgn, "prio": a.j1939_priority, "edp": a.j1939_edp, "dp": a.j1939_dp, "pf": a.j1939_pf,
                           "ps": a.j1939_ps, "sa": a.j1939_source, "dest": a.j1939_destination}}
        if op == "set":
            a = cm.ArbitrationId(c[0], c[1])
            if c[2] == "prio":
                a.j1939_priority = c[3]
            elif c[2] == "src":
                a.j1939_source = c[3]
            else:
                a.pgn = c[3]
            return aid(a)
        if op == "frompgn":
            a = cm.ArbitrationId.from_pgn(c[0])
            return {"ok": aid(a) + [a.pgn]}
        if op == "jdec":
            import canmatrix.j1939_decoder
            db = cm.CanMatrix()
            for name, i, ext, j in c["frames"]:
                fr = cm.Frame(name, arbitration_id=cm.ArbitrationId(i, ext), size=8, is_j1939=j)
                fr.add_signal(cm.Signal("sig_" + name, start_bit=0, size=8, is_signed=False))
                db.add_frame(fr)
            dec = canmatrix.j1939_decoder.j1939_decoder()
            text, values = dec.decode(cm.ArbitrationId(c["k"][0], c["k"][1]), bytes([1, 2, 3, 4, 5, 6, 7, 8]), db)
            kind = "regular" if text.startswith("regular ") else "known" if text.startswith("J1939 known: ") else "other"
            return {"kind": kind, "name": text[8:] if kind == "regular" else None, "signals": sorted(values.keys()) if kind == "regular" else None}
        if op == "resolve":
            db = cm.CanMatrix()
            for name, i, ext, j in c["frames"]:
                fr = cm.Frame(name, arbitration_id=cm.ArbitrationId(i, ext), size=1, is_j1939=j)
                fr.add_signal(cm.Signal("sig_" + name, start_bit=0, size=8, is_signed=False))
                db.add_frame(fr)
            # the matrix has a history: one of its frames carried the received identifier a moment ago (and was found under it),
            # then got its own identifier back by assignment; the received identifier is decoded after that
            if db.frames:
                # ... and before that the frames were not flagged as J1939 frames yet (the flags are set afterwards, as
                # canconvert's J1939 option does)
                flags = [fx.is_j1939 for fx in db.frames]
                for fx in db.frames:
                    fx.is_j1939 = False
                try:
                    db.decode(cm.ArbitrationId(c["k"][0], c["k"][1]), b"\x55")
                except Exception:  # noqa
                    pass
                for fx, fl in zip(db.frames, flags):
                    fx.is_j1939 = fl
                f0 = db.frames[len(c["frames"]) // 2]
                own = (f0.arbitration_id.id, f0.arbitration_id.extended)
                if (c["k"][0], bool(c["k"][1])) != (own[0], bool(own[1])):
                    f0.arbitration_id.id, f0.arbitration_id.extended = c["k"][0], c["k"][1]
                    try:
                        db.decode(cm.ArbitrationId(c["k"][0], c["k"][1]), b"\x55")
                        db.frame_by_id(cm.ArbitrationId(c["k"][0], c["k"][1]))
                    except Exception:  # noqa
                        pass
                    f0.arbitration_id.id, f0.arbitration_id.extended = own
            d = db.decode(cm.ArbitrationId(c["k"][0], c["k"][1]), b"\x55")
            if not d:
                return {"ok": None}
            return {"ok": list(d.keys())[0][4:]}
    except AttributeError:
        return {"err": "keyError"}
    except Exception as e:  # noqa
        return {"err": F.errname(e)}


def project(impl):
    if "kind" in impl:
        return {"kind": impl["kind"], "name": impl["name"]} if impl["kind"] == "regular" else {"kind": "not-regular"}
    return impl


def features(case, impl):
    yield "op=" + case["op"]
    if isinstance(impl, dict):
        yield case["op"] + ":" + ("err:" + impl["err"] if "err" in impl else "ok")
    if case["op"] == "resolve":
        yield "resolve->" + ("none" if impl.get("ok", 1) is None else "frame" if "ok" in impl else "err")
        fr = case["c"]["frames"]
        if fr and not fr[0][2]:
            yield "11-bit frame first"
    if case["op"] == "fields" and case["c"][1]:
        yield "pdu%d" % (1 if ((case["c"][0] >> 16) & 0xFF) < 240 else 2)


def nontrivial(case, impl):
    c = case["c"]
    return case["op"] in ("resolve", "jdec") or c[0] != 0


def shrink_candidates(case):
    if case["op"] == "resolve":
        fr = case["c"]["frames"]
        for i in range(len(fr)):
            if len(fr) > 1:
                yield {"op": "resolve", "c": {"frames": fr[:i] + fr[i + 1:], "k": case["c"]["k"]}}
