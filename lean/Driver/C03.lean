import Driver.Common
import CanVerif.Model.Mux
import CanVerif.Spec.Mux
open Lean CanVerif

namespace D03

def tagOf (j : Json) : Except String SgTag := do
  match j with
  | .null => pure .plain
  | .str "M" => pure .M
  | .arr _ =>
    let k ← J.str (← J.idx j 0)
    let n ← J.int (← J.idx j 1)
    if k == "m" then pure (.m n) else if k == "mM" then pure (.mM n) else throw "bad tag"
  | _ => throw "bad tag"

def ranges (j : Json) : Except String (List (Int × Int)) := do
  (← J.arr j).mapM fun r => do pure ((← J.int (← J.idx r 0)), (← J.int (← J.idx r 1)))

/-- node: {"s": sigdesc(6), "mux": bool, "parent": str|null, "ranges": [[a,b],..], "tag": tag} -/
def node (j : Json) : Except String (Spec.MuxNode × Sig × SgTag) := do
  let s ← DC.sig (← J.key j "s")
  let isMux ← J.bool (← J.key j "mux")
  let pj ← J.key j "parent"
  let parent ← if J.isNull pj then pure none else some <$> J.str pj
  let rs ← ranges (← J.key j "ranges")
  let t ← tagOf (← J.key j "tag")
  pure ({ sig := DC.specSig s, isMux, parent, ranges := rs }, s, t)

def sigJson (s : Sig) : Json :=
  J.ofList [Json.str s.name, J.ofNat s.start, J.ofNat s.size, Json.bool s.little, Json.bool s.signed, Json.bool s.isFloat,
            Json.bool s.isMuxer, J.ofOptInt s.muxVal, J.ofList (s.muxValGrp.map fun r => J.ofList [J.ofInt r.1, J.ofInt r.2]),
            match s.muxerFor with | some m => Json.str m | none => .null]

def sameDict (a b : List (String × Int)) : Bool :=
  a.length == b.length && a.all fun kv => b.contains kv

/-- op "mux": c = {"size": n, "nodes": [...], "mulvals": [[sig, muxer, ranges],...], "src": "dbc"|"api",
                   "data": [bytes], "d": [[name, raw],...] | null}
impl i = {"f": {"sigs":[sigdesc10...], "cx": bool}, "dec": {"ok": {...}}|{"err":..}, "enc": {"ok":[..]}|{"err":..}|null, "encdec": ...} -/
def handle (op : String) (c i : Json) : Except String (Json × String) := do
  match op with
  | "mux" =>
    let size ← J.nat (← J.key c "size")
    let ns ← (← J.arr (← J.key c "nodes")).mapM node
    let mvs ← (← J.arr (← J.key c "mulvals")).mapM fun m => do
      pure ((← J.str (← J.idx m 0)), (← J.str (← J.idx m 1)), (← ranges (← J.idx m 2)))
    let data ← J.natList (← J.key c "data")
    let dj := J.keyD c "d" .null
    let f := dbcMuxFrame size (ns.map fun (_, s, t) => (s, t)) mvs
    let decJ := DC.resJson f (f.decode data)
    let (encJ, encdecJ) ← if J.isNull dj then pure (Json.null, Json.null) else do
      let d ← DC.dataDict dj
      match f.encode d with
      | .ok bytes => pure (J.obj [("ok", J.ofNatList bytes)], DC.resJson f (f.decode bytes))
      | .error e => pure (J.obj [("err", Json.str (DC.errStr e))], Json.null)
    let m := J.obj [("f", J.obj [("sigs", J.ofList (f.sigs.map sigJson)), ("cx", Json.bool f.complexMux)]),
                    ("dec", decJ), ("enc", encJ), ("encdec", encdecJ)]
    -- spec on the implementation's observation
    let nodes := ns.map (·.1)
    let want := Spec.expectedDecode nodes data
    let getDict (j : Json) : Except String (Option (List (String × Int))) := do
      match j.getObjVal? "ok" with
      | .ok o =>
        let kvs ← DC.dictOf o
        let l ← kvs.mapM fun (k, v) => do pure (k, ← J.int v)
        pure (some l)
      | .error _ => pure none
    let idec ← getDict (← J.key i "dec")
    let s1 : String := match idec with
      | none => "fail: decoding a well-formed multiplexed frame raised"
      | some got =>
        if sameDict got want && sameDict want got then "ok"
        else
          let missing := want.filter fun kv => !(got.any fun g => g.1 == kv.1)
          let extra := got.filter fun kv => !(want.any fun g => g.1 == kv.1)
          match missing, extra with
          | kv :: _, _ => s!"fail: active signal {kv.1} missing from decode"
          | [], kv :: _ => s!"fail: inactive signal {kv.1} decoded"
          | [], [] => "fail: decoded value differs from the signal's bits"
    let s2 ← if J.isNull dj then pure "ok" else do
      let d ← DC.dataDict dj
      -- the supplied multiplexer value selects the group; only that group (+ unbound signals) is written
      let ie ← J.key i "enc"
      match ie.getObjVal? "ok" with
      | .error _ => pure "fail: encoding a simply multiplexed frame raised"
      | .ok bj =>
        let bytes ← J.natList bj
        if bytes.length != size then pure "fail: encoded payload has wrong length" else
        let act := Spec.activeNames nodes bytes
        -- selected = supplied signals that are unbound or bound to the supplied selector value
        let muxName := (nodes.find? (·.isMux)).map (·.sig.name)
        let sel := muxName.bind fun mn => dictGet d mn
        let selected := nodes.filter fun n => (dictGet d n.sig.name).isSome &&
          (match n.parent with
           | none => true
           | some _ => match sel with
             | some v => Spec.inRanges n.ranges v
             | none => false)
        let bad := selected.filterMap fun n =>
          match dictGet d n.sig.name with
          | some v => if Spec.valueOf n.sig bytes == v then none else some s!"signal {n.sig.name}: supplied {v} reads back {Spec.valueOf n.sig bytes}"
          | none => none
        let covered := selected.flatMap fun n => Spec.addrs n.sig
        let stray := (List.range (8 * size)).filter fun k => payloadBit bytes k && !covered.contains k
        let inact := selected.filter fun n => !act.contains n.sig.name
        pure (match bad, stray, inact with
          | b :: _, _, _ => "fail: " ++ b
          | [], k :: _, _ => s!"fail: bit {k} set although it belongs to no signal of the selected group"
          | [], [], n :: _ => s!"fail: supplied signal {n.sig.name} of the selected group is not active in the encoded payload"
          | [], [], [] => "ok")
    pure (m, if s1 != "ok" then s1 else s2)
  | _ => throw s!"C03: unknown op {op}"

end D03
