"""C12 - copy and merge carry frames over completely and never disturb the target."""
import canmatrix.canmatrix as cm
import canmatrix.copy

PID = "C12"
RULE = ("case = (source matrix, target matrix, request). Matrices: 0..4 ECUs from a pool of 5 names, 0..4 frames from a pool of 5 "
        "identifiers (standard and extended), 1..3 signals each with senders/receivers from the pool, frame/signal/ECU attribute "
        "definitions INT/STRING/FLOAT/ENUM drawn from a pool of 4 names shared by all three kinds (so equal names occur across "
        "kinds), each with or without a default; source and target share names with different defaults and different ENUM value "
        "lists; explicit attribute values on some objects. Requests: copy_frame by id (present / absent / already in target), "
        "merge, copy_ecu_with_frames (glob, rx/tx/both, direct_ecu_only on/off), copy_signal (glob). Globs cover the whole fnmatch "
        "language and are derived from the names the source has: the plain name, '*', '?', character classes '[ab]', '[!a]', "
        "ranges '[a-z]', a ']' inside a class, an unclosed '[', with and without a wildcard next to them; a plain ECU name is also "
        "passed as the Ecu object, and a request without rx and tx also goes through copy_ecu itself. Defaults and explicit values "
        "include texts that differ only in notation (numbers: '7' / '07' / '7.0' / '7e0', '1.5' / '1.50'; case: 'on' / 'On'; "
        "no value / '' / 'None'); a second stream derives the target's definitions from the source's (same name, same or other "
        "kind of object, default replaced by such a look-alike). A third stream makes histories: three matrices, up to three "
        "earlier copies/merges between them (a matrix that received frames is a source later on, the same source is used twice), "
        "every step judged as a case of its own on the objects that carry the history. A fourth stream makes histories of one "
        "source and one target over a network in which the same ECUs are referenced many times (2..3 receivers per signal): the "
        "extraction of an ECU (copy_ecu_with_frames, with and without the clean-up of indirect ECUs) is followed by up to four "
        "further copies of single frames / merges / extractions from the same source, and between the copies the target is "
        "edited through the public API (del_ecu, rename_ecu, del_frame, each surrounded by lookups ecu_by_name / glob_ecus / "
        "frame_by_id / frame_by_name of every name and identifier of the pools; a frame moved in place to an identifier that is free "
        "in the target, frame.arbitration_id.id = n as convert's --changeFrameId does, so that the same frame of the source can be "
        "copied once more); the edits are part of the history only, the copy that follows is the judged case. ECU attribute definitions (and explicit ECU attribute values) also use the names of the "
        "members of the Ecu class - 'comment', 'name', 'attributes' - ; ECUs and frames come with and without a descriptive "
        "comment. About a third of the signals carry more than layout and comment: unsigned, factor, offset, unit, an explicit range, a "
        "value table (1..3 entries); about a third of the frames a length other than 8 (3..64), a cycle time, the FD flag - all part "
        "of the body text that is compared as a whole. Independence is observed in every case (fresh matrices and histories alike): "
        "after the request every object of the target is edited in place - the matrix's lists and dictionaries, every ECU, every "
        "definition (default, definition text, ENUM value list), every frame (identifier object: id and extended, as the J1939 setters "
        "and convert's --changeFrameId / --frameIdIncrement edit it; name, comment, length, cycle time, FD flag, sender list, attribute "
        "dictionary, signal list) and every signal (name, comment, layout, sign, scaling, unit, range, receiver list, attribute "
        "dictionary, value table) - and the source reported is the source seen while these edits are in force; the edits are taken "
        "back, the same edits are made to every object of the source, and the target reported is the target seen while those are in "
        "force. A fifth stream makes calls of merge with "
        "several matrices at once, target.merge([a, b, c]) (the method takes a list; two or three sources out of three, now and then the same "
        "source twice; the target a matrix of its own, a near miss of one source, without ECUs and frames, or a new matrix; sources "
        "name ECUs they do not list, list ECUs nobody names, and share names and identifiers with each other; one or two such calls per "
        "history, a single copy or an edit of the target between them): merging applies the frame rule to every frame of every merged "
        "matrix, so the call is judged once per matrix of the list - source = that matrix, target = the target after the matrices in "
        "front of it were merged one call each (real code, on a second set of objects), observation = the target after the matrices up "
        "to and including it went in by ONE call.  The mixed histories make a merge such a call now and then (the third matrix goes in "
        "first).  Non-trivial = distinct case in which the target changes.")
PARTIAL = ["everything of a frame/signal/ECU that copying treats as a blob (layout, sign, scaling, unit, range, value table, comment; frame "
           "length, cycle time, FD flag) is compared as an opaque body string; multiplexing, signal groups, PDUs, float/ASCII types, "
           "initial value, frame receivers and mux names are not part of it",
           "independence of a matrix that is neither source nor target of the judged step is seen only when a later step of the "
           "history uses it as source or target", "environment variables of merge are not modelled",
           "copy_signal and the direct_ecu_only clean-up are tied by correspondence only (no Spec predicate beyond 'source unchanged')"]
ASSUMPTIONS = ["frame and signal attribute names are not names of Frame/Signal fields (Frame.attribute / Signal.attribute answer those with "
               "the field); ECU attribute names may be names of Ecu members; attribute values carry no surrounding blanks",
               "equal-named definitions of source and target are both ENUM or both not ENUM",
               "frame identifiers unique within a matrix; ECU names unique within a matrix"]
TRUSTED = ["copy.deepcopy of a frame/ECU is modelled as a structural copy"]
CORRESPONDENCE = "copy.copy_frame/copy_ecu_with_frames/copy_signal, CanMatrix.merge == Model/Copy.lean"

ECUS = ["E1", "E2", "Gw", "Body", "Diag"]
IDS = [(0x10, False), (0x11, False), (0x18FEF100, True), (0x20, False), (0x10, True)]
ANAMES = ["GenA", "AttrB", "Mode", "Note"]
# names of ECU attributes only: they are also names of members of the Ecu class (name, comment, attributes) - an ECU attribute is
# looked up among the user attributes and the definitions only, whatever it is called.  Frame.attribute / Signal.attribute answer
# the names of their own members first (see ASSUMPTIONS), so these names stay out of the frame and signal definitions.
ECU_ANAMES = ["comment", "name", "attributes"]
DEFS = {
    "GenA": [("INT 0 100", ["5", "7", None, "0", "05", "5.0", "0.0"]), ("INT 0 65535", ["7", "1", "7.0"])],
    "AttrB": [("STRING", ["x", "y", None, "", "X", "1.5", "1.50"]), ("FLOAT 0 10", ["1.5", None, "1.50", "15e-1"])],
    "Mode": [('ENUM "off","on","auto"', ["off", "on", None]), ('ENUM "on","eco"', ["on", "eco"]), ('ENUM "off","on"', ["off"]),
             ('ENUM "Off","On"', ["On", "Off"])],
    "Note": [("STRING", ["n1", None, "n2", "N1", "007", "7", "1e1", "10", "None"])],
    # (as for the four names above, a name is either an ENUM in every variant or in none: a STRING definition of the source meeting
    # an equal-named ENUM definition of the target leaves the copied value unlisted in the target's ENUM - unchanged code, reported)
    "comment": [("STRING", ["not reviewed", None, "n/a", "c_s_Gw", "", "reviewed 2021"])],
    "name": [('ENUM "E1","Gw","Body"', ["Gw", "E1", None]), ('ENUM "alias","Gw"', ["alias", "Gw"]), ('ENUM "E1","e1"', ["e1"])],
    "attributes": [("STRING", ["{}", None, "a", "3"]), ("INT 0 10", ["3", None, "0"])],
}
VALUES = {"GenA": ["1", "5", "7", "42", "5.0", "07"], "AttrB": ["x", "z", "1.5", "1.50", "X"], "Mode": ["on", "off", "auto", "eco", "On"],
          "Note": ["n1", "hello", "7", "007"],
          "comment": ["reviewed 2021", "final", "draft", "c_s_E1", "n/a"], "name": ["E1", "Gw", "alias", "Diag"], "attributes": ["{}", "1", "a"]}


def rand_defs(rng, extra=()):
    out = []
    for a in ANAMES + list(extra):
        if rng.random() < (0.55 if a in ANAMES else 0.35):
            definition, defaults = rng.choice(DEFS[a])
            kind = definition.split(" ")[0]
            values = [v.strip('"') for v in definition[5:].split(",")] if kind == "ENUM" else []
            out.append([a, definition, kind, values, rng.choice(defaults)])
    rng.shuffle(out)
    return out


def rand_attrs(rng, p=0.3, extra=()):
    return [[a, rng.choice(VALUES[a])] for a in ANAMES + list(extra) if rng.random() < p]


# What copying treats as a blob travels in the body text of a signal / frame (opaque for the model, compared as a whole):
#   signal  "<start>:<size>:<little endian>|<comment>"  optionally followed by  "|" + parts joined by ";" in this order:
#           "u" (unsigned; signed is the default of the class), "f=<factor>", "o=<offset>", "un=<unit>", "r=<min>..<max>" (when not the
#           range the class computes), "v=<key>:<text>,..." (value table, by key)
#   frame   "<comment>"  optionally followed by  "|" + parts joined by ";":  "sz=<length>" (when not 8), "cy=<cycle time>", "fd"
# a part is present exactly when the member differs from what build() gives without it, so build() and snapshot() are inverse
FACTORS = ["0.25", "2", "0.001", "10"]
OFFSETS = ["-40", "0.5", "100"]
UNITS = ["rpm", "km/h", "%"]
RANGES = [("-7.5", "1234.5"), ("0.125", "99.875")]
VTEXTS = ["off", "on", "invalid", "n/a", "Init"]


def rand_sig_extras(rng):
    parts = []
    if rng.random() < 0.4:
        parts.append("u")
    if rng.random() < 0.4:
        parts.append("f=" + rng.choice(FACTORS))
    if rng.random() < 0.3:
        parts.append("o=" + rng.choice(OFFSETS))
    if rng.random() < 0.3:
        parts.append("un=" + rng.choice(UNITS))
    if rng.random() < 0.2:
        parts.append("r=%s..%s" % rng.choice(RANGES))
    if rng.random() < 0.6 or not parts:
        keys = sorted(rng.sample([0, 1, 2, 3, 14, 15, 255], rng.randint(1, 3)))
        parts.append("v=" + ",".join("%d:%s" % (k, rng.choice(VTEXTS)) for k in keys))
    return ";".join(parts)


def rand_frame_extras(rng):
    parts = []
    if rng.random() < 0.5:
        parts.append("sz=%d" % rng.choice([3, 4, 6, 12, 64]))
    if rng.random() < 0.5:
        parts.append("cy=%d" % rng.choice([10, 100, 1000]))
    if rng.random() < 0.3 or not parts:
        parts.append("fd")
    return ";".join(parts)


def parse_extras(text):
    out = {}
    for part in text.split(";"):
        k, _, v = part.partition("=")
        out[k] = v
    return out


def make_signal(sname, sbody, rx, sattrs):
    lay, tag, extras = (sbody.split("|", 2) + [None])[:3]
    st, sz, le = (int(x) for x in lay.split(":"))
    kw = {}
    if extras is not None:
        x = parse_extras(extras)
        if "u" in x:
            kw["is_signed"] = False
        if "f" in x:
            kw["factor"] = x["f"]
        if "o" in x:
            kw["offset"] = x["o"]
        if "un" in x:
            kw["unit"] = x["un"]
        if "r" in x:
            kw["min"], kw["max"] = x["r"].split("..")
        if "v" in x:
            kw["values"] = {int(kv.split(":", 1)[0]): kv.split(":", 1)[1] for kv in x["v"].split(",")}
    s = cm.Signal(sname, start_bit=st, size=sz, is_little_endian=bool(le), receivers=list(rx), comment=tag, **kw)
    for a, v in sattrs:
        s.add_attribute(a, v)
    return s


def make_frame(i, ext, name, body, tx, attrs, sigs):
    comment, _, extras = body.partition("|")
    kw = {}
    if extras:
        x = parse_extras(extras)
        if "cy" in x:
            kw["cycle_time"] = int(x["cy"])
        if "fd" in x:
            kw["is_fd"] = True
    fr = cm.Frame(name, arbitration_id=cm.ArbitrationId(i, ext), size=int(parse_extras(extras).get("sz", 8)) if extras else 8,
                  transmitters=list(tx), comment=comment or None, **kw)
    for a, v in attrs:
        fr.add_attribute(a, v)
    for sig in sigs:
        fr.add_signal(make_signal(*sig))
    return fr


def gen_matrix(rng, tag, dense=False):
    """dense: a network in which the same few ECUs are referenced again and again (several receivers per signal, the receivers of one
    signal are senders or receivers of the next), as a real bus has it"""
    # an ECU without a descriptive comment is the usual thing in a real file: the body is empty then
    ecus = [[e, "c_%s_%s" % (tag, e) if rng.random() < 0.7 else "", rand_attrs(rng, extra=ECU_ANAMES)] for e in ECUS if rng.random() < (0.7 if dense else 0.5)]
    rng.shuffle(ecus)
    frames = []
    nrx = [1, 2, 2, 3] if dense else [0, 1, 2]
    for (i, ext) in rng.sample(IDS, rng.randint(2, 4) if dense else rng.randint(0, 4)):
        sigs = []
        for k in range(rng.randint(2, 3) if dense else rng.randint(1, 3)):
            sbody = "%d:%d:%d|%s" % (8 * k, rng.randint(1, 8), rng.randint(0, 1), tag)
            if rng.random() < 0.35:
                sbody += "|" + rand_sig_extras(rng)
            sigs.append(["s%d" % k, sbody, rng.sample(ECUS, rng.choice(nrx)), rand_attrs(rng, 0.25)])
        fbody = "fc_%s_%x" % (tag, i) if rng.random() < 0.85 else ""
        if rng.random() < 0.3:
            fbody += "|" + rand_frame_extras(rng)
        frames.append([i, ext, "F%x_%s" % (i, tag if rng.random() < 0.5 else "x"), fbody,
                       rng.sample(ECUS, rng.choice([0, 1, 1, 2])), rand_attrs(rng), sigs])
    return {"ecus": ecus, "frames": frames, "free": [], "fd": rand_defs(rng), "sd": rand_defs(rng), "ed": rand_defs(rng, ECU_ANAMES)}


def lookalike(rng, v):
    """another text for 'the same' default: the same number in another notation, the same word in another case, nothing / '' / 'None'"""
    if v is None:
        return rng.choice(["", "None"])
    if v == "":
        return rng.choice([None, "0"])
    try:
        float(v)
        number = True
    except ValueError:
        number = False
    if number:
        forms = ["0" + v, "+" + v]
        if "e" not in v.lower():
            forms.append(v + "e0")
            forms.append(v + "0" if "." in v else v + ".0")
        if v.isdigit():
            forms.append(v + ".")
        f = float(v)
        forms.append(str(int(f)) if f.is_integer() else repr(f))
        return rng.choice([x for x in forms if x != v])
    forms = [v.upper(), v.lower(), v.capitalize(), v + v[-1], v[:-1], v + "_"]
    return rng.choice([f for f in forms if f != v and f != ""] or [v + "_"])


def enum_def(values):
    return "ENUM " + ",".join('"%s"' % v for v in values)


def twin_defs(rng, defs, ecu_kind=False):
    """definitions for the target derived from definitions of the source: same name; same or another variant of the definition;
    the default is the source's, a look-alike of it, or any of the pool.  ecu_kind: the definitions made are ECU definitions (the names of
    ECU_ANAMES are names of ECU attributes only)"""
    out = []
    for a, definition, kind, values, default in defs:
        if rng.random() < 0.3 or (a in ECU_ANAMES and not ecu_kind):
            continue
        k = rng.random()
        if k < 0.25:
            definition, defaults = rng.choice(DEFS[a])
            kind = definition.split(" ")[0]
            values = [v.strip('"') for v in definition[5:].split(",")] if kind == "ENUM" else []
            default = rng.choice(defaults)
        elif k < 0.8:
            default = lookalike(rng, default)
            if kind == "ENUM" and default is not None and default not in values:
                # an ENUM definition lists its default
                values = list(values) + [default]
                definition = enum_def(values)
        out.append([a, definition, kind, list(values), default])
    for d in rand_defs(rng, ECU_ANAMES if ecu_kind else ()):
        if rng.random() < 0.3 and all(d[0] != o[0] for o in out):
            out.append(d)
    rng.shuffle(out)
    return out


def gen_twin(rng, src):
    """a target whose definitions are near misses of the source's (per kind, and with the kinds crossed)"""
    tgt = gen_matrix(rng, "t")
    kinds = ["fd", "sd", "ed"]
    frm = kinds if rng.random() < 0.75 else rng.sample(kinds, 3)
    for k, f in zip(kinds, frm):
        tgt[k] = twin_defs(rng, src[f], ecu_kind=(k == "ed"))
    return tgt


GLOB_OTHERS = "12EGBDwaz9sy"


def rand_glob(rng, names):
    """a pattern of the fnmatch language built around one of the names"""
    base = rng.choice(names)
    pos = rng.randrange(len(base))
    ch = base[pos]
    other = rng.choice([c for c in GLOB_OTHERS if c != ch])

    def cls():
        k = rng.random()
        if k < 0.30:
            return "[" + "".join(rng.sample([ch, other], 2)) + "]"
        if k < 0.42:
            return "[!" + other + "]"
        if k < 0.54:
            return "[0-9]" if ch.isdigit() else "[a-z]" if ch.islower() else "[A-Z]"
        if k < 0.62:
            return "[!0-9]" if ch.isdigit() else "[!a-z]" if ch.islower() else "[!A-Z]"
        if k < 0.72:
            return "[" + other + "]"
        if k < 0.80:
            return "[!" + ch + "]"
        if k < 0.86:
            return "[]" + ch + "]"
        if k < 0.93:
            return "[" + ch + "]"
        return "[" + other + ch.lower() + ch.upper() + "]"

    k = rng.random()
    if k < 0.10:
        return base
    if k < 0.55:
        return base[:pos] + cls() + base[pos + 1:]
    if k < 0.63:
        return base[:pos] + "?" + base[pos + 1:]
    if k < 0.70:
        return base[:pos] + "*"
    if k < 0.76:
        return "*" + base[pos:]
    if k < 0.82:
        return base[:pos] + "[" + base[pos:]          # a '[' that is never closed stands for itself
    if k < 0.90:
        return base[:pos] + cls() + "*"
    p2 = rng.randrange(len(base))
    if p2 == pos:
        return base[:pos] + cls() + base[pos + 1:]
    lo, hi = min(pos, p2), max(pos, p2)
    ch = base[lo]
    first = cls()
    ch = base[hi]
    return base[:lo] + first + base[lo + 1:hi] + cls() + base[hi + 1:]


def gen_req(rng, src, tgt):
    k = rng.random()
    if k < 0.5:
        pool = [(f[0], f[1]) for f in src["frames"]] or IDS
        i, e = rng.choice(pool) if rng.random() < 0.9 else rng.choice(IDS)
        return ["frame", i, e]
    if k < 0.68:
        return ["merge"]
    if k < 0.92:
        if rng.random() < 0.5:
            pat = rng.choice(ECUS + ["E*", "*", "[GB]*", "Zz"])
        else:
            pat = rand_glob(rng, [e[0] for e in src["ecus"]] or ECUS)
        rx, tx, direct = rng.random() < 0.6, rng.random() < 0.6, rng.random() < 0.5
        # how the request is made: the pattern as text; a plain name of the source also as the Ecu object;
        # a request for the ECUs alone (no rx, no tx, nothing cleaned up) also as copy_ecu followed by update_ecu_list
        via = "glob"
        if any(e[0] == pat for e in src["ecus"]) and rng.random() < 0.5:
            via = "obj"
        if not rx and not tx and not direct and rng.random() < 0.6:
            via = "ecu-" + via
        return ["ecuframes", pat, rx, tx, direct, via]
    # observation (outside C12's statement): copy_signal raises TypeError when an ENUM signal define of the source has no
    # default and the copied signal has no explicit value (None is appended to the ENUM values); such sources are not used here
    if any(d[2] == "ENUM" and d[4] is None for d in src["sd"]):
        return ["merge"]
    if rng.random() < 0.5:
        return ["signal", rng.choice(["s0", "s*", "s[12]", "nomatch"])]
    return ["signal", rand_glob(rng, ["s0", "s1", "s2"])]


NMATS = 3
MORE_IDS = [(0x50, False), (0x18FEF200, True)]       # identifiers a frame is moved to by an edit of a history


def gen_edit(rng, desc):
    """something a user does to a matrix between two copies (not judged here - C10, C11 and C17 are about these; what counts is that the
    next copy meets a matrix with this past): an ECU deleted or renamed, a frame deleted, or just looked at"""
    ecus = [e[0] for e in desc["ecus"]]
    k = rng.random()
    if ecus and k < 0.45:
        return ["edit", "del_ecu", rng.choice(ecus)]
    if ecus and k < 0.65:
        old = rng.choice(ecus)
        spare = [n for n in ECUS + [old + "_old", "Spare"] if n not in ecus]
        return ["edit", "rename_ecu", old, rng.choice(spare)]
    if desc["frames"] and k < 0.77:
        f = rng.choice(desc["frames"])
        return ["edit", "del_frame", f[0], f[1]]
    if desc["frames"] and k < 0.92:
        # the frame is moved to an identifier that is free in this matrix, in place (what convert's --changeFrameId does)
        f = rng.choice(desc["frames"])
        free = [i for (i, e) in IDS + MORE_IDS if e == f[1] and all((g[0], g[1]) != (i, e) for g in desc["frames"])]
        if free:
            return ["edit", "set_id", f[0], f[1], rng.choice(free)]
    return ["edit", "look"]


def gen_history(rng, mode="mixed"):
    """three matrices and a sequence of copies/merges between them; every step is a case: source and target are described as they
    are when the step starts, 'pre' tells how they got there (the observation replays it on real objects).
    mode "mixed": any pair of the three at every step.  mode "pair": one source, one target, a network in which the ECUs are referenced
    many times; an ECU extraction (copy_ecu_with_frames) is followed by single frames and merges from the same source, and between the
    copies the target is edited through the public API (ECU deleted / renamed, frame deleted, lookups)."""
    pair = mode == "pair"
    mats = [gen_matrix(rng, "s", dense=pair), gen_matrix(rng, "t", dense=pair and rng.random() < 0.3), gen_matrix(rng, "u")]
    if rng.random() < 0.4:
        mats[1] = gen_twin(rng, mats[0])
    if pair and rng.random() < 0.5:
        mats[1] = dict(mats[1], ecus=[], frames=[])     # extraction into a new, empty matrix
    world = [build(m) for m in mats]
    steps = []
    njudged = 0
    for _ in range(rng.randint(3, 5) if pair else rng.randint(2, 4)):
        si, ti = rng.sample(range(NMATS), 2)
        if pair and rng.random() < 0.85:
            si, ti = 0, 1
        elif steps and rng.random() < 0.35:
            si = steps[-1][1]          # what was just filled is the source now
            ti = rng.choice([x for x in range(NMATS) if x != si])
        elif steps and rng.random() < 0.3:
            si, ti = steps[-1][0], steps[-1][1]   # the same pair again
        if pair and njudged and rng.random() < 0.4:
            # the target is edited before the next copy
            edit = gen_edit(rng, snapshot(world[ti]))
            apply_req(edit, world[si], world[ti])
            steps.append([si, ti, edit])
        s_desc, t_desc = snapshot(world[si]), snapshot(world[ti])
        req = gen_req(rng, s_desc, t_desc)
        if pair and njudged == 0 and rng.random() < 0.6:
            # start with the extraction of an ECU, cleaned up or not
            names = [e[0] for e in s_desc["ecus"]] or ECUS
            req = ["ecuframes", rng.choice(names) if rng.random() < 0.7 else rand_glob(rng, names), rng.random() < 0.8, rng.random() < 0.8,
                   rng.random() < 0.7, "glob"]
        if not pair and req == ["merge"] and rng.random() < 0.4:
            # one call of merge with two matrices: the third matrix goes in first, the judged source second (see gen_calls)
            oi = [x for x in range(NMATS) if x not in (si, ti)][0]
            pre = {"mats": mats, "steps": [list(s) for s in steps], "si": si, "ti": ti, "together": [oi]}
            try:
                s_desc, t_desc = describe(pre)
            except Exception:
                return
            yield {"op": "copy", "c": {"src": s_desc, "tgt": t_desc, "req": req, "pre": pre}}
            njudged += 1
            step = [si, ti, ["mergecall", [oi, si]]]
        else:
            c = {"src": s_desc, "tgt": t_desc, "req": req}
            if steps:
                c["pre"] = {"mats": mats, "steps": [list(s) for s in steps], "si": si, "ti": ti}
            yield {"op": "copy", "c": c}
            njudged += 1
            step = [si, ti, req]
        try:
            apply_step(world, *step)
        except Exception:
            return
        steps.append(step)


def gen_calls(rng):
    """merge takes a list: target.merge([a, b, c]).  One target, three sources, one or two calls with two or three of the sources each
    (now and then the same source twice).  'Merging applies the frame rule to every frame of the merged matrices', so a call is judged once
    per matrix of its list: the case describes that matrix as the source and, as the target, the target after the matrices in front of it were
    merged one call each (on a second set of objects); the observation is the target after ONE call with the list up to that matrix.  The
    sources are matrices as files give them: they name ECUs they do not list (an extract of one bus), list ECUs no frame names, share ECU
    names, identifiers and definitions with each other and with the target."""
    dense = rng.random() < 0.5
    mats = [gen_matrix(rng, "t", dense=dense and rng.random() < 0.3)] + [gen_matrix(rng, tag, dense=dense and rng.random() < 0.7) for tag in "suv"]
    k = rng.random()
    if k < 0.25:
        mats[0] = gen_twin(rng, mats[rng.randint(1, 3)])
    elif k < 0.5:
        mats[0] = dict(mats[0], ecus=[], frames=[])         # only definitions so far
    elif k < 0.7:
        mats[0] = {"ecus": [], "frames": [], "free": [], "fd": [], "sd": [], "ed": []}      # CanMatrix()
    if rng.random() < 0.5:
        # a source that is an extract: it lists none / only some of the ECUs it names
        x = rng.randint(1, 3)
        mats[x] = dict(mats[x], ecus=[e for e in mats[x]["ecus"] if rng.random() < 0.3])
    world = [build(m) for m in mats]
    steps = []
    for ncall in range(rng.choice([1, 1, 2])):
        if rng.random() < (0.5 if ncall else 0.25):
            # something happens to the target before the call: a single copy from one of the sources, or an edit
            si = rng.randint(1, 3)
            if rng.random() < 0.6:
                step = [si, 0, gen_req(rng, snapshot(world[si]), snapshot(world[0]))]
            else:
                step = [si, 0, gen_edit(rng, snapshot(world[0]))]
            try:
                apply_step(world, *step)
            except Exception:
                return
            steps.append(step)
        call = rng.sample([1, 2, 3], rng.choice([2, 2, 3]))
        if rng.random() < 0.15:
            call.insert(rng.randint(1, len(call)), rng.choice(call))
        for j, si in enumerate(call):
            pre = {"mats": mats, "steps": [list(s) for s in steps], "si": si, "ti": 0, "together": call[:j]}
            try:
                s_desc, t_desc = describe(pre)
            except Exception:
                return
            yield {"op": "copy", "c": {"src": s_desc, "tgt": t_desc, "req": ["merge"], "pre": pre}}
        step = [call[-1], 0, ["mergecall", call]]
        try:
            apply_step(world, *step)
        except Exception:
            return
        steps.append(step)


def gen(rng, tier, shard, nshards):
    total = {"quick": 5000, "thorough": 60000}[tier] // nshards
    for _ in range(total):
        src = gen_matrix(rng, "s")
        tgt = gen_matrix(rng, "t")
        yield {"op": "copy", "c": {"src": src, "tgt": tgt, "req": gen_req(rng, src, tgt)}}
    # near-miss definitions: the target's definitions are derived from the source's
    for _ in range({"quick": 1600, "thorough": 16000}[tier] // nshards):
        src = gen_matrix(rng, "s")
        tgt = gen_twin(rng, src)
        yield {"op": "copy", "c": {"src": src, "tgt": tgt, "req": gen_req(rng, src, tgt)}}
    # histories
    for _ in range({"quick": 480, "thorough": 4800}[tier] // nshards):
        for case in gen_history(rng):
            yield case
    # histories of one source and one target: extraction of an ECU, then frames and merges, edits of the target in between
    for _ in range({"quick": 480, "thorough": 4800}[tier] // nshards):
        for case in gen_history(rng, "pair"):
            yield case
    # calls of merge with several matrices at once
    for _ in range({"quick": 400, "thorough": 4000}[tier] // nshards):
        for case in gen_calls(rng):
            yield case


def neighbours(case, rng, shard, nshards):
    c = case["c"]
    for _ in range(150 // nshards + 1):
        yield {"op": "copy", "c": {"src": c["src"], "tgt": gen_matrix(rng, "t"), "req": c["req"]}}
        yield {"op": "copy", "c": {"src": c["src"], "tgt": gen_twin(rng, c["src"]), "req": c["req"]}}
        yield {"op": "copy", "c": {"src": c["src"], "tgt": c["tgt"], "req": gen_req(rng, c["src"], c["tgt"])}}


def build(m):
    db = cm.CanMatrix()
    for kind, adder in (("fd", db.add_frame_defines), ("sd", db.add_signal_defines), ("ed", db.add_ecu_defines)):
        for name, definition, _kind, _values, default in m[kind]:
            adder(name, definition)
            d = {"fd": db.frame_defines, "sd": db.signal_defines, "ed": db.ecu_defines}[kind][name]
            d.set_default(default)
    for name, body, attrs in m["ecus"]:
        e = cm.Ecu(name, comment=body or None)
        for a, v in attrs:
            e.add_attribute(a, v)
        db.ecus.append(e)
    for fdesc in m["frames"]:
        db.add_frame(make_frame(*fdesc))
    for sdesc in m.get("free", []):
        db.add_signal(make_signal(*sdesc))
    return db


def al(d):
    return [[k, str(v)] for k, v in d.items()]


def sigsnap(s):
    body = "%d:%d:%d|%s" % (s.start_bit, s.size, 1 if s.is_little_endian else 0, s.comment)
    parts = []
    if not s.is_signed:
        parts.append("u")
    if s.factor != 1:
        parts.append("f=%s" % s.factor)
    if s.offset != 0:
        parts.append("o=%s" % s.offset)
    if s.unit:
        parts.append("un=%s" % s.unit)
    if s.min != s.calc_min() or s.max != s.calc_max():
        parts.append("r=%s..%s" % (s.min, s.max))
    if s.values:
        parts.append("v=" + ",".join("%d:%s" % kv for kv in sorted(s.values.items())))
    if parts:
        body += "|" + ";".join(parts)
    return [s.name, body, list(s.receivers), al(s.attributes)]


def framebody(f):
    parts = []
    if f.size != 8:
        parts.append("sz=%d" % f.size)
    if f.cycle_time:
        parts.append("cy=%d" % f.cycle_time)
    if f.is_fd:
        parts.append("fd")
    return (f.comment or "") + ("|" + ";".join(parts) if parts else "")


def defsnap(d):
    return [[k, v.definition, v.type, list(getattr(v, "values", [])) if v.type == "ENUM" else [], v.defaultValue] for k, v in d.items()]


def snapshot(db):
    return {"ecus": [[e.name, e.comment or "", al(e.attributes)] for e in db.ecus],
            "frames": [[f.arbitration_id.id, bool(f.arbitration_id.extended), f.name, framebody(f), list(f.transmitters), al(f.attributes),
                        [sigsnap(s) for s in f.signals]] for f in db.frames],
            "free": [sigsnap(s) for s in db.signals],
            "fd": defsnap(db.frame_defines), "sd": defsnap(db.signal_defines), "ed": defsnap(db.ecu_defines)}


def canon_case(c):
    """the descriptions as the model sees them: defines get their parsed kind/values"""
    return c


def look(db):
    """what a user (or an exporter) asks a matrix: every ECU by name, every frame by identifier; no effect on the matrix"""
    for n in ECUS + ["Spare"]:
        db.ecu_by_name(n)
    db.glob_ecus("*")
    for i, ext in IDS + MORE_IDS:
        db.frame_by_id(cm.ArbitrationId(i, ext))
    for f in list(db.frames):
        db.frame_by_name(f.name)


def apply_edit(req, db):
    """an edit of a history (never a judged request): the matrix is looked at, edited through the public API, looked at again"""
    look(db)
    if req[1] == "del_ecu":
        db.del_ecu(req[2])
    elif req[1] == "rename_ecu":
        db.rename_ecu(req[2], req[3])
    elif req[1] == "del_frame":
        fr = db.frame_by_id(cm.ArbitrationId(req[2], req[3]))
        if fr is not None:
            db.del_frame(fr)
    elif req[1] == "set_id":
        fr = db.frame_by_id(cm.ArbitrationId(req[2], req[3]))
        if fr is not None:
            fr.arbitration_id.id = req[4]
    elif req[1] != "look":
        raise RuntimeError("unknown edit %r" % (req,))
    look(db)


def apply_req(req, src, tgt):
    """the request on the real objects; returns copy_frame's answer, "raised" for the declared refusal, else None"""
    try:
        if req[0] == "frame":
            return bool(canmatrix.copy.copy_frame(cm.ArbitrationId(req[1], req[2]), src, tgt))
        elif req[0] == "merge":
            tgt.merge([src])
        elif req[0] == "ecuframes":
            via = req[5] if len(req) > 5 else "glob"
            what = req[1]
            if via.endswith("obj"):
                what = src.ecu_by_name(req[1])
                if what is None:
                    raise RuntimeError("request names the Ecu object %r, the source has none" % req[1])
            if via.startswith("ecu-"):
                if req[2] or req[3] or req[4]:
                    raise RuntimeError("copy_ecu stands for a request without rx, tx and clean-up only")
                canmatrix.copy.copy_ecu(what, src, tgt)
                tgt.update_ecu_list()
            else:
                canmatrix.copy.copy_ecu_with_frames(what, src, tgt, rx=req[2], tx=req[3], direct_ecu_only=req[4])
        elif req[0] == "signal":
            canmatrix.copy.copy_signal(req[1], src, tgt)
        elif req[0] == "edit":
            apply_edit(req, tgt)
    except AttributeError:
        return "raised"
    return None


def apply_step(world, si, ti, req):
    """one step of a history on the real objects: a request from world[si] to world[ti], or (never a judged request, only the past of
    one) one call of merge with several matrices, ["mergecall", [k1, k2, ...]]"""
    if req[0] == "mergecall":
        world[ti].merge([world[k] for k in req[1]])
        return None
    return apply_req(req, world[si], world[ti])


def replay(pre):
    world = [build(m) for m in pre["mats"]]
    for si, ti, req in pre["steps"]:
        apply_step(world, si, ti, req)
    return world


def describe(pre):
    """source and target of the judged step as its history leaves them (objects of their own, made for this description only).
    pre["together"]: the matrices that go into the target by the same call of merge in front of the source; here each of them is merged by a
    call of its own"""
    world = replay(pre)
    for k in pre.get("together") or []:
        world[pre["ti"]].merge([world[k]])
    return snapshot(world[pre["si"]]), snapshot(world[pre["ti"]])


POKE = "Poke"


def edit_in_place(db):
    """Every mutable thing a matrix is made of is changed in place, the way user code and canmatrix itself change a matrix they hold
    (convert's --changeFrameId / --frameIdIncrement: frame.arbitration_id.id = ...; the J1939 setters of Frame work on the same object;
    add_attribute, add_values, add_transmitter, add_receiver, add_signal, Define.set_default / ENUM values.append, ...): the lists
    and dictionaries of the matrix, every ECU, every definition, every frame with its identifier object, its lists, its dictionary and its
    signals, every signal with its lists and dictionaries.  Returns what is needed to take the edits back (in reverse order; the edits
    nest like a stack, so that taking back works as well when two objects turn out to be one)."""
    undo = []

    def put(obj, member, value):
        old = getattr(obj, member)
        setattr(obj, member, value)
        undo.append(lambda: setattr(obj, member, old))

    def push(lst, item):
        lst.append(item)
        undo.append(lst.pop)

    def key(dct, k, value):
        had, old = k in dct, dct.get(k)
        dct[k] = value
        undo.append((lambda: dct.__setitem__(k, old)) if had else (lambda: dct.__delitem__(k)))

    def text(v):
        return (v or "") + "_" + POKE

    def signal(sig):
        put(sig, "name", text(sig.name))
        put(sig, "comment", text(sig.comment))
        put(sig, "start_bit", sig.start_bit + 1)
        put(sig, "size", sig.size + 1)
        put(sig, "is_little_endian", not sig.is_little_endian)
        put(sig, "is_signed", not sig.is_signed)
        put(sig, "factor", sig.factor * 3)
        put(sig, "offset", sig.offset + 1)
        put(sig, "unit", text(sig.unit))
        put(sig, "min", None)
        put(sig, "max", None)
        push(sig.receivers, POKE)
        key(sig.attributes, POKE, "1")
        for k in list(sig.attributes):
            key(sig.attributes, k, text(sig.attributes[k]))
        key(sig.values, 0x7777, POKE)
        for k in list(sig.values):
            key(sig.values, k, text(sig.values[k]))

    def definitions(dct):
        for d in list(dct.values()):
            put(d, "defaultValue", text(d.defaultValue))
            put(d, "definition", d.definition + " ")
            if d.type == "ENUM":
                push(d.values, POKE)
        key(dct, POKE, cm.Define("INT 0 1"))

    for e in list(db.ecus):
        put(e, "name", text(e.name))
        put(e, "comment", text(e.comment))
        key(e.attributes, POKE, "1")
        for k in list(e.attributes):
            key(e.attributes, k, text(e.attributes[k]))
    for f in list(db.frames):
        aid = f.arbitration_id
        put(aid, "id", aid.id ^ 0x40)
        put(aid, "extended", not aid.extended)
        put(f, "name", text(f.name))
        put(f, "comment", text(f.comment))
        put(f, "size", f.size + 1)
        put(f, "cycle_time", f.cycle_time + 1)
        put(f, "is_fd", not f.is_fd)
        push(f.transmitters, POKE)
        key(f.attributes, POKE, "1")
        for k in list(f.attributes):
            key(f.attributes, k, text(f.attributes[k]))
        for sig in list(f.signals):
            signal(sig)
        push(f.signals, cm.Signal(POKE, start_bit=40, size=2))
    for sig in list(db.signals):
        signal(sig)
    for dct in (db.frame_defines, db.signal_defines, db.ecu_defines):
        definitions(dct)
    push(db.ecus, cm.Ecu(POKE))
    push(db.frames, cm.Frame(POKE, arbitration_id=cm.ArbitrationId(0x7F0, False), size=8))
    push(db.signals, cm.Signal(POKE, start_bit=0, size=1))
    return undo


def take_back(undo):
    while undo:
        undo.pop()()


def observe(case):
    c = case["c"]
    pre = c.get("pre")
    if pre:
        # the matrices get their history through the real code; the case describes source and target as they are now
        world = replay(pre)
        src, tgt = world[pre["si"]], world[pre["ti"]]
        together = pre.get("together") or []
        if (describe(pre) if together else (snapshot(src), snapshot(tgt))) != (c["src"], c["tgt"]):
            raise RuntimeError("the same sequence of copies gives other matrices than when the case was made")
    else:
        src, tgt = build(c["src"]), build(c["tgt"])
        together = []
    if together:
        # one call of merge with several matrices; the case describes the target as the matrices in front of the source leave it when
        # each is merged by a call of its own, so what is judged is the step the source's frames make within the one call
        if c["req"] != ["merge"]:
            raise RuntimeError("only merge takes several matrices")
        tgt.merge([world[k] for k in together] + [src])
        res = None
    else:
        res = apply_req(c["req"], src, tgt)
    # "independent of it": what the copy left in the target shares nothing with the source.  Every object of the target is edited in place
    # (see edit_in_place) while the source is looked at, the edits are taken back, then every object of the source is edited in place while
    # the target is looked at.  Matrices that share nothing show what they show without the edits.
    undo = edit_in_place(tgt)
    src_seen = snapshot(src)
    take_back(undo)
    undo = edit_in_place(src)
    tgt_seen = snapshot(tgt)
    take_back(undo)
    return {"res": res, "tgt": tgt_seen, "src": src_seen}


def project(impl):
    return impl


def to_model(case):
    return case


def features(case, impl):
    c = case["c"]
    yield "req=" + c["req"][0]
    yield c["req"][0] + ":res=%s" % impl["res"]
    b = build(c["tgt"])
    yield "target-changed" if snapshot(b) != impl["tgt"] else "target-unchanged"
    names = lambda m, k: {d[0] for d in m[k]}  # noqa
    if names(c["src"], "sd") & names(c["tgt"], "sd"):
        yield "equal-named signal define in both"
    if names(c["src"], "fd") & names(c["tgt"], "ed"):
        yield "cross-kind equal name"
    if c["req"][0] in ("ecuframes", "signal"):
        pat = c["req"][1]
        yield "glob:" + ("plain" if not any(x in pat for x in "*?[") else
                         "class without wildcard" if "[" in pat and "]" in pat and "*" not in pat and "?" not in pat else
                         "class with wildcard" if "[" in pat and "]" in pat else "unclosed [" if "[" in pat else "wildcard")
    if c["req"][0] == "ecuframes":
        yield "ecuframes:via=" + (c["req"][5] if len(c["req"]) > 5 else "glob")
    for k in ("fd", "sd", "ed"):
        td = {d[0]: d for d in c["tgt"][k]}
        for d in c["src"][k]:
            t = td.get(d[0])
            if t is not None and t[4] != d[4]:
                yield "equal-named define, defaults differ"
                if t[4] is None or d[4] is None or t[4] == "" or d[4] == "":
                    yield "equal-named define, defaults none/empty/other"
                elif t[4].lower() == d[4].lower():
                    yield "equal-named define, defaults differ in case only"
                else:
                    try:
                        if float(t[4]) == float(d[4]):
                            yield "equal-named define, defaults differ in notation of the number only"
                    except ValueError:
                        pass
    for d in c["src"]["ed"]:
        if d[0] in ECU_ANAMES:
            yield "ECU define named like an Ecu member:" + d[0]
    if any(a[0] in ECU_ANAMES for e in c["src"]["ecus"] for a in e[2]):
        yield "ECU with an explicit attribute named like an Ecu member"
    if any(e[1] == "" for e in c["src"]["ecus"]):
        yield "source has an ECU without comment"
    sigs = [s for f in c["src"]["frames"] for s in f[6]]
    for mark, what in (("u", "unsigned"), ("f=", "factor"), ("o=", "offset"), ("un=", "unit"), ("r=", "explicit range"), ("v=", "value table")):
        if any(s[1].count("|") == 2 and any(p == mark or (mark.endswith("=") and p.startswith(mark)) for p in s[1].split("|", 2)[2].split(";")) for s in sigs):
            yield "source has a signal with " + what
    if any("|" in f[3] for f in c["src"]["frames"]):
        yield "source has a frame with length/cycle time/FD flag"
    if c["req"][0] == "frame" and any((f[0], f[1]) != (c["req"][1], c["req"][2]) and f[2] in [g[2] for g in c["src"]["frames"] if (g[0], g[1]) == (c["req"][1], c["req"][2])]
                                        for f in c["tgt"]["frames"]):
        yield "frame copied next to a frame of the same name with another identifier"
    if c.get("pre"):
        edits = [s[2] for s in c["pre"]["steps"] if s[2][0] == "edit"]
        for e in edits:
            yield "history:edit before=" + e[1]
        if any(s[2][0] == "ecuframes" and s[2][4] and s[1] == c["pre"]["ti"] for s in c["pre"]["steps"]):
            yield "history:the target was filled by an extraction with clean-up before"
        if edits and c["pre"]["steps"][-1][2][0] == "edit":
            yield "history:the target was edited just before"
        if c["pre"].get("together"):
            tg = c["pre"]["together"]
            yield "merge call:matrices in front of the source=%d" % len(tg)
            if c["pre"]["si"] in tg:
                yield "merge call:the source is in the list twice"
            mats = c["pre"]["mats"]
            named = lambda m: {n for f in m["frames"] for n in f[4] + [r for sg in f[6] for r in sg[2]]}  # noqa
            listed = lambda m: {e[0] for e in m["ecus"]}  # noqa
            early = set().union(*[named(mats[k]) - listed(mats[k]) for k in tg])
            if early & named(c["src"]) & listed(c["src"]):
                yield "merge call:an ECU the source lists is named but not listed by a matrix in front of it"
                if early & named(c["src"]) & listed(c["src"]) - listed(c["tgt"]):
                    yield "merge call:... and the target does not have it"
        if any(s[2][0] == "mergecall" for s in c["pre"]["steps"]):
            yield "history:a merge call with several matrices before"
    yield "history:steps before=%d" % (len(c["pre"]["steps"]) if c.get("pre") else 0)
    if c.get("pre") and any(s[1] == c["pre"]["si"] for s in c["pre"]["steps"]):
        yield "history:the source received copies before"
    if c.get("pre") and any(s[0] == c["pre"]["si"] and s[1] == c["pre"]["ti"] for s in c["pre"]["steps"]):
        yield "history:same source and target as an earlier step"


def nontrivial(case, impl):
    return snapshot(build(case["c"]["tgt"])) != impl["tgt"]


def shrink_candidates(case):
    c = case["c"]
    if c.get("pre"):
        # first without the history (fresh objects built from the descriptions); then with one step of the history left out (source and
        # target described as the shorter history leaves them)
        yield {"op": "copy", "c": {"src": c["src"], "tgt": c["tgt"], "req": c["req"]}}
        pre = c["pre"]
        shorter = []
        for i in range(len(pre["steps"])):
            steps = pre["steps"][:i] + pre["steps"][i + 1:]
            if steps or pre.get("together"):
                shorter.append(dict(pre, steps=steps))
        tg = pre.get("together") or []
        for i in range(len(tg)):
            # one matrix less in the call
            if pre["steps"] or len(tg) > 1:
                shorter.append(dict(pre, together=tg[:i] + tg[i + 1:]))
        for p in shorter:
            try:
                s_desc, t_desc = describe(p)
            except Exception:
                continue
            yield {"op": "copy", "c": {"src": s_desc, "tgt": t_desc, "req": c["req"], "pre": p}}
        if tg:
            # smaller matrices in the call: one frame / ECU / definition less in one of the matrices of the history
            for mi, m in enumerate(pre["mats"]):
                for part in ("frames", "ecus", "fd", "sd", "ed"):
                    for i in range(len(m[part])):
                        nm = dict(m, **{part: m[part][:i] + m[part][i + 1:]})
                        p = dict(pre, mats=pre["mats"][:mi] + [nm] + pre["mats"][mi + 1:])
                        try:
                            s_desc, t_desc = describe(p)
                        except Exception:
                            continue
                        yield {"op": "copy", "c": {"src": s_desc, "tgt": t_desc, "req": c["req"], "pre": p}}
        return
    for key in ("src", "tgt"):
        m = c[key]
        for part in ("frames", "ecus", "fd", "sd", "ed"):
            for i in range(len(m[part])):
                nm = dict(m, **{part: m[part][:i] + m[part][i + 1:]})
                yield {"op": "copy", "c": dict(c, **{key: nm})}
