import CanVerif.Model.Dec
/-!
# Model of the start-value carrier of the DBC format (C05): `GenSigStartValue`

A DBC file carries a signal's initial value as the *raw* number in the attribute `GenSigStartValue`.
Writer (formats/dbc.py `dump`, after fixes f45ef57 and ca8ce77): the raw start value is `phys2raw(None)` (the initial value if it
lies inside the limits, else the minimum); the attribute is written unless the value equals what the reader assumes for a signal
without attribute *and* (when the definition has no default) is 0.  Reader (`load`, post-processing): without attribute the raw
start value is `phys2raw(default of the definition)` if the definition has a default (taken as physical value), else `phys2raw(None)`
of a fresh signal (physical 0 if inside the limits, else the minimum); the initial value is `start × factor + offset`.
-/
namespace CanVerif

/-- `a <= b` for decimals (comparison of the values) -/
def Dec.le (a b : Dec) : Bool :=
  let e := min a.exp b.exp
  decide (Dec.aligned a e ≤ Dec.aligned b e)

structure StartSig where
  s : ScaleSig
  min : Dec
  max : Dec
  initial : Dec            -- `Signal.initial_value` (physical)
  deriving Repr, Inhabited

def zeroDec : Dec := ⟨false, 0, 0⟩

/-- the value `phys2raw(None)` converts: the initial value if `min <= initial <= max`, else the minimum -/
def StartSig.physDefault (g : StartSig) : Dec := if Dec.le g.min g.initial && Dec.le g.initial g.max then g.initial else g.min

/-- `signal.phys2raw(None)` -/
def StartSig.startRaw (g : StartSig) : Int := g.s.phys2raw g.physDefault

/-- the raw start value `load` assumes for a signal without `GenSigStartValue`; `dflt` = default of the definition -/
def StartSig.assumed (g : StartSig) (dflt : Option Dec) : Int :=
  match dflt with
  | some d => g.s.phys2raw d
  | none => g.s.phys2raw (if Dec.le g.min zeroDec && Dec.le zeroDec g.max then zeroDec else g.min)

/-- writer: the attribute value, if one is written -/
def StartSig.writeStart (g : StartSig) (dflt : Option Dec) : Option Int :=
  let r := g.startRaw
  if r != g.assumed dflt || (dflt.isNone && r != 0) then some r else none

/-- the writer before the fixes: nothing at all when the definition has a default, else only a non-zero value -/
def StartSig.writeStartOld (g : StartSig) (dflt : Option Dec) : Option Int :=
  let r := g.startRaw
  if dflt.isSome then none else if r != 0 then some r else none

/-- reader: the initial value of the signal that was read (its scaling and limits are those of the file) -/
def StartSig.readStart (g : StartSig) (attr : Option Int) (dflt : Option Dec) : Dec :=
  g.s.raw2phys (attr.getD (g.assumed dflt))

end CanVerif
