/-!
# Model of compare.py: `compare_db`, `compare_frame`, `compare_signal`, `compare_ecu`,
`compare_attributes`, `compare_define_list`, `compare_value_table`, `compare_signal_group`,
`propagate_changes`, and the CLI flag → ignore mapping of cli/compare.py.

The result tree is observed as nested (result, type, children); `ref`/`changes` are not modelled.
Numeric fields (factor, offset, min, max) are compared as doubles by the code; here they are
integers (the generated values are exactly representable and distinct doubles iff distinct).
-/
namespace CanVerif

abbrev KV := List (String × String)

structure QSig where
  name : String
  start : Nat
  size : Nat
  factor : Int
  offset : Int
  min : Int
  max : Int
  little : Bool
  signed : Bool
  multiplex : String            -- str(multiplex): "None" | "Multiplexor" | number
  unit : String
  comment : Option String
  receivers : List String
  attrs : KV
  values : List (Int × String)
  deriving Repr, DecidableEq, Inhabited

structure QGroup where
  name : String
  id : Int
  members : List String
  deriving Repr, DecidableEq, Inhabited

structure QFrame where
  name : String
  id : Nat
  ext : Bool
  size : Nat
  comment : Option String
  transmitters : List String
  attrs : KV
  sigs : List QSig
  groups : List QGroup
  deriving Repr, DecidableEq, Inhabited

structure QEcu where
  name : String
  comment : Option String
  attrs : KV
  deriving Repr, DecidableEq, Inhabited

structure QDef where
  definition : String
  default : Option String
  deriving Repr, DecidableEq, Inhabited

structure QMat where
  frames : List QFrame
  ecus : List QEcu
  attrs : KV
  gdefs : List (String × QDef)
  edefs : List (String × QDef)
  fdefs : List (String × QDef)
  sdefs : List (String × QDef)
  valueTables : List (String × List (Int × String))
  deriving Repr, DecidableEq, Inhabited

/-- the `ignore` dictionary -/
structure Ign where
  igComment : Bool := false   -- "comment" in ignore
  igAttr : Bool := false      -- ignore["ATTRIBUTE"] == "*"
  igDefine : Bool := false    -- ignore["DEFINE"] == "*"
  igVt : Bool := false        -- ignore["VALUETABLES"] truthy
  deriving Repr, DecidableEq, Inhabited

/-- cli/compare.py: flags → ignore -/
def ignOfFlags (checkComments checkAttributes ignoreValuetables : Bool) : Ign :=
  { igComment := !checkComments, igAttr := !checkAttributes, igVt := ignoreValuetables }

inductive Res
  | node (result : Option String) (typ : Option String) (children : List Res)
  deriving Repr, Inhabited

def leaf (r t : String) : Res := .node (some r) (some t) []

def kvGet (d : KV) (k : String) : Option String := (d.find? (·.1 == k)).map (·.2)

/-- `compare_attributes` (without the early-return for ignored attributes, handled by the callers) -/
def compareAttributes (a1 a2 : KV) : Res :=
  .node (some "equal") (some "ATTRIBUTES")
    ((a1.filterMap fun kv =>
        match kvGet a2 kv.1 with
        | none => some (leaf "deleted" kv.1)
        | some v => if kv.2 != v then some (leaf "changed" kv.1) else none) ++
     (a2.filterMap fun kv => if (kvGet a1 kv.1).isNone then some (leaf "added" kv.1) else none))

def vtGet (d : List (Int × String)) (k : Int) : Option String := (d.find? (·.1 == k)).map (·.2)

/-- `text.encode('ascii', 'ignore')`: characters outside ASCII are dropped (the label of the result node only) -/
def asciiOnly (t : String) : String := String.ofList (t.toList.filter fun c => c.toNat < 128)

/-- `compare_value_table` -/
def compareValueTable (v1 v2 : List (Int × String)) : Res :=
  .node (some "equal") (some "Valuetable")
    ((v1.filterMap fun kv =>
        match vtGet v2 kv.1 with
        | none => some (leaf "removed" ("Value " ++ toString kv.1))
        | some l => if kv.2 != l then some (leaf "changed" ("Value " ++ toString kv.1 ++ " b'" ++ asciiOnly kv.2 ++ "'")) else none) ++
     (v2.filterMap fun kv => if (vtGet v1 kv.1).isNone then some (leaf "added" ("Value " ++ toString kv.1)) else none))

/-- `compare_signal_group` -/
def compareSignalGroup (g1 g2 : QGroup) : Res :=
  .node (some "equal") (some "SignalGroup")
    ((if g1.name != g2.name then [leaf "changed" "SignalName"] else []) ++
     (if g1.id != g2.id then [leaf "changed" "SignalName"] else []) ++
     (g1.members.filterMap fun m => if g2.members.contains m then none else some (leaf "deleted" m)) ++
     (g2.members.filterMap fun m => if g1.members.contains m then none else some (leaf "added" m)))

def defGetQ (d : List (String × QDef)) (k : String) : Option QDef := (d.find? (·.1 == k)).map (·.2)

/-- `compare_define_list` -/
def compareDefineList (typ : String) (d1 d2 : List (String × QDef)) : Res :=
  .node (some "equal") (some typ)
    ((d1.flatMap fun kv =>
        match defGetQ d2 kv.1 with
        | none => [leaf "deleted" ("Define" ++ kv.1)]
        | some e =>
          (if kv.2.definition != e.definition then [leaf "changed" "Definition"] else []) ++
          (if kv.2.default != e.default then [leaf "changed" "DefaultValue"] else [])) ++
     (d2.filterMap fun kv => if (defGetQ d1 kv.1).isNone then some (leaf "added" ("Define" ++ kv.1)) else none))

/-- `compare_signal` -/
def compareSignal (ign : Ign) (s1 s2 : QSig) : Res :=
  .node (some "equal") (some "SIGNAL")
    ((if s1.start != s2.start then [leaf "changed" "startbit"] else []) ++
     (if s1.size != s2.size then [leaf "changed" "signalsize"] else []) ++
     (if s1.factor != s2.factor then [leaf "changed" "factor"] else []) ++
     (if s1.offset != s2.offset then [leaf "changed" "offset"] else []) ++
     (if s1.min != s2.min then [leaf "changed" "min"] else []) ++
     (if s1.max != s2.max then [leaf "changed" "max"] else []) ++
     (if s1.little != s2.little then [leaf "changed" "is_little_endian"] else []) ++
     (if s1.signed != s2.signed then [leaf "changed" "sign"] else []) ++
     (if s1.multiplex != s2.multiplex then [leaf "changed" "multiplex"] else []) ++
     (if s1.unit != s2.unit then [leaf "changed" "unit"] else []) ++
     (if ign.igComment then [] else
        match s1.comment, s2.comment with
        | some c1, some c2 => if c1 != c2 then [leaf "changed" "comment"] else []
        | _, _ => []) ++
     (s1.receivers.filterMap fun r => if s2.receivers.contains r then none else some (leaf "removed" ("receiver " ++ r))) ++
     (s2.receivers.filterMap fun r => if s1.receivers.contains r then none else some (leaf "added" ("receiver " ++ r))) ++
     (if ign.igAttr then [] else [compareAttributes s1.attrs s2.attrs]) ++
     (if ign.igVt then [] else [compareValueTable s1.values s2.values]))

/-- `compare_frame` -/
def compareFrame (ign : Ign) (f1 f2 : QFrame) : Res :=
  .node (some "equal") (some "FRAME")
    ((f1.sigs.map fun s1 =>
        match f2.sigs.find? (·.name == s1.name) with
        | none => leaf "deleted" "SIGNAL"
        | some s2 => compareSignal ign s1 s2) ++
     (if f1.name != f2.name then [leaf "changed" "Name"] else []) ++
     (if f1.size != f2.size then [leaf "changed" "dlc"] else []) ++
     (if f1.id != f2.id then [leaf "changed" "ID"] else []) ++
     (if f1.ext != f2.ext then [leaf "changed" "FRAME"] else []) ++
     (if ign.igComment then [] else
        if f1.comment.getD "" != f2.comment.getD "" then [leaf "changed" "FRAME"] else []) ++
     (f2.sigs.filterMap fun s2 => if (f1.sigs.find? (·.name == s2.name)).isNone then some (leaf "added" "SIGNAL") else none) ++
     (if ign.igAttr then [] else [compareAttributes f1.attrs f2.attrs]) ++
     (f1.transmitters.filterMap fun t => if f2.transmitters.contains t then none else some (leaf "removed" "Frame-Transmitter")) ++
     (f2.transmitters.filterMap fun t => if f1.transmitters.contains t then none else some (leaf "added" "Frame-Transmitter")) ++
     (f1.groups.map fun g1 =>
        match f2.groups.find? (·.name == g1.name) with
        | none => leaf "removed" "Signalgroup"
        | some g2 => compareSignalGroup g1 g2) ++
     (f2.groups.filterMap fun g2 => if (f1.groups.find? (·.name == g2.name)).isNone then some (leaf "added" "Signalgroup") else none))

/-- `compare_ecu` -/
def compareEcu (ign : Ign) (e1 e2 : QEcu) : Res :=
  .node (some "equal") (some "ECU")
    ((if ign.igComment then [] else if e1.comment != e2.comment then [leaf "changed" "ECU"] else []) ++
     (if ign.igAttr then [] else [compareAttributes e1.attrs e2.attrs]))

def frameByName (m : QMat) (n : String) : Option QFrame := m.frames.find? (·.name == n)
def frameByIdQ (m : QMat) (id : Nat) (ext : Bool) : Option QFrame := m.frames.find? fun f => f.id == id && f.ext == ext

mutual
/-- `propagate_changes`: returns the rewritten node and 1 if it is not "equal" -/
def propagate : Res → Res × Nat
  | .node r t cs =>
    let (cs', change) := propagateList cs
    let r' := if change != 0 then some "changed" else r
    (.node r' t cs', if r' != some "equal" then 1 else 0)
def propagateList : List Res → List Res × Nat
  | [] => ([], 0)
  | c :: rest =>
    let (c', n) := propagate c
    let (rest', m) := propagateList rest
    (c' :: rest', n + m)
end

/-- `compare_db` -/
def compareDb (ign : Ign) (db1 db2 : QMat) : Res :=
  let frames1 := db1.frames.map fun f1 =>
    match frameByName db2 f1.name with
    | some f2 => compareFrame ign f1 f2
    | none => match frameByIdQ db2 f1.id f1.ext with
      | some f2 => compareFrame ign f1 f2
      | none => leaf "deleted" "FRAME"
  let frames2 := db2.frames.filterMap fun f2 =>
    if (frameByName db1 f2.name).isNone && (frameByIdQ db1 f2.id f2.ext).isNone then some (leaf "added" "FRAME") else none
  let attrs := if ign.igAttr then [] else [compareAttributes db1.attrs db2.attrs]
  let ecus1 := db1.ecus.map fun e1 =>
    match db2.ecus.find? (·.name == e1.name) with
    | none => leaf "deleted" "ecu"
    | some e2 => compareEcu ign e1 e2
  let ecus2 := db2.ecus.filterMap fun e2 => if (db1.ecus.find? (·.name == e2.name)).isNone then some (leaf "added" "ecu") else none
  let defs := if ign.igDefine then [] else
    [compareDefineList "DefineList" db1.gdefs db2.gdefs, compareDefineList "ECU Defines" db1.edefs db2.edefs,
     compareDefineList "Frame Defines" db1.fdefs db2.fdefs, compareDefineList "Signal Defines" db1.sdefs db2.sdefs]
  let vts := if ign.igVt then [] else
    (db1.valueTables.map fun kv =>
      match (db2.valueTables.find? (·.1 == kv.1)).map (·.2) with
      | none => leaf "deleted" ("valuetable " ++ kv.1)
      | some v2 => compareValueTable kv.2 v2) ++
    (db2.valueTables.filterMap fun kv =>
      if (db1.valueTables.find? (·.1 == kv.1)).isNone then some (leaf "added" ("valuetable " ++ kv.1)) else none)
  (propagate (.node none none (frames1 ++ frames2 ++ attrs ++ ecus1 ++ ecus2 ++ defs ++ vts))).1

mutual
/-- what `dump_result` prints nothing for: every node that has a type is "equal" -/
def reportsNothing : Res → Bool
  | .node r t cs => (t.isNone || r == some "equal") && reportsNothingList cs
def reportsNothingList : List Res → Bool
  | [] => true
  | c :: rest => reportsNothing c && reportsNothingList rest
end

end CanVerif
