"""C02 - encoding is the exact inverse of decoding and writes only its own bits."""
from lib import frames as F

PID = "C02"
RULE = ("case 'enc' = (frame 1..64 bytes, 1..8 pairwise non-overlapping in-frame signals of width 1..64, both byte "
        "orders mixed, signed/unsigned/float32/float64; a subset of signals supplied with raw values from the raw range: "
        "boundaries, 0, +-1, random); case 'decenc' = (same frames, arbitrary payload, decode then encode). "
        "Also: all single-signal placements in frames <= 2 bytes with boundary raws (exhaustive part). "
        "Every decode/encode is observed on objects with a history: the first use of a frame is made with its signals somewhere else "
        "(then moved into place by assignment), each call is repeated, and once more after another detour; an encode request is also "
        "made with one values dict used for several selector values. A result that depends on that history is a failure. "
        "30 % of the frames carry signals with offset, limits and start values (start value raw != 0); decoded values are kept while other payloads are decoded before they are re-encoded. Non-trivial = distinct case with at least one supplied non-zero value / non-constant payload.")
PARTIAL = ["struct.pack rounding for floats is trusted: float values are supplied as exactly representable non-NaN patterns",
           "value-table labels in the data dict go through phys2raw (C04) and are not generated here"]
ASSUMPTIONS = ["signals pairwise non-overlapping and inside the frame", "signal names unique within a frame"]
TRUSTED = ["CPython str.format('{:0{}b}'), list slice assignment, itertools grouper semantics as modelled in Model/Codec.lean"]
CORRESPONDENCE = "Frame.encode (+ decode of its output) == CanVerif.Frame.encode"


def gen_frame(rng):
    n = rng.choice(F.ALL_LENGTHS if rng.random() < 0.6 else F.FD_LENGTHS)
    fd = {"size": n, "sigs": F.rand_disjoint_sigs(rng, n, maxn=8)}
    if rng.random() < 0.3:
        fd["sc"] = True          # signals with physical scaling, limits and start values (no business of the raw codec)
    if rng.random() < 0.2:
        fd["j"] = True           # flagged as a J1939 frame
    return fd


def enc_case(rng, fd):
    sup = [d for d in fd["sigs"] if rng.random() < 0.75]
    rng.shuffle(sup)
    return {"op": "enc", "c": {"f": fd, "d": [[d[0], F.rand_raw(rng, d)] for d in sup]}}


def gen(rng, tier, shard, nshards):
    total = {"quick": 16000, "thorough": 250000}[tier]
    for _ in range(total // nshards):
        fd = gen_frame(rng)
        if rng.random() < 0.65:
            yield enc_case(rng, fd)
        else:
            yield {"op": "decenc", "c": {"f": fd, "data": F.rand_payload(rng, fd["size"])}}
    if shard == 0:
        for n in (1, 2):
            for size in range(1, 8 * n + 1):
                for start in range(0, 8 * n - size + 1):
                    for little in (False, True):
                        for signed in (False, True):
                            d = F.sigdesc("s", start, size, little, signed)
                            lo, hi = F.raw_range(d)
                            for v in sorted({lo, hi, 0, lo + (hi - lo) // 2, -1 if signed else 1}):
                                if lo <= v <= hi:
                                    yield {"op": "enc", "c": {"f": {"size": n, "sigs": [d]}, "d": [["s", v]]}}
        for little in (False, True):
            for signed in (False, True):
                d = F.sigdesc("w", 0, 64, little, signed)
                lo, hi = F.raw_range(d)
                for v in (lo, hi, 0, hi - 1, lo + 1, (1 << 53) + 1, hi // 3):
                    if lo <= v <= hi:
                        yield {"op": "enc", "c": {"f": {"size": 8, "sigs": [d]}, "d": [["w", v]]}}


def neighbours(case, rng, shard, nshards):
    fd = case["c"]["f"]
    for _ in range(300 // nshards + 1):
        if rng.random() < 0.6:
            yield enc_case(rng, fd)
        else:
            yield {"op": "decenc", "c": {"f": fd, "data": F.rand_payload(rng, fd["size"])}}


def observe(case):
    c = case["c"]
    fr = F.mkframe(c["f"])
    if case["op"] == "enc":
        r = F.observe_encode(fr, c["d"])
        if "ok" in r:
            d = F.observe_decode(fr, r["ok"])
            r["dec"] = d.get("ok", d.get("err"))
        return r
    d = fr.decode(bytes(c["data"]))
    # the decoded values are kept while other payloads are decoded with the same frame: they are re-encoded afterwards
    for other in ([b ^ 0xFF for b in c["data"]], [0] * len(c["data"])):
        try:
            fr.decode(bytes(other))
        except Exception:  # noqa
            pass
    try:
        b = fr.encode({k: v.raw_value for k, v in d.items()})
    except Exception as e:  # noqa
        return {"err": F.errname(e)}
    return {"ok": list(b)}


def project(impl):
    return impl


def features(case, impl):
    c = case["c"]
    yield "op=" + case["op"]
    yield "nsigs=%d" % len(c["f"]["sigs"])
    yield "len=%d" % c["f"]["size"] if c["f"]["size"] in (1, 8, 64) else "len=other"
    if case["op"] == "enc":
        yield "supplied=%d" % len(c["d"])
        for k, v in c["d"]:
            d = [s for s in c["f"]["sigs"] if s[0] == k][0]
            lo, hi = F.raw_range(d)
            yield "raw=" + ("min" if v == lo else "max" if v == hi else "zero" if v == 0 else "interior")
            yield "sig:%s%s" % ("intel" if d[3] else "motorola", "/float" if d[5] else "/signed" if d[4] else "/unsigned")
    yield "result=" + ("ok" if "ok" in impl else "err:" + impl.get("err", "?"))


def nontrivial(case, impl):
    c = case["c"]
    if case["op"] == "enc":
        return any(v != 0 for _, v in c["d"])
    return len(set(c["data"])) > 1


def shrink_candidates(case):
    c = case["c"]
    fd = c["f"]
    if case["op"] == "enc":
        for i in range(len(c["d"])):
            if len(c["d"]) > 1:
                yield {"op": "enc", "c": {"f": fd, "d": c["d"][:i] + c["d"][i + 1:]}}
        names = {k for k, _ in c["d"]}
        keep = [s for s in fd["sigs"] if s[0] in names]
        if len(keep) < len(fd["sigs"]) and keep:
            yield {"op": "enc", "c": {"f": dict(fd, sigs=keep), "d": c["d"]}}
    else:
        for i in range(len(fd["sigs"])):
            if len(fd["sigs"]) > 1:
                yield {"op": "decenc", "c": {"f": dict(fd, sigs=fd["sigs"][:i] + fd["sigs"][i + 1:]), "data": c["data"]}}


def classify(case, impl, spec):
    """known finding C02-float32-snan: decode-then-encode of a float32 signal whose payload bits form a signalling NaN
    (exponent all ones, mantissa non-zero, quiet bit clear) comes back with the quiet bit set, nothing else changed"""
    if case["op"] != "decenc" or "ok" not in impl:
        return None
    c = case["c"]
    data, out = c["data"], impl["ok"]
    if len(out) != len(data):
        return None
    allowed = set()
    for d in c["f"]["sigs"]:
        if d[5] and d[2] == 32:
            addrs = F.sig_addrs(d[3], d[1], d[2])
            pat = sum(((data[a // 8] >> (a % 8)) & 1) << i for i, a in enumerate(addrs))
            if ((pat >> 23) & 0xFF) == 0xFF and (pat & 0x7FFFFF) != 0 and not (pat >> 22) & 1:
                allowed.add(addrs[22])
    covered = set()
    for d in c["f"]["sigs"]:
        covered |= set(F.sig_addrs(d[3], d[1], d[2]))
    diff = {k for k in covered if ((data[k // 8] >> (k % 8)) & 1) != ((out[k // 8] >> (k % 8)) & 1)}
    if diff and diff <= allowed:
        return "C02-float32-snan"
    return None
