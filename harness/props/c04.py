"""C04 - physical scaling is exact decimal arithmetic and invertible."""
import decimal

import canmatrix.canmatrix as cm

PID = "C04"
RULE = ("ops: 'dec' = primitives of the decimal model (add/sub/mul/div/round) on random operands with 1..30 digit coefficients, "
        "exponents -20..20, zeros, both signs (validates Model/Dec.lean against the decimal module incl. inexact cases); "
        "'scale' = (integer signal width 1..64 signed/unsigned, non-zero factor and offset with 1..12 significant digits, exponents "
        "-10..6 (one in ten: -40..-11 or 7..20), both signs, optional value table; raw value: every raw for widths <= 12 in thorough / <= 6 in quick, boundaries "
        "and random interior otherwise) observing raw2phys, phys2raw(raw2phys), named_value, default min/max, raw range; "
        "Value tables include labels that differ in letter case or blanks only; another signal with the same labels on other keys converts first. 'label' = value-table label to raw key. Non-trivial = distinct case with a non-integer factor or non-zero offset.")
EXHAUSTIVE = {"quick": False, "thorough": False}
PARTIAL = ["float signals (raw value converted through Decimal(float)) are outside this property (integer signals)",
           "cases whose exact product or sum needs more than 28 significant digits are outside the stated domain; they are still "
           "compared with the model (correspondence) but not judged by the Spec"]
ASSUMPTIONS = ["default decimal context (prec=28, ROUND_HALF_EVEN, no traps for Inexact/Rounded)"]
TRUSTED = ["the decimal module (libmpdec) is modelled in full for + - * / and round(); agreement is checked on every run"]
CORRESPONDENCE = "decimal arithmetic and Signal.raw2phys/phys2raw/min/max, DecodedSignal.named_value == Model/Dec.lean"


def tri(d):
    t = d.as_tuple()
    return [bool(t.sign), "".join(map(str, t.digits)), t.exponent]


def dec_of(t):
    return decimal.Decimal((1 if t[0] else 0, tuple(int(ch) for ch in t[1]), t[2]))


def rand_coeff(rng, maxd):
    nd = rng.randint(1, maxd)
    c = rng.choice(["0", str(rng.randrange(10 ** (nd - 1), 10 ** nd)), "9" * nd, "1" + "0" * (nd - 1), "5" + "0" * (nd - 1), "25", "5", "1"])
    return c.lstrip("0") or "0"


def rand_dec(rng, maxd=30, elo=-20, ehi=20):
    return [rng.random() < 0.4, rand_coeff(rng, maxd), rng.randint(elo, ehi)]


def rand_factor(rng):
    while True:
        c = rng.random()
        if c < 0.25:
            t = [rng.random() < 0.15, rng.choice(["1", "2", "5", "25", "125", "1", "10"]), rng.randint(-6, 2)]
        elif c < 0.4:
            t = [rng.random() < 0.15, rng.choice(["3", "7", "12345", "999999999999", "390625", "6103515625"]), rng.randint(-10, 3)]
        elif c < 0.5:
            # very small and very large magnitudes (a factor is any non-zero decimal number, not "about one")
            t = [rng.random() < 0.2, rng.choice(["1", "25", "3", rand_coeff(rng, 6)]), rng.choice([rng.randint(-40, -11), rng.randint(-18, -14), rng.randint(7, 20)])]
        else:
            t = [rng.random() < 0.2, rand_coeff(rng, 12), rng.randint(-10, 6)]
        if t[1] != "0":
            return t


def rand_offset(rng):
    if rng.random() < 0.3:
        return [False, "0", 0]
    return [rng.random() < 0.5, rand_coeff(rng, 12), rng.randint(-10, 6)]


def rand_sigdesc(rng, width=None):
    size = width or rng.choice([1, 2, 3, 7, 8, 12, 16, 31, 32, 33, 63, 64, rng.randint(1, 64)])
    signed = rng.random() < 0.5
    values = []
    if rng.random() < 0.5:
        lo, hi = (-(1 << (size - 1)), (1 << (size - 1)) - 1) if signed else (0, (1 << size) - 1)
        keys = []
        for _ in range(rng.randint(1, 5)):
            k = rng.choice([lo, hi, 0, 1, rng.randint(lo, hi)])
            if lo <= k <= hi and k not in keys:
                keys.append(k)
        # a description may be empty; descriptions that differ in letter case or in blanks are different descriptions
        labels = ["On", "Off", "Error", "SNA", "Init", "On", "", "0", "two words", "on", "ON", " On", "off"]
        values = [[k, rng.choice(labels)] for k in keys]
    return {"size": size, "signed": signed, "factor": rand_factor(rng), "offset": rand_offset(rng), "values": values}


def raws_for(rng, sd, tier):
    size, signed = sd["size"], sd["signed"]
    lo, hi = (-(1 << (size - 1)), (1 << (size - 1)) - 1) if signed else (0, (1 << size) - 1)
    lim = 6 if tier == "quick" else 12
    if size <= lim:
        return list(range(lo, hi + 1))
    out = {lo, hi, 0, lo + 1, hi - 1, 1}
    for _ in range(4):
        out.add(rng.randint(lo, hi))
    for k, _ in sd["values"]:
        out.add(k)
    return [r for r in out if lo <= r <= hi]


def gen(rng, tier, shard, nshards):
    total = {"quick": 20000, "thorough": 400000}[tier] // nshards
    for _ in range(total // 2):
        which = rng.choice(["add", "sub", "mul", "div", "round", "mul", "div"])
        a = rand_dec(rng) if which != "round" else rand_dec(rng, 24, -12, 5)
        b = rand_dec(rng)
        if which == "div" and b[1] == "0":
            b[1] = "7"
        if rng.random() < 0.2 and which in ("add", "sub"):
            # near cancellation / half-way cases
            b = [not a[0] if which == "add" else a[0], a[1], a[2] + rng.choice([0, 0, 1, -1])]
        yield {"op": "dec", "c": [which, a, b]}
    n = 0
    while n < total // 2:
        sd = rand_sigdesc(rng, width=rng.choice([None, None, rng.randint(1, 6 if tier == "quick" else 12)]))
        for r in raws_for(rng, sd, tier):
            n += 1
            yield {"op": "scale", "c": {"sig": sd, "raw": r}}
        if sd["values"]:
            for lab in {v for _, v in sd["values"]} | {"NoSuchLabel"}:
                yield {"op": "label", "c": {"sig": sd, "label": lab}}


def neighbours(case, rng, shard, nshards):
    for _ in range(200 // nshards + 1):
        if case["op"] == "dec":
            yield {"op": "dec", "c": [case["c"][0], rand_dec(rng), [False, rand_coeff(rng, 30).replace("0", "7") if case["c"][0] == "div" else rand_coeff(rng, 30), rng.randint(-20, 20)]]}
        else:
            sd = rand_sigdesc(rng)
            for r in raws_for(rng, sd, "quick")[:6]:
                yield {"op": "scale", "c": {"sig": sd, "raw": r}}


def mksig(sd):
    if sd["size"] % 2:
        s = cm.Signal("s", size=sd["size"], is_signed=sd["signed"], factor=dec_of(sd["factor"]), offset=dec_of(sd["offset"]))
    else:
        # the signedness is assigned after construction and the default limits are computed anew, as an editor does
        s = cm.Signal("s", size=sd["size"], is_signed=not sd["signed"], factor=dec_of(sd["factor"]), offset=dec_of(sd["offset"]))
        s.is_signed = sd["signed"]
        s.set_min(None)
        s.set_max(None)
    for k, v in sd["values"]:
        s.add_values(k, v)
    return s


def observe(case):
    op, c = case["op"], case["c"]
    if op == "dec":
        which = c[0]
        a = dec_of(c[1])
        if which == "round":
            return int(round(a))
        b = dec_of(c[2])
        r = {"add": a + b, "sub": a - b, "mul": a * b, "div": (a / b) if which == "div" else None}[which]
        return tri(r)
    s = mksig(c["sig"])
    # another signal lives in the same process: same labels on other keys, other scaling.  It converts first; what one signal
    # converts is no business of another
    sd2 = dict(c["sig"])
    vals = c["sig"]["values"]
    lo2, hi2 = s.calculate_raw_range()
    sd2["values"] = [[k2, v] for k2, v in zip([int(hi2) - i for i in range(len(vals))], [v for _, v in reversed(vals)]) if int(lo2) <= k2 <= int(hi2)]
    sd2["factor"] = [False, "3", 0]
    sd2["offset"] = [False, "7", 0]
    decoy = mksig(sd2)
    s = mksig(c["sig"])
    for k2, v2 in sd2["values"]:
        try:
            decoy.phys2raw(v2)
            decoy.raw2phys(k2, decode_to_str=True)
        except Exception:  # noqa
            pass
    if op == "label":
        try:
            r = s.phys2raw(c["label"])
        except Exception:  # noqa
            return None
        return int(r)
    raw = c["raw"]
    # conversions of other values first: the result for `raw` must not depend on what the signal object converted before
    lo0, hi0 = s.calculate_raw_range()
    for other in (int(lo0), int(hi0), raw + 1 if raw + 1 <= int(hi0) else raw - 1):
        try:
            s.phys2raw(s.raw2phys(other))
            s.raw2phys(other, decode_to_str=True)
        except Exception:  # noqa
            pass
    phys = s.raw2phys(raw)
    named = cm.DecodedSignal(raw, s).named_value
    # the two ways to a named value (DecodedSignal.named_value, raw2phys(decode_to_str=True)) agree
    named2 = s.raw2phys(raw, decode_to_str=True)
    if isinstance(named, str) != isinstance(named2, str) or (isinstance(named, str) and named != named2):
        named = "<named_value and raw2phys(decode_to_str=True) disagree: %r / %r>" % (named, named2)
    lo, hi = s.calculate_raw_range()
    return {"phys": tri(phys), "back": int(s.phys2raw(phys)), "named": named if isinstance(named, str) else tri(named),
            "min": tri(s.min), "max": tri(s.max), "range": [int(lo), int(hi)]}


def project(impl):
    return impl


def features(case, impl):
    yield "op=" + case["op"]
    if case["op"] == "dec":
        yield "dec:" + case["c"][0]
    elif case["op"] == "scale":
        sd = case["c"]["sig"]
        yield "width<=12" if sd["size"] <= 12 else "width>12"
        yield "signed" if sd["signed"] else "unsigned"
        yield "factor-exp=%s" % ("neg" if sd["factor"][2] < 0 else "nonneg")
        yield "negative-factor" if sd["factor"][0] else "positive-factor"
        if sd["factor"][2] < -10 or sd["factor"][2] > 6:
            yield "factor-magnitude=extreme"
        yield "named=label" if isinstance(impl["named"], str) else "named=number"
        if len(impl["phys"][1]) >= 28:
            yield "28-digit-result"


def nontrivial(case, impl):
    if case["op"] != "scale":
        return True
    sd = case["c"]["sig"]
    return sd["factor"][2] < 0 or sd["offset"][1] != "0" or sd["factor"][1] != "1"
