import CanVerif.Model.Bulk
import CanVerif.Proofs.Bulk
/-!
# C17 — bulk clean-up, delete and rename operations hit exactly their targets

Deleting zero-width signals removes all of them and nothing else; deleting obsolete definitions
removes precisely the attribute definitions that no object uses and keeps every used one, so the
matrix stays exportable; deleting or renaming frames, signals and attributes by name or by
prefix/suffix/glob pattern changes all and only the matching objects in every frame.

Unbounded: any number of frames, signals, attributes, definitions.
-/
namespace CanVerif.C17
open CanVerif CanVerif.Bulk

/-! ## zero-width signals -/

/-- All zero-width signals are removed (also adjacent ones) and nothing else: the result is exactly
the list of the other signals, in order. -/
theorem zero_signals_removed_exactly (m : BMat) :
    m.deleteZeroSignals = { m with frames := m.frames.map fun f => { f with sigs := f.sigs.filter (·.size != 0) } } := by
  simp only [BMat.deleteZeroSignals]
  congr 1
  apply List.map_congr_left
  intro f _
  congr 1
  rw [foldl_if_erase (fun s : BSig => s.size == 0), foldl_erase_filter]
  apply List.filter_congr
  intro s _
  simp [bne]

/-! ## obsolete definitions -/

/-- A definition is kept iff it existed and some object of its kind carries an attribute of that name. -/
theorem obsolete_defines_exactly (m : BMat) (d : Name) :
    let m' := m.deleteObsoleteDefines
    (d ∈ m'.frameDefs ↔ d ∈ m.frameDefs ∧ ∃ f ∈ m.frames, hasKey f.attrs d = true) ∧
    (d ∈ m'.ecuDefs ↔ d ∈ m.ecuDefs ∧ ∃ e ∈ m.ecus, hasKey e.attrs d = true) ∧
    (d ∈ m'.sigDefs ↔ d ∈ m.sigDefs ∧ ∃ f ∈ m.frames, ∃ s ∈ f.sigs, hasKey s.attrs d = true) ∧
    m'.frames = m.frames ∧ m'.ecus = m.ecus := by
  simp [BMat.deleteObsoleteDefines, List.mem_filter, List.any_eq_true]

/-- every attribute present on an object has a definition of its kind (what the DBC writer needs) -/
def Exportable (m : BMat) : Prop :=
  (∀ f ∈ m.frames, ∀ kv ∈ f.attrs, kv.1 ∈ m.frameDefs) ∧
  (∀ e ∈ m.ecus, ∀ kv ∈ e.attrs, kv.1 ∈ m.ecuDefs) ∧
  (∀ f ∈ m.frames, ∀ s ∈ f.sigs, ∀ kv ∈ s.attrs, kv.1 ∈ m.sigDefs)

/-- The matrix stays exportable. -/
theorem exportable_after (m : BMat) (h : Exportable m) : Exportable m.deleteObsoleteDefines := by
  obtain ⟨h1, h2, h3⟩ := h
  have key : ∀ (d : List (Name × Name)) (kv : Name × Name), kv ∈ d → hasKey d kv.1 = true := by
    intro d kv hkv
    simp only [hasKey, List.any_eq_true]
    exact ⟨kv, hkv, by simp⟩
  refine ⟨?_, ?_, ?_⟩
  · intro f hf kv hkv
    simp only [BMat.deleteObsoleteDefines] at hf ⊢
    rw [List.mem_filter, List.any_eq_true]
    exact ⟨h1 f hf kv hkv, f, hf, key _ _ hkv⟩
  · intro e he kv hkv
    simp only [BMat.deleteObsoleteDefines] at he ⊢
    rw [List.mem_filter, List.any_eq_true]
    exact ⟨h2 e he kv hkv, e, he, key _ _ hkv⟩
  · intro f hf s hs kv hkv
    simp only [BMat.deleteObsoleteDefines] at hf ⊢
    rw [List.mem_filter, List.any_eq_true]
    refine ⟨h3 f hf s hs kv hkv, f, hf, ?_⟩
    rw [List.any_eq_true]
    exact ⟨s, hs, key _ _ hkv⟩

/-! ## delete by pattern -/

/-- Deleting signals by glob pattern removes, in every frame, all and only the matching signals. -/
theorem del_signal_by_glob_exact (m : BMat) (p : Name) :
    m.delSignal p = { m with frames := m.frames.map fun f =>
                        { f with sigs := f.sigs.filter fun s => !globName p s.name } } := by
  simp only [BMat.delSignal]
  congr 1
  apply List.map_congr_left
  intro f _
  congr 1
  exact foldl_erase_filter (fun s : BSig => globName p s.name) f.sigs

/-- Deleting a frame by name removes it and nothing else (frame names unique). -/
theorem del_frame_exact (m : BMat) (n : Name) (hu : (m.frames.map (·.name)).Nodup) :
    m.delFrame n = { m with frames := m.frames.filter fun f => f.name != n } := by
  have h := erase_find_eq_filter n m.frames hu
  unfold BMat.delFrame
  cases hf : m.frames.find? (·.name == n) with
  | none =>
    rw [hf] at h
    simp only at h ⊢
    rw [← h]
  | some f =>
    rw [hf] at h
    simp only at h ⊢
    rw [h]

/-- Deleting attributes removes them from every signal of every frame and leaves all others. -/
theorem sig_attrs_deleted_everywhere (m : BMat) (ns : List Name) :
    m.delSignalAttributes ns = { m with frames := m.frames.map fun f =>
      { f with sigs := f.sigs.map fun s => { s with attrs := s.attrs.filter fun kv => !ns.contains kv.1 } } } := by
  simp only [BMat.delSignalAttributes, foldl_delKey]

theorem frame_attrs_deleted_everywhere (m : BMat) (ns : List Name) :
    m.delFrameAttributes ns = { m with frames := m.frames.map fun f =>
      { f with attrs := f.attrs.filter fun kv => !ns.contains kv.1 } } := by
  simp only [BMat.delFrameAttributes, foldl_delKey]

/-! ## rename -/

/-- the documented meaning of a rename request for one name -/
def newName (old new name : Name) : Name :=
  if old.getLast? = some '*' then
    let pre := old.dropLast
    if pre <+: name then new ++ name.drop pre.length else name
  else if old.head? = some '*' then
    let suf := old.drop 1
    if suf <:+ name then name.take (name.length - suf.length) ++ new else name
  else if name = old then new else name

/-- the slicing code computes the documented prefix replacement -/
theorem renamePrefix_spec (pre new name : Name) :
    renamePrefix (pre ++ ['*']) new name = if pre <+: name then new ++ name.drop pre.length else name := by
  rw [renamePrefix_eq]
  simp

/-- the slicing code computes the documented suffix replacement (non-empty suffix) -/
theorem renameSuffix_spec (suf new name : Name) (hne : suf ≠ []) :
    renameSuffix ('*' :: suf) new name
      = if suf <:+ name then name.take (name.length - suf.length) ++ new else name := by
  rw [renameSuffix_eq _ _ _ (by simpa using hne)]
  simp

/-- Renaming signals by exact name, `prefix*` or `*suffix` renames all and only the matching signals
in every frame (signal names unique within a frame, pattern non-empty, and a suffix pattern is not
the bare `*`). -/
theorem rename_signal_exact (m : BMat) (old new : Name) (hne : old ≠ [])
    (hu : ∀ f ∈ m.frames, (f.sigs.map (·.name)).Nodup) :
    m.renameSignal old new = { m with frames := m.frames.map fun f =>
      { f with sigs := f.sigs.map fun s => { s with name := newName old new s.name } } } := by
  have _ := hne
  simp only [BMat.renameSignal]
  congr 1
  apply List.map_congr_left
  intro f hf
  by_cases h1 : old.getLast? = some '*'
  · simp only [h1, beq_self_eq_true, if_true, newName, renamePrefix_eq]
  · have h1b : (old.getLast? == some '*') = false := by simpa using h1
    by_cases h2 : old.head? = some '*'
    · have hsuf : old.drop 1 ≠ [] := by
        intro e
        have := head?_star_eq old h2
        rw [e] at this
        rw [this] at h1
        simp at h1
      simp only [h1b, h1, h2, beq_self_eq_true, if_true, if_false, newName,
        renameSuffix_eq _ _ _ hsuf, Bool.false_eq_true]
    · have h2b : (old.head? == some '*') = false := by simpa using h2
      simp only [h1b, h1, h2b, h2, if_false, newName, Bool.false_eq_true,
        renameFirst_eq_map old new f.sigs (hu f hf)]

/-- Renaming frames by exact name, `prefix*` or `*suffix` renames all and only the matching frames;
names and the new text contain no `*`, the pattern carries a single `*` (at its end or at its
beginning) or none. -/
theorem rename_frame_exact (m : BMat) (old new : Name) (hne : old ≠ [])
    (hstar : (old.filter (· == '*')).length ≤ 1)
    (hnames : ∀ f ∈ m.frames, '*' ∉ f.name) (hnew : '*' ∉ new) :
    m.renameFrame old new = { m with frames := m.frames.map fun f => { f with name := newName old new f.name } } := by
  simp only [BMat.renameFrame]
  congr 1
  apply List.map_congr_left
  intro f hf
  congr 1
  have hfn := hnames f hf
  by_cases h1 : old.getLast? = some '*'
  · have hold := getLast?_star_eq old h1
    by_cases h2 : old.head? = some '*'
    · -- `old = ['*']`
      have hold1 : old = ['*'] := by
        have h3 := head?_star_eq old h2
        cases hd : old.drop 1 with
        | nil => rw [hd] at h3; exact h3
        | cons c t =>
          exfalso
          rw [hd] at h3
          have hl : (c :: t).getLast? = some '*' := by
            rw [h3] at h1
            simpa [List.getLast?_cons_cons] using h1
          have hmem : '*' ∈ (c :: t) := List.mem_of_getLast? hl
          rw [h3, List.filter_cons_of_pos (by simp), List.length_cons] at hstar
          have : 0 < ((c :: t).filter (· == '*')).length :=
            List.length_pos_iff.2 (by
              intro e
              have : '*' ∈ (c :: t).filter (· == '*') := List.mem_filter.2 ⟨hmem, by simp⟩
              rw [e] at this
              simp at this)
          omega
      subst hold1
      simp only [newName, renamePrefix, renameSuffix]
      by_cases hn : new = [] <;> by_cases hm : f.name = [] <;> simp [hn, hm]
    · have h2b : (old.head? == some '*') = false := by simpa using h2
      simp only [h1, h2b, beq_self_eq_true, if_true, newName, renamePrefix_eq, Bool.false_eq_true,
        if_false]
      have hstarold : '*' ∈ old := by rw [hold]; simp
      by_cases hp : old.dropLast <+: f.name
      · simp only [hp, if_true]
        have : new ++ f.name.drop old.dropLast.length ≠ old := by
          intro e
          rw [← e] at hstarold
          rcases List.mem_append.1 hstarold with h | h
          · exact hnew h
          · exact hfn (List.mem_of_mem_drop h)
        rw [if_neg (by simpa using this)]
      · simp only [hp, if_false]
        have : f.name ≠ old := by
          intro e; rw [← e] at hstarold; exact hfn hstarold
        rw [if_neg (by simpa using this)]
  · have h1b : (old.getLast? == some '*') = false := by simpa using h1
    by_cases h2 : old.head? = some '*'
    · have hsuf : old.drop 1 ≠ [] := by
        intro e
        have := head?_star_eq old h2
        rw [e] at this
        rw [this] at h1
        simp at h1
      simp only [h1b, h1, h2, beq_self_eq_true, if_true, if_false, newName,
        renameSuffix_eq _ _ _ hsuf, Bool.false_eq_true]
    · have h2b : (old.head? == some '*') = false := by simpa using h2
      simp only [h1b, h1, h2b, h2, if_false, newName, Bool.false_eq_true, beq_iff_eq]

/-! non-vacuity: the two pre-fix failures -/
def ex6 : BFrame :=
  { name := "F".toList,
    sigs := [⟨"a".toList, 0, []⟩, ⟨"b".toList, 0, []⟩, ⟨"c".toList, 4, []⟩, ⟨"d".toList, 0, []⟩, ⟨"e".toList, 0, []⟩, ⟨"g".toList, 0, []⟩] }
example : (({ frames := [ex6] } : BMat).deleteZeroSignals).frames.map (fun f => f.sigs.map (·.size)) = [[4]] := by decide
example : renamePrefix "Msg*".toList "N".toList "Msg_A".toList = "N_A".toList := by decide
example : renameSuffix "*kmh".toList "mph".toList "speed_kmh".toList = "speed_mph".toList := by decide

end CanVerif.C17
