import CanVerif.Spec.J1939
/-!
# Independent specification of frame lookups (C10)

A lookup is judged against a snapshot of the matrix at the moment of the call: the frames
currently in that matrix, each with a stable handle, its name, identifier and format.
It must return a frame that is in the snapshot and carries the key, and nothing exactly when no
frame of the snapshot carries the key.  Nothing else - in particular no other matrix - enters.
-/
namespace CanVerif.Spec

structure FrameSnap where
  handle : Nat
  name : String
  id : Nat
  ext : Bool
  deriving Repr, Inhabited

inductive Key
  | byId (id : Nat) (ext : Bool)
  | byName (name : String)
  | byPgn (pgn : Nat)
  deriving Repr

/-- the PGN a lookup by PGN asks for, normalised as J1939-21 prescribes (PDU1: low byte dropped) -/
def normPgn (p : Nat) : Nat := if p / 256 % 256 ≥ 240 then p % 2 ^ 18 else p % 2 ^ 18 / 256 * 256

def carries (k : Key) (f : FrameSnap) : Bool :=
  match k with
  | .byId id ext => f.id == id && f.ext == ext
  | .byName n => f.name == n
  | .byPgn p => f.ext && pgn f.id == normPgn p

/-- verdict on one lookup -/
def lookupOk (snap : List FrameSnap) (k : Key) (result : Option Nat) : Bool :=
  match result with
  | some h => snap.any fun f => f.handle == h && carries k f
  | none => !(snap.any (carries k))

/-!
## Independence: a frame changes only when somebody edits that frame

"Lookups in one matrix are never influenced by the contents or history of any other matrix": what a
matrix holds can change under the feet of its user only through the frame objects it shares with
others.  The judge keeps, per frame object (handle), what its own history says about it - the
identifier and format last written to it or last seen, and the names it may carry (the name last
seen, plus the targets of the renamings since: a renaming addresses one matrix, and the judge does
not need to know which) - and compares every snapshot with that.
-/

structure Known where
  handle : Nat
  id : Nat
  ext : Bool
  names : List String
  deriving Repr

inductive Edit
  | create (h : Nat) (name : String) (id : Nat) (ext : Bool)
  | setId (h id : Nat) (ext : Bool)
  | rename (old new : String)
  | none

def noteEdit (ks : List Known) : Edit → List Known
  | .create h name id ext => { handle := h, id := id, ext := ext, names := [name] } :: ks.filter (·.handle != h)
  | .setId h id ext => ks.map fun k => if k.handle == h then { k with id := id, ext := ext } else k
  | .rename old new => ks.map fun k => if k.names.contains old then { k with names := new :: k.names } else k
  | .none => ks

/-- every frame of the snapshot that the judge has met before still is what its own history says -/
def snapAgrees (ks : List Known) (snap : List FrameSnap) : Bool :=
  snap.all fun f =>
    match ks.find? (·.handle == f.handle) with
    | none => true
    | some k => k.id == f.id && k.ext == f.ext && k.names.contains f.name

def noteSnap (ks : List Known) (snap : List FrameSnap) : List Known :=
  snap.foldl (fun ks f => { handle := f.handle, id := f.id, ext := f.ext, names := [f.name] } :: ks.filter (·.handle != f.handle)) ks

/-!
## Deleting removes the frame that was named, and only that one

`remove_frame(frame)` / `del_frame(frame)` take the frame object out of the matrix, `del_frame("name")` the first frame of
that name; everything else stays, in order.  Judged on the snapshots before and after the call.
-/

def removedHandle (before after : List FrameSnap) (h : Nat) : Bool :=
  after.map (·.handle) == (before.map (·.handle)).erase h

def removedName (before after : List FrameSnap) (name : String) : Bool :=
  match before.find? (·.name == name) with
  | some f => after.map (·.handle) == (before.map (·.handle)).erase f.handle
  | none => after.map (·.handle) == before.map (·.handle)

end CanVerif.Spec
