"""run as a subprocess under a given PYTHONHASHSEED: reads a JSON list of matrix descriptions on stdin, prints one JSON line:
{writer-key: [sha256 of the export of each matrix]}"""
import hashlib
import json
import os
import sys

sys.path.insert(0, os.path.dirname(os.path.dirname(os.path.abspath(__file__))))
from lib import matrices as M  # noqa: E402
from props import c14  # noqa: E402

descs = json.load(sys.stdin)
out = {}
for key, (fmt, opts) in c14.WRITERS.items():
    hs = []
    for d in descs:
        try:
            db = c14.build(d)
            hs.append(hashlib.sha256(M.export_bytes(db, fmt, **opts)).hexdigest())
        except Exception as e:  # noqa
            hs.append("EXC:" + type(e).__name__)
    out[key] = hs
print(json.dumps(out))
