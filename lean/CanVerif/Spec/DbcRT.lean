import CanVerif.Model.DbcText
/-!
# Specification side of C05: what "the same signal / frame came back" means at the level of one statement

Independent of the tokenizers: two statement records are the same when every text field is identical and every
number has the same value (`1.50` and `1.5` are the same number; the DBC text does not carry the exponent/coefficient
split of a `Decimal`).
-/
namespace CanVerif.SpecRT
open CanVerif CanVerif.Dbc

/-- value equality of two decimals by scaling both to the smaller exponent -/
def decEq (a b : Dec) : Bool :=
  let m := min a.exp b.exp
  let va := a.coeff * 10 ^ (a.exp - m).toNat
  let vb := b.coeff * 10 ^ (b.exp - m).toNat
  va == vb && (a.neg == b.neg || va == 0)

def sgSame (a b : SgLine) : Bool :=
  a.name == b.name && a.tag == b.tag && a.start == b.start && a.size == b.size && a.little == b.little &&
  a.signed == b.signed && decEq a.factor b.factor && decEq a.offset b.offset && decEq a.min b.min && decEq a.max b.max &&
  a.unit == b.unit && a.receivers == b.receivers

def sgListSame : List SgLine → List SgLine → Bool
  | [], [] => true
  | a :: as, b :: bs => sgSame a b && sgListSame as bs
  | _, _ => false

def blockSame (a b : Block) : Bool := a.bo == b.bo && sgListSame a.sigs b.sigs

def blocksSame : List Block → List Block → Bool
  | [], [] => true
  | a :: as, b :: bs => blockSame a b && blocksSame as bs
  | _, _ => false

end CanVerif.SpecRT
