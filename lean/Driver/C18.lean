import Driver.J
import CanVerif.Model.Convert
import CanVerif.Spec.ConvertSpec
open Lean CanVerif CanVerif.Conv

namespace D18

def pairsOf (j : Json) : Except String (List (String × String)) := do
  (← J.arr j).mapM fun p => do pure ((← J.str (← J.idx p 0)), (← J.str (← J.idx p 1)))

def attrsOf (j : Json) : Except String (List (String × String)) := pairsOf j

def sigOf (j : Json) : Except String KSig := do
  pure { name := ← J.str (← J.key j "name"), start := ← J.nat (← J.key j "start"), size := ← J.nat (← J.key j "size"),
         receivers := ← J.strList (← J.key j "receivers"), attrs := ← attrsOf (← J.key j "attrs") }

def frameOf (j : Json) : Except String KFrame := do
  pure { name := ← J.str (← J.key j "name"), id := ← J.nat (← J.key j "id"), ext := ← J.bool (← J.key j "ext"),
         size := ← J.nat (← J.key j "size"), fd := ← J.bool (← J.key j "fd"), tx := ← J.strList (← J.key j "tx"),
         sigs := ← (← J.arr (← J.key j "sigs")).mapM sigOf, attrs := ← attrsOf (← J.key j "attrs") }

def matOf (j : Json) : Except String KMat := do
  pure { ecus := ← J.strList (← J.key j "ecus"), frames := ← (← J.arr (← J.key j "frames")).mapM frameOf }

def sortStr (l : List String) : List String := (l.toArray.qsort (· < ·)).toList

def attrsJ (a : List (String × String)) : Json :=
  J.ofList (((a.toArray.qsort fun x y => x.1 < y.1).toList).map fun kv => J.ofStrList [kv.1, kv.2])

def sigJ (s : KSig) : Json :=
  J.obj [("name", .str s.name), ("start", J.ofNat s.start), ("size", J.ofNat s.size), ("receivers", J.ofStrList s.receivers), ("attrs", attrsJ s.attrs)]

def frameJ (f : KFrame) : Json :=
  J.obj [("name", .str f.name), ("id", J.ofNat f.id), ("ext", .bool f.ext), ("size", J.ofNat f.size), ("fd", .bool f.fd),
         ("tx", J.ofStrList f.tx), ("sigs", J.ofList (f.sigs.map sigJ)), ("attrs", attrsJ f.attrs)]

/-- canonical form: frames in order, the ECU list as the sorted closure under references -/
def matJ (m : KMat) : Json :=
  J.obj [("ecus", J.ofStrList (sortStr (ConvSpec.ecuClosure m))), ("frames", J.ofList (m.frames.map frameJ))]

def optStrList (j : Json) (k : String) : Except String (Option (List String)) :=
  match j.getObjVal? k with
  | .ok v => if J.isNull v then pure none else some <$> J.strList v
  | .error _ => pure none

def optPairs (j : Json) (k : String) : Except String (Option (List (String × String))) :=
  match j.getObjVal? k with
  | .ok v => if J.isNull v then pure none else some <$> pairsOf v
  | .error _ => pure none

def optNat (j : Json) (k : String) : Except String (Option Nat) :=
  match j.getObjVal? k with
  | .ok v => if J.isNull v then pure none else some <$> J.nat v
  | .error _ => pure none

def optsOf (j : Json) : Except String Opts := do
  let ecus ← match j.getObjVal? "ecus" with
    | .ok v => if J.isNull v then pure none else do
        let l ← (← J.arr v).mapM fun p => do
          let d ← J.str (← J.idx p 1)
          pure ((← J.str (← J.idx p 0)), if d == "rx" then Dir.rx else if d == "tx" then Dir.tx else Dir.both)
        pure (some l)
    | .error _ => pure none
  let cid ← match j.getObjVal? "changeFrameId" with
    | .ok v => if J.isNull v then pure none else do
        let l ← (← J.arr v).mapM fun p => do pure ((← J.nat (← J.idx p 0)), (← J.nat (← J.idx p 1)))
        pure (some l)
    | .error _ => pure none
  let recalc ← match j.getObjVal? "recalcDLC" with
    | .ok (.str "force") => pure (some true)
    | .ok (.str "max") => pure (some false)
    | _ => pure none
  pure { ecus, frames := ← optStrList j "frames", renameEcu := ← optPairs j "renameEcu", deleteEcu := ← optStrList j "deleteEcu",
         renameFrame := ← optPairs j "renameFrame", deleteFrame := ← optStrList j "deleteFrame",
         addFrameReceiver := ← optPairs j "addFrameReceiver", changeFrameId := cid, setFrameFd := ← optStrList j "setFrameFd",
         unsetFrameFd := ← optStrList j "unsetFrameFd", skipLongDlc := ← optNat j "skipLongDlc", cutLongFrames := ← optNat j "cutLongFrames",
         renameSignal := ← optPairs j "renameSignal", deleteSignal := ← optStrList j "deleteSignal",
         deleteZeroSignals := (← J.bool (J.keyD j "deleteZeroSignals" (Json.bool false))),
         deleteSignalAttributes := ← optStrList j "deleteSignalAttributes", deleteFrameAttributes := ← optStrList j "deleteFrameAttributes",
         deleteObsoleteEcus := (← J.bool (J.keyD j "deleteObsoleteEcus" (Json.bool false))), recalcDLC := recalc }

/-- op "conv": c = {"m": matrix, "o": options}; i = {"raised": null|text, "out": matrix|null} -/
def handle (op : String) (c i : Json) : Except String (Json × String) := do
  match op with
  | "conv" =>
    let m ← matOf (← J.key c "m")
    let o ← optsOf (← J.key c "o")
    let model := match convert o m with
      | some r => J.obj [("raised", .bool false), ("out", matJ r)]
      | none => J.obj [("raised", .bool true), ("out", .null)]
    let raised := !J.isNull (← J.key i "raised")
    let outJ := J.keyD i "out" Json.null
    let verdict := match ConvSpec.expected o m with
      | none => "ok"     -- the documentation says nothing about this call (unknown frame name in a selection)
      | some e =>
        if raised then "fail: the converter raised"
        else match matOf outJ with
          | .ok obs =>
            if matJ obs == matJ e then "ok"
            else if J.ofList (obs.frames.map frameJ) == J.ofList (e.frames.map frameJ) && o.deleteObsoleteEcus &&
                (ConvSpec.ecuClosure e).all (ConvSpec.ecuClosure obs).contains then
              "fail: ECUs that nothing refers to any more are still listed after deleteObsoleteEcus"
            else "fail: the output differs from the documented effect of the options"
          | .error err => "fail: " ++ err
    pure (model, verdict)
  | _ => throw s!"C18: unknown op {op}"

end D18
