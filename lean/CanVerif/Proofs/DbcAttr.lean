import CanVerif.Model.DbcAttr
import CanVerif.Proofs.DbcStmt
/-!
# Helper lemmas for the attribute statements `BA_DEF_`, `BA_DEF_DEF_`, `BA_` (Props/C05c.lean)
-/
namespace CanVerif.Dbc.AttrProofs
open CanVerif CanVerif.Num CanVerif.Dbc CanVerif.Dbc.StmtProofs

theorem lit_def0 : "BA_DEF_".toList = ['B', 'A', '_', 'D', 'E', 'F', '_'] := by decide
theorem lit_def : "BA_DEF_ ".toList = ['B', 'A', '_', 'D', 'E', 'F', '_', ' '] := by decide
theorem lit_sq : " \"".toList = [' ', '"'] := by decide
theorem lit_dd : "BA_DEF_DEF_ ".toList = ['B', 'A', '_', 'D', 'E', 'F', '_', 'D', 'E', 'F', '_', ' '] := by decide
theorem lit_ddq : "BA_DEF_DEF_ \"".toList = ['B', 'A', '_', 'D', 'E', 'F', '_', 'D', 'E', 'F', '_', ' ', '"'] := by decide
theorem lit_ba : "BA_ ".toList = ['B', 'A', '_', ' '] := by decide
theorem lit_baq : "BA_ \"".toList = ['B', 'A', '_', ' ', '"'] := by decide
theorem lit_bu : "BU_ ".toList = ['B', 'U', '_', ' '] := by decide
theorem lit_ev : "EV_ ".toList = ['E', 'V', '_', ' '] := by decide
theorem kw_bu : "BU_".toList = ['B', 'U', '_'] := by decide
theorem kw_bo : "BO_".toList = ['B', 'O', '_'] := by decide
theorem kw_sg : "SG_".toList = ['S', 'G', '_'] := by decide
theorem kw_ev : "EV_".toList = ['E', 'V', '_'] := by decide

/-! ## general pieces -/

theorem attrChar_ne_quote {c : Char} (h : (isIdentChar c || c == '-') = true) : c ≠ '"' := by
  rintro rfl
  revert h
  decide

theorem wfAttrName_unpack {n : Str} (h : wfAttrName n = true) : n ≠ [] ∧ ∀ c ∈ n, c ≠ '"' := by
  simp only [wfAttrName, Bool.and_eq_true, Bool.not_eq_true', List.isEmpty_eq_false_iff, List.all_eq_true] at h
  exact ⟨h.1, fun c hc => attrChar_ne_quote (h.2 c hc)⟩

theorem quotedName_ok (name rest : Str) (hne : name ≠ []) (h : ∀ c ∈ name, c ≠ '"') :
    quotedName ('"' :: (name ++ '"' :: rest)) = some (name, rest) := by
  have hs : (name ++ '"' :: rest).span (· != '"') = (name, '"' :: rest) :=
    span_append_of _ _ _ (by intro c hc; simpa using h c hc) (Or.inr ⟨_, _, rfl, by decide⟩)
  obtain ⟨a, t, rfl⟩ := List.exists_cons_of_ne_nil hne
  unfold quotedName
  simp only [hs]

theorem isEmpty_false_of_ne {s : Str} (h : s ≠ []) : s.isEmpty = false := by
  cases s with
  | nil => exact absurd rfl h
  | cons _ _ => rfl

theorem stripWs_length_le (s : Str) : (stripWs s).length ≤ s.length := by
  unfold stripWs
  rw [List.length_reverse]
  have h1 := (List.dropWhile_suffix isWs (l := (s.dropWhile isWs).reverse)).length_le
  have h2 := (List.dropWhile_suffix isWs (l := s)).length_le
  rw [List.length_reverse] at h1
  omega

/-- a non-empty text that is its own `strip()` does not start with a blank -/
theorem head_not_ws_of_strip (c : Char) (t : Str) (h : stripWs (c :: t) = c :: t) : isWs c = false := by
  cases hc : isWs c with
  | false => rfl
  | true =>
    rw [stripWs_drop_ws c t hc] at h
    have := stripWs_length_le t
    rw [h] at this
    simp only [List.length_cons] at this
    omega

theorem skipSp_of_not_ws (c : Char) (t : Str) (h : isWs c = false) : skipSp (c :: t) = c :: t :=
  skipSp_of_ne c t (by rintro rfl; revert h; decide)

/-! ## `BA_DEF_` -/

theorem wfDefinition_unpack {t : Str} (h : wfDefinition t = true) : t ≠ [] ∧ stripWs t = t ∧ ∀ c ∈ t, c ≠ ';' := by
  simp only [wfDefinition, Bool.and_eq_true, Bool.not_eq_true', List.isEmpty_eq_false_iff, beq_iff_eq] at h
  refine ⟨h.1.1, h.1.2, ?_⟩
  intro c hc hce
  subst hce
  have := h.2
  simp [hc] at this

theorem parseDefBody_ok (lvl : Level) (name dfn : Str) (hn : wfAttrName name = true) (hd : wfDefinition dfn = true) :
    parseDefBody lvl ('"' :: (name ++ '"' :: ' ' :: (dfn ++ [';']))) = some ⟨lvl, name, dfn⟩ := by
  obtain ⟨hne, hq⟩ := wfAttrName_unpack hn
  obtain ⟨hdne, hds, _⟩ := wfDefinition_unpack hd
  obtain ⟨c, t, rfl⟩ := List.exists_cons_of_ne_nil hdne
  unfold parseDefBody
  rw [quotedName_ok name _ hne hq]
  simp only
  rw [skipSp_space, List.cons_append, skipSp_of_not_ws c _ (head_not_ws_of_strip c t hds), ← List.cons_append, upto_snoc]
  simp only [List.isEmpty_cons, Bool.false_eq_true, if_false, hds]

theorem renderDef_eq (d : DefLine) :
    renderDef d = 'B' :: 'A' :: '_' :: 'D' :: 'E' :: 'F' :: '_' :: ' ' ::
      (d.level.keyword ++ ' ' :: '"' :: (d.name ++ '"' :: ' ' :: (d.definition ++ [';']))) := by
  unfold renderDef
  rw [lit_def, lit_sq, lit_quote2]
  simp only [List.append_assoc, List.cons_append, List.nil_append]

/-- a line with one of the four level keywords -/
theorem parseDef_kw (k1 k2 k3 : Char) (lvl : Level) (body : Str) (hk : levelOfKeyword [k1, k2, k3] = some lvl)
    (hw : isWs k1 = false) :
    parseDef ('B' :: 'A' :: '_' :: 'D' :: 'E' :: 'F' :: '_' :: ' ' :: ([k1, k2, k3] ++ ' ' :: '"' :: (body ++ [';']))) =
      parseDefBody lvl ('"' :: (body ++ [';'])) := by
  unfold parseDef
  rw [lit_def0]
  rw [if_neg (by simp [startsWith])]
  simp only [List.drop_succ_cons, List.drop_zero, List.cons_append, List.nil_append]
  have h1 : stripWs (' ' :: k1 :: k2 :: k3 :: ' ' :: '"' :: (body ++ [';'])) = k1 :: k2 :: k3 :: ' ' :: '"' :: (body ++ [';']) := by
    rw [stripWs_drop_ws ' ' _ (by decide)]
    exact ValProofs.stripWs_id k1 ';' (k2 :: k3 :: ' ' :: '"' :: body) hw (by decide)
  have h2 : stripWs (' ' :: '"' :: (body ++ [';'])) = '"' :: (body ++ [';']) := by
    rw [stripWs_drop_ws ' ' _ (by decide)]
    exact ValProofs.stripWs_id '"' ';' body (by decide) (by decide)
  rw [h1]
  simp only [List.take_succ_cons, List.take_zero, List.drop_succ_cons, List.drop_zero, hk, h2]

theorem levelOfKeyword_quote (t : Str) : levelOfKeyword ('"' :: t) = none := by
  unfold levelOfKeyword
  rw [kw_sg, kw_bo, kw_bu, kw_ev]
  simp

/-- a line without level keyword -/
theorem parseDef_global (body : Str) :
    parseDef ('B' :: 'A' :: '_' :: 'D' :: 'E' :: 'F' :: '_' :: ' ' :: ([] ++ ' ' :: '"' :: (body ++ [';']))) =
      parseDefBody .global ('"' :: (body ++ [';'])) := by
  unfold parseDef
  rw [lit_def0, lit_def]
  rw [if_neg (by simp [startsWith])]
  simp only [List.drop_succ_cons, List.drop_zero, List.nil_append]
  have h1 : stripWs (' ' :: ' ' :: '"' :: (body ++ [';'])) = '"' :: (body ++ [';']) := by
    rw [stripWs_drop_ws ' ' _ (by decide), stripWs_drop_ws ' ' _ (by decide)]
    exact ValProofs.stripWs_id '"' ';' body (by decide) (by decide)
  rw [h1]
  simp only [List.take_succ_cons, levelOfKeyword_quote]
  rw [if_pos (by simp [startsWith])]
  rw [skipSp_space, skipSp_space, skipSp_of_ne '"' _ (by decide)]

theorem parseDef_renderDef (d : DefLine) (h : wfDef d = true) : parseDef (renderDef d) = some d := by
  obtain ⟨lvl, name, dfn⟩ := d
  have hn : wfAttrName name = true ∧ wfDefinition dfn = true := by simpa [wfDef] using h
  rw [renderDef_eq]
  have hb2 : name ++ '"' :: ' ' :: (dfn ++ [';']) = (name ++ '"' :: ' ' :: dfn) ++ [';'] := by
    simp only [List.append_assoc, List.cons_append]
  cases lvl with
  | ecu =>
    show parseDef (_ :: _ :: _ :: _ :: _ :: _ :: _ :: _ :: ("BU_".toList ++ _)) = _
    rw [kw_bu, hb2, parseDef_kw 'B' 'U' '_' .ecu _ (by decide) (by decide), ← hb2]
    exact parseDefBody_ok _ name dfn hn.1 hn.2
  | frame =>
    show parseDef (_ :: _ :: _ :: _ :: _ :: _ :: _ :: _ :: ("BO_".toList ++ _)) = _
    rw [kw_bo, hb2, parseDef_kw 'B' 'O' '_' .frame _ (by decide) (by decide), ← hb2]
    exact parseDefBody_ok _ name dfn hn.1 hn.2
  | signal =>
    show parseDef (_ :: _ :: _ :: _ :: _ :: _ :: _ :: _ :: ("SG_".toList ++ _)) = _
    rw [kw_sg, hb2, parseDef_kw 'S' 'G' '_' .signal _ (by decide) (by decide), ← hb2]
    exact parseDefBody_ok _ name dfn hn.1 hn.2
  | env =>
    show parseDef (_ :: _ :: _ :: _ :: _ :: _ :: _ :: _ :: ("EV_".toList ++ _)) = _
    rw [kw_ev, hb2, parseDef_kw 'E' 'V' '_' .env _ (by decide) (by decide), ← hb2]
    exact parseDefBody_ok _ name dfn hn.1 hn.2
  | global =>
    show parseDef (_ :: _ :: _ :: _ :: _ :: _ :: _ :: _ :: ([] ++ _)) = _
    rw [hb2, parseDef_global, ← hb2]
    exact parseDefBody_ok _ name dfn hn.1 hn.2

/-! ## `BA_DEF_DEF_` -/

theorem uptoFirst_ok (body r : Str) (h : ∀ c ∈ body, c ≠ ';') : uptoFirstSemicolon (body ++ ';' :: r) = some body := by
  have hs : (body ++ ';' :: r).span (· != ';') = (body, ';' :: r) :=
    span_append_of _ _ _ (by intro c hc; simpa using h c hc) (Or.inr ⟨_, _, rfl, by decide⟩)
  unfold uptoFirstSemicolon
  simp only [hs]

theorem dropTrailingSp_id (v : Str) (h : ∀ c ∈ v.getLast?, c ≠ ' ') : dropTrailingSp v = v := by
  unfold dropTrailingSp
  rw [ValProofs.dropWhile_none _ v.reverse (by
    intro c hc
    rw [List.head?_reverse] at hc
    simpa using h c hc)]
  exact List.reverse_reverse v

theorem unquoteDefault_quoted (v : Str) : unquoteDefault ('"' :: (v ++ ['"'])) = v := by
  unfold unquoteDefault
  have h1 : (('"' :: (v ++ ['"'])).length > 1) = True := by simp
  have h2 : ('"' :: (v ++ ['"'])).getLast? = some '"' := by
    rw [← List.cons_append, List.getLast?_append]; rfl
  simp only [h1, h2, List.head?_cons, decide_true, beq_self_eq_true, Bool.and_self, if_true, List.drop_succ_cons, List.drop_zero,
    List.dropLast_concat]

theorem unquoteDefault_plain (v : Str) (h : ∀ c ∈ v, c ≠ '"') : unquoteDefault v = v := by
  unfold unquoteDefault
  cases v with
  | nil => rfl
  | cons a t =>
    have : (some a == some '"') = false := by simpa using h a (by simp)
    simp only [List.head?_cons, this, Bool.and_false, Bool.false_and, Bool.false_eq_true, if_false]

theorem renderDefDef_eq (d : DefDefLine) :
    renderDefDef d = 'B' :: 'A' :: '_' :: 'D' :: 'E' :: 'F' :: '_' :: 'D' :: 'E' :: 'F' :: '_' :: ' ' :: '"' ::
      (d.name ++ '"' :: ' ' :: ((if d.isText then '"' :: d.value ++ ['"'] else d.value) ++ [';'])) := by
  unfold renderDefDef
  rw [lit_ddq, lit_quote2]
  simp only [List.append_assoc, List.cons_append, List.nil_append]

/-- the written default `v` (with its quotes, if any): first character not a blank, no semicolon, last character not a blank -/
theorem parseDefDef_shape (name : Str) (c : Char) (t : Str) (hn : wfAttrName name = true) (hc : c ≠ ' ')
    (hsemi : ∀ x ∈ c :: t, x ≠ ';') (hlast : ∀ x ∈ (c :: t).getLast?, x ≠ ' ') :
    parseDefDef ('B' :: 'A' :: '_' :: 'D' :: 'E' :: 'F' :: '_' :: 'D' :: 'E' :: 'F' :: '_' :: ' ' :: '"' ::
      (name ++ '"' :: ' ' :: ((c :: t) ++ [';']))) = some (name, unquoteDefault (c :: t)) := by
  obtain ⟨hne, hq⟩ := wfAttrName_unpack hn
  unfold parseDefDef
  rw [lit_dd]
  rw [if_neg (by simp [startsWith])]
  simp only [List.drop_succ_cons, List.drop_zero]
  rw [skipSp_space, skipSp_of_ne '"' _ (by decide), quotedName_ok name _ hne hq]
  simp only
  rw [skipSp_space, List.cons_append, skipSp_of_ne c _ hc, ← List.cons_append, uptoFirst_ok _ [] hsemi]
  simp only
  rw [dropTrailingSp_id _ hlast]
  simp only [List.isEmpty_cons, Bool.false_eq_true, if_false]

theorem wfDefDef_unpack {d : DefDefLine} (h : wfDefDef d = true) :
    wfAttrName d.name = true ∧ (∀ c ∈ d.value, c ≠ ';') ∧
    (d.isText = true ∨ (d.value ≠ [] ∧ (∀ c ∈ d.value, c ≠ ' ') ∧ ∀ c ∈ d.value, c ≠ '"')) := by
  simp only [wfDefDef, Bool.and_eq_true, Bool.or_eq_true, Bool.not_eq_true', List.isEmpty_eq_false_iff,
    List.contains_eq_mem, decide_eq_false_iff_not] at h
  refine ⟨h.1.1, fun c hc hce => h.1.2 (hce ▸ hc), ?_⟩
  rcases h.2 with h2 | h2
  · exact Or.inl h2
  · exact Or.inr ⟨h2.1.1, fun c hc hce => h2.1.2 (hce ▸ hc), fun c hc hce => h2.2 (hce ▸ hc)⟩

theorem parseDefDef_renderDefDef (d : DefDefLine) (h : wfDefDef d = true) :
    parseDefDef (renderDefDef d) = some (d.name, d.value) := by
  obtain ⟨hn, hsemi, hv⟩ := wfDefDef_unpack h
  obtain ⟨name, isText, value⟩ := d
  simp only at hn hsemi hv
  rw [renderDefDef_eq]
  cases isText with
  | true =>
    simp only [if_true]
    refine (parseDefDef_shape name '"' (value ++ ['"']) hn (by decide) ?_ ?_).trans ?_
    · intro x hx
      rcases List.mem_cons.mp hx with rfl | hx
      · decide
      · rcases List.mem_append.mp hx with hx | hx
        · exact hsemi x hx
        · simp at hx; subst hx; decide
    · intro x hx
      rw [← List.cons_append, List.getLast?_append] at hx
      simp at hx; subst hx; decide
    · rw [unquoteDefault_quoted]
  | false =>
    simp only [Bool.false_eq_true, if_false]
    rcases hv with hv | ⟨hne, hsp, hq⟩
    · exact absurd hv (by decide)
    · obtain ⟨c, t, rfl⟩ := List.exists_cons_of_ne_nil hne
      rw [parseDefDef_shape name c t hn (hsp c (by simp)) hsemi]
      · rw [unquoteDefault_plain _ hq]
      · intro x hx
        exact hsp x (List.mem_of_getLast? hx)

/-! ## `BA_`: the value -/

theorem blank_of_ws {c : Char} (h : isBlank c = false) : isWs c = false := by
  cases hw : isWs c with
  | false => rfl
  | true => rw [isWs_isBlank hw] at h; exact absurd h (by decide)

theorem wfBaValue_cases {v : Str} (h : wfBaValue v = true) :
    (∃ m, v = '"' :: (m ++ ['"'])) ∨ (v ≠ [] ∧ ∀ c ∈ v, isBlank c = false ∧ c ≠ '"' ∧ c ≠ ';') := by
  simp only [wfBaValue, Bool.or_eq_true, Bool.and_eq_true, Bool.not_eq_true', List.isEmpty_eq_false_iff, List.all_eq_true,
    decide_eq_true_eq, beq_iff_eq, bne_iff_ne] at h
  rcases h with ⟨⟨⟨hl, hh⟩, hg⟩, _⟩ | ⟨hne, hall⟩
  · left
    cases v with
    | nil => simp at hl
    | cons a t =>
      simp only [List.head?_cons, Option.some.injEq] at hh
      subst hh
      have ht : t ≠ [] := by
        intro ht; subst ht; simp at hl
      rw [List.getLast?_cons_of_ne_nil ht] at hg
      obtain ⟨ys, rfl⟩ := List.getLast?_eq_some_iff.mp hg
      exact ⟨ys, rfl⟩
  · right
    exact ⟨hne, fun c hc => by
      have := hall c hc
      exact ⟨this.1.1, this.1.2, this.2⟩⟩

/-- what the statement needs of a value: it is not empty, does not start with a blank and is its own `strip()` -/
theorem value_facts {v : Str} (h : wfBaValue v = true) :
    v ≠ [] ∧ stripWs v = v ∧ skipSp (v ++ [';']) = v ++ [';'] := by
  rcases wfBaValue_cases h with ⟨m, rfl⟩ | ⟨hne, hall⟩
  · exact ⟨by simp, ValProofs.stripWs_id '"' '"' m (by decide) (by decide), skipSp_of_ne '"' _ (by decide)⟩
  · refine ⟨hne, ?_, ?_⟩
    · have := ValProofs.stripWs_pad [] v [] (by simp) (by simp) (fun c hc => blank_of_ws (hall c hc).1)
      simpa using this
    · obtain ⟨c, t, rfl⟩ := List.exists_cons_of_ne_nil hne
      exact skipSp_of_not_ws c _ (blank_of_ws (hall c (by simp)).1)

theorem baValue_ok (v : Str) (hne : v ≠ []) (hs : stripWs v = v) : baValue (v ++ [';']) = some v := by
  unfold baValue
  rw [upto_snoc]
  simp only [isEmpty_false_of_ne hne, Bool.false_eq_true, if_false, hs]

theorem baGlobal_quoted (m : Str) : baGlobalValue ('"' :: (m ++ ['"']) ++ [';']) = some ('"' :: (m ++ ['"'])) := by
  have hrev : ('"' :: (m ++ ['"']) ++ [';']).reverse = ';' :: '"' :: (m.reverse ++ ['"']) := by simp
  have hback : ('"' :: (m.reverse ++ ['"'])).reverse = '"' :: (m ++ ['"']) := by simp
  have hlen : ('"' :: (m.reverse ++ ['"'])).length ≥ 2 := by simp
  have h1 : (';' :: '"' :: (m.reverse ++ ['"'])).dropWhile (· != ';') = ';' :: '"' :: (m.reverse ++ ['"']) := by
    rw [List.dropWhile_cons, if_neg (by decide)]
  have h2 : ('"' :: (m.reverse ++ ['"'])).dropWhile (· == ' ') = '"' :: (m.reverse ++ ['"']) := by
    rw [List.dropWhile_cons, if_neg (by decide)]
  unfold baGlobalValue
  simp only [List.cons_append]
  rw [← List.cons_append, hrev]
  simp only [h1, h2, hlen, if_true, hback]

theorem baGlobal_plain (c : Char) (t : Str) (hc : c ≠ '"') (h : ∀ x ∈ c :: t, isBlank x = false) :
    baGlobalValue ((c :: t) ++ [';']) = some (c :: t) := by
  have hs : (c :: (t ++ [';'])).span (fun c => !isBlank c) = (c :: (t ++ [';']), []) := by
    have := span_append_of (fun c => !isBlank c) (c :: (t ++ [';'])) [] (by
      intro x hx
      rw [← List.cons_append] at hx
      rcases List.mem_append.mp hx with hx | hx
      · simp [h x hx]
      · simp at hx; subst hx; decide) (Or.inl rfl)
    simpa using this
  have hsk : skipSp [] = [] := rfl
  have hl : (c :: (t ++ [';'])).getLast? = some ';' := by
    rw [← List.cons_append, List.getLast?_append]; rfl
  have hlen : (c :: (t ++ [';'])).length ≥ 2 := by simp
  have hdl : (c :: (t ++ [';'])).dropLast = c :: t := by
    rw [← List.cons_append, List.dropLast_concat]
  unfold baGlobalValue
  simp only [List.cons_append]
  split
  · rename_i heq
    injection heq with h1 _
    exact absurd h1 hc
  · simp only [hs, hsk, hl, hlen, hdl, beq_self_eq_true, decide_true, Bool.and_self, if_true]

theorem startsWith_kw_false (s : Str) (k1 k2 k3 : Char) (h : ∀ c ∈ s, c ≠ ' ') : startsWith s [k1, k2, k3, ' '] = false := by
  cases hsw : startsWith s [k1, k2, k3, ' '] with
  | false => rfl
  | true =>
    unfold startsWith at hsw
    have h4 : s.take 4 = [k1, k2, k3, ' '] := by simpa using hsw
    have : ' ' ∈ s.take 4 := by rw [h4]; simp
    exact absurd rfl (h ' ' (List.mem_of_mem_take this))

/-- the value of a network attribute is not mistaken for a class keyword, and is found again -/
theorem global_facts {v : Str} (h : wfBaValue v = true) :
    (∀ k1 k2 k3 : Char, k1 ≠ '"' → startsWith (v ++ [';']) [k1, k2, k3, ' '] = false) ∧ baGlobalValue (v ++ [';']) = some v := by
  rcases wfBaValue_cases h with ⟨m, rfl⟩ | ⟨hne, hall⟩
  · refine ⟨?_, baGlobal_quoted m⟩
    intro k1 k2 k3 hk
    have : ('"' == k1) = false := by simpa using fun e => hk e.symm
    simp [startsWith, this]
  · obtain ⟨c, t, rfl⟩ := List.exists_cons_of_ne_nil hne
    refine ⟨?_, baGlobal_plain c t (hall c (by simp)).2.1 (fun x hx => (hall x hx).1)⟩
    intro k1 k2 k3 _
    apply startsWith_kw_false
    intro x hx
    rcases List.mem_append.mp hx with hx | hx
    · rintro rfl
      exact absurd (hall ' ' hx).1 (by decide)
    · simp at hx; subst hx; decide

/-! ## `BA_`: the four classes -/

theorem renderBa_global (attr v : Str) :
    renderBa ⟨attr, .global, v⟩ = 'B' :: 'A' :: '_' :: ' ' :: '"' :: (attr ++ '"' :: ' ' :: ' ' :: ' ' :: (v ++ [';'])) := by
  unfold renderBa
  rw [lit_baq, lit_quote2]
  simp only [List.append_assoc, List.cons_append, List.nil_append]

theorem renderBa_ecu (attr n v : Str) :
    renderBa ⟨attr, .ecu n, v⟩ =
      'B' :: 'A' :: '_' :: ' ' :: '"' :: (attr ++ '"' :: ' ' :: 'B' :: 'U' :: '_' :: ' ' :: (n ++ ' ' :: (v ++ [';']))) := by
  unfold renderBa
  rw [lit_baq, lit_quote2, kw_bu]
  simp only [List.append_assoc, List.cons_append, List.nil_append]

theorem renderBa_frame (attr : Str) (id : Nat) (v : Str) :
    renderBa ⟨attr, .frame id, v⟩ =
      'B' :: 'A' :: '_' :: ' ' :: '"' :: (attr ++ '"' :: ' ' :: 'B' :: 'O' :: '_' :: ' ' :: (natDigits id ++ ' ' :: (v ++ [';']))) := by
  unfold renderBa
  rw [lit_baq, lit_quote2, kw_bo]
  simp only [List.append_assoc, List.cons_append, List.nil_append]

theorem renderBa_signal (attr : Str) (id : Nat) (n v : Str) :
    renderBa ⟨attr, .signal id n, v⟩ =
      'B' :: 'A' :: '_' :: ' ' :: '"' :: (attr ++ '"' :: ' ' :: 'S' :: 'G' :: '_' :: ' ' ::
        (natDigits id ++ ' ' :: (n ++ ' ' :: (v ++ [';'])))) := by
  unfold renderBa
  rw [lit_baq, lit_quote2, kw_sg]
  simp only [List.append_assoc, List.cons_append, List.nil_append]

theorem parseBa_frame (attr : Str) (d : Char) (ds : Str) (id : Nat) (v : Str) (hn : wfAttrName attr = true)
    (hd : AllDig (d :: ds)) (hid : digitsToNat (d :: ds) = some id) (hv : wfBaValue v = true) :
    parseBa ('B' :: 'A' :: '_' :: ' ' :: '"' :: (attr ++ '"' :: ' ' :: 'B' :: 'O' :: '_' :: ' ' :: ((d :: ds) ++ ' ' :: (v ++ [';'])))) =
      some ⟨attr, .frame id, v⟩ := by
  obtain ⟨hne, hq⟩ := wfAttrName_unpack hn
  obtain ⟨hvne, hvs, hvk⟩ := value_facts hv
  unfold parseBa
  rw [lit_ba, lit_bo]
  rw [if_neg (by simp [startsWith])]
  simp only [List.drop_succ_cons, List.drop_zero]
  rw [skipSp_space, skipSp_of_ne '"' _ (by decide), quotedName_ok attr _ hne hq]
  simp only
  rw [skipSp_space, skipSp_of_ne 'B' _ (by decide)]
  rw [if_pos (by simp [startsWith])]
  simp only [List.drop_succ_cons, List.drop_zero]
  rw [skipSp_cons_digits _ _ (by simp) hd, span_digits _ _ hd]
  simp only
  rw [skipSp_space, hvk, baValue_ok v hvne hvs, hid]
  rfl

theorem parseBa_signal (attr : Str) (d : Char) (ds : Str) (id : Nat) (n v : Str) (hn : wfAttrName attr = true)
    (hd : AllDig (d :: ds)) (hid : digitsToNat (d :: ds) = some id) (hs : isIdent n = true) (hv : wfBaValue v = true) :
    parseBa ('B' :: 'A' :: '_' :: ' ' :: '"' :: (attr ++ '"' :: ' ' :: 'S' :: 'G' :: '_' :: ' ' ::
      ((d :: ds) ++ ' ' :: (n ++ ' ' :: (v ++ [';']))))) = some ⟨attr, .signal id n, v⟩ := by
  obtain ⟨hne, hq⟩ := wfAttrName_unpack hn
  obtain ⟨hvne, hvs, hvk⟩ := value_facts hv
  obtain ⟨x, xs, rfl⟩ := List.exists_cons_of_ne_nil (isIdent_ne_nil hs)
  unfold parseBa
  rw [lit_ba, lit_bo, lit_sg]
  rw [if_neg (by simp [startsWith])]
  simp only [List.drop_succ_cons, List.drop_zero]
  rw [skipSp_space, skipSp_of_ne '"' _ (by decide), quotedName_ok attr _ hne hq]
  simp only
  rw [skipSp_space, skipSp_of_ne 'S' _ (by decide)]
  rw [if_neg (by simp [startsWith]), if_pos (by simp [startsWith])]
  simp only [List.drop_succ_cons, List.drop_zero]
  rw [skipSp_cons_digits _ _ (by simp) hd, span_digits _ _ hd]
  simp only
  rw [skipSp_cons_ident _ _ hs, span_tok _ _ (ident_not_blank hs)]
  simp only
  rw [skipSp_space, hvk, baValue_ok v hvne hvs, hid]
  rfl

theorem parseBa_ecu (attr n v : Str) (hn : wfAttrName attr = true) (hs : isIdent n = true) (hv : wfBaValue v = true) :
    parseBa ('B' :: 'A' :: '_' :: ' ' :: '"' :: (attr ++ '"' :: ' ' :: 'B' :: 'U' :: '_' :: ' ' :: (n ++ ' ' :: (v ++ [';'])))) =
      some ⟨attr, .ecu n, v⟩ := by
  obtain ⟨hne, hq⟩ := wfAttrName_unpack hn
  obtain ⟨hvne, hvs, hvk⟩ := value_facts hv
  obtain ⟨x, xs, rfl⟩ := List.exists_cons_of_ne_nil (isIdent_ne_nil hs)
  unfold parseBa
  rw [lit_ba, lit_bo, lit_sg, lit_bu]
  rw [if_neg (by simp [startsWith])]
  simp only [List.drop_succ_cons, List.drop_zero]
  rw [skipSp_space, skipSp_of_ne '"' _ (by decide), quotedName_ok attr _ hne hq]
  simp only
  rw [skipSp_space, skipSp_of_ne 'B' _ (by decide)]
  rw [if_neg (by simp [startsWith]), if_neg (by simp [startsWith]), if_pos (by simp [startsWith])]
  simp only [List.drop_succ_cons, List.drop_zero]
  rw [skipSp_cons_ident _ _ hs, span_tok _ _ (ident_not_blank hs)]
  simp only
  rw [skipSp_space, hvk, baValue_ok v hvne hvs]
  rfl

theorem parseBa_global (attr v : Str) (hn : wfAttrName attr = true) (hv : wfBaValue v = true) :
    parseBa ('B' :: 'A' :: '_' :: ' ' :: '"' :: (attr ++ '"' :: ' ' :: ' ' :: ' ' :: (v ++ [';']))) = some ⟨attr, .global, v⟩ := by
  obtain ⟨hne, hq⟩ := wfAttrName_unpack hn
  obtain ⟨hvne, hvs, hvk⟩ := value_facts hv
  obtain ⟨hsw, hg⟩ := global_facts hv
  unfold parseBa
  rw [lit_ba, lit_bo, lit_sg, lit_bu, lit_ev]
  rw [if_neg (by simp [startsWith])]
  simp only [List.drop_succ_cons, List.drop_zero]
  rw [skipSp_space, skipSp_of_ne '"' _ (by decide), quotedName_ok attr _ hne hq]
  simp only
  rw [skipSp_space, skipSp_space, skipSp_space, hvk]
  rw [if_neg (by rw [hsw _ _ _ (by decide)]; decide), if_neg (by rw [hsw _ _ _ (by decide)]; decide),
    if_neg (by rw [hsw _ _ _ (by decide)]; decide), if_neg (by rw [hsw _ _ _ (by decide)]; decide), hg]
  rfl

theorem wfBa_unpack {b : BaLine} (h : wfBa b = true) : wfAttrName b.attr = true ∧ wfBaValue b.value = true := by
  simp only [wfBa, Bool.and_eq_true] at h
  exact h.1

theorem parseBa_renderBa (b : BaLine) (h : wfBa b = true) : parseBa (renderBa b) = some b := by
  obtain ⟨hn, hv⟩ := wfBa_unpack h
  obtain ⟨attr, target, v⟩ := b
  simp only at hn hv
  cases target with
  | global => rw [renderBa_global]; exact parseBa_global attr v hn hv
  | ecu n =>
    have hs : isIdent n = true := by simpa [wfBa, hn, hv] using h
    rw [renderBa_ecu]; exact parseBa_ecu attr n v hn hs hv
  | frame id =>
    rw [renderBa_frame]
    cases hnd : natDigits id with
    | nil => exact absurd hnd (natDigits_ne_nil _)
    | cons d ds =>
      exact parseBa_frame attr d ds id v hn (by rw [← hnd]; exact natDigits_allDig id)
        (by rw [← hnd]; exact digitsToNat_natDigits' id) hv
  | signal id n =>
    have hs : isIdent n = true := by simpa [wfBa, hn, hv] using h
    rw [renderBa_signal]
    cases hnd : natDigits id with
    | nil => exact absurd hnd (natDigits_ne_nil _)
    | cons d ds =>
      exact parseBa_signal attr d ds id n v hn (by rw [← hnd]; exact natDigits_allDig id)
        (by rw [← hnd]; exact digitsToNat_natDigits' id) hs hv

theorem stripQuotes_quoted (t : Str) : stripQuotes ('"' :: t ++ ['"']) = t := by
  unfold stripQuotes
  simp only [List.cons_append, List.drop_succ_cons, List.drop_zero, List.dropLast_concat]

end CanVerif.Dbc.AttrProofs
