import Driver.J
import CanVerif.Model.Export
open Lean CanVerif

namespace D14

/-- op "exp": c = {"w1": …, "w2": …, "m": …}; impl i = {"unchanged":b, "second_same":b, "twice_same":b, "decode_same":b}
op "seeds": c = {...}; impl i = {"same": b, "differs": [writers]} -/
def handle (op : String) (c i : Json) : Except String (Json × String) := do
  match op with
  | "exp" =>
    let w1 ← J.str (← J.key c "w1")
    let w2 ← J.str (← J.key c "w2")
    let m := J.obj [("unchanged", Json.bool true), ("second_same", Json.bool true), ("twice_same", Json.bool true), ("decode_same", Json.bool true)]
    let u ← J.bool (← J.key i "unchanged")
    let s2 ← J.bool (← J.key i "second_same")
    let t ← J.bool (← J.key i "twice_same")
    let d ← J.bool (← J.key i "decode_same")
    let s := if !u then s!"fail: exporting to {w1} changed the matrix"
      else if !d then s!"fail: after exporting to {w1} the matrix decodes payloads differently"
      else if !s2 then s!"fail: export to {w2} after an export to {w1} differs from the export of a fresh copy"
      else if !t then s!"fail: exporting to {w1} twice yields different bytes"
      else "ok"
    pure (m, s)
  | "seeds" =>
    let m := J.obj [("same", Json.bool true)]
    let same ← J.bool (← J.key i "same")
    pure (m, if same then "ok" else "fail: the exported bytes depend on the interpreter's hash seed or on what the process exported before")
  | _ => throw s!"C14: unknown op {op}"

end D14
