"""C10 - frame lookups stay coherent with the matrix over every edit history."""
import contextlib
import copy as pycopy
import io
import itertools

import canmatrix.canmatrix as cm
import canmatrix.copy
import canmatrix.formats
from lib import frames as F

PID = "C10"
EXTRA_PROPS = ("C10b",)
RULE = ("case = a history: prelude (2-3 matrices built by add_frame and/or by the DBC reader, 3-5 frame objects over a small "
        "universe of ids {0x10, 0x20, 0x10x, 0x18FEF100x, 0x0CFEF102x, ...} (x = extended; the same number occurs in both formats) and names {A,B,C}, warm-up lookups that fill the memo) + a body "
        "+ a closing sweep of every lookup (by id, name, PGN) on every matrix. quick: every body of length <= 2 over the op "
        "alphabet (del/remove/rename frame, id change through the handle, add_ecu, copy_frame both directions, merge, deepcopy, "
        "reader-style append, interleaved lookups) + 1500 random bodies of length <= 40 + 3000 focused bodies (3..9 operations about one matrix, two frame objects and "
        "two identifiers: look up, change in place, remove, change back, look up again); thorough: every body of length <= 3 + "
        "The closing sweep also looks up the names 'A*', '?' and '[AB]', which no frame is called. 20000 random bodies of length <= 60. "
        "Marked frames: the same preludes with every 29-bit frame marked as a J1939 parameter group (Frame.is_j1939; through the API and, for the "
        "reader's matrices, through BA_ \"VFrameFormat\" in the DBC text) and/or frames marked CAN FD: every body of length 1 (quick: length 2 on the "
        "prelude with a reader's matrix; thorough: on every prelude) over the alphabet plus lookups of identifiers that share the PGN of a frame of "
        "the matrix but not its source address / priority / destination, plus 1500 (20000) random or focused bodies in which the markings, header id, length and "
        "transmitters of frame objects are edited in the middle of the history (such edits address neither identifier nor name, the model does not "
        "see them: lookups must answer as if they were not there). Non-trivial = distinct history whose body contains an edit and a lookup follows it.")
EXHAUSTIVE = {"quick": False, "thorough": False}
PARTIAL = ["frame_by_header_id (a plain scan) is exercised on snapshots of a matrix (case 'hdr'), not inside the edit histories",
           "frame objects are compared through harness-assigned handles (object identity)"]
ASSUMPTIONS = ["edits go through the matrix API or through attributes of a frame object; direct mutation of db.frames by the caller "
               "is outside the property (only the readers' own db.frames.append is modelled)"]
TRUSTED = ["copy.deepcopy is modelled as a structural copy that preserves sharing inside the copied matrix"]
CORRESPONDENCE = "histories of CanMatrix operations == CanVerif.step (Model/Lookup.lean)"

IDS = [(0x10, False), (0x20, False), (0x10, True), (0x18FEF100, True), (0x0CFEF102, True), (0x18EA2100, True), (0x20, True), (0xFEF100, True),
       (0x1AFEF100, True), (0x19FEF103, True),    # the same PF/PS on another data page (DP, EDP bits belong to the PGN)
       (0x18FEF101, True), (0x18EAFF05, True)]    # the PGN of a frame of the matrix from another source address / to another destination (PDU1)
NAMES = ["A", "B", "C"]
PGNS = [0xFEF1, 0xEA21, 0xEA00, 0x1234, 0x2FEF1, 0x1FEF1, 0x3FEF1]

# Properties of a frame object that say nothing about its identifier or name (J1939 / CAN FD marking, header id, length,
# transmitters).  They travel as a trailing record of an operation, which the Lean driver does not read: the model and the
# specification know no such thing, i.e. they demand that lookups answer as if the markings were not there.
#   ["newFrame", name, id, ext, {"j1939": true, "fd": true}]         frame built through the API with these markings
#   ["loadMatrix", [[name, id, ext, {"j1939": true}], ...]]           DBC text with BA_ "VFrameFormat" (the reader sets the markings)
#   [<any op> ..., {"pre": [["mark", handle, "j1939"|"fd", bool], ["hdr", handle, n], ["size", handle, n], ["tx", handle, ecu]]}]
#                                                                     edits of frame objects made just before the operation
MARK_MODES = ("plain", "j1939", "j1939+fd", "mixed")


def mark_of(mode, ext, rng=None):
    if mode == "plain":
        return None
    if mode == "j1939":                  # a J1939 matrix: every 29-bit frame is a parameter group
        return {"j1939": True} if ext else None
    if mode == "j1939+fd":
        return {"j1939": True} if ext else {"fd": True}
    m = {}
    if ext and rng.random() < 0.5:
        m["j1939"] = True
    if rng.random() < 0.3:
        m["fd"] = True
    return m or None


def mark_prelude(pre, mode, rng=None):
    """the same prelude with markings on its frames"""
    if mode == "plain":
        return pre
    out = []
    for o in pre:
        if o[0] == "newFrame":
            m = mark_of(mode, o[3], rng)
            out.append(list(o[:4]) + ([m] if m else []))
        elif o[0] == "loadMatrix":
            fs = []
            for f in o[1]:
                m = mark_of(mode, f[2], rng)
                fs.append(list(f[:3]) + ([m] if m else []))
            out.append(["loadMatrix", fs])
        else:
            out.append(o)
    return out


def side_edit(rng, nobjs):
    h = rng.randrange(nobjs)
    k = rng.random()
    if k < 0.6:
        return ["mark", h, "j1939", rng.random() < 0.7]
    if k < 0.75:
        return ["mark", h, "fd", rng.random() < 0.7]
    if k < 0.85:
        return ["hdr", h, rng.choice([0, 1, 0x10, 0x18FEF100])]
    if k < 0.93:
        return ["size", h, rng.choice([0, 8, 12, 64])]
    return ["tx", h, rng.choice(["E1", "E2"])]


def with_side_edits(rng, body, nobjs, p):
    """the same body; with probability p an operation is preceded by edits of frame objects that leave identifiers and names alone"""
    out = []
    for o in body:
        if rng.random() < p:
            o = list(o) + [{"pre": [side_edit(rng, nobjs) for _ in range(rng.choice([1, 1, 2]))]}]
        out.append(o)
    return out


def side_of(op):
    return op[-1] if isinstance(op[-1], dict) else {}


def prelude(variant):
    """returns ops, nmats, nobjs, frames per matrix"""
    ops = [["newMatrix"], ["newMatrix"],
           ["newFrame", "A", 0x10, False], ["newFrame", "B", 0x18FEF100, True], ["newFrame", "C", 0x10, False],
           ["newFrame", "A", 0x20, False]]
    nobjs = 4
    ops += [["addFrame", 0, 0], ["addFrame", 0, 1], ["addFrame", 1, 2]]
    nmats = 2
    if variant >= 1:
        ops.append(["loadMatrix", [["A", 0x10, False], ["D", 0x0CFEF102, True]]])
        nmats += 1
        nobjs += 2
        # two frames whose identifiers are made from the same PGN (ArbitrationId.from_pgn), one per matrix
        ops += [["newFrame", "P", 0xFEF100, True], ["newFrame", "Q", 0xFEF100, True], ["addFrame", 0, nobjs], ["addFrame", 1, nobjs + 1]]
        nobjs += 2
    if variant >= 2:
        ops.append(["loadMatrix", [["B", 0x10, False]]])
        nmats += 1
        nobjs += 1
    for m in range(nmats):
        ops.append(["byId", m, 0x10, False])
    ops.append(["byId", 0, 0x18FEF100, True])
    return ops, nmats, nobjs


def alphabet(nmats, nobjs):
    ops = []
    for m in range(min(nmats, 3)):
        for h in range(min(nobjs, 4)):
            ops.append(["delFrame", m, h])
        ops.append(["removeFrame", m, 0])
        ops.append(["delFrameByName", m, "A"])
        ops.append(["renameFrame", m, "A", "B"])
        ops.append(["addEcu", m])
        ops.append(["deepcopy", m])
        ops.append(["byId", m, 0x10, False])
        ops.append(["byId", m, 0x20, False])
        ops.append(["byName", m, "A"])
        ops.append(["byPgn", m, 0xFEF1])
        ops.append(["addFrame", m, 3])
        ops.append(["appendFrame", m, 3])
    ops += [["setId", 0, 0x20, False], ["setId", 0, 0x10, False], ["setId", 2, 0x20, False], ["setId", 1, 0x18FEF1AA, True],
            ["setId", 3, 0x10, False], ["setId", 0, 0x10, True], ["setId", 2, 0x10, True]]
    for a, b in itertools.permutations(range(min(nmats, 3)), 2):
        ops.append(["copyFrame", a, b, 0x10, False])
        ops.append(["copyFrame", a, b, 0x18FEF100, True])
        ops.append(["merge", a, b])
    return ops


def closing(nmats):
    ops = []
    for m in range(nmats):
        for i, e in IDS:
            ops.append(["byId", m, i, e])
        for n in NAMES + ["D", "A*", "?", "[AB]"]:         # a name is a name, not a pattern
            ops.append(["byName", m, n])
        for p in PGNS:
            ops.append(["byPgn", m, p])
    return ops


def count_new_mats(body):
    return sum(1 for o in body if o[0] in ("deepcopy", "loadMatrix"))


def mkcase(pre, body, nmats):
    return {"op": "hist", "c": {"ops": pre + body + closing(nmats + count_new_mats(body)), "body": [len(pre), len(body)]}}


def random_body(rng, nmats, nobjs, maxlen):
    body = []
    nm = nmats
    for _ in range(rng.randint(1, maxlen)):
        k = rng.random()
        m = rng.randrange(nm)
        h = rng.randrange(nobjs)
        if k < 0.10:
            body.append(["delFrame", m, h])
        elif k < 0.14:
            body.append(["removeFrame", m, h])
        elif k < 0.20:
            body.append(["delFrameByName", m, rng.choice(NAMES)])
        elif k < 0.27:
            body.append(["renameFrame", m, rng.choice(NAMES), rng.choice(NAMES)])
        elif k < 0.38:
            i, e = rng.choice(IDS)
            body.append(["setId", h, i, e])
        elif k < 0.41:
            body.append(["addEcu", m])
        elif k < 0.50:
            i, e = rng.choice(IDS)
            body.append(["copyFrame", m, rng.randrange(nm), i, e])
        elif k < 0.54:
            body.append(["merge", m, rng.randrange(nm)])
        elif k < 0.57 and nm < 6:
            body.append(["deepcopy", m])
            nm += 1
        elif k < 0.64:
            body.append(["addFrame", m, h])
        elif k < 0.67:
            body.append(["appendFrame", m, h])
        elif k < 0.85:
            i, e = rng.choice(IDS)
            body.append(["byId", m, i, e])
        elif k < 0.93:
            body.append(["byName", m, rng.choice(NAMES)])
        else:
            body.append(["byPgn", m, rng.choice(PGNS)])
    return body


def focused_body(rng, nmats, nobjs):
    """a short history about one matrix (sometimes two), one or two frame objects and two identifiers: deep interactions
    (look up, change the identifier in place, remove, change it back, look up again) that a uniform choice rarely composes"""
    m = rng.randrange(nmats)
    m2 = rng.randrange(nmats)
    hs = [rng.randrange(nobjs), rng.randrange(nobjs)]
    keys = rng.sample(IDS, 2)
    names = rng.sample(NAMES, 2)
    body = []
    for _ in range(rng.randint(3, 9)):
        k = rng.random()
        mm = m if rng.random() < 0.8 else m2
        h = hs[0] if rng.random() < 0.75 else hs[1]
        i, e = rng.choice(keys)
        if k < 0.28:
            body.append(["byId", mm, i, e])
        elif k < 0.50:
            body.append(["setId", h, i, e])
        elif k < 0.60:
            body.append(["delFrame", mm, h])
        elif k < 0.66:
            body.append(["removeFrame", mm, h])
        elif k < 0.76:
            body.append(["addFrame", mm, h])
        elif k < 0.80:
            body.append(["appendFrame", mm, h])
        elif k < 0.85:
            body.append(["byName", mm, rng.choice(names)])
        elif k < 0.89:
            body.append(["renameFrame", mm, names[0], names[1]])
        elif k < 0.92:
            body.append(["delFrameByName", mm, rng.choice(names)])
        elif k < 0.96:
            body.append(["copyFrame", m, m2, i, e])
        else:
            body.append(["byPgn", mm, rng.choice(PGNS)])
    return body


def intflag_case(rng, marks=False):
    """a history on one matrix whose frames carry pairwise different identifiers all the time, with the extended flag stored as the
    integer 1 (lookups ask with True): add, look up, re-address, delete, look up"""
    ids = rng.sample([(0x10, False), (0x20, True), (0x18FEF100, True), (0x0CFEF102, True), (0x18EA2100, True), (0x1AFEF100, True), (0x30, True),
                      (0x31, False)], 8)
    ops = [["newMatrix"], ["newFrame", "A", ids[0][0], ids[0][1]], ["newFrame", "B", ids[1][0], ids[1][1]], ["newFrame", "C", ids[2][0], ids[2][1]],
           ["addFrame", 0, 0], ["addFrame", 0, 1]]
    cur = {0: ids[0], 1: ids[1], 2: ids[2]}
    spare = list(ids[3:])
    n0 = len(ops)
    for _ in range(rng.randint(3, 10)):
        k = rng.random()
        h = rng.randrange(3)
        if k < 0.45:
            i, e = rng.choice(list(cur.values()) + spare[:1])
            ops.append(["byId", 0, i, e])
        elif k < 0.6:
            ops.append(["byPgn", 0, rng.choice(PGNS)])
        elif k < 0.75 and spare:
            new = spare.pop()
            spare.insert(0, cur[h])
            cur[h] = new
            ops.append(["setId", h, new[0], new[1]])
        elif k < 0.85:
            ops.append(["delFrame", 0, h])
        else:
            ops.append(["addFrame", 0, 2])
    body = [n0, len(ops) - n0]
    if marks:
        ops = mark_prelude(ops[:n0], rng.choice(MARK_MODES[1:]), rng) + with_side_edits(rng, ops[n0:], 3, 0.2)
    for i, e in ids:
        ops.append(["byId", 0, i, e])
    for p in PGNS:
        ops.append(["byPgn", 0, p])
    return {"op": "hist", "c": {"ops": ops, "body": body, "intflag": True}}


def gen(rng, tier, shard, nshards):
    depth = 2 if tier == "quick" else 3
    k = 0
    for variant in (0, 1, 2):
        pre, nmats, nobjs = prelude(variant)
        alpha = alphabet(nmats, nobjs)
        for d in range(1, depth + 1):
            if d == 3 and variant != 1:
                continue
            for body in itertools.product(alpha, repeat=d):
                k += 1
                if k % nshards == shard:
                    yield mkcase(pre, [list(o) for o in body], nmats)
    # the same sweep over matrices whose frames are marked (J1939 parameter groups, CAN FD): every body of length 1 on every
    # prelude, every body of length 2 on the prelude with a matrix from the reader (thorough: on every prelude)
    for variant in (0, 1, 2):
        pre, nmats, nobjs = prelude(variant)
        alpha = alphabet(nmats, nobjs) + marked_alphabet(nmats)
        for mode in ("j1939", "j1939+fd"):
            mpre = mark_prelude(pre, mode)
            for d in (1, 2):
                if d == 2 and (mode != "j1939" or (tier == "quick" and variant != 1)):
                    continue
                for body in itertools.product(alpha, repeat=d):
                    k += 1
                    if k % nshards == shard:
                        yield mkcase(mpre, [list(o) for o in body], nmats)
    total = {"quick": 1500, "thorough": 20000}[tier] // nshards
    for _ in range(total):
        pre, nmats, nobjs = prelude(rng.randrange(3))
        yield mkcase(pre, random_body(rng, nmats, nobjs, 40 if tier == "quick" else 60), nmats)
    for _ in range(2 * total):
        pre, nmats, nobjs = prelude(rng.randrange(3))
        yield mkcase(pre, focused_body(rng, nmats, nobjs), nmats)
    for _ in range(total // 3 + 1):
        yield gen_hdr(rng)
    for _ in range(total // 2 + 1):
        yield intflag_case(rng)
    # random and focused histories over marked frames, with edits of the markings (and of other properties of a frame object
    # that are neither identifier nor name) in the middle of the history
    for _ in range(total):
        pre, nmats, nobjs = prelude(rng.randrange(3))
        mode = rng.choice(MARK_MODES)
        pre = mark_prelude(pre, mode, rng)
        body = random_body(rng, nmats, nobjs, 40 if tier == "quick" else 60) if rng.random() < 0.4 else focused_body(rng, nmats, nobjs)
        yield mkcase(pre, with_side_edits(rng, body, nobjs, 0.25 if mode != "j1939" else 0.1), nmats)
    for _ in range(total // 4 + 1):
        yield intflag_case(rng, marks=True)


def marked_alphabet(nmats):
    """operations of the short exhaustive bodies that only matter when frames are marked: the marking comes and goes in the
    middle of a history, lookups of identifiers that share their PGN with a frame of the matrix"""
    ops = []
    for m in range(min(nmats, 2)):
        ops.append(["byId", m, 0x0CFEF102, True])
        ops.append(["byId", m, 0x18FEF100, True, {"pre": [["mark", 1, "j1939", False]]}])
        ops.append(["byId", m, 0x18FEF101, True, {"pre": [["mark", 1, "j1939", True]]}])
    ops.append(["setId", 1, 0x18FEF101, True])
    ops.append(["setId", 0, 0x0CFEF102, True, {"pre": [["mark", 0, "j1939", True]]}])
    return ops


def gen_hdr(rng):
    n = rng.randint(0, 5)
    frames = [[h, rng.choice([None, 0, 0, 1, 2, 0x123456])] for h in range(n)]
    return {"op": "hdr", "c": {"frames": frames, "q": rng.choice([0, 0, 1, 2, 3, 0x123456])}}


def observe_hdr(c):
    db = cm.CanMatrix()
    objs = []
    for h, hid in c["frames"]:
        fr = cm.Frame("F%d" % h, arbitration_id=cm.ArbitrationId(h + 1, False), size=8)
        fr.header_id = hid
        db.add_frame(fr)
        objs.append(fr)
    try:
        r = db.frame_by_header_id(c["q"])
    except Exception:  # noqa
        return {"ret": "raised"}
    return {"ret": None if r is None else next(i for i, o in enumerate(objs) if o is r)}


def neighbours(case, rng, shard, nshards):
    for _ in range(150 // nshards + 1):
        pre, nmats, nobjs = prelude(rng.randrange(3))
        yield mkcase(pre, random_body(rng, nmats, nobjs, 30), nmats)


VFRAMEFORMAT = ["StandardCAN", "ExtendedCAN", "reserved", "J1939PG"] + ["reserved"] * 10 + ["StandardCAN_FD", "ExtendedCAN_FD"]


def dbc_for(frames):
    lines = ['VERSION ""', "", "NS_ :", "", "BS_:", "", "BU_: ", ""]
    marked = []
    for fr in frames:
        name, i, ext = fr[:3]
        num = i | (0x80000000 if ext else 0)
        lines.append("BO_ %d %s: 8 Vector__XXX" % (num, name))
        lines.append(' SG_ s_%s : 0|8@1+ (1,0) [0|0] "" Vector__XXX' % name)
        lines.append("")
        m = fr[3] if len(fr) > 3 and isinstance(fr[3], dict) else {}
        if m.get("j1939"):
            marked.append((num, 3))
        elif m.get("fd"):
            marked.append((num, 15 if ext else 14))
    if marked:
        # the frame format attribute as CANdb++ writes it; the reader turns it into Frame.is_j1939 / Frame.is_fd
        lines.append('BA_DEF_ BO_  "VFrameFormat" ENUM  %s;' % ",".join('"%s"' % v for v in VFRAMEFORMAT))
        lines.append('BA_DEF_DEF_  "VFrameFormat" "StandardCAN";')
        for num, v in marked:
            lines.append('BA_ "VFrameFormat" BO_ %d %d;' % (num, v))
        lines.append("")
    return "\n".join(lines).encode()


class Run(object):
    intflag = False

    def __init__(self):
        self.mats = []
        self.objs = []
        self.hid = {}

    def reg(self, fr):
        if id(fr) not in self.hid:
            self.hid[id(fr)] = len(self.objs)
            self.objs.append(fr)
        return self.hid[id(fr)]

    def snap(self, m):
        return [[self.reg(f), f.name, f.arbitration_id.id, bool(f.arbitration_id.extended)] for f in self.mats[m].frames]

    def found(self, fr):
        return {"f": None if fr is None else self.reg(fr)}

    def side(self, edits):
        """edits of frame objects that touch neither identifier nor name"""
        for e in edits:
            fr = self.objs[e[1]]
            if e[0] == "mark":
                setattr(fr, {"j1939": "is_j1939", "fd": "is_fd"}[e[2]], bool(e[3]))
            elif e[0] == "hdr":
                fr.header_id = e[2]
            elif e[0] == "size":
                fr.size = e[2]
            elif e[0] == "tx":
                fr.add_transmitter(e[2])
            else:
                raise KeyError(e[0])

    def do(self, op):
        k = op[0]
        self.side(side_of(op).get("pre", ()))
        if k == "newMatrix":
            self.mats.append(cm.CanMatrix())
            return {"h": len(self.mats) - 1}, None
        if k == "newFrame":
            if op[3] and op[2] == (op[2] & 0x3FFFF00):
                aid = cm.ArbitrationId.from_pgn(op[2] >> 8)       # priority 0, source 0: as the J1939 helpers build it
            else:
                # (in the 'intflag' histories the extended flag is the integer 1, as the SYM reader sets it)
                aid = cm.ArbitrationId(op[2], (1 if op[3] else False) if self.intflag else op[3])
            marks = side_of(op)
            fr = cm.Frame(op[1], arbitration_id=aid, size=8, is_j1939=bool(marks.get("j1939")), is_fd=bool(marks.get("fd")))
            fr.add_signal(cm.Signal("s", start_bit=0, size=8))
            return {"h": self.reg(fr)}, None
        if k == "loadMatrix":
            with contextlib.redirect_stdout(io.StringIO()):
                db = canmatrix.formats.loads_flat(dbc_for(op[1]), "dbc")
            self.mats.append(db)
            for f in db.frames:
                self.reg(f)
            return {"h": len(self.mats) - 1}, self.snap(len(self.mats) - 1)
        if k == "deepcopy":
            db = pycopy.deepcopy(self.mats[op[1]])
            self.mats.append(db)
            for f in db.frames:
                self.reg(f)
            return {"h": len(self.mats) - 1}, self.snap(len(self.mats) - 1)
        if k == "setId":
            fr = self.objs[op[1]]
            fr.arbitration_id.id = op[2]
            fr.arbitration_id.extended = (1 if op[3] else False) if self.intflag else op[3]
            return None, None
        db = self.mats[op[1]]
        if k == "addFrame":
            db.add_frame(self.objs[op[2]])
            return None, None
        if k == "appendFrame":
            db.frames.append(self.objs[op[2]])
            return None, None
        if k in ("removeFrame", "delFrame", "delFrameByName"):
            pre = self.snap(op[1])
            self.post = pre          # a call that raises leaves the matrix as it was
            try:
                if k == "removeFrame":
                    db.remove_frame(self.objs[op[2]])
                elif k == "delFrame":
                    db.del_frame(self.objs[op[2]])
                else:
                    db.del_frame(op[2])
            finally:
                self.post = self.snap(op[1])
            return None, pre
        if k == "renameFrame":
            db.rename_frame(op[2], op[3])
            return None, None
        if k == "addEcu":
            db.add_ecu(cm.Ecu("ecu%d" % len(db.ecus)))
            return None, None
        if k == "copyFrame":
            dst = self.mats[op[2]]
            r = canmatrix.copy.copy_frame(cm.ArbitrationId(op[3], op[4]), db, dst)
            for f in dst.frames:
                self.reg(f)
            return {"b": bool(r)}, self.snap(op[2])
        if k == "merge":
            src = self.mats[op[2]]
            db.merge([src])
            for f in db.frames:
                self.reg(f)
            return None, self.snap(op[1])
        if k == "byId":
            s = self.snap(op[1])
            return self.found(db.frame_by_id(cm.ArbitrationId(op[2], op[3]))), s
        if k == "byName":
            s = self.snap(op[1])
            return self.found(db.frame_by_name(op[2])), s
        if k == "byPgn":
            s = self.snap(op[1])
            return self.found(db.frame_by_pgn(op[2])), s
        raise ValueError(k)


def observe(case):
    if case["op"] == "hdr":
        return observe_hdr(case["c"])
    r = Run()
    r.intflag = bool(case["c"].get("intflag"))
    outs, snaps, posts = [], [], []
    for op in case["c"]["ops"]:
        r.post = None
        try:
            o, s = r.do(op)
        except (ValueError, AttributeError, IndexError) as e:
            if isinstance(e, IndexError):
                raise
            o, s = "raised", (r.snap(op[1]) if op[0] in ("removeFrame", "delFrame", "delFrameByName") and r.post is not None else None)
        outs.append(o)
        snaps.append(s)
        posts.append(r.post)
    return {"outs": outs, "snaps": snaps, "post": posts}


def project(impl):
    if "ret" in impl:
        return {"ret": impl["ret"]}
    return {"outs": impl["outs"]}


def features(case, impl):
    if case["op"] == "hdr":
        yield "op=byHeaderId"
        yield "header-id-query=%s" % ("0" if case["c"]["q"] == 0 else "other")
        return
    a, n = case["c"]["body"]
    body = case["c"]["ops"][a:a + n]
    yield "body-len=%s" % (n if n <= 3 else "4-10" if n <= 10 else ">10")
    for o in body:
        yield "op=" + o[0]
    yield "raised" if "raised" in impl["outs"] else "no-raise"
    marks = set()
    for o in case["c"]["ops"]:
        if o[0] == "newFrame":
            marks.update("api:" + m for m, v in side_of(o).items() if v and m != "pre")
        elif o[0] == "loadMatrix":
            for f in o[1]:
                marks.update("reader:" + m for m, v in (f[3] if len(f) > 3 else {}).items() if v)
        for e in side_of(o).get("pre", ()):
            yield "edit-in-history=" + (e[0] if e[0] != "mark" else "%s:=%s" % (e[2], e[3]))
    for m in sorted(marks):
        yield "frames-marked=" + m
    if not marks:
        yield "frames-marked=none"


def nontrivial(case, impl):
    if case["op"] == "hdr":
        return bool(case["c"]["frames"])
    a, n = case["c"]["body"]
    body = case["c"]["ops"][a:a + n]
    return any(not o[0].startswith("by") for o in body)


def shrink_candidates(case):
    if case["op"] == "hdr":
        return
    a, n = case["c"]["body"]
    ops = case["c"]["ops"]
    body = ops[a:a + n]
    if any(o[0] == "deepcopy" for o in body):
        return
    for i in range(n):
        nb = body[:i] + body[i + 1:]
        yield {"op": "hist", "c": dict(case["c"], ops=ops[:a] + nb + ops[a + n:], body=[a, n - 1])}
    tail = ops[a + n:]
    if len(tail) > 1:
        for i in range(len(tail)):
            yield {"op": "hist", "c": dict(case["c"], ops=ops[:a + n] + [tail[i]], body=[a, n])}
