import CanVerif.Model.DbcComment
import CanVerif.Proofs.DbcVal
import CanVerif.Proofs.DbcStmt
/-!
# Helper lemmas for the comment statement over one or several lines (Props/C05d.lean)
-/
namespace CanVerif.Dbc.CommentProofs
open CanVerif CanVerif.Dbc CanVerif.Dbc.ValProofs CanVerif.Dbc.StmtProofs

/-! ## escaping (texts may contain backslashes here) -/

theorem escape_nil : escapeQuotes [] = [] := by simp [escapeQuotes]

theorem unescape_nil : unescapeQuotes [] = [] := by simp [unescapeQuotes]

theorem escape_append (a b : Str) : escapeQuotes (a ++ b) = escapeQuotes a ++ escapeQuotes b := by
  induction a with
  | nil => simp [escape_nil]
  | cons c r ih =>
    by_cases hc : c = '"'
    · subst hc; simp only [List.cons_append, escape_quote, ih]
    · simp only [List.cons_append, escape_cons_ne c _ hc, ih]

/-- an escaped text in front of anything does not begin with a bare quote -/
theorem escape_append_head (r : Str) (hr : r ≠ []) (b x : Str) : escapeQuotes r ++ b ≠ '"' :: x := by
  cases r with
  | nil => exact absurd rfl hr
  | cons d r =>
    by_cases hd : d = '"'
    · subst hd
      rw [escape_quote]
      intro h
      simp only [List.cons_append, List.cons.injEq] at h
      exact absurd h.1 (by decide)
    · rw [escape_cons_ne d r hd]
      intro h
      simp only [List.cons_append, List.cons.injEq] at h
      exact hd h.1

theorem unescape_bs (r : Str) (h : ∀ x, r ≠ '"' :: x) : unescapeQuotes ('\\' :: r) = '\\' :: unescapeQuotes r := by
  rw [unescapeQuotes]
  intro r' _ h'
  exact h r' h'

theorem unescape_close : unescapeQuotes ['"', ';'] = ['"', ';'] := by
  rw [unescape_cons_ne _ _ (by decide), unescape_cons_ne _ _ (by decide), unescape_nil]

/-- the escaped text followed by the closing `";` is unescaped to the text and `";`, unless the text ends in a backslash -/
theorem unescape_escape_close (a : Str) (h : a.getLast? ≠ some '\\') :
    unescapeQuotes (escapeQuotes a ++ ['"', ';']) = a ++ ['"', ';'] := by
  induction a with
  | nil => simp only [escape_nil, List.nil_append]; exact unescape_close
  | cons c r ih =>
    have ih' : r ≠ [] → unescapeQuotes (escapeQuotes r ++ ['"', ';']) = r ++ ['"', ';'] := by
      intro hr
      apply ih
      cases r with
      | nil => exact absurd rfl hr
      | cons d r' => rwa [List.getLast?_cons_cons] at h
    by_cases hq : c = '"'
    · subst hq
      rw [escape_quote]
      simp only [List.cons_append]
      rw [unescape_bsq]
      by_cases hr : r = []
      · subst hr; simp only [escape_nil, List.nil_append]; rw [unescape_close]
      · rw [ih' hr]
    · by_cases hb : c = '\\'
      · subst hb
        by_cases hr : r = []
        · subst hr; simp at h
        · rw [escape_cons_ne _ _ hq]
          simp only [List.cons_append]
          rw [unescape_bs _ (fun x => escape_append_head r hr _ x), ih' hr]
      · rw [escape_cons_ne _ _ hq]
        simp only [List.cons_append]
        rw [unescape_cons_ne _ _ hb]
        by_cases hr : r = []
        · subst hr; simp only [escape_nil, List.nil_append]; rw [unescape_close]
        · rw [ih' hr]

/-- unescaping undoes escaping, whatever the text -/
theorem unescape_escape (a : Str) : unescapeQuotes (escapeQuotes a) = a := by
  induction a with
  | nil => rw [escape_nil, unescape_nil]
  | cons c r ih =>
    by_cases hq : c = '"'
    · subst hq; rw [escape_quote, unescape_bsq, ih]
    · rw [escape_cons_ne _ _ hq]
      by_cases hb : c = '\\'
      · subst hb
        by_cases hr : r = []
        · subst hr; rw [escape_nil, unescape_bs _ (by intro x h; cases h), unescape_nil]
        · have := fun x => escape_append_head r hr [] x
          simp only [List.append_nil] at this
          rw [unescape_bs _ this, ih]
      · rw [unescape_cons_ne _ _ hb, ih]

theorem escape_no_nl (l : Str) (h : ∀ c ∈ l, c ≠ '\n') : ∀ c ∈ escapeQuotes l, c ≠ '\n' := by
  induction l with
  | nil => simp [escape_nil]
  | cons d r ih =>
    have hr := ih (fun c hc => h c (List.mem_cons_of_mem _ hc))
    by_cases hd : d = '"'
    · subst hd
      rw [escape_quote]
      intro c hc
      simp only [List.mem_cons] at hc
      rcases hc with hc | hc | hc
      · rw [hc]; decide
      · rw [hc]; decide
      · exact hr c hc
    · rw [escape_cons_ne _ _ hd]
      intro c hc
      simp only [List.mem_cons] at hc
      rcases hc with hc | hc
      · rw [hc]; exact h d List.mem_cons_self
      · exact hr c hc

/-! ## lines -/

theorem joinLines_cons (a : Str) (r : List Str) (h : r ≠ []) : joinLines (a :: r) = a ++ '\n' :: joinLines r := by
  cases r with
  | nil => exact absurd rfl h
  | cons b r => rfl

/-- the lines of a text: at least one, none holds a line break, joined they give the text -/
theorem go_lines (t cur : Str) (hcur : ∀ c ∈ cur, c ≠ '\n') :
    splitRaw.go '\n' cur t ≠ [] ∧ (∀ l ∈ splitRaw.go '\n' cur t, ∀ c ∈ l, c ≠ '\n') ∧
    joinLines (splitRaw.go '\n' cur t) = cur.reverse ++ t := by
  induction t generalizing cur with
  | nil =>
    simp only [splitRaw.go, List.append_nil, joinLines]
    refine ⟨by simp, ?_, trivial⟩
    intro l hl c hc
    simp only [List.mem_singleton] at hl
    subst hl
    exact hcur c (by simpa using hc)
  | cons x r ih =>
    by_cases hx : x = '\n'
    · subst hx
      rw [splitRaw_go_sep]
      obtain ⟨h1, h2, h3⟩ := ih [] (by simp)
      refine ⟨by simp, ?_, ?_⟩
      · intro l hl c hc
        simp only [List.mem_cons] at hl
        rcases hl with hl | hl
        · subst hl; exact hcur c (by simpa using hc)
        · exact h2 l hl c hc
      · rw [joinLines_cons _ _ h1, h3]; simp
    · have hgo : splitRaw.go '\n' cur (x :: r) = splitRaw.go '\n' (x :: cur) r := by
        simp [splitRaw.go, hx]
      rw [hgo]
      obtain ⟨h1, h2, h3⟩ := ih (x :: cur) (by
        intro c hc
        simp only [List.mem_cons] at hc
        rcases hc with hc | hc
        · rw [hc]; exact hx
        · exact hcur c hc)
      refine ⟨h1, h2, ?_⟩
      rw [h3]; simp

theorem lines_of (t : Str) :
    splitLines t ≠ [] ∧ (∀ l ∈ splitLines t, ∀ c ∈ l, c ≠ '\n') ∧ joinLines (splitLines t) = t := by
  have := go_lines t [] (by simp)
  simpa [splitLines, splitRaw] using this

theorem splitRaw_go_joinLines (a : Str) (rs : List Str) (cur : Str) (h : ∀ r ∈ a :: rs, ∀ c ∈ r, c ≠ '\n') :
    splitRaw.go '\n' cur (joinLines (a :: rs)) = (cur.reverse ++ a) :: rs := by
  induction rs generalizing a cur with
  | nil => simp only [joinLines]; exact splitRaw_go_last '\n' a cur (h a (by simp))
  | cons b rs ih =>
    simp only [joinLines]
    rw [splitRaw_go_append '\n' a cur _ (h a (by simp)), splitRaw_go_sep,
      ih b [] (fun r hr => h r (List.mem_cons_of_mem _ hr))]
    simp

theorem splitLines_joinLines (rs : List Str) (hne : rs ≠ []) (h : ∀ r ∈ rs, ∀ c ∈ r, c ≠ '\n') :
    splitLines (joinLines rs) = rs := by
  cases rs with
  | nil => exact absurd rfl hne
  | cons a rs =>
    unfold splitLines splitRaw
    rw [splitRaw_go_joinLines a rs [] h]
    simp

theorem joinLines_snoc_append (init : List Str) (last x : Str) :
    joinLines (init ++ [last]) ++ x = joinLines (init ++ [last ++ x]) := by
  induction init with
  | nil => simp [joinLines]
  | cons a init ih =>
    simp only [List.cons_append]
    rw [joinLines_cons _ _ (by simp), joinLines_cons _ _ (by simp), ← ih]
    simp

theorem escape_joinLines (ls : List Str) : escapeQuotes (joinLines ls) = joinLines (ls.map escapeQuotes) := by
  induction ls with
  | nil => simp [joinLines, escape_nil]
  | cons a r ih =>
    cases r with
    | nil => simp [joinLines]
    | cons b r' =>
      rw [joinLines_cons a (b :: r') (by simp), escape_append, escape_cons_ne _ _ (by decide), ih]
      simp only [List.map_cons, joinLines]

/-- what the writer emits: the escaped lines, the last one with `";` appended -/
theorem render_lines (init : List Str) (last : Str) (h : ∀ l ∈ init ++ [last], ∀ c ∈ l, c ≠ '\n') :
    renderCommentBody (joinLines (init ++ [last])) = init.map escapeQuotes ++ [escapeQuotes last ++ ['"', ';']] := by
  unfold renderCommentBody
  rw [escape_joinLines, List.map_append, List.map_singleton, joinLines_snoc_append, splitLines_joinLines _ (by simp)]
  intro r hr c hc
  simp only [List.mem_append, List.mem_map, List.mem_singleton] at hr
  rcases hr with ⟨l, hl, rfl⟩ | rfl
  · exact escape_no_nl l (h l (by simp [hl])) c hc
  · simp only [List.mem_append, List.mem_cons, List.not_mem_nil, or_false] at hc
    rcases hc with hc | hc | hc
    · exact escape_no_nl last (h last (by simp)) c hc
    · rw [hc]; decide
    · rw [hc]; decide

/-! ## blanks and a semicolon behind a quote -/

theorem bts_nil : blanksThenSemi [] = false := by simp [blanksThenSemi]

theorem bts_blank (r : Str) : blanksThenSemi (' ' :: r) = blanksThenSemi r := by
  simp [blanksThenSemi]

theorem bts_semi (r : Str) : blanksThenSemi (';' :: r) = true := by
  simp [blanksThenSemi]

theorem bts_other (c : Char) (r : Str) (h1 : c ≠ ' ') (h2 : c ≠ ';') : blanksThenSemi (c :: r) = false := by
  have hc : (c == ' ') = false := by simpa using h1
  unfold blanksThenSemi
  rw [List.dropWhile_cons, hc]
  simp only [Bool.false_eq_true, if_false]
  split
  · next heq => simp only [List.cons.injEq] at heq; exact absurd heq.1 h2
  · rfl

theorem bts_escape (r : Str) : blanksThenSemi (escapeQuotes r) = blanksThenSemi r := by
  induction r with
  | nil => rw [escape_nil]
  | cons c r ih =>
    by_cases hq : c = '"'
    · subst hq
      rw [escape_quote, bts_other _ _ (by decide) (by decide), bts_other _ _ (by decide) (by decide)]
    · rw [escape_cons_ne _ _ hq]
      by_cases hb : c = ' '
      · subst hb; rw [bts_blank, bts_blank, ih]
      · by_cases hs : c = ';'
        · subst hs; rw [bts_semi, bts_semi]
        · rw [bts_other _ _ hb hs, bts_other _ _ hb hs]

theorem bts_append (r x : Str) (h : blanksThenSemi r = true) : blanksThenSemi (r ++ x) = true := by
  induction r with
  | nil => rw [bts_nil] at h; cases h
  | cons c r ih =>
    by_cases hb : c = ' '
    · subst hb
      rw [bts_blank] at h
      simp only [List.cons_append]
      rw [bts_blank]; exact ih h
    · by_cases hs : c = ';'
      · subst hs; simp only [List.cons_append]; rw [bts_semi]
      · rw [bts_other _ _ hb hs] at h; cases h

theorem qts_cons (c : Char) (r : Str) :
    quoteThenSemi (c :: r) = ((c == '"' && blanksThenSemi r) || quoteThenSemi r) := by
  rw [quoteThenSemi]

theorem qts_nil : quoteThenSemi [] = false := by rw [quoteThenSemi]

/-- escaping keeps every quote and what follows it: a quote in front of ` *;` before iff after -/
theorem qts_escape (l : Str) : quoteThenSemi (escapeQuotes l) = quoteThenSemi l := by
  induction l with
  | nil => rw [escape_nil]
  | cons c r ih =>
    by_cases hq : c = '"'
    · subst hq
      rw [escape_quote, qts_cons, qts_cons, qts_cons, ih, bts_escape]
      simp
    · have hc : (c == '"') = false := by simpa using hq
      rw [escape_cons_ne _ _ hq, qts_cons, qts_cons, ih, hc]
      simp

theorem qts_append (p x : Str) (h : quoteThenSemi p = true) : quoteThenSemi (p ++ x) = true := by
  induction p with
  | nil => rw [qts_nil] at h; cases h
  | cons c r ih =>
    simp only [List.cons_append]
    rw [qts_cons] at h ⊢
    simp only [Bool.or_eq_true, Bool.and_eq_true] at h ⊢
    rcases h with ⟨h1, h2⟩ | h
    · exact Or.inl ⟨h1, bts_append r x h2⟩
    · exact Or.inr (ih h)

theorem rstripWs_prefix (s : Str) : ∃ x, s = rstripWs s ++ x := by
  refine ⟨(s.reverse.takeWhile isWs).reverse, ?_⟩
  unfold rstripWs
  rw [← List.reverse_append, List.takeWhile_append_dropWhile, List.reverse_reverse]

theorem closeOnLine_go_none (s pre : Str) (best : Option Str) (h : quoteThenSemi s = false) :
    closeOnLine.go pre best s = best := by
  induction s generalizing pre best with
  | nil => simp [closeOnLine.go]
  | cons c r ih =>
    rw [qts_cons] at h
    simp only [Bool.or_eq_false_iff] at h
    rw [closeOnLine.go, h.1]
    exact ih _ _ h.2

/-- the first line of a text over several lines is not taken for a complete comment -/
theorem first_line_open (l : Str) (h : quoteThenSemi l = false) : closeOnLine (rstripWs (escapeQuotes l)) = none := by
  unfold closeOnLine
  apply closeOnLine_go_none
  cases hq : quoteThenSemi (rstripWs (escapeQuotes l)) with
  | false => rfl
  | true =>
    obtain ⟨x, hx⟩ := rstripWs_prefix (escapeQuotes l)
    have := qts_append _ x hq
    rw [← hx, qts_escape, h] at this
    cases this

/-- greedy: of the quotes followed by ` *;` the last one closes - the one the writer appended -/
theorem closeOnLine_go_close (a pre : Str) (best : Option Str) :
    closeOnLine.go pre best (a ++ ['"', ';']) = some (pre.reverse ++ a) := by
  induction a generalizing pre best with
  | nil => simp [closeOnLine.go, blanksThenSemi]
  | cons c r ih =>
    simp only [List.cons_append]
    rw [closeOnLine.go, ih]
    simp

theorem rstripWs_close (e : Str) : rstripWs (e ++ ['"', ';']) = e ++ ['"', ';'] := by
  simp [rstripWs, isWs]

theorem close_on_line (e : Str) : closeOnLine (rstripWs (e ++ ['"', ';'])) = some e := by
  rw [rstripWs_close]
  unfold closeOnLine
  rw [closeOnLine_go_close]
  simp

theorem dropWhile_close (x : Str) : ∃ y, (x ++ ['"', ';']).dropWhile isWs = y ++ ['"', ';'] := by
  induction x with
  | nil => exact ⟨[], by simp [isWs]⟩
  | cons c r ih =>
    by_cases hc : isWs c = true
    · obtain ⟨y, hy⟩ := ih
      exact ⟨y, by simp only [List.cons_append, List.dropWhile_cons, hc, if_true]; exact hy⟩
    · exact ⟨c :: r, by simp only [List.cons_append, List.dropWhile_cons, hc]; rfl⟩

theorem endsStatement_close (x : Str) : endsStatement (x ++ ['"', ';']) = true := by
  obtain ⟨y, hy⟩ := dropWhile_close x
  unfold endsStatement stripWs
  rw [hy]
  simp [isWs]

theorem rstrip_snoc (x : Str) (c : Char) (h : isBlank c = false) : rstrip (x ++ [c]) = x ++ [c] := by
  simp [rstrip, h]

theorem dropClosing_close (x : Str) : dropClosing (x ++ ['"', ';']) = x := by
  have e : x ++ ['"', ';'] = (x ++ ['"']) ++ [';'] := by simp
  unfold dropClosing
  rw [e, rstrip_snoc _ _ (by decide), List.dropLast_concat, rstrip_snoc _ _ (by decide), List.dropLast_concat]

/-! ## the reader on the lines of the writer -/

/-- the follow-up lines: the middle ones are appended, the last one ends the statement; what follows is not looked at -/
theorem followUp_lines (mid : List Str) (last acc : Str) (more : List Str)
    (hmid : ∀ l ∈ mid, endsStatement (escapeQuotes l) = false) (hlast : last.getLast? ≠ some '\\') :
    followUp acc (mid.map escapeQuotes ++ (escapeQuotes last ++ ['"', ';']) :: more) =
      some (acc ++ '\n' :: joinLines (mid ++ [last])) := by
  induction mid generalizing acc with
  | nil =>
    simp only [List.map_nil, List.nil_append, joinLines]
    rw [followUp]
    simp only [endsStatement_close, if_true]
    rw [unescape_escape_close _ hlast]
    have e : acc ++ '\n' :: (last ++ ['"', ';']) = (acc ++ '\n' :: last) ++ ['"', ';'] := by simp
    rw [e, dropClosing_close]
  | cons m mid ih =>
    simp only [List.map_cons, List.cons_append]
    rw [followUp]
    simp only [hmid m (by simp), unescape_escape, Bool.false_eq_true, if_false]
    rw [ih _ (fun l hl => hmid l (List.mem_cons_of_mem _ hl)), joinLines_cons m _ (by simp)]
    simp

theorem read_one_line (t : Str) (rest : List Str) : readCommentBody (escapeQuotes t ++ ['"', ';']) rest = some t := by
  unfold readCommentBody
  rw [close_on_line]
  simp only [unescape_escape]

theorem read_lines (l0 : Str) (mid : List Str) (last : Str) (more : List Str) (h0 : quoteThenSemi l0 = false)
    (hmid : ∀ l ∈ mid, endsStatement (escapeQuotes l) = false) (hlast : last.getLast? ≠ some '\\') :
    readCommentBody (escapeQuotes l0) ((mid.map escapeQuotes ++ [escapeQuotes last ++ ['"', ';']]) ++ more) =
      some (joinLines (l0 :: (mid ++ [last]))) := by
  unfold readCommentBody
  rw [first_line_open l0 h0]
  simp only [unescape_escape, List.append_assoc, List.singleton_append]
  rw [followUp_lines mid last l0 more hmid hlast, joinLines_cons l0 _ (by simp)]

theorem getLast_joinLines (init : List Str) (last : Str) (c : Char) (h : last.getLast? = some c) :
    (joinLines (init ++ [last])).getLast? = some c := by
  have := joinLines_snoc_append init [] last
  simp only [List.nil_append] at this
  rw [← this, List.getLast?_append, h]
  rfl

theorem snoc_of_cons (a : Str) (r : List Str) : ∃ mid last, a :: r = mid ++ [last] ∧ (a :: r).dropLast = mid :=
  ⟨(a :: r).dropLast, (a :: r).getLast (by simp), (List.dropLast_concat_getLast _).symm, rfl⟩

/-- the round trip, with arbitrary lines after the statement -/
theorem roundtrip_more (t : Str) (h : wfComment t = true) (more : List Str) :
    ∃ first rest, renderCommentBody t = first :: rest ∧ readCommentBody first (rest ++ more) = some t := by
  obtain ⟨hne, hnl, hjoin⟩ := lines_of t
  cases hls : splitLines t with
  | nil => exact absurd hls hne
  | cons l0 tl =>
    rw [hls] at hnl hjoin
    cases tl with
    | nil =>
      simp only [joinLines] at hjoin
      subst hjoin
      have hr := render_lines [] l0 (by simpa using hnl)
      simp only [List.nil_append, joinLines, List.map_nil] at hr
      exact ⟨_, _, hr, read_one_line l0 _⟩
    | cons l1 r =>
      unfold wfComment at h
      rw [hls] at h
      simp only [Bool.and_eq_true, Bool.not_eq_true', List.all_eq_true, bne_iff_ne, ne_eq] at h
      obtain ⟨_, ⟨h0, hm⟩, hbs⟩ := h
      obtain ⟨mid, last, hml, hdl⟩ := snoc_of_cons l1 r
      rw [hdl] at hm
      rw [hml] at hnl hjoin
      have hlast : last.getLast? ≠ some '\\' := by
        intro hc
        have := getLast_joinLines (l0 :: mid) last _ hc
        rw [List.cons_append, hjoin] at this
        exact hbs this
      have hr := render_lines (l0 :: mid) last (by simpa using hnl)
      rw [List.cons_append, hjoin, List.map_cons, List.cons_append] at hr
      refine ⟨_, _, hr, ?_⟩
      rw [read_lines l0 mid last more h0 hm hlast, hjoin]

end CanVerif.Dbc.CommentProofs
