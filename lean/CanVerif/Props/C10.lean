import CanVerif.Model.Lookup
import CanVerif.Proofs.Lookup
/-!
# C10 — frame lookups stay coherent with the matrix over every edit history

At every point in any sequence of edits through the matrix API, looking a frame up by identifier,
name or PGN returns a frame that is currently in that matrix and carries the requested key, and
returns nothing exactly when no such frame exists; lookups in one matrix are never influenced by
the contents or history of any other matrix.

The theorems are by induction over the operation list: no bound on the length of the history, the
number of matrices or frames.
-/
namespace CanVerif.C10
open CanVerif

/-- memo invariant of one matrix: every memo entry points to a frame currently in that matrix -/
def MatInv (x : Mat) : Prop := ∀ e ∈ x.memo, e.2 ∈ x.frames

/-- invariant of the world -/
def Inv (w : World) : Prop := ∀ x ∈ w.mats, MatInv x

theorem inv_init : Inv {} := by
  intro x hx
  cases hx

/-- every operation preserves the invariant -/
theorem inv_step (w : World) (op : LOp) (h : Inv w) : Inv (step w op).1 := by
  exact LookupProofs.step_inv w op h

/-- hence it holds after every history -/
theorem inv_run (w : World) (ops : List LOp) (h : Inv w) : Inv (run w ops).1 := by
  induction ops generalizing w with
  | nil => exact h
  | cons op rest ih =>
    simp only [run]
    exact ih (step w op).1 (inv_step w op h)

/-! ## the memoised lookup by identifier refines the plain scan -/

theorem lookupId_sound (w : World) (x : Mat) (hx : MatInv x) (id : Nat) (ext : Bool) (h : Nat)
    (hr : (lookupId w x id ext).1 = some h) : h ∈ x.frames ∧ carriesId w id ext h = true := by
  exact LookupProofs.lookupId_sound w x hx id ext h hr

theorem lookupId_complete (w : World) (x : Mat) (hx : MatInv x) (id : Nat) (ext : Bool) :
    (lookupId w x id ext).1 = none ↔ ∀ h ∈ x.frames, carriesId w id ext h = false := by
  exact LookupProofs.lookupId_complete w x hx id ext

/-- the lookup changes nothing but the memo, and keeps the memo invariant -/
theorem lookupId_frames (w : World) (x : Mat) (hx : MatInv x) (id : Nat) (ext : Bool) :
    (lookupId w x id ext).2.frames = x.frames ∧ MatInv (lookupId w x id ext).2 := by
  exact ⟨LookupProofs.lookupId_frames_eq w x id ext, LookupProofs.lookupId_memo_inv w x hx id ext⟩

theorem lookupName_sound_complete (w : World) (x : Mat) (name : String) :
    (∀ h, lookupName w x name = some h → h ∈ x.frames ∧ ∃ o, w.obj h = some o ∧ o.name = name) ∧
    (lookupName w x name = none ↔ ∀ h ∈ x.frames, ∀ o, w.obj h = some o → o.name ≠ name) := by
  exact LookupProofs.lookupName_sound_complete w x name

theorem lookupPgn_sound_complete (w : World) (x : Mat) (p : Nat) (hp : p < 2 ^ 18) :
    ∃ q, ArbId.fromPgn p = .ok q ∧
    (∀ h, lookupPgn w x p = some h → h ∈ x.frames ∧ ∃ o, w.obj h = some o ∧ o.ext = true ∧
        ArbId.pgnOfId o.id = ArbId.pgnOfId q.id) ∧
    (lookupPgn w x p = none ↔ ∀ h ∈ x.frames, ∀ o, w.obj h = some o → o.ext = true →
        ArbId.pgnOfId o.id ≠ ArbId.pgnOfId q.id) := by
  exact LookupProofs.lookupPgn_sound_complete w x p hp

/-! ## every lookup of every history is coherent with the state it is asked in -/

/-- what the property demands of the output of one operation, judged against the state `w` in
which it is executed -/
def outOk (w : World) (op : LOp) (out : LOut) : Prop :=
  match op, out with
  | .byId m id ext, .found r =>
    ∃ x, w.mat m = some x ∧
      (match r with
       | some h => h ∈ x.frames ∧ carriesId w id ext h = true
       | none => ∀ h ∈ x.frames, carriesId w id ext h = false)
  | .byName m name, .found r =>
    ∃ x, w.mat m = some x ∧
      (match r with
       | some h => h ∈ x.frames ∧ ∃ o, w.obj h = some o ∧ o.name = name
       | none => ∀ h ∈ x.frames, ∀ o, w.obj h = some o → o.name ≠ name)
  | _, _ => True

def runOk : World → List LOp → Prop
  | _, [] => True
  | w, op :: rest => outOk w op (step w op).2 ∧ runOk (step w op).1 rest

/-- one operation, executed in a state satisfying the invariant, answers coherently -/
theorem outOk_step (w : World) (hw : Inv w) (op : LOp) : outOk w op (step w op).2 := by
  cases op with
  | byId m id ext =>
    simp only [step]
    split
    · rename_i x hx
      have hxI : MatInv x := hw x (LookupProofs.mat_mem hx)
      refine ⟨x, hx, ?_⟩
      cases hr : (lookupId w x id ext).1 with
      | none => exact (lookupId_complete w x hxI id ext).mp hr
      | some h => exact lookupId_sound w x hxI id ext h hr
    · trivial
  | byName m name =>
    simp only [step]
    split
    · rename_i x hx
      refine ⟨x, hx, ?_⟩
      cases hr : lookupName w x name with
      | none => exact (lookupName_sound_complete w x name).2.mp hr
      | some h => exact (lookupName_sound_complete w x name).1 h hr
    · trivial
  | _ => simp only [outOk]

/-- generalisation of `history_coherent`: from every state satisfying the invariant -/
theorem runOk_of_inv (w : World) (hw : Inv w) (ops : List LOp) : runOk w ops := by
  induction ops generalizing w with
  | nil => trivial
  | cons op rest ih => exact ⟨outOk_step w hw op, ih (step w op).1 (inv_step w op hw)⟩

/-- For every finite history of operations, starting from the empty world, every lookup returns a
frame currently in that matrix carrying the key, and nothing exactly when no such frame exists. -/
theorem history_coherent (ops : List LOp) : runOk {} ops := by
  exact runOk_of_inv {} inv_init ops

/-! ## no influence between matrices -/

/-- the matrices an operation may modify (its own frame list or memo) -/
def targets : LOp → List Nat
  | .addFrame m _ | .appendFrame m _ | .removeFrame m _ | .delFrame m _ | .delFrameByName m _
  | .addEcu m | .byId m _ _ => [m]
  | .copyFrame s d _ _ => [s, d]
  | .merge d s => [d, s]
  | _ => []

/-- Frame condition: an operation leaves every matrix it does not target exactly as it was (frame
list and memo); with `lookupId`/`lookupName`/`lookupPgn` being functions of the heap and the
matrix's own record only, a lookup in one matrix cannot be influenced by the contents or history of
another matrix. -/
theorem noninterference (w : World) (op : LOp) (i : Nat) (hi : i < w.mats.length)
    (hni : i ∉ targets op) : (step w op).1.mats[i]? = w.mats[i]? := by
  cases op with
  | newMatrix => exact List.getElem?_append_left hi
  | newFrame name id ext => rfl
  | addFrame m h =>
    have hm : i ≠ m := by simpa [targets] using hni
    simp only [step]; split
    · exact LookupProofs.setMat_mats_ne w _ hm
    · rfl
  | appendFrame m h =>
    have hm : i ≠ m := by simpa [targets] using hni
    simp only [step]; split
    · exact LookupProofs.setMat_mats_ne w _ hm
    · rfl
  | removeFrame m h =>
    have hm : i ≠ m := by simpa [targets] using hni
    simp only [step]; split
    · split
      · exact LookupProofs.setMat_mats_ne w _ hm
      · rfl
    · rfl
  | delFrame m h =>
    have hm : i ≠ m := by simpa [targets] using hni
    simp only [step]; split
    · split
      · exact LookupProofs.setMat_mats_ne w _ hm
      · rfl
    · rfl
  | delFrameByName m name =>
    have hm : i ≠ m := by simpa [targets] using hni
    simp only [step]; split
    · split
      · exact LookupProofs.setMat_mats_ne w _ hm
      · rfl
    · rfl
  | renameFrame m old new => simp only [step]; split <;> rfl
  | setId h id ext => simp only [step]; split <;> rfl
  | addEcu m =>
    have hm : i ≠ m := by simpa [targets] using hni
    simp only [step]; split
    · exact LookupProofs.setMat_mats_ne w _ hm
    · rfl
  | copyFrame src dst id ext =>
    have hm : i ≠ src ∧ i ≠ dst := by simpa [targets] using hni
    exact LookupProofs.copyFrameStep_mats_ne w src dst id ext i hm.1 hm.2
  | merge dst src =>
    have hm : i ≠ dst ∧ i ≠ src := by simpa [targets] using hni
    simp only [step]; split
    · rename_i xs _ _ _
      have hf := LookupProofs.foldl_copy_mats_ne w src dst xs.frames i hm.2 hm.1
      split
      · rw [LookupProofs.setMat_mats_ne _ _ hm.1]; exact hf
      · exact hf
    · rfl
  | deepcopy m =>
    simp only [step]; split
    · exact List.getElem?_append_left hi
    · rfl
  | loadMatrix fs => exact List.getElem?_append_left hi
  | byId m id ext =>
    have hm : i ≠ m := by simpa [targets] using hni
    simp only [step]; split
    · exact LookupProofs.setMat_mats_ne w _ hm
    · rfl
  | byName m name => simp only [step]; split <;> rfl
  | byPgn m p => simp only [step]; split <;> rfl

/-- frame objects change only by explicit frame edits (`setId`, `renameFrame`); every other
operation leaves all existing objects untouched (allocation only appends) -/
theorem heap_stable (w : World) (op : LOp) (h : Nat) (hh : h < w.heap.length)
    (hop : ∀ a b c, op ≠ .setId a b c) (hop' : ∀ a b c, op ≠ .renameFrame a b c) :
    (step w op).1.heap[h]? = w.heap[h]? := by
  obtain ⟨l, hl⟩ := LookupProofs.step_heap w op hop hop'
  rw [hl]
  exact List.getElem?_append_left hh

/-! non-vacuity: the three pre-fix failure histories now behave -/
example : (run {} [.newMatrix, .newFrame "A" 0x10 false, .addFrame 0 0, .byId 0 0x10 false,
                   .delFrame 0 0, .byId 0 0x10 false]).2.getLast? = some (.found none) := by decide
example : (run {} [.newMatrix, .newFrame "A" 0x10 false, .addFrame 0 0, .byId 0 0x10 false,
                   .setId 0 0x20 false, .byId 0 0x10 false, .byId 0 0x20 false]).2.drop 5
            = [.found none, .found (some 0)] := by decide

/-! ## lookup by header id (a plain scan) -/

/-- a frame is returned only if it is in the matrix and carries the requested header id -/
theorem byHeaderId_sound (frames : List (Nat × Option Nat)) (q h : Nat) (hr : byHeaderId frames q = some h) :
    (h, some q) ∈ frames := by
  unfold byHeaderId at hr
  cases hf : frames.find? (fun f => f.2 == some q) with
  | none => simp [hf] at hr
  | some f =>
    simp only [hf, Option.map_some, Option.some.injEq] at hr
    have hm := List.mem_of_find?_eq_some hf
    have hp := List.find?_some hf
    have : f.2 = some q := by simpa using hp
    rcases f with ⟨a, b⟩
    simp only at hr this
    subst hr; subst this
    exact hm

/-- nothing is returned exactly when no frame of the matrix carries the header id (0 is a header id like any other) -/
theorem byHeaderId_complete (frames : List (Nat × Option Nat)) (q : Nat) :
    byHeaderId frames q = none ↔ ∀ f ∈ frames, f.2 ≠ some q := by
  unfold byHeaderId
  simp only [Option.map_eq_none_iff, List.find?_eq_none, beq_iff_eq]

end CanVerif.C10
