import CanVerif.Model.DbcFile
import CanVerif.Proofs.DbcExact
import CanVerif.Props.C05n
/-!
# C05 — the file as `dump` writes it, line for line

`writeDbc` is the whole text of a DBC file of a matrix without environment variables: the fixed header, the `BU_:` line, the value
tables, the frame section, all statement sections, and the empty lines `dump` puts between them - compared with the real file **as a
whole** (every line, in order) on every generated matrix without environment variables (op `core`, flag `exact`).  The theorem of
Props/C05n holds for this text: the header is skipped, the empty lines stand where no comment is open.
-/
namespace CanVerif.C05o
open CanVerif CanVerif.Dbc CanVerif.Dbc.FileProofs

theorem dbc_file_roundtrip_line_for_line (es : List WEcu) (hes : wfEcus es = true) (ts : List WTable) (hts : wfTables ts = true)
    (ds : List DefLine) (hds : wfDefs ds = true) (dds : List DefDefLine) (hdds : wfDefaults ds dds = true)
    (ga : List (Str × Str)) (hga : wfAttrs (expectDefs ds dds) .global .global ga = true)
    (hea : ∀ e ∈ es, wfAttrs (expectDefs ds dds) .ecu (.ecu e.name) e.attrs = true)
    (ps : List (WFrame × (Nat × Bool))) (hwf : ∀ p ∈ ps, p.1.wf p.2 = true) (hdist : ps.Pairwise fun p q => p.2 ≠ q.2)
    (hfa : ∀ p ∈ ps, p.1.wfA (expectDefs ds dds) = true) :
    (readFile (writeDbc es ts ds dds ga (ps.map (·.1)))).ecus = es.map WEcu.expectA ∧
    (readFile (writeDbc es ts ds dds ga (ps.map (·.1)))).defs = expectDefs ds dds ∧
    (readFile (writeDbc es ts ds dds ga (ps.map (·.1)))).attrs = attrsOf ga ∧
    (readFile (writeDbc es ts ds dds ga (ps.map (·.1)))).frames = ps.map (fun p => p.1.expectA p.2) ∧
    (readFile (writeDbc es ts ds dds ga (ps.map (·.1)))).pending = none ∧
    (readFile (writeDbc es ts ds dds ga (ps.map (·.1)))).errors = 0 ∧
    (readFile (writeDbc es ts ds dds ga (ps.map (·.1)))).tables = ts.map WTable.line :=
  roundtrip_exact es hes ts hts ds hds dds hdds ga hga hea ps hwf hdist hfa

/-- the header leaves the reader in its initial state -/
theorem header_is_skipped : dbcHeader.foldl stepFile {} = {} := header_fold

/-- empty lines between complete statements change nothing: neither what can be read nor what is read -/
theorem empty_lines_between_statements (l : List FileStmt) (m : RMatrix) :
    okFile m l = okFile m (l.filter fun s => !isGap s) := okFile_filter_gaps l m

/-! ## non-vacuity -/

example : ((writeDbc CanVerif.C05k.exEcusA CanVerif.C05n.exTables [] [] [] []).take 13).map String.ofList =
    ["VERSION \"created by canmatrix\"", "", "", "NS_ :", "", "BS_:", "", "BU_: ECU_A ECU_B Gateway ", "",
     "VAL_TABLE_ Gear 0 \"N\" 1 \"D\" 15 \"invalid \\\"x\\\"\";", "VAL_TABLE_ Empty ;", "", ""] := by decide +kernel
example : (readFile (writeDbc CanVerif.C05k.exEcusA CanVerif.C05n.exTables CanVerif.C05k.exDefs CanVerif.C05k.exDefaults CanVerif.C05k.exGlobal
    (CanVerif.C05l.exFramesA.map (·.1)))).frames = CanVerif.C05l.exFramesA.map (fun p => p.1.expectA p.2) := by decide +kernel

end CanVerif.C05o
