import CanVerif.Model.Exports
import CanVerif.Spec.Exports
import CanVerif.Proofs.Codec
import CanVerif.Props.C08
/-! helper lemmas for C19 (one-way exports) -/
namespace CanVerif
open CanVerif.C08

theorem dbcStartOf_eq (s : Sig) :
    dbcStartOf s = ((if s.little then s.start else flipN s.start : Nat) : Int) := by
  unfold dbcStartOf getStartbit
  cases s.little <;> simp [flipI_ofNat]

theorem lsbStartOf_eq (s : Sig) (hz : 1 ≤ s.size) :
    lsbStartOf s = ((if s.little then s.start else flipN (s.start + s.size - 1) : Nat) : Int) := by
  unfold lsbStartOf getStartbit
  have e1 : ((s.start : Int) + (s.size : Int) - 1) = ((s.start + s.size - 1 : Nat) : Int) := by omega
  cases s.little <;> simp [flipI_ofNat, e1]

theorem internalStartOf_eq (s : Sig) : internalStartOf s = (s.start : Int) := by
  unfold internalStartOf getStartbit
  cases s.little <;> simp

theorem csvStartOf_nonneg (fmt : String) (s : Sig) (hz : 1 ≤ s.size) : 0 ≤ csvStartOf fmt s := by
  unfold csvStartOf
  rw [dbcStartOf_eq, lsbStartOf_eq s hz, internalStartOf_eq]
  split
  · exact Int.natCast_nonneg _
  · split <;> exact Int.natCast_nonneg _

/-- the buffer Wireshark reads -/
def wsBuf (s : Sig) (p : Payload) : Payload := if s.little then p.reverse else p
/-- the offset Wireshark reads at -/
def wsOff (s : Sig) (n : Nat) : Nat := if s.little then n * 8 - s.start - s.size else s.start

theorem wiresharkField_eq (n : Nat) (s : Sig) :
    wiresharkField n s = (if s.little then "reversed_pdu" else "pdu", wsOff s n, s.size) := by
  unfold wiresharkField wsOff
  cases s.little <;> simp

theorem wsBuf_eq (s : Sig) (p : Payload) :
    (if (if s.little then "reversed_pdu" else "pdu") == "reversed_pdu" then p.reverse else p) = wsBuf s p := by
  unfold wsBuf
  cases s.little
  · have : ("pdu" == "reversed_pdu") = false := by decide
    simp [this]
  · simp

/-- bit `i` of the Wireshark bitfield is the signal's bit of significance `i` -/
theorem ws_bit (s : Sig) (p : List Nat) (h : inFrame s p.length) (i : Nat) (hi : i < s.size) :
    payloadBit (wsBuf s p) (flipN (wsOff s p.length + s.size - 1 - i))
      = payloadBit p (sigAddr s.little s.start s.size i) := by
  obtain ⟨h1, h2⟩ := h
  unfold wsBuf wsOff sigAddr
  cases s.little
  · simp
  · simp only [if_true]
    rw [payloadBit_reverse _ _ (by unfold flipN; omega)]
    congr 1
    unfold flipN; omega

theorem tvb_eq_specRaw (s : Sig) (p : List Nat) (h : inFrame s p.length) :
    Spec.tvbBitfield (wsBuf s p) (wsOff s p.length) s.size = specRaw p s.little s.start s.size := by
  unfold Spec.tvbBitfield specRaw
  exact specSum_congr _ _ _ (fun i hi => ws_bit s p h i hi)

theorem tvb_one (s : Sig) (p : List Nat) (h : inFrame s p.length) :
    Spec.tvbBitfield (wsBuf s p) (wsOff s p.length) 1
      = (payloadBit p (sigAddr s.little s.start s.size (s.size - 1))).toNat := by
  have := ws_bit s p h (s.size - 1) (by have := h.2; omega)
  have e : wsOff s p.length + s.size - 1 - (s.size - 1) = wsOff s p.length := by have := h.2; omega
  rw [e] at this
  simp [Spec.tvbBitfield, specSum, this]

/-- the top bit decides whether the sum reaches `2^(n-1)` -/
theorem specSum_msb (f : Nat → Bool) (n : Nat) (hn : 1 ≤ n) :
    2 ^ (n - 1) ≤ specSum f n ↔ f (n - 1) = true := by
  obtain ⟨m, rfl⟩ : ∃ m, n = m + 1 := ⟨n - 1, by omega⟩
  simp only [specSum, Nat.add_sub_cancel]
  have := specSum_lt f m
  cases f m <;> simp <;> omega

end CanVerif
