import CanVerif.Model.Fields
import CanVerif.Props.C08
import CanVerif.Props.C09
/-!
# C06 — every write+read format preserves frame identity and signal bit layout (field kernels)

For each format the number its writer stores for a signal's position, fed to its reader, gives back
the signal's internal start bit - for every placement, width (≥ 1) and byte order; hence (width and
byte order being stored verbatim) the signal occupies exactly the same payload bits and every payload
decodes to the same raw fields.  The same for identifiers.  The file assembly around these fields
(XML/line plumbing) is tied by the correspondence check only (partial).
-/
namespace CanVerif.C06
open CanVerif

/-- querying a position and setting it again in the same notation is the identity -/
theorem set_get (little : Bool) (size : Nat) (i : Nat) (bn : Option Bool) (sl : Bool) (hz : 1 ≤ size) :
    setStartbit little size (getStartbit little size i bn sl) bn sl = some (i : Int) := by
  unfold setStartbit getStartbit flipI
  cases little <;> cases sl <;> rcases bn with _ | (_ | _) <;> simp <;> omega

/-- Intel positions do not depend on the notation switches: every writer stores the least significant bit's address -/
theorem emit_intel (f : Fmt) (s : Sig) (hl : s.little = true) : emitPos f s = (s.start : Int) := by
  unfold emitPos writeSwitches getStartbit notationSwitches
  cases f <;> simp [hl]
  all_goals (first | rfl | (rename_i w; cases w <;> simp) | (rename_i w r; cases w <;> simp))

/-- Layout round trip: for every format whose reader and writer agree on the notation, every signal
of width ≥ 1 comes back at its internal start bit. -/
theorem layout_roundtrip (f : Fmt) (s : Sig) (hz : 1 ≤ s.size) (hn : notationAgrees f = true) :
    parsePos f s.little s.size (emitPos f s) = some (s.start : Int) := by
  by_cases hl : s.little = true
  · rw [emit_intel f s hl]
    unfold parsePos readSwitches setStartbit
    simp [hl]
  · have hl' : s.little = false := by simpa using hl
    unfold parsePos emitPos readSwitches writeSwitches
    simp only [hl', Bool.false_eq_true, if_false]
    cases f with
    | dbc => exact set_get false s.size s.start _ _ hz
    | dbf => exact set_get false s.size s.start _ _ hz
    | sym => exact set_get false s.size s.start _ _ hz
    | kcd => exact set_get false s.size s.start _ _ hz
    | arxml => exact set_get false s.size s.start _ _ hz
    | json w =>
      have : w = .lsb := by simpa [notationAgrees] using hn
      subst this
      exact set_get false s.size s.start _ _ hz
    | xls w r =>
      have : w = r := by simpa [notationAgrees] using hn
      subst this
      exact set_get false s.size s.start _ _ hz

/-- The JSON writer's `msb`/`msbreverse` options are not inverted by the reader (which assumes `lsb`):
these option pairs are outside the property (witness: 12-bit Motorola signal). -/
theorem json_notation_mismatch :
    parsePos (.json .msb) false 12 (emitPos (.json .msb) { name := "s", start := 4, size := 12, little := false }) ≠ some 4 := by
  decide

/-- byte and bit columns (DBF, XLS) -/
theorem split_join (n : Int) (h : 0 ≤ n) :
    joinByteBit (splitByteBit n).1 (splitByteBit n).2 = n ∧ 1 ≤ (splitByteBit n).1 ∧
    0 ≤ (splitByteBit n).2 ∧ (splitByteBit n).2 < 8 := by
  unfold joinByteBit splitByteBit
  refine ⟨?_, ?_, ?_, ?_⟩ <;> omega

/-- stored positions are never negative, so the split is well defined -/
theorem emitPos_nonneg (f : Fmt) (s : Sig) (hz : 1 ≤ s.size) : 0 ≤ emitPos f s := by
  unfold emitPos
  rw [C08.get_other_notation s.little s.size s.start _ _ hz]
  exact Int.natCast_nonneg _

/-- Consequently every payload yields the same raw field before and after the round trip: a signal
read back with the same internal start bit, width and byte order decodes identically. -/
theorem decode_same_after_roundtrip (f : Fmt) (s t : Sig) (hz : 1 ≤ s.size) (hn : notationAgrees f = true)
    (hsize : t.size = s.size) (hlittle : t.little = s.little) (hsigned : t.signed = s.signed) (hfloat : t.isFloat = s.isFloat)
    (hstart : some (t.start : Int) = parsePos f s.little s.size (emitPos f s)) (p : List Nat) :
    rawOf t p = rawOf s p := by
  rw [layout_roundtrip f s hz hn] at hstart
  have : t.start = s.start := by
    have h' : (t.start : Int) = (s.start : Int) := by simpa using hstart
    exact_mod_cast h'
  unfold rawOf sliceBits
  rw [this, hsize, hlittle, hsigned, hfloat]

/-! ## identifiers -/

theorem id_roundtrip_dbc (a : ArbId) (hv : Spec.validId a.id a.ext = true) : parseIdDbc (emitIdDbc a) = .ok a :=
  C09.compound_roundtrip a hv

theorem id_roundtrip_plain (a : ArbId) (hv : Spec.validId a.id a.ext = true) : parseIdPlain (emitIdPlain a) = .ok a := by
  obtain ⟨b, hb⟩ := (C09.ctor_range (a.id : Int) a.ext).2 ⟨Int.natCast_nonneg _, by simpa using hv⟩
  have := C09.ctor_value _ _ _ hb
  unfold parseIdPlain emitIdPlain
  simp only
  rw [hb]
  congr 1
  cases a; cases b
  simp only at this ⊢
  obtain ⟨h1, h2⟩ := this
  rename_i i1 e1 i2 e2
  have h1' : i2 = i1 := by exact_mod_cast h1
  simp [h1', h2]

/-! non-vacuity -/
example : emitPos .dbf { name := "s", start := 4, size := 12, little := false } = 8 := by decide
example : splitByteBit 8 = (2, 0) := by decide
example : parsePos .dbf false 12 8 = some 4 := by decide

end CanVerif.C06
