import CanVerif.Spec.Codec
/-!
# Conventions of the target tools (C19) — trusted, written from the tools' documentation

* DBC convention (Scapy `SignalField`, FIBEX `BIT-POSITION` + `IS-HIGH-LOW-BYTE-ORDER`): the position is
  the LSB0 address of the least significant bit (Intel) or of the most significant bit (Motorola, then
  the sawtooth walk).
* LSB convention (Canard keys, csv/xls/json "lsb"): the position is the LSB0 address of the signal's
  least significant bit for both byte orders.
* "msbreverse" (csv/xls): Motorola positions count bits MSB-first from the start of the frame and name
  the most significant bit.
* Wireshark `tvb:bitfield(offset, len)`: `len` bits starting at big-endian bit offset `offset`
  (bit 0 = most significant bit of byte 0), most significant first.
-/
namespace CanVerif.Spec

def dbcAddr (little : Bool) (p size i : Nat) : Nat := if little then p + i else sawWalk (size - 1 - i) p
def lsbAddr (little : Bool) (p i : Nat) : Nat := if little then p + i else flipN (flipN p - i)
def msbrevAddr (little : Bool) (p size i : Nat) : Nat := if little then p + i else flipN (p + size - 1 - i)

/-- value of `tvb:bitfield(off, len)` over a byte buffer -/
def tvbBitfield (buf : Payload) (off len : Nat) : Nat :=
  specSum (fun i => payloadBit buf (flipN (off + len - 1 - i))) len

/-- the dissector's value for a signal: bitfield on `pdu` or on the byte-reversed `reversed_pdu`, with the sign fix-up -/
def wiresharkValue (p : Payload) (which : String) (off len : Nat) (fix : Option Nat) : Int :=
  let buf := if which == "reversed_pdu" then p.reverse else p
  let v := tvbBitfield buf off len
  match fix with
  | some k => if tvbBitfield buf off 1 == 1 then (v : Int) - (k : Int) else (v : Int)
  | none => (v : Int)

/-- the dissector's value with the sign probe read where the generated code reads it -/
def wiresharkValueProbe (p : Payload) (which : String) (off len : Nat) (probeWhich : String) (probeOff : Nat) (fix : Option Nat) : Int :=
  let buf := if which == "reversed_pdu" then p.reverse else p
  let pbuf := if probeWhich == "reversed_pdu" then p.reverse else p
  let v := tvbBitfield buf off len
  match fix with
  | some k => if tvbBitfield pbuf probeOff 1 == 1 then (v : Int) - (k : Int) else (v : Int)
  | none => (v : Int)

/-- FIBEX base data types (ASAM): name, container width, signed, float -/
def fibexTypes : List (String × Nat × Bool × Bool) :=
  [("A_INT8", 8, true, false), ("A_UINT8", 8, false, false), ("A_INT16", 16, true, false), ("A_UINT16", 16, false, false),
   ("A_INT32", 32, true, false), ("A_UINT32", 32, false, false), ("A_INT64", 64, true, false), ("A_UINT64", 64, false, false),
   ("A_FLOAT32", 32, true, true), ("A_FLOAT64", 64, true, true)]

/-- the recorded type states the signal's signedness / float-ness and a container at least as wide as the signal -/
def fibexTypeOk (t : Option String) (size : Nat) (signed isFloat : Bool) : Bool :=
  match t with
  | none => false
  | some ty =>
    match fibexTypes.find? (·.1 == ty) with
    | some (_, w, sg, fl) => decide (size ≤ w) && fl == isFloat && (isFloat || sg == signed)
    | none => false

end CanVerif.Spec
