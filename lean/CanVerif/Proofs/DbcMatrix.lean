import CanVerif.Proofs.DbcFile
/-!
# Statements of a DBC file hit exactly their targets (Model/DbcFile.lean): look-ups by identifier and by signal name under uniqueness,
and the effect of each statement kind that names a frame or a signal.
-/
namespace CanVerif.Dbc.FileProofs
open CanVerif CanVerif.Dbc

theorem findLast_go_none {α} (p : α → Bool) (l : List α) (i : Nat) (best : Option Nat) (h : ∀ a ∈ l, p a = false) :
    findLastIdx.go p i best l = best := by
  induction l generalizing i best with
  | nil => rfl
  | cons a r ih =>
    simp only [findLastIdx.go, h a (by simp), Bool.false_eq_true, if_false]
    exact ih _ _ (fun x hx => h x (List.mem_cons_of_mem _ hx))

/-- at most one element satisfies `p` -/
def AtMostOne {α} (p : α → Bool) : List α → Prop
  | [] => True
  | a :: r => (p a = true → ∀ b ∈ r, p b = false) ∧ AtMostOne p r

theorem findLast_go_unique {α} (p : α → Bool) (l : List α) (i : Nat) (h : AtMostOne p l) :
    findLastIdx.go p i none l = (l.findIdx? p).map (· + i) := by
  induction l generalizing i with
  | nil => rfl
  | cons a r ih =>
    obtain ⟨h1, h2⟩ := h
    by_cases ha : p a = true
    · simp only [findLastIdx.go, ha, if_true, List.findIdx?_cons, Option.map_some, Nat.zero_add]
      exact findLast_go_none p r _ _ (h1 ha)
    · have ha' : p a = false := by simpa using ha
      simp only [findLastIdx.go, ha', Bool.false_eq_true, if_false, List.findIdx?_cons]
      rw [ih (i + 1) h2]
      cases r.findIdx? p with
      | none => rfl
      | some j => simp [Nat.add_assoc, Nat.add_comm 1 i]

/-- with at most one match the last match is the first -/
theorem findLast_unique {α} (p : α → Bool) (l : List α) (h : AtMostOne p l) : findLastIdx p l = l.findIdx? p := by
  unfold findLastIdx
  rw [findLast_go_unique p l 0 h]
  cases l.findIdx? p <;> simp

theorem findIdx_unique {α} (p : α → Bool) (l : List α) (i : Nat) (f : α) (hget : l[i]? = some f) (hp : p f = true)
    (hu : AtMostOne p l) : l.findIdx? p = some i := by
  induction l generalizing i with
  | nil => simp at hget
  | cons a r ih =>
    obtain ⟨h1, h2⟩ := hu
    cases i with
    | zero =>
      simp only [List.getElem?_cons_zero, Option.some.injEq] at hget
      subst hget
      simp [List.findIdx?_cons, hp]
    | succ j =>
      simp only [List.getElem?_cons_succ] at hget
      have hmem : f ∈ r := List.mem_of_getElem? hget
      have ha : p a = false := by
        cases hpa : p a with
        | false => rfl
        | true => have := h1 hpa f hmem; rw [hp] at this; exact absurd this (by decide)
      simp only [List.findIdx?_cons, ha, Bool.false_eq_true, if_false]
      rw [ih j hget h2]
      rfl

/-- the identifiers of the frames are pairwise different -/
def KeysUnique (m : RMatrix) : Prop := m.frames.Pairwise fun a b => a.key ≠ b.key

theorem atMostOne_key (fs : List RFrame) (k : Nat × Bool) (h : fs.Pairwise fun a b => a.key ≠ b.key) :
    AtMostOne (fun f => f.key == k) fs := by
  induction fs with
  | nil => trivial
  | cons a r ih =>
    rw [List.pairwise_cons] at h
    refine ⟨?_, ih h.2⟩
    intro ha b hb
    have hak : a.key = k := by simpa using ha
    have := h.1 b hb
    rw [hak] at this
    simp only [beq_eq_false_iff_ne, ne_eq]
    exact fun e => this e.symm

/-- a frame number finds the frame whose identifier it denotes -/
theorem lookup_by_identifier (m : RMatrix) (hu : KeysUnique m) (i : Nat) (f : RFrame) (n : Nat)
    (hget : m.frames[i]? = some f) (hk : keyOfCompound n = some f.key) : frameIdx m n = some i := by
  unfold frameIdx
  rw [hk]
  simp only
  rw [findLast_unique _ _ (atMostOne_key m.frames f.key hu)]
  exact findIdx_unique _ _ i f hget (by simp) (atMostOne_key m.frames f.key hu)

/-- ... and a number that denotes the identifier of no frame finds none -/
theorem lookup_unknown (m : RMatrix) (n : Nat) (k : Nat × Bool) (hk : keyOfCompound n = some k)
    (hno : ∀ f ∈ m.frames, f.key ≠ k) : frameIdx m n = none := by
  unfold frameIdx findLastIdx
  rw [hk]
  simp only
  exact findLast_go_none _ _ _ _ (fun f hf => by simpa using hno f hf)

theorem modifyAt_get {α} (l : List α) (i j : Nat) (g : α → α) :
    (modifyAt l i g)[j]? = if j = i then (l[j]?).map g else l[j]? := by
  induction l generalizing i j with
  | nil => simp [modifyAt]
  | cons a r ih =>
    cases i with
    | zero =>
      cases j with
      | zero => simp [modifyAt]
      | succ j => simp [modifyAt]
    | succ i =>
      cases j with
      | zero => simp [modifyAt]
      | succ j => simp [modifyAt, ih]

theorem modifyAt_length {α} (l : List α) (i : Nat) (g : α → α) : (modifyAt l i g).length = l.length := by
  induction l generalizing i with
  | nil => rfl
  | cons a r ih => cases i <;> simp [modifyAt, ih]

theorem key_of_frameIdx (m : RMatrix) (n i : Nat) (h : frameIdx m n = some i) : (keyOfCompound n).isNone = false := by
  have := frameIdx_some_key m n i h
  cases hk : keyOfCompound n with
  | none => rw [hk] at this; simp at this
  | some k => rfl

/-- the signal names of a frame are pairwise different -/
def NamesUnique (f : RFrame) : Prop := f.sigs.Pairwise fun a b => a.sg.name ≠ b.sg.name

theorem lookup_signal (f : RFrame) (hu : NamesUnique f) (j : Nat) (s : RSig) (hget : f.sigs[j]? = some s) :
    sigIdx f s.sg.name = some j := by
  unfold sigIdx
  apply findIdx_unique _ _ j s hget (by simp)
  have : ∀ (l : List RSig), l.Pairwise (fun a b => a.sg.name ≠ b.sg.name) → AtMostOne (fun x => x.sg.name == s.sg.name) l := by
    intro l hl
    induction l with
    | nil => trivial
    | cons a r ih =>
      rw [List.pairwise_cons] at hl
      refine ⟨?_, ih hl.2⟩
      intro ha b hb
      have hak : a.sg.name = s.sg.name := by simpa using ha
      have := hl.1 b hb
      rw [hak] at this
      simp only [beq_eq_false_iff_ne, ne_eq]
      exact fun e => this e.symm
  exact this _ hu

/-! effects of statements that name a frame (and a signal): exactly the target changes -/

theorem effect_cm_bo (m : RMatrix) (n i : Nat) (text : Str) (h : frameIdx m n = some i) :
    applyItem m (.cm (.bo n) text) = ({ m with cur := some i }).modFrame i fun f => { f with comment := some text } := by
  simp only [applyItem, Item.frameNo, key_of_frameIdx m n i h, Bool.false_eq_true, if_false, applyCore, h]

theorem effect_tx (m : RMatrix) (t : TxLine) (i : Nat) (h : frameIdx m t.id = some i) :
    applyItem m (.tx t) = ({ m with cur := some i }).modFrame i fun f => { f with transmitters := addTransmitters f.transmitters t.ecus } := by
  simp only [applyItem, Item.frameNo, key_of_frameIdx m t.id i h, Bool.false_eq_true, if_false, applyCore, h]

theorem effect_cm_sg (m : RMatrix) (n i j : Nat) (name text : Str) (f : RFrame) (h : frameIdx m n = some i)
    (hf : m.frames[i]? = some f) (hs : sigIdx f name = some j) :
    applyItem m (.cm (.sg n name) text) =
      ({ m with cur := some i }).modFrame i fun f => f.modSig j fun s => { s with comment := some text } := by
  simp only [applyItem, Item.frameNo, key_of_frameIdx m n i h, Bool.false_eq_true, if_false, applyCore, h, hf, Option.bind_some, hs]

theorem effect_val (m : RMatrix) (v : ValLine) (i j : Nat) (f : RFrame) (h : frameIdx m v.id = some i)
    (hf : m.frames[i]? = some f) (hs : sigIdx f v.name = some j) :
    applyItem m (.val v) =
      ({ m with cur := some i }).modFrame i fun f => f.modSig j fun s =>
        { s with values := v.entries.foldl (fun acc (k, t) => assocSet acc k t) s.values } := by
  simp only [applyItem, Item.frameNo, key_of_frameIdx m v.id i h, Bool.false_eq_true, if_false, applyCore, h, hf, Option.bind_some, hs]

theorem effect_valtype (m : RMatrix) (n i j : Nat) (name : Str) (f : RFrame) (h : frameIdx m n = some i)
    (hf : m.frames[i]? = some f) (hs : sigIdx f name = some j) :
    applyItem m (.valtype n name) =
      ({ m with cur := some i }).modFrame i fun f => f.modSig j fun s => { s with isFloat := true } := by
  simp only [applyItem, Item.frameNo, key_of_frameIdx m n i h, Bool.false_eq_true, if_false, applyCore, h, hf, Option.bind_some, hs]

theorem effect_mul (m : RMatrix) (ml : MulLine) (i j : Nat) (f : RFrame) (h : frameIdx m ml.id = some i)
    (hf : m.frames[i]? = some f) (hs : sigIdx f ml.sig = some j) :
    applyItem m (.mul ml) =
      ({ m with cur := some i }).modFrame i fun f =>
        { (f.modSig j fun s => { s with muxer := some ml.muxer, ranges := s.ranges ++ ml.ranges }) with complexMux := true } := by
  simp only [applyItem, Item.frameNo, key_of_frameIdx m ml.id i h, Bool.false_eq_true, if_false, applyCore, h, hf, Option.bind_some, hs]

theorem effect_ba_signal (m : RMatrix) (attr v name : Str) (n i j : Nat) (f : RFrame) (h : frameIdx m n = some i)
    (hf : m.frames[i]? = some f) (hs : sigIdx f name = some j) (hnum : numericOk m .signal attr v = true) :
    applyItem m (.ba ⟨attr, .signal n name, v⟩) =
      m.modFrame i fun f => f.modSig j fun s => { s with attrs := assocSet s.attrs attr (stripWs v) } := by
  simp only [applyItem, Item.frameNo, key_of_frameIdx m n i h, Bool.false_eq_true, if_false, applyCore, h, hf, Option.bind_some, hs, hnum,
    Bool.not_true]

theorem effect_ba_frame (m : RMatrix) (attr v : Str) (n i : Nat) (h : frameIdx m n = some i) (hnum : numericOk m .frame attr v = true) :
    applyItem m (.ba ⟨attr, .frame n, v⟩) = m.modFrame i fun f => { f with attrs := assocSet f.attrs attr (stripWs v) } := by
  simp only [applyItem, Item.frameNo, key_of_frameIdx m n i h, Bool.false_eq_true, if_false, applyCore, h, hnum, Bool.not_true]

theorem effect_grp (m : RMatrix) (g : GroupLine) (i : Nat) (h : frameIdx m g.frameId = some i) :
    applyItem m (.grp g) = ({ m with cur := some i }).modFrame i fun f => { f with groups := f.groups ++ [groupOf f g] } := by
  simp only [applyItem, Item.frameNo, key_of_frameIdx m g.frameId i h, Bool.false_eq_true, if_false, applyCore, h]

/-- frame condition of `modFrame`: every other frame stays what it was -/
theorem modFrame_get (m : RMatrix) (i k : Nat) (g : RFrame → RFrame) :
    (m.modFrame i g).frames[k]? = if k = i then (m.frames[k]?).map g else m.frames[k]? :=
  modifyAt_get m.frames i k g

theorem modSig_get (f : RFrame) (j k : Nat) (g : RSig → RSig) :
    (f.modSig j g).sigs[k]? = if k = j then (f.sigs[k]?).map g else f.sigs[k]? :=
  modifyAt_get f.sigs j k g

/-- reading the comment statement written for a signal of a matrix with pairwise different identifiers gives the comment to exactly that signal -/
theorem written_signal_comment (m : RMatrix) (hm : m.pending = none) (hu : KeysUnique m) (i j n : Nat) (f : RFrame) (s : RSig)
    (hf : m.frames[i]? = some f) (hn : NamesUnique f) (hs : f.sigs[j]? = some s) (hk : keyOfCompound n = some f.key)
    (text : Str) (hname : isIdent s.sg.name = true) (htext : wfComment text = true) :
    (cmLines (.sg n s.sg.name) text).foldl stepFile m =
      ({ m with cur := some i }).modFrame i fun f => f.modSig j fun s => { s with comment := some text } := by
  have hfi := lookup_by_identifier m hu i f n hf hk
  rw [fold_cm m (.sg n s.sg.name) text hm (by simp [FileStmt.okIn, wfCmHead, hname, htext, hfi])]
  exact effect_cm_sg m n i j s.sg.name text f hfi hf (lookup_signal f hn j s hs)

/-- ... the `VAL_` statement gives its entries to exactly that signal -/
theorem written_value_table (m : RMatrix) (hm : m.pending = none) (hu : KeysUnique m) (i j : Nat) (f : RFrame) (s : RSig)
    (hf : m.frames[i]? = some f) (hn : NamesUnique f) (hs : f.sigs[j]? = some s) (v : ValLine) (hk : keyOfCompound v.id = some f.key)
    (hname : v.name = s.sg.name) (hw : (Stmt.val v).wf = true) :
    stepFile m (renderVal v) =
      ({ m with cur := some i }).modFrame i fun f => f.modSig j fun s =>
        { s with values := v.entries.foldl (fun acc (k, t) => assocSet acc k t) s.values } := by
  have hfi := lookup_by_identifier m hu i f v.id hf hk
  have := step_stmt m (.val v) hm hw
  simp only [Stmt.line, applyStmt, Stmt.item] at this
  rw [this]
  exact effect_val m v i j f hfi hf (by rw [hname]; exact lookup_signal f hn j s hs)

/-- ... and a `BA_ … SG_` statement sets the attribute of exactly that signal (for a value the attribute's definition admits) -/
theorem written_signal_attribute (m : RMatrix) (hm : m.pending = none) (hu : KeysUnique m) (i j n : Nat) (f : RFrame) (s : RSig)
    (hf : m.frames[i]? = some f) (hn : NamesUnique f) (hs : f.sigs[j]? = some s) (hk : keyOfCompound n = some f.key)
    (attr v : Str) (hw : (Stmt.ba ⟨attr, .signal n s.sg.name, v⟩).wf = true) (hnum : numericOk m .signal attr v = true) :
    stepFile m (renderBa ⟨attr, .signal n s.sg.name, v⟩) =
      m.modFrame i fun f => f.modSig j fun s => { s with attrs := assocSet s.attrs attr (stripWs v) } := by
  have hfi := lookup_by_identifier m hu i f n hf hk
  have := step_stmt m (.ba ⟨attr, .signal n s.sg.name, v⟩) hm hw
  simp only [Stmt.line, applyStmt, Stmt.item] at this
  rw [this]
  exact effect_ba_signal m attr v s.sg.name n i j f hfi hf (lookup_signal f hn j s hs) hnum

/-! ## the frame section builds the frames -/

/-- the frame a `BO_` line makes -/
def frameOfBo (b : BoLine) (k : Nat × Bool) : RFrame := { key := k, name := b.name, size := b.size, transmitters := [b.transmitter] }

theorem apply_bo (m : RMatrix) (b : BoLine) (k : Nat × Bool) (hk : boKey b = some k) :
    applyItem m (.bo b) = { m with frames := m.frames ++ [frameOfBo b k], cur := some m.frames.length } := by
  simp only [applyItem, Item.frameNo, applyCore, hk]
  rfl

theorem modifyAt_last {α} (l : List α) (a : α) (g : α → α) : modifyAt (l ++ [a]) l.length g = l ++ [g a] := by
  induction l with
  | nil => rfl
  | cons x r ih => simp [modifyAt, ih]

/-- a `SG_` line appends its signal to the frame that was opened last -/
theorem apply_sg_last (m : RMatrix) (fs : List RFrame) (f : RFrame) (s : SgLine) (hf : m.frames = fs ++ [f]) (hc : m.cur = some fs.length) :
    applyItem m (.sg s) =
      { m with frames := fs ++ [{ f with sigs := f.sigs ++ [{ sg := s }],
                                          complexMux := f.complexMux || tagIsValMuxer s.tag }] } := by
  simp only [applyItem, Item.frameNo, applyCore, hc, RMatrix.modFrame, hf, modifyAt_last]

def sigsOf (ss : List SgLine) : List RSig := ss.map fun s => { sg := s }

theorem rereadSg_tag (s : SgLine) : (rereadSg s).tag = s.tag := rfl

theorem sgs_fold (sigs : List SgLine) (m : RMatrix) (fs : List RFrame) (f : RFrame) (hf : m.frames = fs ++ [f])
    (hc : m.cur = some fs.length) (hm : m.pending = none) (hw : ∀ s ∈ sigs, wfSg s = true) :
    (sigs.map renderSg).foldl stepFile m =
      { m with frames := fs ++ [{ f with sigs := f.sigs ++ sigsOf (sigs.map rereadSg),
                                          complexMux := f.complexMux || sigs.any fun s => tagIsValMuxer s.tag }] } := by
  induction sigs generalizing m f with
  | nil =>
    simp only [List.map_nil, List.foldl_nil, sigsOf, List.append_nil, List.any_nil, Bool.or_false]
    cases m; simp_all
  | cons s sigs ih =>
    simp only [List.map_cons, List.foldl_cons]
    have h1 := step_stmt m (.sg s) hm (hw s (by simp))
    simp only [Stmt.line, applyStmt, Stmt.item] at h1
    rw [h1, apply_sg_last m fs f (rereadSg s) hf hc]
    let f' : RFrame := { f with sigs := f.sigs ++ [{ sg := rereadSg s }], complexMux := f.complexMux || tagIsValMuxer (rereadSg s).tag }
    refine Eq.trans (ih { m with frames := fs ++ [f'] } f' rfl hc hm
      (fun x hx => hw x (List.mem_cons_of_mem _ hx))) ?_
    simp [f', sigsOf, rereadSg_tag, Bool.or_assoc]

/-- the frame a written block makes -/
def frameOfBlock (b : Block) (k : Nat × Bool) : RFrame :=
  { key := k, name := b.bo.name, size := b.bo.size, transmitters := [b.bo.transmitter], sigs := sigsOf (b.sigs.map rereadSg),
    complexMux := b.sigs.any fun s => tagIsValMuxer s.tag }

theorem step_gap (m : RMatrix) (hm : m.pending = none) : stepFile m [] = m := by
  have := step_stmt m .gap hm rfl
  simpa [Stmt.line, applyStmt, Stmt.item] using this

theorem block_fold (b : Block) (k : Nat × Bool) (m : RMatrix) (hm : m.pending = none) (hw : wfBlock b = true)
    (hk : boKey b.bo = some k) :
    (writeBlock b).foldl stepFile m = { m with frames := m.frames ++ [frameOfBlock b k], cur := some m.frames.length } := by
  obtain ⟨hbo, hsg⟩ := wfBlock_unpack hw
  unfold writeBlock
  simp only [List.foldl_cons, List.foldl_append, List.foldl_nil]
  have h1 := step_stmt m (.bo b.bo) hm hbo
  simp only [Stmt.line, applyStmt, Stmt.item] at h1
  rw [h1, apply_bo m b.bo k hk]
  have h2 := sgs_fold b.sigs { m with frames := m.frames ++ [frameOfBo b.bo k], cur := some m.frames.length } m.frames
    (frameOfBo b.bo k) rfl rfl hm hsg
  rw [h2, step_gap _ (by exact hm)]
  simp [frameOfBlock, frameOfBo, sigsOf]

/-- the frames a written frame section makes, in their order -/
def framesOfBlocks : List Block → List (Nat × Bool) → List RFrame
  | b :: bs, k :: ks => frameOfBlock b k :: framesOfBlocks bs ks
  | _, _ => []

/-- reading the written frame section appends its frames, each with its signals, in the order of the file -/
theorem frames_fold (bs : List Block) (ks : List (Nat × Bool)) (m : RMatrix) (hm : m.pending = none)
    (hw : ∀ b ∈ bs, wfBlock b = true) (hk : bs.map (fun b => boKey b.bo) = ks.map some) :
    ((writeFrames bs).foldl stepFile m).frames = m.frames ++ framesOfBlocks bs ks ∧
    ((writeFrames bs).foldl stepFile m).pending = none ∧
    ((writeFrames bs).foldl stepFile m).ecus = m.ecus ∧ ((writeFrames bs).foldl stepFile m).errors = m.errors := by
  induction bs generalizing ks m with
  | nil => simp [writeFrames, framesOfBlocks, hm]
  | cons b bs ih =>
    cases ks with
    | nil => simp at hk
    | cons k ks =>
      simp only [List.map_cons, List.cons.injEq] at hk
      simp only [writeFrames, List.flatMap_cons, List.foldl_append]
      rw [block_fold b k m hm (hw b (by simp)) hk.1]
      have := ih ks { m with frames := m.frames ++ [frameOfBlock b k], cur := some m.frames.length } hm
        (fun x hx => hw x (List.mem_cons_of_mem _ hx)) hk.2
      simp only [writeFrames] at this
      refine ⟨?_, this.2.1, this.2.2.1, this.2.2.2⟩
      rw [this.1]
      simp [framesOfBlocks]

/-! ## frames after a sequence of statements: every frame goes through the updates of the statements that name it -/

/-- change the first signal of that name -/
def modSigByName (name : Str) (g : RSig → RSig) (f : RFrame) : RFrame :=
  match sigIdx f name with
  | some j => f.modSig j g
  | none => f

/-- what a statement does to a frame whose identifier its number denotes (statements about frames and signals) -/
def itemFrameUpd : Item → Option (Nat × (RFrame → RFrame))
  | .tx t => some (t.id, fun f => { f with transmitters := addTransmitters f.transmitters t.ecus })
  | .cm (.bo n) text => some (n, fun f => { f with comment := some text })
  | .cm (.sg n name) text => some (n, modSigByName name fun s => { s with comment := some text })
  | .val v => some (v.id, modSigByName v.name fun s => { s with values := v.entries.foldl (fun acc (k, t) => assocSet acc k t) s.values })
  | .valtype n name => some (n, modSigByName name fun s => { s with isFloat := true })
  | .grp g => some (g.frameId, fun f => { f with groups := f.groups ++ [groupOf f g] })
  | .mul ml => some (ml.id, fun f =>
      match sigIdx f ml.sig with
      | some j => { (f.modSig j fun s => { s with muxer := some ml.muxer, ranges := s.ranges ++ ml.ranges }) with complexMux := true }
      | none => f)
  | _ => none

/-- applied to every frame: the frames with the identifier the number denotes change -/
def updByNumber (n : Nat) (g : RFrame → RFrame) (f : RFrame) : RFrame :=
  if keyOfCompound n == some f.key then g f else f

theorem modifyAt_eq_map {α} (l : List α) (i : Nat) (g : α → α) (p : α → Bool)
    (hi : ∀ a, l[i]? = some a → p a = true) (hu : ∀ j a, l[j]? = some a → p a = true → j = i) :
    modifyAt l i g = l.map fun a => if p a then g a else a := by
  induction l generalizing i with
  | nil => rfl
  | cons x r ih =>
    cases i with
    | zero =>
      have hx : p x = true := hi x rfl
      simp only [modifyAt, List.map_cons, hx, if_true, List.cons.injEq, true_and]
      have : ∀ a ∈ r, p a = false := by
        intro a ha
        obtain ⟨j, hj⟩ := List.getElem?_of_mem ha
        cases hpa : p a with
        | false => rfl
        | true => have := hu (j + 1) a (by simpa using hj) hpa; omega
      rw [List.map_congr_left (g := id)]
      · simp
      · intro a ha; simp [this a ha]
    | succ i =>
      have hx : p x = false := by
        cases hpx : p x with
        | false => rfl
        | true => have := hu 0 x rfl hpx; omega
      simp only [modifyAt, List.map_cons, hx, Bool.false_eq_true, if_false, List.cons.injEq, true_and]
      exact ih i (fun a ha => hi a (by simpa using ha)) (fun j a hj hp => by have := hu (j + 1) a (by simpa using hj) hp; omega)

theorem findIdx_some_spec {α} (p : α → Bool) (l : List α) (i : Nat) (h : l.findIdx? p = some i) :
    ∃ a, l[i]? = some a ∧ p a = true := by
  induction l generalizing i with
  | nil => simp at h
  | cons x r ih =>
    simp only [List.findIdx?_cons] at h
    by_cases hx : p x = true
    · simp only [hx, if_true, Option.some.injEq] at h
      subst h
      exact ⟨x, rfl, hx⟩
    · simp only [hx, Bool.false_eq_true, if_false, Option.map_eq_some_iff] at h
      obtain ⟨j, hj, rfl⟩ := h
      obtain ⟨a, ha, hp⟩ := ih j hj
      exact ⟨a, by simpa using ha, hp⟩

theorem findIdx_none_spec {α} (p : α → Bool) (l : List α) (h : l.findIdx? p = none) : ∀ a ∈ l, p a = false := by
  induction l with
  | nil => simp
  | cons x r ih =>
    simp only [List.findIdx?_cons] at h
    by_cases hx : p x = true
    · simp [hx] at h
    · simp only [hx, Bool.false_eq_true, if_false, Option.map_eq_none_iff] at h
      intro a ha
      rcases List.mem_cons.mp ha with rfl | ha
      · simpa using hx
      · exact ih h a ha

theorem atMostOne_index {α} (p : α → Bool) (l : List α) (h : AtMostOne p l) (i j : Nat) (a b : α)
    (hi : l[i]? = some a) (hj : l[j]? = some b) (ha : p a = true) (hb : p b = true) : j = i := by
  induction l generalizing i j with
  | nil => simp at hi
  | cons x r ih =>
    obtain ⟨h1, h2⟩ := h
    cases i with
    | zero =>
      cases j with
      | zero => rfl
      | succ j =>
        simp at hi; subst hi
        have := h1 ha b (List.mem_of_getElem? (by simpa using hj))
        rw [hb] at this; exact absurd this (by decide)
    | succ i =>
      cases j with
      | zero =>
        simp at hj; subst hj
        have := h1 hb a (List.mem_of_getElem? (by simpa using hi))
        rw [ha] at this; exact absurd this (by decide)
      | succ j =>
        have := ih h2 i j (by simpa using hi) (by simpa using hj)
        omega

theorem modifyAt_id_at {α} (l : List α) (i : Nat) (g : α → α) (h : ∀ a, l[i]? = some a → g a = a) : modifyAt l i g = l := by
  induction l generalizing i with
  | nil => rfl
  | cons x r ih =>
    cases i with
    | zero => simp [modifyAt, h x rfl]
    | succ i => simp only [modifyAt, List.cons.injEq, true_and]; exact ih i (fun a ha => h a (by simpa using ha))

theorem modifyAt_congr_at {α} (l : List α) (i : Nat) (g h : α → α) (hh : ∀ a, l[i]? = some a → g a = h a) :
    modifyAt l i g = modifyAt l i h := by
  induction l generalizing i with
  | nil => rfl
  | cons x r ih =>
    cases i with
    | zero => simp [modifyAt, hh x rfl]
    | succ i => simp only [modifyAt, List.cons.injEq, true_and]; exact ih i (fun a ha => hh a (by simpa using ha))

/-- under pairwise different identifiers, changing the frame a number finds is changing every frame with the identifier it denotes -/
theorem modFrame_as_map (m : RMatrix) (hu : KeysUnique m) (n i : Nat) (g : RFrame → RFrame) (h : frameIdx m n = some i) :
    modifyAt m.frames i g = m.frames.map (updByNumber n g) := by
  unfold frameIdx at h
  cases hk : keyOfCompound n with
  | none => rw [hk] at h; simp at h
  | some k =>
    rw [hk] at h
    simp only at h
    have hamo := atMostOne_key m.frames k hu
    rw [findLast_unique _ _ hamo] at h
    obtain ⟨a, ha, hpa⟩ := findIdx_some_spec _ _ _ h
    rw [modifyAt_eq_map m.frames i g (fun f => f.key == k)
      (fun b hb => by rw [ha] at hb; injection hb with hb; subst hb; exact hpa)
      (fun j b hj hb => atMostOne_index _ _ hamo i j a b ha hj hpa hb)]
    apply List.map_congr_left
    intro f _
    unfold updByNumber
    rw [hk]
    by_cases hf : f.key = k
    · simp [hf]
    · have : ¬ k = f.key := fun e => hf e.symm
      simp [hf, this]

theorem no_frame_map (m : RMatrix) (n : Nat) (g : RFrame → RFrame) (h : frameIdx m n = none) (hu : KeysUnique m) :
    m.frames.map (updByNumber n g) = m.frames := by
  unfold frameIdx at h
  cases hk : keyOfCompound n with
  | none =>
    have : ∀ f : RFrame, updByNumber n g f = f := by intro f; simp [updByNumber, hk]
    rw [List.map_congr_left (g := id) (fun f _ => this f)]
    simp
  | some k =>
    rw [hk] at h
    simp only at h
    rw [findLast_unique _ _ (atMostOne_key m.frames k hu)] at h
    have hno := findIdx_none_spec _ _ h
    rw [List.map_congr_left (g := id)]
    · simp
    · intro f hf
      have := hno f hf
      have hne : ¬ k = f.key := by
        intro e; rw [e] at this; simp at this
      simp [updByNumber, hk, hne]

theorem frameIdx_valid (m : RMatrix) (hu : KeysUnique m) (n i : Nat) (h : frameIdx m n = some i) : ∃ a, m.frames[i]? = some a := by
  unfold frameIdx at h
  cases hk : keyOfCompound n with
  | none => rw [hk] at h; simp at h
  | some k =>
    rw [hk] at h
    simp only at h
    rw [findLast_unique _ _ (atMostOne_key m.frames k hu)] at h
    obtain ⟨a, ha, _⟩ := findIdx_some_spec _ _ _ h
    exact ⟨a, ha⟩

theorem frameIdx_none_of_key (m : RMatrix) (n : Nat) (h : (keyOfCompound n).isNone = true) : frameIdx m n = none := by
  unfold frameIdx
  cases hk : keyOfCompound n with
  | none => rfl
  | some k => rw [hk] at h; simp at h

/-- the frames after a statement about a frame or a signal: every frame with the identifier the statement's number denotes is changed
by the statement's update, all others stay -/
theorem applyItem_frames (m : RMatrix) (hu : KeysUnique m) (it : Item) (n : Nat) (g : RFrame → RFrame)
    (hit : itemFrameUpd it = some (n, g)) : (applyItem m it).frames = m.frames.map (updByNumber n g) := by
  cases hfi : frameIdx m n with
  | none =>
    rw [no_frame_map m n g hfi hu]
    cases it with
    | tx t =>
      simp only [itemFrameUpd, Option.some.injEq, Prod.mk.injEq] at hit; obtain ⟨rfl, rfl⟩ := hit
      simp only [applyItem, Item.frameNo, applyCore, hfi]
      split <;> rfl
    | val v =>
      simp only [itemFrameUpd, Option.some.injEq, Prod.mk.injEq] at hit; obtain ⟨rfl, rfl⟩ := hit
      simp only [applyItem, Item.frameNo, applyCore, hfi]
      split <;> rfl
    | valtype id name =>
      simp only [itemFrameUpd, Option.some.injEq, Prod.mk.injEq] at hit; obtain ⟨rfl, rfl⟩ := hit
      simp only [applyItem, Item.frameNo, applyCore, hfi]
      split <;> rfl
    | grp g =>
      simp only [itemFrameUpd, Option.some.injEq, Prod.mk.injEq] at hit; obtain ⟨rfl, rfl⟩ := hit
      simp only [applyItem, Item.frameNo, applyCore, hfi]
      split <;> rfl
    | mul ml =>
      simp only [itemFrameUpd, Option.some.injEq, Prod.mk.injEq] at hit; obtain ⟨rfl, rfl⟩ := hit
      simp only [applyItem, Item.frameNo, applyCore, hfi]
      split <;> rfl
    | cm hd text =>
      cases hd with
      | bo id =>
        simp only [itemFrameUpd, Option.some.injEq, Prod.mk.injEq] at hit; obtain ⟨rfl, rfl⟩ := hit
        simp only [applyItem, Item.frameNo, applyCore, hfi]
        split <;> rfl
      | sg id name =>
        simp only [itemFrameUpd, Option.some.injEq, Prod.mk.injEq] at hit; obtain ⟨rfl, rfl⟩ := hit
        simp only [applyItem, Item.frameNo, applyCore, hfi]
        split <;> rfl
      | bu name => simp [itemFrameUpd] at hit
    | _ => simp [itemFrameUpd] at hit
  | some i =>
    obtain ⟨a, ha⟩ := frameIdx_valid m hu n i hfi
    have hkn := key_of_frameIdx m n i hfi
    rw [← modFrame_as_map m hu n i g hfi]
    cases it with
    | tx t =>
      simp only [itemFrameUpd, Option.some.injEq, Prod.mk.injEq] at hit; obtain ⟨rfl, rfl⟩ := hit
      simp only [applyItem, Item.frameNo, hkn, Bool.false_eq_true, if_false, applyCore, hfi, RMatrix.modFrame]
    | val v =>
      simp only [itemFrameUpd, Option.some.injEq, Prod.mk.injEq] at hit; obtain ⟨rfl, rfl⟩ := hit
      simp only [applyItem, Item.frameNo, hkn, Bool.false_eq_true, if_false, applyCore, hfi, ha, Option.bind_some]
      cases hs : sigIdx a v.name with
      | none =>
        simp only
        exact (modifyAt_id_at _ _ _ (fun b hb => by rw [ha] at hb; injection hb with hb; subst hb; simp [modSigByName, hs])).symm
      | some si =>
        simp only [RMatrix.modFrame]
        exact modifyAt_congr_at _ _ _ _ (fun b hb => by rw [ha] at hb; injection hb with hb; subst hb; simp [modSigByName, hs])
    | valtype id name =>
      simp only [itemFrameUpd, Option.some.injEq, Prod.mk.injEq] at hit; obtain ⟨rfl, rfl⟩ := hit
      simp only [applyItem, Item.frameNo, hkn, Bool.false_eq_true, if_false, applyCore, hfi, ha, Option.bind_some]
      cases hs : sigIdx a name with
      | none =>
        simp only [RMatrix.err]
        exact (modifyAt_id_at _ _ _ (fun b hb => by rw [ha] at hb; injection hb with hb; subst hb; simp [modSigByName, hs])).symm
      | some si =>
        simp only [RMatrix.modFrame]
        exact modifyAt_congr_at _ _ _ _ (fun b hb => by rw [ha] at hb; injection hb with hb; subst hb; simp [modSigByName, hs])
    | grp g =>
      simp only [itemFrameUpd, Option.some.injEq, Prod.mk.injEq] at hit; obtain ⟨rfl, rfl⟩ := hit
      simp only [applyItem, Item.frameNo, hkn, Bool.false_eq_true, if_false, applyCore, hfi, RMatrix.modFrame]
    | mul ml =>
      simp only [itemFrameUpd, Option.some.injEq, Prod.mk.injEq] at hit; obtain ⟨rfl, rfl⟩ := hit
      simp only [applyItem, Item.frameNo, hkn, Bool.false_eq_true, if_false, applyCore, hfi, ha, Option.bind_some]
      cases hs : sigIdx a ml.sig with
      | none =>
        simp only
        exact (modifyAt_id_at _ _ _ (fun b hb => by rw [ha] at hb; injection hb with hb; subst hb; simp [hs])).symm
      | some si =>
        simp only [RMatrix.modFrame]
        exact modifyAt_congr_at _ _ _ _ (fun b hb => by rw [ha] at hb; injection hb with hb; subst hb; simp [hs])
    | cm hd text =>
      cases hd with
      | bo id =>
        simp only [itemFrameUpd, Option.some.injEq, Prod.mk.injEq] at hit; obtain ⟨rfl, rfl⟩ := hit
        simp only [applyItem, Item.frameNo, hkn, Bool.false_eq_true, if_false, applyCore, hfi, RMatrix.modFrame]
      | sg id name =>
        simp only [itemFrameUpd, Option.some.injEq, Prod.mk.injEq] at hit; obtain ⟨rfl, rfl⟩ := hit
        simp only [applyItem, Item.frameNo, hkn, Bool.false_eq_true, if_false, applyCore, hfi, ha, Option.bind_some]
        cases hs : sigIdx a name with
        | none =>
          simp only
          exact (modifyAt_id_at _ _ _ (fun b hb => by rw [ha] at hb; injection hb with hb; subst hb; simp [modSigByName, hs])).symm
        | some si =>
          simp only [RMatrix.modFrame]
          exact modifyAt_congr_at _ _ _ _ (fun b hb => by rw [ha] at hb; injection hb with hb; subst hb; simp [modSigByName, hs])
      | bu name => simp [itemFrameUpd] at hit
    | _ => simp [itemFrameUpd] at hit

/-- the update a statement makes to a frame (identity for frames it does not name and for other statement kinds) -/
def itemUpd (it : Item) (f : RFrame) : RFrame :=
  match itemFrameUpd it with
  | some (n, g) => updByNumber n g f
  | none => f

theorem modSig_key (f : RFrame) (j : Nat) (g : RSig → RSig) : (f.modSig j g).key = f.key := rfl

theorem modSigByName_key (name : Str) (g : RSig → RSig) (f : RFrame) : (modSigByName name g f).key = f.key := by
  unfold modSigByName; split <;> rfl

theorem itemUpd_key (it : Item) (f : RFrame) : (itemUpd it f).key = f.key := by
  unfold itemUpd
  cases h : itemFrameUpd it with
  | none => rfl
  | some p =>
    obtain ⟨n, g⟩ := p
    simp only [updByNumber]
    split
    · cases it with
      | tx t => simp only [itemFrameUpd, Option.some.injEq, Prod.mk.injEq] at h; obtain ⟨_, rfl⟩ := h; rfl
      | val v => simp only [itemFrameUpd, Option.some.injEq, Prod.mk.injEq] at h; obtain ⟨_, rfl⟩ := h; exact modSigByName_key _ _ f
      | valtype id name => simp only [itemFrameUpd, Option.some.injEq, Prod.mk.injEq] at h; obtain ⟨_, rfl⟩ := h; exact modSigByName_key _ _ f
      | grp g => simp only [itemFrameUpd, Option.some.injEq, Prod.mk.injEq] at h; obtain ⟨_, rfl⟩ := h; rfl
      | mul ml =>
        simp only [itemFrameUpd, Option.some.injEq, Prod.mk.injEq] at h; obtain ⟨_, rfl⟩ := h
        simp only; split <;> rfl
      | cm hd text =>
        cases hd with
        | bo id => simp only [itemFrameUpd, Option.some.injEq, Prod.mk.injEq] at h; obtain ⟨_, rfl⟩ := h; rfl
        | sg id name => simp only [itemFrameUpd, Option.some.injEq, Prod.mk.injEq] at h; obtain ⟨_, rfl⟩ := h; exact modSigByName_key _ _ f
        | bu name => simp [itemFrameUpd] at h
      | _ => simp [itemFrameUpd] at h
    · rfl

theorem keysUnique_of_keys (m m' : RMatrix) (h : m'.frames.map (·.key) = m.frames.map (·.key)) (hu : KeysUnique m) : KeysUnique m' := by
  unfold KeysUnique at *
  have e : ∀ l : List RFrame, l.Pairwise (fun a b => a.key ≠ b.key) ↔ (l.map (·.key)).Pairwise (· ≠ ·) := by
    intro l; rw [List.pairwise_map]
  rw [e] at hu ⊢
  rw [h]; exact hu

theorem applyItem_frames' (m : RMatrix) (hu : KeysUnique m) (it : Item) (hit : (itemFrameUpd it).isSome = true) :
    (applyItem m it).frames = m.frames.map (itemUpd it) := by
  obtain ⟨p, hp⟩ := Option.isSome_iff_exists.mp hit
  obtain ⟨n, g⟩ := p
  rw [applyItem_frames m hu it n g hp]
  apply List.map_congr_left
  intro f _
  simp [itemUpd, hp]

/-- a sequence of statements about frames and signals: every frame goes through the updates of the statements that name it, in their order -/
theorem frames_after_items (its : List Item) (m : RMatrix) (hu : KeysUnique m) (hall : ∀ it ∈ its, (itemFrameUpd it).isSome = true) :
    (its.foldl applyItem m).frames = m.frames.map fun f => its.foldl (fun acc it => itemUpd it acc) f := by
  induction its generalizing m with
  | nil => simp
  | cons it its ih =>
    simp only [List.foldl_cons]
    have h1 := applyItem_frames' m hu it (hall it (by simp))
    have hu' : KeysUnique (applyItem m it) := by
      apply keysUnique_of_keys m _ _ hu
      rw [h1, List.map_map]
      apply List.map_congr_left
      intro f _
      exact itemUpd_key it f
    rw [ih (applyItem m it) hu' (fun x hx => hall x (List.mem_cons_of_mem _ hx)), h1, List.map_map]
    rfl

end CanVerif.Dbc.FileProofs
