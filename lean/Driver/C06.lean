import Driver.Common
import CanVerif.Model.Fields
open Lean CanVerif

namespace D06

def notationOf (s : String) : MotNotation := if s == "msb" then .msb else if s == "msbreverse" then .msbreverse else .lsb

def fmtOf (name wn rn : String) : Except String Fmt :=
  match name with
  | "dbc" => pure .dbc | "dbf" => pure .dbf | "sym" => pure .sym | "kcd" => pure .kcd | "arxml" => pure .arxml
  | "json" => pure (.json (notationOf wn))
  | "xls" => pure (.xls (notationOf wn) (notationOf rn))
  | _ => throw s!"unknown format {name}"

/-- which features a format's round trip carries (docs/formats.rst + the property text of C07) -/
def carries (fmt feature : String) : Bool :=
  match fmt with
  | "dbc" | "json" => true
  | "dbf" => ["size", "type", "factor", "offset", "values", "unit", "mux", "sender1", "receivers"].contains feature
  | "kcd" => ["size", "type", "factor", "offset", "values", "unit", "mux", "senders", "receivers"].contains feature
  | "sym" => ["size", "type", "factor", "offset", "values", "unit16", "mux"].contains feature
  | "arxml" => ["size", "type", "factor", "offset", "values", "unit", "senders", "receivers"].contains feature
  | "xls" => ["mux", "senders", "receivers", "values"].contains feature
  | _ => false

def typePair (fmt : String) (signed isFloat : Bool) (size : Nat) : Bool × Bool :=
  match fmt with
  | "dbf" => dbfParseType (dbfTypeWord signed isFloat size)
  | "kcd" => kcdParseType (kcdTypeWord signed isFloat size)
  | "sym" => symParseType (symTypeWord signed isFloat)
  | _ => (signed, isFloat)

def sortedStrs (j : Json) : Except String (List String) := do
  let l ← J.strList j
  pure (l.toArray.qsort (· < ·)).toList

/-- op "sig": c = {"fmt","wn","rn","sig": sigdesc, "x": bool (stored position extracted from the file)}
impl i = {"emit": n|null, "back": [start,size,little]|null, "type": [signed,float]|null}
op "frame": c = {"fmt", "orig": frame normal form}; impl i = {"got": frame normal form | null} -/
def handle (op : String) (c i : Json) : Except String (Json × String) := do
  match op with
  | "sig" =>
    let fname ← J.str (← J.key c "fmt")
    let f ← fmtOf fname (← J.str (← J.key c "wn")) (← J.str (← J.key c "rn"))
    let s ← DC.sig (← J.key c "sig")
    let x ← J.bool (← J.key c "x")
    let emit := emitPos f s
    let back := parsePos f s.little s.size emit
    let tp := typePair fname s.signed s.isFloat s.size
    let lvl0 := match (c.getObjVal? "lvl").toOption with | some (Json.str l) => l | _ => "full"
    let carriesType := carries fname "type" && lvl0 != "layout"
    let m := J.obj [("emit", if x then J.ofInt emit else .null),
                    ("back", match back with
                      | some b => J.ofList [J.ofInt b, J.ofNat s.size, Json.bool s.little]
                      | none => .null),
                    ("type", if carriesType then J.ofList [if tp.2 then Json.null else Json.bool tp.1, Json.bool tp.2] else .null)]
    if (i.getObjVal? "exc").toOption.isSome then
      return (m, "fail: writing the matrix or reading the file back raised an exception")
    let ib ← J.key i "back"
    let s1 := if !notationAgrees f then "ok"
      else if ib != J.ofList [J.ofNat s.start, J.ofNat s.size, Json.bool s.little] then
        "fail: after the round trip the signal does not occupy the same payload bits (start/width/byte order)"
      else "ok"
    let it ← J.key i "type"
    let lvl := match (c.getObjVal? "lvl").toOption with | some (Json.str l) => l | _ => "full"
    let s2 := if lvl == "layout" || !carriesType || J.isNull it then "ok" else
      match it with
      | .arr #[sgj, .bool fl] =>
        if fl != s.isFloat then "fail: float type not preserved by the round trip"
        else if !s.isFloat && sgj != Json.bool s.signed then "fail: signedness not preserved by the round trip"
        else "ok"
      | _ => "fail: unexpected type observation"
    pure (m, if s1 != "ok" then s1 else s2)
  | "frame" =>
    let fname ← J.str (← J.key c "fmt")
    if (i.getObjVal? "exc").toOption.isSome then
      return (J.obj [], "fail: writing the matrix or reading the file back raised an exception")
    let orig ← J.key i "orig"
    let got ← J.key i "got"
    if J.isNull got then
      pure (J.obj [], "fail: the frame (identifier and format) is missing after the round trip")
    else if (match (c.getObjVal? "lvl").toOption with | some (Json.str l) => l == "layout" | _ => false) then
      -- C06: the frame is there and so is every signal by name (their layout is the business of the 'sig' cases)
      let osigs ← J.arr (← J.key orig "signals")
      let gsigs ← J.arr (← J.key got "signals")
      let framed ← J.str (← J.key orig "name")
      let missing := osigs.filter fun o =>
        let n := (o.getObjVal? "name").toOption
        let isMux := (o.getObjVal? "mux").toOption == some (Json.str "Multiplexor")
        !(gsigs.any fun g => (g.getObjVal? "name").toOption == n ||
            (fname == "sym" && isMux && (g.getObjVal? "name").toOption == some (Json.str (framed ++ "_MUX"))))
      pure (J.obj [], if missing.isEmpty then "ok" else "fail: a signal of the frame is missing after the round trip")
    else
      let sizeOk ← do
        pure (!carries fname "size" || (← J.key orig "size") == (← J.key got "size"))
      let otx ← sortedStrs (← J.key orig "transmitters")
      let gtx ← sortedStrs (← J.key got "transmitters")
      let gtx' := gtx.filter (· != "Vector__XXX")
      let otxL ← J.strList (← J.key orig "transmitters")
      let gtxL ← J.strList (← J.key got "transmitters")
      let txOk := if carries fname "senders" then otx == gtx'
                  else if carries fname "sender1" then otxL.take 1 == (gtxL.filter (· != "Vector__XXX")).take 1
                  else true
      let osigs ← J.arr (← J.key orig "signals")
      let gsigs ← J.arr (← J.key got "signals")
      let find (n : String) : Option Json := gsigs.find? fun g => (g.getObjVal? "name").toOption == some (Json.str n)
      let framed ← J.str (← J.key orig "name")
      let muxed := osigs.any fun o => (o.getObjVal? "mux").toOption == some (Json.str "Multiplexor")
      -- SYM writes the multiplexer with its groups (`Mux=` lines): a multiplexer without any group has no place for its role
      let hasGroups := osigs.any fun o => match (o.getObjVal? "mux").toOption with | some (Json.num _) => true | _ => false
      let bad ← osigs.filterMapM fun o => do
        let n ← J.str (← J.key o "name")
        let isMux := (o.getObjVal? "mux").toOption == some (Json.str "Multiplexor")
        -- SYM renames the multiplexer to <frame>_MUX by design
        let g? := match find n with
          | some g => some g
          | none => if fname == "sym" && isMux then find (framed ++ "_MUX") else none
        match g? with
        | none => pure (some s!"signal {n} is missing after the round trip")
        | some g =>
          let eq (k : String) : Except String Bool := do pure ((← J.key o k) == (← J.key g k))
          let unitOk ← do
            let ou ← J.str (← J.key o "unit")
            let gj ← J.key g "unit"
            let gu := match gj with | .str u => u | _ => ""
            pure (if carries fname "unit" then ou == gu else if carries fname "unit16" then String.ofList (ou.toList.take 16) == gu else true)
          let orx ← sortedStrs (← J.key o "receivers")
          let grx ← sortedStrs (← J.key g "receivers")
          let staticInMux := muxed && (o.getObjVal? "mux").toOption == some Json.null
          let muxOk ← if !carries fname "mux" || (fname == "sym" && (staticInMux || !hasGroups)) then pure true else eq "mux"
          let valuesOk ← if !carries fname "values" || (fname == "sym" && isMux) then pure true else eq "values"
          let facOk ← eq "factor"
          let offOk ← eq "offset"
          pure (if carries fname "factor" && !facOk then some s!"factor of {n} not preserved exactly"
            else if carries fname "offset" && !offOk then some s!"offset of {n} not preserved exactly"
            else if !valuesOk then some s!"value table of {n} not preserved"
            else if !unitOk then some s!"unit of {n} not preserved"
            else if !muxOk then some s!"multiplexer role / selector value of {n} not preserved"
            else if carries fname "receivers" && orx != grx then some s!"receivers of {n} not preserved"
            else none)
      pure (J.obj [], if !sizeOk then "fail: frame length not preserved"
        else if !txOk then "fail: senders not preserved"
        else match bad with
          | b :: _ => "fail: " ++ b
          | [] => "ok")
  | "bus" =>
    -- c = {"fmt", "names": [bus names]}; i = {"keys": [bus names read], "same": [per described bus: frames and layouts identical]}
    if (i.getObjVal? "exc").toOption.isSome then
      return (J.obj [], "fail: writing or reading the multi-bus file raised an exception")
    let names ← J.strList (← J.key c "names")
    let keys ← J.strList (← J.key i "keys")
    let same ← (← J.arr (← J.key i "same")).mapM J.bool
    pure (J.obj [], if !(names.all keys.contains) then "fail: a bus of the file is missing after reading it back"
      else if same.all id then "ok" else "fail: a bus does not keep exactly its own frames and signal layouts")
  | _ => throw s!"C06/C07: unknown op {op}"

end D06
