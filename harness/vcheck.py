#!/venv/bin/python
"""./check Cxx quick|thorough   |   ./check Cxx --replay <file>"""
import importlib
import os
import sys

sys.path.insert(0, os.path.dirname(os.path.abspath(__file__)))
from lib import core  # noqa: E402


def main(argv):
    if len(argv) < 2:
        print("usage: check Cxx quick|thorough | check Cxx --replay <file>")
        return 2
    pid = argv[0]
    try:
        prop = importlib.import_module("props." + pid.lower())
    except ImportError as e:
        print("no harness module for %s: %s" % (pid, e))
        return 2
    try:
        if argv[1] == "--replay":
            return core.run_replay(prop, argv[2])
        tier = argv[1]  # the command line names the tier; VERIF_TIER is informational
        if tier not in ("quick", "thorough"):
            print("tier must be quick or thorough")
            return 2
        seed = int(os.environ.get("VERIF_SEED", "0") or 0)
        return core.run_check(prop, tier, seed)
    except core.Infra as e:
        print("INFRA-ERROR: %s" % e)
        return 2


if __name__ == "__main__":
    try:
        rc = main(sys.argv[1:])
    except Exception:
        import traceback
        traceback.print_exc()
        rc = 2
    sys.exit(rc)
