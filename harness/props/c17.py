"""C17 - bulk clean-up, delete and rename operations hit exactly their targets."""
import contextlib
import io
import json
import os
import shutil
import sys
import tempfile
import types

import canmatrix.canmatrix as cm
import canmatrix.cli.convert
import canmatrix.convert
import canmatrix.formats

PID = "C17"
RULE = ("case = (matrix with 1..4 frames with unique names (some names prefixes/suffixes of others), 0..7 signals per frame with "
        "unique names, runs of adjacent zero-width signals, frame/signal/ECU attributes used in only some objects, definition "
        "dictionaries containing used and unused names, equal names on several levels; a sequence of 1..3 operations "
        "delete_zero_signals / delete_obsolete_defines / del_signal(glob) / rename_signal(name, prefix*, *suffix) / del_frame / "
        "rename_frame / del_signal_attributes / del_frame_attributes); the state after every operation is observed. "
        "Attribute values include the empty text, \"0\" and \"False\". A second stream (near-miss spellings) has matrices in which "
        "frame, signal and attribute names also occur in other letter cases (alone or next to the original), and 1..4 operations whose "
        "names and patterns are spellings close to a name that is present (other letter case, blank before/after, '-' for '_', one "
        "character less or more) next to exact and absent ones; frames and signals are addressed by name or through the object "
        "(del_frame(Frame), rename_frame(Frame, ..), rename_signal(Signal, ..)); read-only lookups by these spellings (frame_by_name, "
        "glob_frames, signal_by_name, glob_signals) run before every operation; a sweep applies every such spelling of every pool "
        "name to every name-taking operation. A third stream (colliding renames) has frames and matrices with pairs of names of which one "
        "begins or ends with the other, in either order, and renames by prefix*, *suffix or name whose new name for one object is the present "
        "name of another one (which matches the pattern too, or not), also as a swap of two names through a third one; a sweep does this "
        "for every such pair of the name pools. A fourth stream reaches the operations through the converter (canmatrix.convert.convert, "
        "one call in five through the canconvert command line): an input file with 1..3 matrices (other buses are variants of the first "
        "with the same names, or independent), written in a lossless cluster format registered in the library's format table (15 %: as a "
        "real KCD file with several buses, read back from the KCD output), 1..4 operations given as --renameFrame/--deleteFrame/"
        "--renameSignal/--deleteSignal/--deleteZeroSignals/--deleteSignalAttributes/--deleteFrameAttributes/--deleteObsoleteDefines "
        "in the converter's order; the state after the k-th operation is the output for the first k options, and every matrix of "
        "the file is one case. A fifth stream (attribute names that are words elsewhere) has matrices whose frame, signal and ECU "
        "attributes and definition dictionaries are named like fields and methods of the Frame / Signal / Ecu / CanMatrix classes "
        "(cycle_time, unit, comment, size, attributes, ...), like the attributes the file formats know (GenMsgCycleTime, VFrameFormat, ...), "
        "like keywords of Python and of the DBC format, or like frames and signals of the matrix, 3..6 such names per matrix next to ordinary "
        "ones; 1..4 operations, mostly del_frame_attributes / del_signal_attributes naming 1..3 present (or absent, or nearly spelled) names "
        "and delete_obsolete_defines after them; one call in four is made as Frame.del_attribute / Signal.del_attribute on every frame / "
        "signal; one case in ten goes through the converter; a sweep deletes every such word from frames and signals that carry it "
        "(both ways) and removes the obsolete definitions. "
        "Non-trivial = distinct case in which at least one operation changed the matrix.")
PARTIAL = ["attribute values and definition bodies are opaque strings here; ENUM conversion belongs to C05"]
ASSUMPTIONS = ["frame names unique in the matrix and signal names unique within a frame (the Spec is asserted only on such states)",
               "patterns and names are non-empty and carry at most one '*' at the beginning or the end"]
TRUSTED = ["fnmatch.fnmatchcase (modelled by globMatch, validated in C11's 'glob' cases)",
           "converter stream: the harness's own cluster format (JSON of the matrices, load = build, dump = snapshot) registered in "
           "canmatrix.formats.supportedFormats / extensionMapping; the KCD part relies on the KCD writer and reader for names and sizes (C06)"]
CORRESPONDENCE = "CanMatrix bulk operations == CanVerif.BMat.apply (Model/Bulk.lean)"

FNAMES = ["Msg", "Msg_A", "A_Msg", "Diag_Req", "Diag_Resp", "Req", "Status", "StatusExt", "Ext", "Ext_Ext", "Msg_Msg", "gMsg", "tExt", "Msgs", "Diag_D"]   # incl. names whose rest shares characters with the pattern
SNAMES = ["sig", "sig_a", "a_sig", "speed", "speed_kmh", "kmh", "x", "xy", "yx", "cnt", "cnt_2", "s1", "s2", "s10", "x_x", "kmh_kmh", "sig_sig", "gsig", "a_a", "hkmh", "xx", "sigs"]
ATTRS = ["GenA", "GenB", "Cycle", "Note", "A"]
SIG_PATS = ["sig*", "*sig", "s?", "*", "speed*", "*kmh", "x*", "*x", "s[12]", "cnt_2", "sig", "nomatch", "s1*", "*_a"]
FRAME_PATS = ["Msg*", "*Msg", "Diag_*", "*Ext", "Status", "Req", "*Req", "Status*", "nomatch", "Msg"]


def rand_attrs(rng, pool=ATTRS):
    # (an attribute may be set to the empty text, to "0" or to "False": it is set all the same)
    return [[a, rng.choice(["v0", "v1", "v2", "", "0", "False"])] for a in pool if rng.random() < 0.3]


def gen_matrix(rng):
    frames = []
    for fname in rng.sample(FNAMES, rng.randint(1, 4)):
        sigs = []
        for sname in rng.sample(SNAMES, rng.randint(0, 7)):
            size = 0 if rng.random() < 0.35 else rng.randint(1, 16)
            sigs.append([sname, size, rand_attrs(rng)])
        if rng.random() < 0.3 and len(sigs) >= 3:
            for s in sigs[:rng.randint(2, len(sigs))]:
                s[1] = 0
        frames.append([fname, rand_attrs(rng), sigs])
    ecus = [["E%d" % k, rand_attrs(rng)] for k in range(rng.randint(0, 3))]
    pick = lambda: [a for a in ATTRS if rng.random() < 0.6]  # noqa
    return {"frames": frames, "ecus": ecus, "fd": pick(), "ed": pick(), "sd": pick()}


def gen_op(rng):
    k = rng.random()
    if k < 0.16:
        return ["zero"]
    if k < 0.34:
        return ["obsolete"]
    if k < 0.46:
        return ["delSignal", rng.choice(SIG_PATS)]
    if k < 0.62:
        return ["renameSignal", rng.choice(SIG_PATS[:2] + ["speed*", "*kmh", "x*", "*x", "s1*", "*_a", "cnt", "x", "sig", "s1", "nomatch"]),
                rng.choice(["new", "n", "sig", "Z_"])]
    if k < 0.72:
        return ["delFrame", rng.choice(FNAMES)]
    if k < 0.86:
        return ["renameFrame", rng.choice(FRAME_PATS), rng.choice(["New", "N", "Msg", "X_"])]
    if k < 0.93:
        return ["delSigAttrs", rng.sample(ATTRS, rng.randint(1, 3))]
    return ["delFrameAttrs", rng.sample(ATTRS, rng.randint(1, 3))]


# ---- near-miss spellings: names are case sensitive identifiers, an operation addresses the objects that carry exactly the given name ----
ATTRS_NEAR = ["GenA", "gena", "GENA", "Cycle", "cycle", "Note", "A", "a"]


def spellings(name):
    """Every near-miss spelling of a name or pattern (a '*' at the beginning / the end stays where it is); never the name itself, never empty."""
    left = "*" if name.startswith("*") and len(name) > 1 else ""
    right = "*" if name.endswith("*") and len(name) > 1 else ""
    core = name[len(left):len(name) - len(right)]
    out = [core.lower(), core.upper(), core.swapcase(), core.capitalize(), core[:1].swapcase() + core[1:], core + " ", " " + core,
           core.replace("_", "-"), core.replace("_", ""), core[:-1], core + core[-1:]]
    res = []
    for v in out:
        v = left + v + right
        if v.strip("*") and v != name and v not in res:
            res.append(v)
    return res


def near(name, rng):
    vs = spellings(name)
    return rng.choice(vs) if vs else name


def case_variant(name, rng):
    vs = [v for v in (name.lower(), name.upper(), name.swapcase(), name.capitalize()) if v != name]
    return rng.choice(vs) if vs else name


def names_near(rng, pool, lo, hi, p):
    """lo..hi names of the pool, some of them joined or replaced by the same name in another letter case (all distinct)."""
    out = []
    for n in rng.sample(pool, rng.randint(lo, hi)):
        r = rng.random()
        v = case_variant(n, rng)
        for x in ([n, v] if r < p else [v] if r < p + 0.15 else [n]):
            if x not in out:
                out.append(x)
    rng.shuffle(out)
    return out


def gen_matrix_near(rng):
    frames = []
    for fname in names_near(rng, FNAMES, 1, 3, 0.4):
        sigs = [[sname, 0 if rng.random() < 0.2 else rng.randint(1, 16), rand_attrs(rng, ATTRS_NEAR)] for sname in names_near(rng, SNAMES, 0, 4, 0.3)]
        frames.append([fname, rand_attrs(rng, ATTRS_NEAR), sigs])
    ecus = [["E%d" % k, rand_attrs(rng, ATTRS_NEAR)] for k in range(rng.randint(0, 2))]
    pick = lambda: [a for a in ATTRS_NEAR if rng.random() < 0.6]  # noqa
    return {"frames": frames, "ecus": ecus, "fd": pick(), "ed": pick(), "sd": pick()}


def present(m):
    fn = [f[0] for f in m["frames"]]
    sn = sorted({s[0] for f in m["frames"] for s in f[2]})
    an = sorted({a[0] for f in m["frames"] for a in f[1]} | {a[0] for f in m["frames"] for s in f[2] for a in s[2]} | set(m["fd"]) | set(m["sd"]))
    return fn, sn, an


def target(rng, have, pool, via=()):
    """a spelling close to a present name / a present name / a name or pattern of the pool (or close to one);
    mostly a present name when the object is to be passed instead of the name"""
    r = rng.random()
    if via and have and rng.random() < 0.7:
        return rng.choice(have)
    if have and r < 0.55:
        return near(rng.choice(have), rng)
    if have and r < 0.75:
        return rng.choice(have)
    return rng.choice(pool) if r < 0.9 else near(rng.choice(pool), rng)


def as_pattern(rng, name):
    """name, or a prefix* / *suffix pattern cut out of it"""
    r = rng.random()
    k = rng.randint(1, len(name))
    return name[:k] + "*" if r < 0.25 else "*" + name[-k:] if r < 0.5 else name


def gen_op_near(rng, m, allow_obj=True):
    fn, sn, an = present(m)
    via = ["obj"] if rng.random() < 0.3 else []
    if not allow_obj:
        via = []
    k = rng.random()
    if k < 0.30:
        return ["delFrame", target(rng, fn, FNAMES, via)] + via
    if k < 0.46:
        old = target(rng, fn, FRAME_PATS, via)
        new = rng.choice(["New", "N", "Msg", "X_", "msg"] + [case_variant(n, rng) for n in fn[:1]])
        return ["renameFrame", old if "*" in old or via else as_pattern(rng, old), new] + via
    if k < 0.62:
        return ["delSignal", target(rng, sn, SIG_PATS)]
    if k < 0.78:
        old = target(rng, sn, ["sig*", "*sig", "speed*", "*kmh", "x*", "*x", "s1*", "*_a", "cnt", "x", "sig", "s1", "nomatch"], via)
        new = rng.choice(["new", "n", "sig", "Z_", "SIG"] + [case_variant(n, rng) for n in sn[:1]])
        return ["renameSignal", old if "*" in old or via else as_pattern(rng, old), new] + via
    if k < 0.86:
        return ["delSigAttrs", [target(rng, an, ATTRS_NEAR) for _ in range(rng.randint(1, 3))]]
    if k < 0.94:
        return ["delFrameAttrs", [target(rng, an, ATTRS_NEAR) for _ in range(rng.randint(1, 3))]]
    return ["zero"] if k < 0.97 else ["obsolete"]


def near_case(rng, m=None):
    m = gen_matrix_near(rng) if m is None else m
    ops = [gen_op_near(rng, m) for _ in range(rng.randint(1, 4))]
    if rng.random() < 0.3:
        # the same operation again with another spelling of its name (delete 'gateway', then 'Gateway')
        o = rng.choice(ops)
        if len(o) > 1 and isinstance(o[1], str):
            ops.append([o[0], near(o[1], rng)] + o[2:])
    look = [o[1] for o in ops if len(o) > 1 and isinstance(o[1], str)] if rng.random() < 0.5 else []
    return {"op": "bulk", "c": {"m": m, "ops": ops, "look": look}}


def sweep_near():
    """every near-miss spelling of every pool name, for every operation that takes a name"""
    empty = {"ecus": [], "fd": [], "ed": [], "sd": []}
    for i, base in enumerate(FNAMES):
        other = FNAMES[(i + 1) % len(FNAMES)]
        m = dict(empty, frames=[[other, [], [["x", 4, []]]], [base, [], [["sig", 8, []]]]])
        for v in spellings(base):
            for via in ([], ["obj"]):
                yield {"op": "bulk", "c": {"m": m, "ops": [["delFrame", v] + via], "look": [v]}}
                yield {"op": "bulk", "c": {"m": m, "ops": [["renameFrame", v, "New"] + via, ["delFrame", base]]}}
    for i, base in enumerate(SNAMES):
        other = SNAMES[(i + 1) % len(SNAMES)]
        m = dict(empty, frames=[["F", [], [[other, 4, []], [base, 8, []]]], ["G", [], [[base, 2, []]]]])
        for v in spellings(base):
            yield {"op": "bulk", "c": {"m": m, "ops": [["delSignal", v]], "look": [v]}}
            yield {"op": "bulk", "c": {"m": m, "ops": [["renameSignal", v, "new"], ["delSignal", base]]}}
            yield {"op": "bulk", "c": {"m": m, "ops": [["renameSignal", v, "new", "obj"]]}}
    for a in ATTRS:
        m = {"frames": [["F", [[a, "v0"]], [["s", 4, [[a, "v1"]]]]], ["G", [[a, "v2"]], []]], "ecus": [], "fd": [a], "ed": [], "sd": [a]}
        for v in spellings(a):
            yield {"op": "bulk", "c": {"m": m, "ops": [["delSigAttrs", [v]], ["delFrameAttrs", [v]]]}}
            yield {"op": "bulk", "c": {"m": m, "ops": [["delFrameAttrs", [v, a]], ["delSigAttrs", [v]]]}}


# ---- renames whose new names are names that are present: "Mot*" -> "Mot1" next to Mot1_Speed, a -> b next to b, swaps through a third name ----
def family(pool):
    """pairs (a, b) of the pool in which b begins or ends with a"""
    return [(a, b) for a in pool for b in pool if a != b and (b.startswith(a) or b.endswith(a))]


SIG_FAMILY = family(SNAMES)
FRAME_FAMILY = family(FNAMES)


def common(a, b, rev=False):
    """length of the common prefix (rev: suffix) of two names"""
    if rev:
        a, b = a[::-1], b[::-1]
    k = 0
    while k < min(len(a), len(b)) and a[k] == b[k]:
        k += 1
    return k


def collide_op(rng, kind, a, b):
    """a rename that gives the object called a the present name b: by prefix pattern (a = p+rest, b = q+rest: p* -> q), by suffix pattern or by name"""
    r = rng.random()
    if r < 0.45:
        t = rng.randint(0, min(common(a, b, rev=True), len(a) - 1, len(b) - 1))
        return [kind, a[:len(a) - t] + "*", b[:len(b) - t]]
    if r < 0.9:
        t = rng.randint(0, min(common(a, b), len(a) - 1, len(b) - 1))
        return [kind, "*" + a[t:], b[t:]]
    return [kind, a, b]


def gen_matrix_family(rng):
    """gen_matrix, with pairs of names of which one begins / ends with the other, in either order, in one or two frames and among the frame names"""
    m = gen_matrix(rng)
    frames = m["frames"]
    for f in rng.sample(frames, min(len(frames), rng.randint(1, 2))):
        a, b = rng.choice(SIG_FAMILY)
        sigs = [s for s in f[2] if s[0] not in (a, b)][:5]
        for n in rng.sample([a, b], 2):
            sigs.insert(rng.randint(0, len(sigs)), [n, 0 if rng.random() < 0.1 else rng.randint(1, 16), rand_attrs(rng)])
        f[2] = sigs
    if len(frames) >= 2 and rng.random() < 0.6:
        a, b = rng.choice(FRAME_FAMILY)
        if not any(f[0] in (a, b) for f in frames):
            i, j = rng.sample(range(len(frames)), 2)
            frames[i][0], frames[j][0] = a, b
    return m


def pick_pair(rng, names, fam):
    """two present names, mostly a pair of which one begins / ends with the other (either direction)"""
    rel = [(a, b) for a, b in fam if a in names and b in names]
    if rel and rng.random() < 0.75:
        a, b = rng.choice(rel)
        return (a, b) if rng.random() < 0.7 else (b, a)
    return tuple(rng.sample(names, 2)) if len(names) >= 2 else None


def gen_op_collide(rng, m):
    """one colliding rename (or a swap of two names through a third one: three renames) for the matrix; [] if it has no two names"""
    if rng.random() < 0.3:
        pair, kind = pick_pair(rng, [f[0] for f in m["frames"]], FRAME_FAMILY), "renameFrame"
    else:
        f = rng.choice(m["frames"])
        pair, kind = pick_pair(rng, [s[0] for s in f[2]], SIG_FAMILY), "renameSignal"
    if pair is None:
        return []
    if rng.random() < 0.12:
        return [[kind, pair[0], "tmp_"], [kind, pair[1], pair[0]], [kind, "tmp_", pair[1]]]
    return [collide_op(rng, kind, *pair)]


def collide_case(rng):
    m = gen_matrix_family(rng)
    ops = []
    for _ in range(rng.randint(1, 2)):
        ops += gen_op_collide(rng, m) if rng.random() < 0.85 else [gen_op(rng)]
    return {"op": "bulk", "c": {"m": m, "ops": (ops or [gen_op(rng)])[:4]}}


def sweep_collide():
    """every pair of pool names of which one begins / ends with the other, in both orders within the frame (matrix), renamed by the pattern
    that turns the shorter into the longer one and back"""
    empty = {"ecus": [], "fd": [], "ed": [], "sd": []}
    for a, b in SIG_FAMILY:
        pats = ([[a + "*", b], [b + "*", a]] if b.startswith(a) else []) + ([["*" + a, b], ["*" + b, a]] if b.endswith(a) else [])
        m = dict(empty, frames=[["F", [], [[a, 8, []], [b, 2, [["GenA", "v1"]]], ["other", 4, []]]], ["G", [], [["other", 4, []], [b, 2, []], [a, 8, []]]]])
        for old, new in pats:
            yield {"op": "bulk", "c": {"m": m, "ops": [["renameSignal", old, new]]}}
        yield {"op": "bulk", "c": {"m": m, "ops": [["renameSignal", a, "tmp_"], ["renameSignal", b, a], ["renameSignal", "tmp_", b]]}}
    for a, b in FRAME_FAMILY:
        pats = ([[a + "*", b], [b + "*", a]] if b.startswith(a) else []) + ([["*" + a, b], ["*" + b, a]] if b.endswith(a) else [])
        for names in ([a, b, "Other"], ["Other", b, a]):
            m = dict(empty, frames=[[n, [], [["s", 1 + k, []]]] for k, n in enumerate(names)])
            for old, new in pats:
                yield {"op": "bulk", "c": {"m": m, "ops": [["renameFrame", old, new]]}}


# ---- attribute names that are words elsewhere: an attribute is addressed by its name alone, whatever else carries that name ----
# (user attributes live in their own dictionaries; a name spelled like a field of the class, like an attribute a file format knows,
# like a keyword or like a frame of the matrix is a name like any other)
ATTR_WORDS = [
    # fields of Frame / Signal / Ecu / CanMatrix
    "name", "size", "comment", "cycle_time", "is_fd", "is_j1939", "attributes", "signals", "transmitters", "receivers", "arbitration_id",
    "pdu_name", "header_id", "mux_names", "unit", "min", "max", "factor", "offset", "start_bit", "is_signed", "is_float", "is_little_endian",
    "values", "initial_value", "multiplex", "mux_value", "enumeration", "type_label", "comments", "frames", "ecus", "frame_defines",
    "signal_defines", "ecu_defines", "global_defines", "type", "baudrate",
    # methods and what every Python object has
    "attribute", "add_attribute", "del_attribute", "signal_by_name", "__class__", "__dict__", "__init__",
    # attributes the file formats know
    "GenMsgCycleTime", "GenMsgSendType", "GenMsgDelayTime", "GenMsgStartDelayTime", "GenSigStartValue", "GenSigSendType", "GenSigCycleTime",
    "VFrameFormat", "SystemSignalLongSymbol", "SystemMessageLongSymbol", "NmStationAddress", "NWM-Stationsadresse", "SPN", "SigType", "BusType",
    "ProtocolType", "DBName",
    # keywords
    "None", "True", "def", "class", "del", "INT", "STRING", "ENUM", "BA_", "BA_DEF_", "BO_", "SG_",
    # names of frames and signals of the pools
    "Msg", "Status", "Ext", "sig", "speed", "x"]


def rand_attrs_p(rng, pool, p):
    return [[a, rng.choice(["v0", "v1", "v2", "", "0", "False", "100"])] for a in pool if rng.random() < p]


def gen_matrix_words(rng):
    pool = rng.sample(ATTR_WORDS, rng.randint(3, 6)) + (rng.sample(ATTRS, 2) if rng.random() < 0.4 else [])
    frames = []
    for fname in rng.sample(FNAMES, rng.randint(1, 4)):
        sigs = [[sname, 0 if rng.random() < 0.15 else rng.randint(1, 16), rand_attrs_p(rng, pool, 0.4)] for sname in rng.sample(SNAMES, rng.randint(0, 4))]
        frames.append([fname, rand_attrs_p(rng, pool, 0.45), sigs])
    ecus = [["E%d" % k, rand_attrs_p(rng, pool, 0.4)] for k in range(rng.randint(0, 2))]
    pick = lambda: [a for a in pool if rng.random() < 0.75]  # noqa
    return {"frames": frames, "ecus": ecus, "fd": pick(), "ed": pick(), "sd": pick()}


def gen_op_words(rng, m, allow_each=True):
    an = present(m)[2]
    k = rng.random()
    if k < 0.72:
        names = []
        for _ in range(rng.randint(1, 3)):
            r = rng.random()
            n = rng.choice(an) if an and r < 0.75 else near(rng.choice(an), rng) if an and r < 0.8 else rng.choice(ATTR_WORDS)
            if n not in names:
                names.append(n)
        each = ["each"] if allow_each and rng.random() < 0.25 else []
        return ["delFrameAttrs" if k < 0.36 else "delSigAttrs", names] + each
    return ["obsolete"] if k < 0.9 else gen_op(rng)


def words_ops(rng, m, allow_each=True):
    ops = [gen_op_words(rng, m, allow_each) for _ in range(rng.randint(1, 3))]
    if rng.random() < 0.5:
        ops.append(["obsolete"])   # with the attributes gone their definitions are obsolete
    return ops


def words_case(rng):
    m = gen_matrix_words(rng)
    return {"op": "bulk", "c": {"m": m, "ops": words_ops(rng, m)}}


def sweep_words():
    """every word as a frame, signal and ECU attribute used in only some objects, deleted by the bulk operations and through the objects"""
    for w in ATTR_WORDS + ATTRS:
        o = "GenB" if w != "GenB" else "GenA"
        m = {"frames": [["F", [[w, "v0"], [o, "v1"]], [["s", 4, [[w, "v1"]]], ["t", 4, [[o, "v2"]]]]],
                        ["G", [], [["s", 2, []], ["t", 0, []]]],
                        ["H", [[w, "100"]], [["s", 2, [[o, ""], [w, "0"]]]]]],
             "ecus": [["E0", [[w, "v0"]]]], "fd": [w, o], "ed": [w], "sd": [o, w]}
        yield {"op": "bulk", "c": {"m": m, "ops": [["delFrameAttrs", [w]], ["delSigAttrs", [w]], ["obsolete"]]}}
        yield {"op": "bulk", "c": {"m": m, "ops": [["delSigAttrs", [w], "each"], ["obsolete"], ["delFrameAttrs", [w], "each"], ["obsolete"]]}}
        yield {"op": "bulk", "c": {"m": m, "ops": [["delFrameAttrs", [o, w]], ["delSigAttrs", ["nomatch", w, o]], ["obsolete"]]}}


# ---- the same operations through the converter: canmatrix.convert.convert / canconvert on an input file with one or several matrices ----
# The delete/rename options of the converter are the operations of this property applied to every matrix of the input file, in a fixed
# order.  A case of this stream is judged like any other ("m" = one matrix of the file, "ops" = the operations the options stand for, in
# the converter's order); "conv" says how the real code is reached: all matrices of the file (None marks the place of "m"), the format
# and the entry point.  The state after the k-th operation is the output of the converter called with the options for the first k.
STAGE = {"renameFrame": 0, "delFrame": 1, "renameSignal": 2, "delSignal": 3, "zero": 4, "delSigAttrs": 5, "delFrameAttrs": 6, "obsolete": 7}
MEM = "c17mem"   # a lossless cluster format (JSON of the matrices of this module), registered in the library's table of formats


def register_mem_format():
    name = "canmatrix.formats." + MEM
    if name not in sys.modules:
        mod = types.ModuleType(name)

        def load(f, **options):
            return {bus: build(m) for bus, m in json.loads(f.read().decode("utf-8"))}

        def dump(dbs, f, **options):
            dbs = {"": dbs} if isinstance(dbs, cm.CanMatrix) else dbs
            f.write(json.dumps([[bus, snapshot(dbs[bus])] for bus in dbs]).encode("utf-8"))
            f.flush()

        mod.load, mod.dump, mod.clusterImporter, mod.clusterExporter = load, dump, True, True
        sys.modules[name] = mod
    canmatrix.formats.supportedFormats[MEM] = ["load", "dump", "clusterImporter", "clusterExporter"]
    canmatrix.formats.extensionMapping[MEM] = MEM


def kcd_matrix(m):
    """what a KCD file carries of a matrix of this module: names and signal sizes from 1 bit on"""
    return {"frames": [[f[0], [], [[s[0], max(1, s[1]), []] for s in f[2]]] for f in m["frames"]], "ecus": [], "fd": [], "ed": [], "sd": []}


def bus_variant(rng, m):
    """another bus with the frames of m: other order, signals reshuffled, some dropped, sizes and attributes drawn again"""
    frames = []
    for f in rng.sample(m["frames"], len(m["frames"])):
        if len(m["frames"]) > 1 and rng.random() < 0.2:
            continue
        sigs = [[s[0], 0 if rng.random() < 0.25 else rng.randint(1, 16), rand_attrs(rng)] for s in rng.sample(f[2], len(f[2])) if rng.random() < 0.85]
        frames.append([f[0], rand_attrs(rng), sigs])
    pick = lambda: [a for a in ATTRS if rng.random() < 0.6]  # noqa
    return {"frames": frames or [[m["frames"][0][0], [], []]], "ecus": [["E%d" % k, rand_attrs(rng)] for k in range(rng.randint(0, 2))],
            "fd": pick(), "ed": pick(), "sd": pick()}


def conv_cases(rng, words=False):
    """one converter call (per prefix of the operations) on a file of 1..3 matrices; one case per matrix of the file
    (words: matrices and operations of the fifth stream; a KCD file carries no attributes, so the lossless format only)"""
    fmt = "kcd" if rng.random() < 0.15 and not words else "mem"
    r = rng.random()
    first = gen_matrix_words(rng) if words else gen_matrix_family(rng) if r < 0.3 else gen_matrix_near(rng) if r < 0.45 else gen_matrix(rng)
    ms = [first]
    for _ in range(rng.choice([0, 1, 1, 1, 2])):
        ms.append(bus_variant(rng, first) if rng.random() < 0.55 else gen_matrix_words(rng) if words else gen_matrix(rng))
    rng.shuffle(ms)
    if fmt == "kcd":
        ms = [kcd_matrix(m) for m in ms]
    names = [""] if len(ms) == 1 and rng.random() < 0.5 and fmt != "kcd" else ["BusA", "BusB", "BusC"][:len(ms)]   # (a KCD bus has a name)
    ops = []
    for _ in range(rng.randint(1, 3)):
        r = rng.random()
        src = rng.choice(ms)
        if words:
            new = words_ops(rng, src, allow_each=False)
        else:
            new = gen_op_collide(rng, src) if r < 0.15 else [gen_op_near(rng, src, allow_obj=False)] if r < 0.4 else [gen_op(rng)]
        for o in new:
            once = o[0] in ("zero", "obsolete", "delSigAttrs", "delFrameAttrs")
            if (fmt == "kcd" and once) or (once and any(p[0] == o[0] for p in ops)):
                continue
            ops.append(o)
    if not ops:
        ops = [["renameFrame", rng.choice(FRAME_PATS), "New"]]
    ops = sorted(ops[:4], key=lambda o: STAGE[o[0]])   # (stable: the items of one option keep their order)
    cli = rng.random() < 0.2
    for i, m in enumerate(ms):
        buses = [[n, None if j == i else x] for j, (n, x) in enumerate(zip(names, ms))]
        yield {"op": "bulk", "c": {"m": m, "ops": ops, "conv": {"buses": buses, "i": i, "fmt": fmt, "cli": cli}}}


def conv_options(ops):
    """the converter options that stand for a sequence of operations (already in the converter's order)"""
    o = {}
    for op in ops:
        k = op[0]
        if k == "zero":
            o["deleteZeroSignals"] = True
        elif k == "obsolete":
            o["deleteObsoleteDefines"] = True
        elif k in ("renameSignal", "renameFrame"):
            o.setdefault(k, []).append(op[1] + ":" + op[2])
        elif k in ("delSignal", "delFrame"):
            o.setdefault("deleteSignal" if k == "delSignal" else "deleteFrame", []).append(op[1])
        else:
            o["deleteSignalAttributes" if k == "delSigAttrs" else "deleteFrameAttributes"] = list(op[1])
    return {k: v if v is True else ",".join(v) for k, v in o.items()}


def run_converter(buses, ops, fmt, cli):
    """[{bus name: matrix of the output file} for every prefix ops[:k+1]]"""
    register_mem_format()
    d = tempfile.mkdtemp(prefix="c17_")
    try:
        ext = MEM if fmt == "mem" else "kcd"
        src = os.path.join(d, "in." + ext)
        if fmt == "mem":
            with open(src, "wb") as f:
                f.write(json.dumps(buses).encode("utf-8"))
        else:
            canmatrix.formats.dumpp({bus: build(m) for bus, m in buses}, src)
        res = []
        for k in range(len(ops)):
            dst = os.path.join(d, "out%d.%s" % (k, ext))
            opts = conv_options(ops[:k + 1])
            sink = io.StringIO()
            with contextlib.redirect_stdout(sink), contextlib.redirect_stderr(sink):
                if cli:
                    from click.testing import CliRunner
                    args = ["--" + o if v is True else "--%s=%s" % (o, v) for o, v in opts.items()]
                    r = CliRunner().invoke(canmatrix.cli.convert.cli_convert, ["-s"] + args + [src, dst])
                    if r.exception is not None and not isinstance(r.exception, SystemExit):
                        raise r.exception
                    if r.exit_code != 0:
                        raise RuntimeError("canconvert: exit %s" % r.exit_code)
                else:
                    canmatrix.convert.convert(src, dst, **opts)
            if fmt == "mem":
                with open(dst, "rb") as f:
                    res.append(dict(json.loads(f.read().decode("utf-8"))))
            else:
                res.append({bus: snapshot(db) for bus, db in canmatrix.formats.loadp(dst).items()})
        return res
    finally:
        shutil.rmtree(d, ignore_errors=True)


_LAST_CONV = [None, None]   # the matrices of one file are consecutive cases: one converter run serves them all


def observe_conv(c):
    conv = c["conv"]
    buses = [[bus, c["m"] if m is None else m] for bus, m in conv["buses"]]
    key = json.dumps([buses, c["ops"], conv["fmt"], conv["cli"]], sort_keys=True)
    if _LAST_CONV[0] != key:
        _LAST_CONV[:] = [key, run_converter(buses, c["ops"], conv["fmt"], conv["cli"])]
    bus = buses[conv["i"]][0]
    return {"states": [per[bus] for per in _LAST_CONV[1]]}


def gen(rng, tier, shard, nshards):
    total = {"quick": 8000, "thorough": 120000}[tier] // nshards
    for _ in range(total):
        yield {"op": "bulk", "c": {"m": gen_matrix(rng), "ops": [gen_op(rng) for _ in range(rng.randint(1, 3))]}}
    if shard == 0:
        # every pattern of adjacent zero-width signals among 6 signals
        for mask in range(64):
            sigs = [["s%d" % i, 0 if (mask >> i) & 1 else 4, []] for i in range(6)]
            yield {"op": "bulk", "c": {"m": {"frames": [["F", [], sigs]], "ecus": [], "fd": [], "ed": [], "sd": []}, "ops": [["zero"]]}}
    # near-miss spellings (drawn after the stream above, which is unchanged)
    for _ in range({"quick": 2400, "thorough": 36000}[tier] // nshards):
        yield near_case(rng)
    if shard == 1 % nshards:
        for c in sweep_near():
            yield c
    # renames whose new names are present names (drawn after the streams above, which are unchanged)
    for _ in range({"quick": 1600, "thorough": 24000}[tier] // nshards):
        yield collide_case(rng)
    if shard == 2 % nshards:
        for c in sweep_collide():
            yield c
    # the operations as options of the converter, on files with one or several matrices
    for _ in range({"quick": 640, "thorough": 9600}[tier] // nshards):
        for c in conv_cases(rng):
            yield c
    # attribute names that are words elsewhere (drawn after the streams above, which are unchanged)
    for k in range({"quick": 1600, "thorough": 24000}[tier] // nshards):
        if k % 10 == 9:
            for c in conv_cases(rng, words=True):
                yield c
        else:
            yield words_case(rng)
    if shard == 3 % nshards:
        for c in sweep_words():
            yield c


def neighbours(case, rng, shard, nshards):
    for _ in range(200 // nshards + 1):
        yield {"op": "bulk", "c": {"m": case["c"]["m"], "ops": [gen_op(rng) for _ in range(rng.randint(1, 2))]}}
        yield near_case(rng, case["c"]["m"])
        ops = gen_op_collide(rng, case["c"]["m"])
        if ops:
            yield {"op": "bulk", "c": {"m": case["c"]["m"], "ops": ops}}
        yield {"op": "bulk", "c": {"m": case["c"]["m"], "ops": words_ops(rng, case["c"]["m"])[:4]}}


def build(m):
    db = cm.CanMatrix()
    for name, attrs in m["ecus"]:
        e = cm.Ecu(name)
        for k, v in attrs:
            e.add_attribute(k, v)
        db.ecus.append(e)
    for k, (name, attrs, sigs) in enumerate(m["frames"]):
        fr = cm.Frame(name, arbitration_id=cm.ArbitrationId(k + 1, False), size=8)
        for a, v in attrs:
            fr.add_attribute(a, v)
        for sname, size, sattrs in sigs:
            s = cm.Signal(sname, size=size)
            for a, v in sattrs:
                s.add_attribute(a, v)
            fr.add_signal(s)
        db.add_frame(fr)
    for d in m["fd"]:
        db.add_frame_defines(d, "STRING")
    for d in m["ed"]:
        db.add_ecu_defines(d, "STRING")
    for d in m["sd"]:
        db.add_signal_defines(d, "STRING")
    return db


def snapshot(db):
    al = lambda d: [[k, str(v)] for k, v in d.items()]  # noqa
    return {"frames": [[f.name, al(f.attributes), [[s.name, s.size, al(s.attributes)] for s in f.signals]] for f in db.frames],
            "ecus": [[e.name, al(e.attributes)] for e in db.ecus],
            "fd": list(db.frame_defines.keys()), "ed": list(db.ecu_defines.keys()), "sd": list(db.signal_defines.keys())}


def lookups(db, names):
    """read-only lookups of the public API; they must leave the matrix as it is (the next snapshot shows it)"""
    for n in names:
        db.frame_by_name(n)
        db.glob_frames(n)
        for f in db.frames:
            f.signal_by_name(n)
            f.glob_signals(n)


def frame_object(db, name):
    """the frame that carries exactly this name (found without the library's lookups), else the name itself"""
    for f in db.frames:
        if f.name == name:
            return f
    return name


def signal_object(db, name):
    for f in db.frames:
        for s in f.signals:
            if s.name == name:
                return s
    return name


def observe(case):
    if case["c"].get("conv"):
        return observe_conv(case["c"])
    db = build(case["c"]["m"])
    look = case["c"].get("look", [])
    states = []
    for op in case["c"]["ops"]:
        k = op[0]
        obj = op[-1] == "obj" and len(op) > (3 if k.startswith("rename") else 2)
        lookups(db, look)
        if k == "zero":
            db.delete_zero_signals()
        elif k == "obsolete":
            db.delete_obsolete_defines()
        elif k == "delSignal":
            db.del_signal(op[1])
        elif k == "renameSignal":
            db.rename_signal(signal_object(db, op[1]) if obj else op[1], op[2])
        elif k == "delFrame":
            db.del_frame(frame_object(db, op[1]) if obj else op[1])
        elif k == "renameFrame":
            db.rename_frame(frame_object(db, op[1]) if obj else op[1], op[2])
        elif k == "delSigAttrs" and op[-1] == "each" and len(op) > 2:
            # the same request made of every signal itself
            for f in db.frames:
                for sg in f.signals:
                    for a in op[1]:
                        sg.del_attribute(a)
        elif k == "delFrameAttrs" and op[-1] == "each" and len(op) > 2:
            for f in db.frames:
                for a in op[1]:
                    f.del_attribute(a)
        elif k == "delSigAttrs":
            db.del_signal_attributes(op[1])
        elif k == "delFrameAttrs":
            db.del_frame_attributes(op[1])
        states.append(snapshot(db))
    return {"states": states}


def project(impl):
    return impl


def features(case, impl):
    prev = case["c"]["m"]
    for op, st in zip(case["c"]["ops"], impl["states"]):
        yield "%s:%s" % (op[0], "changed" if st != prev else "noop")
        if op[0] in ("renameSignal", "renameFrame"):
            yield op[0] + (":prefix" if op[1].endswith("*") else ":suffix" if op[1].startswith("*") else ":exact")
        if len(op) > 1 and isinstance(op[1], str):
            have = [f[0] for f in prev["frames"]] if "Frame" in op[0] else [s[0] for f in prev["frames"] for s in f[2]]
            core = op[1].strip("*")
            if core not in have and core.lower() in [h.lower() for h in have]:
                yield op[0] + ":name differs in letter case only from a present one"
            if op[-1] == "obj" and op[1] in have:
                yield op[0] + ":addressed by object"
        if op[0] in ("renameSignal", "renameFrame"):
            groups = [[f[0] for f in prev["frames"]]] if op[0] == "renameFrame" else [[s[0] for s in f[2]] for f in prev["frames"]]
            for names in groups:
                hit = [(i, j) for i, n in enumerate(names) for j, o in enumerate(names) if i != j and new_name(op[1], op[2], n) == o and new_name(op[1], op[2], n) != n]
                if hit:
                    yield op[0] + ":new name of a matching object is the present name of another one"
                    if any(new_name(op[1], op[2], names[j]) != names[j] for _, j in hit):
                        yield op[0] + ":... which matches too (%s)" % ("stands later" if any(i < j and new_name(op[1], op[2], names[j]) != names[j] for i, j in hit) else "stands earlier")
                    break
        if op[0] in ("delSigAttrs", "delFrameAttrs"):
            used = {a[0] for f in prev["frames"] for a in f[1]} if op[0] == "delFrameAttrs" else {a[0] for f in prev["frames"] for s in f[2] for a in s[2]}
            hit = [n for n in op[1] if n in used]
            yield op[0] + (":names an attribute that is set" if hit else ":names no attribute that is set")
            if any(n in ATTR_WORDS for n in hit):
                yield op[0] + ":deletes an attribute whose name is a word elsewhere (class field, format attribute, keyword, frame name)"
            if op[-1] == "each" and len(op) > 2:
                yield op[0] + ":as del_attribute of every object"
        prev = st
    conv = case["c"].get("conv")
    if conv:
        yield "through the converter: %s, file format %s, matrix %d of %d" % ("canconvert" if conv["cli"] else "convert()", conv["fmt"], conv["i"] + 1, len(conv["buses"]))
        yield "through the converter: %d operations" % len(case["c"]["ops"])
    if case["c"].get("look"):
        yield "lookups before every operation"
    zs = [sum(1 for s in f[2] if s[1] == 0) for f in case["c"]["m"]["frames"]]
    if any(z >= 2 for z in zs):
        yield "frame with >=2 zero-width signals"


def new_name(old, new, name):
    """the documented meaning of a rename (for the input statistics only; the judge is the Lean specification)"""
    if old.endswith("*"):
        return new + name[len(old) - 1:] if name.startswith(old[:-1]) else name
    if old.startswith("*"):
        return name[:len(name) - (len(old) - 1)] + new if name.endswith(old[1:]) else name
    return new if name == old else name


def nontrivial(case, impl):
    prev = case["c"]["m"]
    for st in impl["states"]:
        if st != prev:
            return True
        prev = st
    return False


def shrink_candidates(case):
    c = case["c"]
    ops = c["ops"]
    for i in range(len(ops)):
        if len(ops) > 1:
            yield {"op": "bulk", "c": dict(c, ops=ops[:i] + ops[i + 1:])}
    m = c["m"]
    for i in range(len(m["frames"])):
        if len(m["frames"]) > 1:
            yield {"op": "bulk", "c": dict(c, m=dict(m, frames=m["frames"][:i] + m["frames"][i + 1:]))}
        f = m["frames"][i]
        for j in range(len(f[2])):
            nf = [f[0], f[1], f[2][:j] + f[2][j + 1:]]
            yield {"op": "bulk", "c": dict(c, m=dict(m, frames=m["frames"][:i] + [nf] + m["frames"][i + 1:]))}
    conv = c.get("conv")
    if conv and len(conv["buses"]) > 1:
        # the other matrices of the file, one at a time
        for j in range(len(conv["buses"])):
            if j != conv["i"]:
                yield {"op": "bulk", "c": dict(c, conv=dict(conv, buses=conv["buses"][:j] + conv["buses"][j + 1:], i=conv["i"] - (1 if j < conv["i"] else 0)))}
    if conv and conv["cli"]:
        yield {"op": "bulk", "c": dict(c, conv=dict(conv, cli=False))}
