import CanVerif.Model.Compare
import CanVerif.Spec.CompareSpec
import CanVerif.Proofs.Compare
/-!
# C13 — comparison is sound and complete over the compared properties

Comparing two matrices reports no difference exactly when they agree on every compared property;
comparing a matrix with a copy of itself reports nothing.

`agree` (Spec/CompareSpec.lean) is the independent statement of "agree on every compared property";
`reportsNothing` is what `dump_result` prints nothing for.  Unbounded: any number of frames, signals,
ECUs, attributes, definitions, value tables; every setting of the ignore options.
-/
namespace CanVerif.C13
open CanVerif

/-- dictionaries (attributes, value tables, definitions) have unique keys -/
def KeysNodup {α β : Type} (d : List (α × β)) : Prop := (d.map (·.1)).Nodup

/-- the matrices the property quantifies over: every dictionary has unique keys -/
structure WfMat (m : QMat) : Prop where
  attrs : KeysNodup m.attrs
  gdefs : KeysNodup m.gdefs
  edefs : KeysNodup m.edefs
  fdefs : KeysNodup m.fdefs
  sdefs : KeysNodup m.sdefs
  vts : KeysNodup m.valueTables ∧ ∀ kv ∈ m.valueTables, KeysNodup kv.2
  ecus : ∀ e ∈ m.ecus, KeysNodup e.attrs
  frames : ∀ f ∈ m.frames, KeysNodup f.attrs ∧ ∀ s ∈ f.sigs, KeysNodup s.attrs ∧ KeysNodup s.values

/-- names are unique: frames by name and by (id, format), signals within a frame, signal groups within a frame, ECUs -/
structure UniqueNames (m : QMat) : Prop where
  frameNames : (m.frames.map (·.name)).Nodup
  frameIds : (m.frames.map fun f => (f.id, f.ext)).Nodup
  ecuNames : (m.ecus.map (·.name)).Nodup
  sigNames : ∀ f ∈ m.frames, (f.sigs.map (·.name)).Nodup ∧ (f.groups.map (·.name)).Nodup

mutual
/-- no node below this one reports anything: every descendant (and the node itself, if typed) is "equal" -/
def allEqual : Res → Bool
  | .node r t cs => (t.isNone || r == some "equal") && allEqualList cs
def allEqualList : List Res → Bool
  | [] => true
  | c :: rest => allEqual c && allEqualList rest
end

/-- `allEqual` is the same function as `reportsNothing` (Model/Compare.lean) -/
theorem allEqual_eq_reportsNothing (t : Res) : allEqual t = reportsNothing t := by
  have hl : ∀ l : List Res, (∀ c ∈ l, allEqual c = reportsNothing c) → allEqualList l = reportsNothingList l := by
    intro l; induction l with
    | nil => intro _; simp [allEqualList, reportsNothingList]
    | cons c rest ih =>
      intro h
      simp only [allEqualList, reportsNothingList, h c (List.mem_cons_self ..),
        ih fun x hx => h x (List.mem_cons_of_mem _ hx)]
  exact Res.rec (motive_1 := fun t => allEqual t = reportsNothing t)
    (motive_2 := fun l => ∀ c ∈ l, allEqual c = reportsNothing c)
    (fun r t cs ih => by simp only [allEqual, reportsNothing, hl cs ih])
    (fun _ h => nomatch h)
    (fun c rest h1 h2 x hx => by
      rcases List.mem_cons.1 hx with rfl | hx
      · exact h1
      · exact h2 x hx) t

/-! ### DEVIATION FROM THE GIVEN STATEMENT (extra hypothesis `ht`)

As originally stated (for *every* tree `t`, no hypothesis) `propagate_reports` is false: a node without a
type is never printed, but its own result still propagates upwards.  Counterexample (checked below by
`decide`): a typed "equal" node with one typeless child whose result is not "equal" —
`allEqual` is `true` (the typeless child is skipped, the parent is "equal"), but `propagate` turns the
parent into "changed", which is then reported.

Minimal extra hypothesis: every node other than the root has a type, `typedBelow t = true`
(`typedBelow (.node _ _ cs) = typedAllList cs`, `typedAll (.node _ t cs) = t.isSome && typedAllList cs`;
Proofs/Compare.lean).  Every tree that `compareDb` hands to `propagate` satisfies it
(`compareDb_typedBelow` below), so nothing is lost for the model. -/
example :
    reportsNothing (propagate (.node (some "equal") (some "T") [.node none none []])).1 = false ∧
    allEqual (.node (some "equal") (some "T") [.node none none []]) = true := by decide

/-- `propagate_changes` does not hide or invent differences: after propagation nothing is reported iff
nothing was reported before -/
theorem propagate_reports (t : Res) (ht : typedBelow t = true) : reportsNothing (propagate t).1 = allEqual t := by
  rw [allEqual_eq_reportsNothing]; exact propagate_reports_typed t ht

/-- the hypothesis of `propagate_reports` holds for the tree `compareDb` propagates over -/
theorem compareDb_typedBelow (ign : Ign) (a b : QMat) :
    compareDb ign a b = (propagate (compareDbPre ign a b)).1 ∧ typedBelow (compareDbPre ign a b) = true :=
  ⟨rfl, compareDbPre_typed ign a b⟩

theorem WfMat.raw {m : QMat} (h : WfMat m) : RawWf m :=
  ⟨h.attrs, h.gdefs, h.edefs, h.fdefs, h.sdefs, h.vts, h.ecus, h.frames⟩

-- (only the well-formedness of the second operand `hb` is needed: lookups are made in `b`'s dictionaries)
set_option linter.unusedVariables false in
/-- Soundness and completeness: the comparison reports no difference exactly when the two matrices
agree on every compared property, for every setting of the ignore options. -/
theorem compare_sound_complete (ign : Ign) (a b : QMat) (ha : WfMat a) (hb : WfMat b) :
    reportsNothing (compareDb ign a b) = SpecCompare.agree ign a b :=
  compareDb_ok ign a b hb.raw

/-- agreement is reflexive on matrices with unique names -/
theorem agree_refl (ign : Ign) (a : QMat) (ha : WfMat a) (hu : UniqueNames a) : SpecCompare.agree ign a a = true :=
  agree_refl_raw ign a hu.frameNames hu.ecuNames hu.sigNames ha.vts.1

/-- Comparing a matrix with a copy of itself reports nothing. -/
theorem compare_self (ign : Ign) (a : QMat) (ha : WfMat a) (hu : UniqueNames a) :
    reportsNothing (compareDb ign a a) = true := by
  rw [compare_sound_complete ign a a ha ha]; exact agree_refl ign a ha hu

/-- The command line flags map to the ignore settings as documented: comments and attributes are
compared only when asked for, value tables unless excluded, definitions always. -/
theorem flags_mapping (cc ca iv : Bool) :
    ignOfFlags cc ca iv = { igComment := !cc, igAttr := !ca, igDefine := false, igVt := iv } := rfl

-- (`ha`, `hb` are not needed for this one)
set_option linter.unusedVariables false in
/-- Excluded categories cannot cause a report: with value tables ignored, matrices differing only in
value tables (global and per signal) compare as equal to the same matrices with identical tables. -/
theorem ignore_valuetables_scope (ign : Ign) (hv : ign.igVt = true) (a b : QMat) (ha : WfMat a) (hb : WfMat b) :
    SpecCompare.agree ign a b =
      SpecCompare.agree ign
        { a with valueTables := [], frames := a.frames.map fun f => { f with sigs := f.sigs.map fun s => { s with values := [] } } }
        { b with valueTables := [], frames := b.frames.map fun f => { f with sigs := f.sigs.map fun s => { s with values := [] } } } :=
  agree_strip ign hv a b

/-! non-vacuity -/
def exA : QMat :=
  { frames := [{ name := "F", id := 0x10, ext := false, size := 8, comment := none, transmitters := ["E1"], attrs := [],
                 sigs := [{ name := "s", start := 0, size := 8, factor := 2, offset := 0, min := 0, max := 510, little := true,
                            signed := false, multiplex := "None", unit := "", comment := none, receivers := [], attrs := [], values := [] }],
                 groups := [] }],
    ecus := [], attrs := [], gdefs := [], edefs := [], fdefs := [], sdefs := [], valueTables := [] }
def exB : QMat := { exA with frames := exA.frames.map fun f => { f with sigs := f.sigs.map fun s => { s with factor := 3 } } }
example : reportsNothing (compareDb {} exA exA) = true := by decide
example : reportsNothing (compareDb {} exA exB) = false ∧ SpecCompare.agree {} exA exB = false := by decide

end CanVerif.C13
