#!/bin/bash
# tools/round.sh <Cxx> <mA> [<mB> ...] : confirm the sub-agent's changes /tmp/seed-Cxx/mA.* in a scratch worktree (tools/confirm_seed.sh),
# keep them under seeded/, then run the property's quick check against each with two seeds; prints CAUGHT / MISSED per seed.
# The checks run from a mirror of /verif (/root/vm-Cxx) against a scratch worktree of /repo with the change applied
# (PYTHONPATH=<worktree>/src takes precedence over the editable install), so /repo and /verif's evidence stay untouched and
# several properties can be tried at the same time.  SRC=<dir> mirrors another copy of /verif (work in progress), TAG=<t> names the scratch dirs.  NOCONFIRM=1 skips the confirmation (change already kept).
cd /verif
pid="$1"; shift
tag="${TAG:-$pid}"; vm="/root/vm-$tag"; wt="/root/mutrepo-$tag"
src="${SRC:-/verif}"
rsync -a --delete --exclude .git "$src/" "$vm/"
for m in "$@"; do
  [ -n "$NOCONFIRM" ] || tools/confirm_seed.sh "$pid" "$m" | tail -2
  d="/verif/seeded/$pid-$m"
  [ -d "$d" ] || continue
  c=$(python3 -c "import json; print(json.load(open('$d/meta.json')).get('checked_by') or '$pid')" 2>/dev/null || echo $pid)
  for s in ${SEEDS:-0 11}; do
    git -C /repo worktree remove --force "$wt" 2>/dev/null
    git -C /repo worktree add --detach "$wt" HEAD >/dev/null 2>&1 || { echo "worktree failed"; exit 2; }
    if ! git -C "$wt" apply "$d/patch.diff" 2>/dev/null; then echo "$pid-$m: patch does not apply"; break; fi
    out=$(cd "$vm" && PYTHONPATH="$wt/src" VERIF_SEED=$s ./check $c quick 2>&1); rc=$?
    if echo "$out" | grep -q "^VIOLATION property=$c"; then echo "$pid-$m seed=$s: CAUGHT $(echo "$out" | grep -c '^VIOLATION') ($(echo "$out" | grep '^VIOLATION' | head -1 | cut -c1-160))"; else echo "$pid-$m seed=$s: MISSED rc=$rc $(echo "$out" | tail -2 | cut -c1-200)"; fi
  done
done
git -C /repo worktree remove --force "$wt" 2>/dev/null
rm -rf "$vm"
