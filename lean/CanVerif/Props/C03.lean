import CanVerif.Model.Codec
import CanVerif.Model.Mux
import CanVerif.Spec.Mux
import CanVerif.Proofs.Codec
import CanVerif.Props.C01
import CanVerif.Props.C02
import CanVerif.Proofs.Mux
/-!
# C03 — multiplexed frames: exactly the active signals are decoded (and encoded)

Decoding a multiplexed frame returns the multiplexer, every signal not bound to a multiplexer
value, and exactly those bound signals whose multiplexer value (or, with extended multiplexing,
whose chain of value ranges through nested multiplexers) matches the selector values present in the
payload - each with its correct value - and no other signal.

Unbounded: any number of signals/groups, any nesting depth (the property's bound of 3 is not needed).
-/
namespace CanVerif.C03
open CanVerif

/-! ## simple multiplexing -/

/-- a signal is decoded for selector value `sel`: unbound (static or the multiplexer itself) or bound to `sel` -/
def activeSimple (sel : Int) (s : Sig) : Bool := s.muxVal == some sel || s.muxVal == none

/-- Key set and values of a simply multiplexed frame: exactly the active signals, each with the value
of its own bit field (C01). `mx` is the frame's only multiplexer. -/
theorem decode_simple_keys (f : Frame) (data : List Nat) (mx : Sig)
    (hmx : f.sigs.filter (·.isMuxer) = [mx])
    (hcx : f.complexMux = false) (hct : f.isContainer = false)
    (hnd : (f.sigs.map (·.name)).Nodup) (hlen : data.length = f.size) :
    f.decode data = .ok ((f.sigs.filter (activeSimple (rawOf mx data))).map fun s => (s.name, rawOf s data)) := by
  have hmem : mx ∈ f.sigs := by
    have : mx ∈ f.sigs.filter (·.isMuxer) := by rw [hmx]; simp
    exact (List.mem_filter.mp this).1
  have hmux : f.isMultiplexed = true := by
    have : mx ∈ f.sigs.filter (·.isMuxer) := by rw [hmx]; simp
    unfold Frame.isMultiplexed
    exact List.any_eq_true.mpr ⟨mx, hmem, (List.mem_filter.mp this).2⟩
  unfold Frame.decode
  rw [unpack_ok f data hnd hct hlen]
  simp only [hcx, hct, hmux, hmx, Bool.false_eq_true, if_false, Bool.not_false, Bool.and_self, if_true,
    List.getLast?_singleton]
  rw [dictGet_map_nodup f.sigs (fun s => rawOf s data) hnd hmem]
  simp only
  rw [pickAll_eq_fold _ (fun s => rawOf s data) _ _
    (fun s hs => dictGet_map_nodup f.sigs _ hnd (List.mem_filter.mp hs).1)]
  have hnd' : ((f.sigs.filter (activeSimple (rawOf mx data))).map (·.name)).Nodup :=
    List.Nodup.sublist (List.Sublist.map _ List.filter_sublist) hnd
  have := C01.dictSet_fold_nodup _ (fun s => rawOf s data) [] hnd' (by simp)
  simp only [List.nil_append] at this
  show Except.ok (List.foldl _ [] (f.sigs.filter (activeSimple (rawOf mx data)))) = _
  rw [this]

/-- A selector value no group uses decodes to the multiplexer and the static signals only. -/
theorem decode_simple_unused_selector (f : Frame) (data : List Nat) (mx : Sig)
    (hmx : f.sigs.filter (·.isMuxer) = [mx])
    (hcx : f.complexMux = false) (hct : f.isContainer = false)
    (hnd : (f.sigs.map (·.name)).Nodup) (hlen : data.length = f.size)
    (hunused : ∀ s ∈ f.sigs, s.muxVal ≠ some (rawOf mx data)) :
    f.decode data = .ok ((f.sigs.filter (fun s => s.muxVal == none)).map fun s => (s.name, rawOf s data)) := by
  rw [decode_simple_keys f data mx hmx hcx hct hnd hlen]
  congr 2
  apply List.filter_congr
  intro s hs
  have := hunused s hs
  simp [activeSimple, this]

/-! ## extended multiplexing -/

/-- Range test: both boundaries are inclusive; outside every range is excluded. -/
theorem range_boundaries (s : Sig) (v : Int) (hne : s.muxValGrp ≠ []) :
    s.muxInRange (some v) = true ↔ ∃ r ∈ s.muxValGrp, r.1 ≤ v ∧ v ≤ r.2 := by
  have hl : s.muxValGrp.length > 0 := List.length_pos_iff.mpr hne
  simp [Sig.muxInRange, hl]

/-- Without ranges the single selector value decides. -/
theorem range_single_value (s : Sig) (v : Int) (he : s.muxValGrp = []) :
    s.muxInRange (some v) = true ↔ s.muxVal = some v := by
  simp [Sig.muxInRange, he]

/-- A signal is active in a payload: unbound signals (static ones and the root multiplexer) are
active; a signal bound to multiplexer `m` is active iff `m` is active and `m`'s value lies in one
of the signal's ranges. -/
inductive Active (f : Frame) (data : List Nat) : Sig → Prop
  | unbound (s : Sig) : s ∈ f.sigs → s.muxerFor = none → Active f data s
  | bound (s m : Sig) : s ∈ f.sigs → m ∈ f.sigs → m.isMuxer = true → s.muxerFor = some m.name →
      Active f data m → s.muxInRange (some (rawOf m data)) = true → Active f data s

/-- well-formed extended-multiplexing bookkeeping (what the DBC reader builds from a well-formed
`SG_MUL_VAL_` description) -/
structure WfMuxTree (f : Frame) : Prop where
  nodup : (f.sigs.map (·.name)).Nodup
  /-- unbound signals carry no selector value; exactly one of them is a multiplexer (the root) -/
  unboundPlain : ∀ s ∈ f.sigs, s.muxerFor = none → s.muxVal = none
  oneRoot : ∃ r ∈ f.sigs, r.isMuxer = true ∧ r.muxerFor = none ∧
              ∀ r' ∈ f.sigs, r'.isMuxer = true → r'.muxerFor = none → r' = r
  /-- every binding names a multiplexer of the frame -/
  parentIsMux : ∀ s ∈ f.sigs, ∀ m, s.muxerFor = some m → ∃ p ∈ f.sigs, p.name = m ∧ p.isMuxer = true
  /-- at most one nested multiplexer active per selector value of its parent -/
  oneNested : ∀ c ∈ f.sigs, ∀ c' ∈ f.sigs, c.isMuxer = true → c'.isMuxer = true →
      c.muxerFor = c'.muxerFor → c.muxerFor ≠ none →
      ∀ v : Int, c.muxInRange (some v) = true → c'.muxInRange (some v) = true → c = c'
  /-- acyclic -/
  acyclic : ∃ rank : String → Nat, ∀ s ∈ f.sigs, ∀ m, s.muxerFor = some m → rank m < rank s.name

/-! ### `Active` versus the walk's reachability relation `Below` (CanVerif/Proofs/Mux.lean) -/

theorem Active.mem {f : Frame} {data : List Nat} {s : Sig} (h : Active f data s) : s ∈ f.sigs := by
  cases h with
  | unbound _ hs _ => exact hs
  | bound _ _ hs _ _ _ _ _ => exact hs

/-- everything below an active signal is active -/
theorem active_of_below {f : Frame} {data : List Nat} (hwf : WfMuxTree f) {m s : Sig}
    (h : Below f data m s) (hm : Active f data m) : Active f data s := by
  induction h with
  | self _ _ => exact hm
  | step m c s hmm hc hcb hcin _ ih =>
    obtain ⟨p, hp, hpn, hpm⟩ := hwf.parentIsMux c hc m.name hcb
    have : p = m := name_inj hwf.nodup hp hmm hpn
    subst this
    exact ih (.bound c p hc hmm hpm hcb hm hcin)

/-- an active signal is static or below the root multiplexer -/
theorem below_of_active {f : Frame} {data : List Nat} {root : Sig} (hroot : root ∈ f.sigs)
    (huniq : ∀ r' ∈ f.sigs, r'.isMuxer = true → r'.muxerFor = none → r' = root) {s : Sig}
    (h : Active f data s) :
    (s.muxerFor = none ∧ s.isMuxer = false) ∨ Below f data root s := by
  induction h with
  | unbound s hs hnone =>
    by_cases hmx : s.isMuxer = true
    · right; rw [huniq s hs hmx hnone]; exact .self root hroot
    · left; exact ⟨hnone, by simpa using hmx⟩
  | bound s m hs _ hmux hb _ hin ih =>
    rcases ih with ⟨_, h2⟩ | h
    · rw [hmux] at h2; cases h2
    · right; exact h.snoc hs hb hin

/-- Extended multiplexing: decoding terminates (the fuel `#signals + 1` of the model's walk suffices,
i.e. the Python `while` loop ends), succeeds, and returns exactly the active signals, each with the
value of its own bit field. -/
theorem decode_complex_keys (f : Frame) (data : List Nat) (hwf : WfMuxTree f)
    (hcx : f.complexMux = true) (hct : f.isContainer = false) (hlen : data.length = f.size) :
    ∃ d, f.decode data = .ok d ∧
      (∀ s ∈ f.sigs, (dictGet d s.name).isSome ↔ Active f data s) ∧
      (∀ s ∈ f.sigs, ∀ v, dictGet d s.name = some v → v = rawOf s data) ∧
      (∀ kv ∈ d, ∃ s ∈ f.sigs, s.name = kv.1) := by
  obtain ⟨root, hroot, hrmux, hrnone, huniq⟩ := hwf.oneRoot
  obtain ⟨rank, hrank⟩ := hwf.acyclic
  have hnd := hwf.nodup
  -- the initial filter: the static signals
  have hF0 : ∀ s, s ∈ f.filterForMultiplexer none none ↔
      s ∈ f.sigs ∧ s.muxerFor = none ∧ s.isMuxer = false := by
    intro s
    simp only [Frame.filterForMultiplexer, List.mem_filter, Sig.muxInRange, Bool.or_eq_true,
      Bool.and_eq_true, beq_iff_eq, Bool.not_eq_true', reduceCtorEq, or_false]
    constructor
    · rintro ⟨hs, ⟨_, h2⟩, h3⟩; exact ⟨hs, h2, h3⟩
    · rintro ⟨hs, h2, h3⟩; exact ⟨hs, ⟨hwf.unboundPlain s hs h2, h2⟩, h3⟩
  -- the first multiplexer of the walk: the root
  have hsub0 : f.getSubMultiplexer none none = some root := by
    unfold Frame.getSubMultiplexer
    cases hfind : f.sigs.find? (fun s => s.isMuxer && s.muxerFor == none && s.muxInRange none) with
    | none =>
      rw [List.find?_eq_none] at hfind
      exact absurd (by simp [hrmux, hrnone, Sig.muxInRange, hwf.unboundPlain root hroot hrnone]) (hfind root hroot)
    | some r' =>
      have hp := List.find?_some hfind
      simp only [Bool.and_eq_true, beq_iff_eq] at hp
      rw [huniq r' (List.mem_of_find?_eq_some hfind) hp.1.1 hp.1.2]
  obtain ⟨vals, filt, hw, hfilt, hvals⟩ := walk_spec (data := data) hnd hwf.parentIsMux hwf.oneNested rank hrank
    (f.sigs.length + 1) root [] (f.filterForMultiplexer none none) hroot
    (Nat.le_trans (List.countP_le_length) (Nat.le_succ _))
  have hrootA : Active f data root := .unbound root hroot hrnone
  -- what has been collected: exactly the active signals
  have hfiltA : ∀ s, s ∈ filt ↔ Active f data s := by
    intro s
    rw [hfilt s, hF0 s]
    constructor
    · rintro (⟨hs, h1, _⟩ | h)
      · exact .unbound s hs h1
      · exact active_of_below hwf h hrootA
    · intro h
      rcases below_of_active hroot huniq h with ⟨h1, h2⟩ | h'
      · left; exact ⟨h.mem, h1, h2⟩
      · right; exact h'
  have hlook : ∀ s ∈ filt, dictGet (f.sigs.map fun s => (s.name, rawOf s data)) s.name = some (rawOf s data) :=
    fun s hs => dictGet_map_nodup f.sigs _ hnd ((hfiltA s).mp hs).mem
  refine ⟨filt.foldl (fun a s => dictSet a s.name (rawOf s data)) vals, ?_, ?_⟩
  · unfold Frame.decode
    rw [unpack_ok f data hnd hct hlen]
    simp only [hcx, if_true, hsub0, hw]
    exact pickAll_eq_fold _ (fun s => rawOf s data) filt vals hlook
  -- every entry of the result is an active signal with its own value
  have hentries : ∀ kv ∈ filt.foldl (fun a s => dictSet a s.name (rawOf s data)) vals,
      ∃ s, Active f data s ∧ kv = (s.name, rawOf s data) := by
    intro kv hkv
    rcases fold_dictSet_mem _ _ _ hkv with h | ⟨s, hs, he⟩
    · rcases hvals kv h with h | ⟨m, hm, he⟩
      · simp at h
      · exact ⟨m, active_of_below hwf hm hrootA, he⟩
    · exact ⟨s, (hfiltA s).mp hs, he⟩
  refine ⟨?_, ?_, ?_⟩
  · intro s hs
    rw [dictGet_isSome_iff]
    constructor
    · rintro ⟨kv, hkv, hk⟩
      obtain ⟨s', hs', he⟩ := hentries kv hkv
      have : s' = s := name_inj hnd hs'.mem hs (by rw [← hk, he])
      rw [← this]; exact hs'
    · intro h
      exact fold_dictSet_key_mem _ _ _ ((hfiltA s).mpr h)
  · intro s hs v hv
    obtain ⟨s', hs', he⟩ := hentries _ (dictGet_some_mem hv)
    simp only [Prod.mk.injEq] at he
    have : s' = s := name_inj hnd hs'.mem hs he.1.symm
    rw [he.2, this]
  · intro kv hkv
    obtain ⟨s', hs', he⟩ := hentries kv hkv
    exact ⟨s', hs'.mem, by rw [he]⟩

/-! ## encoding -/

/-- Encoding a simply multiplexed frame writes only the multiplexer, the unbound signals and the
group selected by the supplied multiplexer value: every other supplied value is dropped before the
bits are placed. -/
theorem encode_simple_only_group (f : Frame) (data : List (String × Int)) (mx : Sig)
    (hmx : f.sigs.find? (·.isMuxer) = some mx)
    (hcx : f.complexMux = false) (hct : f.isContainer = false) :
    f.encode data =
      f.signalsToBytes (data.filter fun kv =>
        kv.1 == mx.name ||
        (f.sigs.any fun s => s.name == kv.1 && (s.muxVal == dictGet data mx.name || s.muxVal == none))) := by
  have hmux : f.isMultiplexed = true := by
    unfold Frame.isMultiplexed
    exact List.any_eq_true.mpr ⟨mx, List.mem_of_find?_eq_some hmx, List.find?_some hmx⟩
  unfold Frame.encode
  simp only [hcx, hct, hmux, hmx, Bool.false_eq_true, if_false, if_true]
  congr 1
  apply List.filter_congr
  intro kv _
  rw [Bool.eq_iff_iff]
  simp only [Bool.or_eq_true, beq_iff_eq, List.contains_eq_mem, List.mem_cons, List.mem_map,
    List.mem_filter, decide_eq_true_eq, List.any_eq_true, Bool.and_eq_true]
  constructor
  · rintro (h | ⟨s, ⟨hs, hp⟩, hn⟩)
    · left; exact h
    · right; exact ⟨s, hs, hn, hp⟩
  · rintro (h | ⟨s, hs, hn, hp⟩)
    · left; exact h
    · right; exact ⟨s, ⟨hs, hp⟩, hn⟩

/-- the assignment that actually reaches the bit placement: the supplied values of the multiplexer,
the unbound signals and the group selected by the supplied multiplexer value -/
def selectedData (f : Frame) (data : List (String × Int)) (mx : Sig) : List (String × Int) :=
  data.filter fun kv =>
    kv.1 == mx.name ||
    (f.sigs.any fun s => s.name == kv.1 && (s.muxVal == dictGet data mx.name || s.muxVal == none))

/-- Groups that share payload bits never corrupt each other, and the encoded payload decodes back to
the supplied values: if the *selected* signals (multiplexer, unbound signals, selected group) are in
the frame, pairwise non-overlapping and get representable values - signals of other groups may
overlap them freely - then encoding succeeds with the frame's length, every selected supplied
signal reads back its value, and every bit outside the selected supplied signals is clear.
(Corollary of `encode_simple_only_group` and C02's `signalsToBytes` theorems.) -/
theorem decode_encode_mux (f : Frame) (data : List (String × Int)) (mx : Sig)
    (hmx : f.sigs.find? (·.isMuxer) = some mx)
    (hcx : f.complexMux = false) (hct : f.isContainer = false)
    (hdom : C02.SigDomain f (selectedData f data mx)) :
    ∃ bytes, f.encode data = .ok bytes ∧ bytes.length = f.size ∧
      (∀ s ∈ f.sigs, ∀ v, dictGet (selectedData f data mx) s.name = some v → rawOf s bytes = v) ∧
      (∀ k, (∀ s ∈ f.sigs, dictGet (selectedData f data mx) s.name ≠ none → ∀ i, i < s.size →
              sigAddr s.little s.start s.size i ≠ k) → payloadBit bytes k = false) := by
  have henc := encode_simple_only_group f data mx hmx hcx hct
  obtain ⟨bytes, hb, hl, _⟩ := C02.signalsToBytes_total f (selectedData f data mx) hdom
  refine ⟨bytes, ?_, hl, ?_, ?_⟩
  · rw [henc]; exact hb
  · intro s hs v hv
    exact C02.decode_signalsToBytes f _ hdom bytes hb s hs v hv
  · intro k hk
    exact C02.signalsToBytes_clears_rest f _ hdom bytes hb k hk

/-! non-vacuity: the frame of tests/test_frame_decoding (simple) and a two-level tree -/
def exSimple : Frame :=
  { size := 2, sigs := [{ name := "mx", start := 0, size := 2, little := true, isMuxer := true },
                        { name := "a", start := 8, size := 8, little := true, muxVal := some 1, muxerFor := some "mx" },
                        { name := "b", start := 8, size := 4, little := true, muxVal := some 2, muxerFor := some "mx" },
                        { name := "st", start := 4, size := 4, little := true }] }
example : exSimple.decode [0x31, 0x7F] = .ok [("mx", 1), ("a", 0x7F), ("st", 3)] := by rfl

/-- a two-level tree satisfying `WfMuxTree` (the hypotheses of `decode_complex_keys` are satisfiable) -/
def exTree : Frame :=
  { size := 2, complexMux := true,
    sigs := [{ name := "m0", start := 0, size := 4, isMuxer := true },
             { name := "m1", start := 4, size := 4, isMuxer := true, muxerFor := some "m0", muxValGrp := [(1, 2)] },
             { name := "a", start := 8, size := 8, muxerFor := some "m1", muxValGrp := [(3, 3)] },
             { name := "b", start := 8, size := 4, muxerFor := some "m0", muxValGrp := [(0, 0)] },
             { name := "st", start := 12, size := 4 }] }

theorem exTree_wf : WfMuxTree exTree where
  nodup := by decide
  unboundPlain := by
    intro s hs; simp only [exTree, List.mem_cons, List.not_mem_nil, or_false] at hs
    rcases hs with rfl | rfl | rfl | rfl | rfl <;> simp
  oneRoot := by
    refine ⟨{ name := "m0", start := 0, size := 4, isMuxer := true }, by simp [exTree], rfl, rfl, ?_⟩
    intro s hs; simp only [exTree, List.mem_cons, List.not_mem_nil, or_false] at hs
    rcases hs with rfl | rfl | rfl | rfl | rfl <;> simp
  parentIsMux := by
    intro s hs; simp only [exTree, List.mem_cons, List.not_mem_nil, or_false] at hs
    rcases hs with rfl | rfl | rfl | rfl | rfl <;> simp [exTree]
  oneNested := by
    intro c hc c' hc'
    simp only [exTree, List.mem_cons, List.not_mem_nil, or_false] at hc hc'
    rcases hc with rfl | rfl | rfl | rfl | rfl <;> rcases hc' with rfl | rfl | rfl | rfl | rfl <;> simp
  acyclic := by
    refine ⟨fun n => if n = "m0" then 0 else if n = "m1" then 1 else 2, ?_⟩
    intro s hs; simp only [exTree, List.mem_cons, List.not_mem_nil, or_false] at hs
    rcases hs with rfl | rfl | rfl | rfl | rfl <;> simp

example : exTree.decode [0x31, 0x7F] = .ok [("m0", 1), ("m1", 3), ("st", 7), ("a", 0x7F)] := by rfl
example : exTree.decode [0x30, 0x7F] = .ok [("m0", 0), ("st", 7), ("b", 0xF)] := by rfl

end CanVerif.C03
