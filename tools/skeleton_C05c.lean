import CanVerif.Model.DbcAttr
/-!
# C05 (continued) — the attribute statements are read back as written: `BA_DEF_`, `BA_DEF_DEF_`, `BA_`

For every well-formed statement the reader model applied to the writer model's line gives the statement back: the definition of
an attribute on each of the five levels, its default (texts in quotes, also the empty text; numbers as they are), and the
value of an attribute of the network, an ECU, a frame or a signal.  The models are tied to dbc.dump / dbc.load by the
correspondence check (ops `def`, `dd`, `ba` of the C05 harness: same line text, same parse result).
-/
namespace CanVerif.C05c
open CanVerif CanVerif.Dbc

/-- `BA_DEF_`: level, name and definition text are read back as written -/
theorem def_line_roundtrip (d : DefLine) (h : wfDef d = true) : parseDef (renderDef d) = some d := by
  sorry

/-- `BA_DEF_DEF_`: the default is read back - a text (also the empty one) without its quotes, a number as written -/
theorem defdef_line_roundtrip (d : DefDefLine) (h : wfDefDef d = true) (ht : d.isText = true → ¬ d.value.contains '"') :
    parseDefDef (renderDefDef d) = some (d.name, d.value) := by
  sorry

/-- in particular the empty text is a default like any other -/
theorem defdef_empty_text (name : Str) (h : wfAttrName name = true) :
    parseDefDef (renderDefDef { name := name, isText := true, value := [] }) = some (name, []) := by
  sorry

/-- `BA_`: attribute, target and value are read back as written, for the network, an ECU, a frame and a signal -/
theorem ba_line_roundtrip (b : BaLine) (h : wfBa b = true) : parseBa (renderBa b) = some b := by
  sorry

/-- a text value loses exactly its quotes in the post-processing -/
theorem ba_text_value (t : Str) : stripQuotes ('"' :: t ++ ['"']) = t := by
  sorry

/-! non-vacuity -/
example : parseDef "BA_DEF_ BO_ \"FrInt\" INT 0 100;".toList = some { level := .frame, name := "FrInt".toList, definition := "INT 0 100".toList } := by decide
example : parseDef (renderDef { level := .global, name := "G".toList, definition := "ENUM \"a\",\"b\"".toList }) = some { level := .global, name := "G".toList, definition := "ENUM \"a\",\"b\"".toList } := by decide
example : parseDefDef "BA_DEF_DEF_ \"Note\" \"\";".toList = some ("Note".toList, []) := by decide
example : parseBa "BA_ \"SgStr\" SG_ 5 sig \"a; b\";".toList = some { attr := "SgStr".toList, target := .signal 5 "sig".toList, value := "\"a; b\"".toList } := by decide
example : parseBa (renderBa { attr := "GlI".toList, target := .global, value := "42".toList }) = some { attr := "GlI".toList, target := .global, value := "42".toList } := by decide

end CanVerif.C05c
