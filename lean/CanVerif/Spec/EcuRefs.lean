import CanVerif.Model.Glob
/-!
# Independent specification of ECU reference maintenance (C11), at the level of reference *sets*

The only shared definition is the glob matcher (`globMatch`, the meaning of a deletion pattern),
which is validated directly against `fnmatch.fnmatchcase` by the correspondence check.
-/
namespace CanVerif.Spec

structure RSig where
  name : String
  rx : List String
  deriving Repr, Inhabited

structure RFrame where
  name : String
  tx : List String
  rx : List String
  sigs : List RSig
  deriving Repr, Inhabited

structure RMat where
  ecus : List String
  frames : List RFrame
  free : List RSig := []
  deriving Repr, Inhabited

def subset (a b : List String) : Bool := a.all b.contains
def sameSet (a b : List String) : Bool := subset a b && subset b a
def nodup (l : List String) : Bool := l.eraseDups.length == l.length

/-- every frame's receiver list equals the union of its signals' receivers -/
def consistent (m : RMat) : Bool :=
  m.frames.all fun f => sameSet f.rx (f.sigs.flatMap (·.rx)) && nodup f.rx

/-- all names referenced anywhere -/
def referenced (m : RMat) : List String :=
  m.frames.flatMap (fun f => f.tx ++ f.rx ++ f.sigs.flatMap (·.rx)) ++ m.free.flatMap (·.rx)

/-- names referenced by frames: senders, frame receivers, receivers of the frames' signals -/
def referencedInFrames (m : RMat) : List String :=
  m.frames.flatMap (fun f => f.tx ++ f.rx ++ f.sigs.flatMap (·.rx))

/-- same frames and signals in the same order (names), reference lists related by `rel` -/
def framesRelated (rel : List String → List String → Bool) (a b : RMat) : Bool :=
  a.frames.length == b.frames.length &&
  (List.zip a.frames b.frames).all fun (f, g) =>
    f.name == g.name && rel f.tx g.tx && f.sigs.length == g.sigs.length &&
    (List.zip f.sigs g.sigs).all fun (s, t) => s.name == t.name && rel s.rx t.rx

/-- rename: every reference to `old` replaced by `new`, nothing else changes; an unlisted name is a no-op -/
def renameOk (before : RMat) (old new : String) (after : RMat) : Bool :=
  if !before.ecus.contains old then
    after.ecus == before.ecus && framesRelated (· == ·) before after &&
      (List.zip before.frames after.frames).all fun (f, g) => f.rx == g.rx
  else
    let ren := fun (x : String) => if x == old then new else x
    after.ecus.length == before.ecus.length &&
    sameSet after.ecus (before.ecus.map ren) && !after.ecus.contains old &&
    framesRelated (fun l l' => sameSet l' (l.map ren) && (!nodup l || nodup l')) before after &&
    consistent after

/-- delete: the listed ECUs among `names` disappear together with every reference to them; nothing else changes -/
def deleteOk (before : RMat) (names : List String) (after : RMat) : Bool :=
  let d := names.filter before.ecus.contains
  after.ecus == before.ecus.filter (fun e => !d.contains e) &&
  framesRelated (fun l l' => sameSet l' (l.filter fun x => !d.contains x) && (!nodup l || nodup l')) before after &&
  (d.isEmpty && (List.zip before.frames after.frames).all (fun (f, g) => f.rx == g.rx) || consistent after)

/-- update: every referenced ECU exists exactly once; listed ECUs stay; references untouched -/
def updateOk (before after : RMat) : Bool :=
  (after.ecus.take before.ecus.length == before.ecus) &&
  subset (referencedInFrames after) after.ecus &&
  (after.ecus.drop before.ecus.length).all (fun e => (referencedInFrames before).contains e && !before.ecus.contains e) &&
  nodup (after.ecus.drop before.ecus.length) &&
  framesRelated (· == ·) before after && consistent after

/-- remove obsolete: exactly the unreferenced ECUs disappear; references untouched -/
def obsoleteOk (before after : RMat) : Bool :=
  after.ecus == before.ecus.filter (referenced before).contains &&
  framesRelated (· == ·) before after &&
  (List.zip before.frames after.frames).all fun (f, g) => sameSet f.rx g.rx

/-- add / delete a receiver on the signals selected by two glob patterns -/
def recvOk (add : Bool) (before : RMat) (gf gs ecu : String) (after : RMat) : Bool :=
  after.ecus == before.ecus &&
  before.frames.length == after.frames.length &&
  (List.zip before.frames after.frames).all fun (f, g) =>
    f.name == g.name && f.tx == g.tx && f.sigs.length == g.sigs.length &&
    (List.zip f.sigs g.sigs).all (fun (s, t) =>
      s.name == t.name &&
      (if globMatch gf f.name && globMatch gs s.name then
         (if add then sameSet t.rx (ecu :: s.rx) else sameSet t.rx (s.rx.filter (· != ecu)))
       else s.rx == t.rx)) &&
    (if globMatch gf f.name then sameSet g.rx (g.sigs.flatMap (·.rx)) else g.rx == f.rx)

end CanVerif.Spec
