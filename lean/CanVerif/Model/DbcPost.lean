import CanVerif.Model.DbcFile
/-!
# Model of the post-processing of the DBC reader (formats/dbc.py `load`, "Backtracking", ~983-1090), in the parts that decide names,
references and texts

After the line loop the reader
* gives ECUs, frames and signals the long names their `System…LongSymbol` attributes carry (`value[1:-1]`) and deletes those attributes,
* recomputes every frame's receiver list from its signals (`Frame.update_receiver`),
* strips the quotes of the values of STRING attributes on all four levels (for every attribute name defined as STRING on that level),
* adds every referenced ECU to the ECU list (`update_ecu_list`: senders, then the receivers of the signals, frame by frame; an ECU is
  listed when a listed name equals it after `strip()`),
* removes the placeholder `Vector__XXX` from the ECU list and - once per listed ECU of that name - its first occurrence from every
  sender list and every signal's receiver list (`del_ecu`), recomputing the frame receivers,
* moves the signals of the pseudo frame `VECTOR__INDEPENDENT_SIG_MSG` (identifier 0x40000000) to the matrix and deletes that frame.

Cycle times are modelled since round 10 (`frameCycle`, `sigCycle`).  Not modelled here (decided by the round-trip observation): start values (Model/DbcStart.lean), ENUM index-to-name conversion,
`multiplex_signals`, the CAN FD / J1939 flags, environment variables.  The result is the projection that is compared with the matrix
`dbc.load` returns: names, senders, receivers, comments and the attributes that are neither carriers nor of an ENUM type.
-/
namespace CanVerif.Dbc
open CanVerif

structure PSig where
  name : Str
  receivers : List Str
  attrs : List (Str × Str)
  comment : Option Str
  cycle : Int := 0
  deriving Repr, DecidableEq, Inhabited

structure PFrame where
  key : Nat × Bool
  name : Str
  tx : List Str
  rx : List Str
  attrs : List (Str × Str)
  comment : Option Str
  sigs : List PSig
  cycle : Int := 0
  deriving Repr, DecidableEq, Inhabited

structure PMatrix where
  ecus : List Str
  frames : List PFrame
  free : List PSig
  attrs : List (Str × Str)
  deriving Repr, DecidableEq, Inhabited

def lookupAttr (a : List (Str × Str)) (k : Str) : Option Str := (a.find? fun kv => kv.1 == k).map (·.2)

def delAttr (a : List (Str × Str)) (k : Str) : List (Str × Str) := a.filter fun kv => kv.1 != k

/-- the name an object gets from its long-symbol attribute, and its attributes without it -/
def longName (attr : String) (name : Str) (attrs : List (Str × Str)) : Str × List (Str × Str) :=
  match lookupAttr attrs attr.toList with
  | some v => (stripQuotes v, delAttr attrs attr.toList)
  | none => (name, attrs)

/-- `value[1:-1]` for every attribute that the level defines as STRING -/
def stripStrings (defs : List RDef) (lvl : Level) (attrs : List (Str × Str)) : List (Str × Str) :=
  attrs.map fun (k, v) =>
    if defs.any (fun d => d.level == lvl && d.name == k && defType d.definition == "STRING".toList) then (k, stripQuotes v) else (k, v)

def addUniqueStr (l : List Str) (x : Str) : List Str := if l.contains x then l else l ++ [x]

/-- `list.remove(x)` if present -/
def removeFirst (l : List Str) (x : Str) : List Str :=
  match l with
  | [] => []
  | a :: r => if a == x then r else a :: removeFirst r x

/-- `add_ecu(Ecu(name))`: nothing when a listed name equals it after `strip()` -/
def addEcu (ecus : List Str) (name : Str) : List Str := if ecus.any (fun e => stripWs e == name) then ecus else ecus ++ [name]

def isCarrier (k : Str) : Bool :=
  startsWith k "Gen".toList || startsWith k "System".toList || k == "VFrameFormat".toList || k == "BusType".toList || k == "ProtocolType".toList

/-- the attributes the projection keeps: neither carriers nor of an ENUM type on that level -/
def keptAttrs (defs : List RDef) (lvl : Level) (attrs : List (Str × Str)) : List (Str × Str) :=
  attrs.filter fun (k, _) => !isCarrier k && !defs.any (fun d => d.level == lvl && d.name == k && defType d.definition == "ENUM".toList)

def repeatN {α} (n : Nat) (f : α → α) (x : α) : α :=
  match n with
  | 0 => x
  | n + 1 => repeatN n f (f x)

/-- `int(float(text))` for the text of a decimal number: the value cut towards zero (texts `float()` takes beyond the decimal numbers
of the format - underscores, `inf`, `nan` - are outside the model; values beyond 2^53 lose digits in `float`, the model keeps them) -/
def floatTextToInt (v : Str) : Option Int :=
  (strToDec (stripWs v)).map fun d =>
    let mag : Nat := if d.exp ≥ 0 then d.coeff * 10 ^ d.exp.toNat else d.coeff / 10 ^ (-d.exp).toNat
    if d.neg then -(mag : Int) else (mag : Int)

/-- `frame.cycle_time = int(float(attributes.get("GenMsgCycleTime", 0)))`; a value that is no finite number is ignored -/
def frameCycle (attrs : List (Str × Str)) : Int :=
  match lookupAttr attrs "GenMsgCycleTime".toList with
  | some v => (floatTextToInt v).getD 0
  | none => 0

/-- `signal.cycle_time = int(attributes.get("GenSigCycleTime", 0))`; a value `int()` refuses is ignored -/
def sigCycle (attrs : List (Str × Str)) : Int :=
  match lookupAttr attrs "GenSigCycleTime".toList with
  | some v => (pyIntKey v).getD 0
  | none => 0

/-- long names of the ECUs -/
def postEcus1 (m : RMatrix) : List (Str × List (Str × Str)) := m.ecus.map fun e => longName "SystemNodeLongSymbol" e.name e.attrs

def postSig (s : RSig) : PSig :=
  let (n, a) := longName "SystemSignalLongSymbol" s.sg.name s.attrs
  { name := n, receivers := s.sg.receivers, attrs := a, comment := s.comment, cycle := sigCycle s.attrs }

/-- long names of frames and signals -/
def postFrames1 (m : RMatrix) : List PFrame := m.frames.map fun f =>
  let (n, a) := longName "SystemMessageLongSymbol" f.name f.attrs
  { key := f.key, name := n, tx := f.transmitters, rx := [], attrs := a, comment := f.comment, sigs := f.sigs.map postSig,
    cycle := frameCycle f.attrs }

/-- texts of STRING attributes -/
def postFrames2 (m : RMatrix) : List PFrame := (postFrames1 m).map fun (f : PFrame) =>
  { f with attrs := stripStrings m.defs .frame f.attrs,
           sigs := f.sigs.map fun (s : PSig) => { s with attrs := stripStrings m.defs .signal s.attrs } }

/-- the ECU list with every referenced ECU -/
def postNames1 (m : RMatrix) : List Str :=
  (postFrames2 m).foldl (fun acc (f : PFrame) => (f.sigs.flatMap PSig.receivers).foldl addEcu (f.tx.foldl addEcu acc))
    (((postEcus1 m).map fun (n, a) => (n, stripStrings m.defs .ecu a)).map (·.1))

/-- without the placeholder -/
def postFrames3 (m : RMatrix) : List PFrame :=
  let v := "Vector__XXX".toList
  let nV := ((postNames1 m).filter fun n => n == v).length
  let dropV (l : List Str) : List Str := repeatN nV (fun x => removeFirst x v) l
  (postFrames2 m).map fun (f : PFrame) =>
    let sigs' : List PSig := f.sigs.map fun (s : PSig) => { s with receivers := dropV s.receivers }
    { f with tx := dropV f.tx, sigs := sigs', rx := (sigs'.flatMap PSig.receivers).foldl addUniqueStr [] }

def isDummyFrame (f : PFrame) : Bool := f.name == "VECTOR__INDEPENDENT_SIG_MSG".toList

/-- `del_frame`: the first frame that equals it is removed -/
def dropFirstFrame (d : PFrame) : List PFrame → List PFrame
  | [] => []
  | a :: r => if a == d then r else a :: dropFirstFrame d r

/-- signals without frame: the signals of the pseudo frame move to the matrix, the frame goes -/
def splitDummy (fs : List PFrame) : List PFrame × List PSig :=
  match fs.find? isDummyFrame with
  | some d => if d.key.1 == 0x40000000 then (dropFirstFrame d fs, d.sigs) else (fs, [])
  | none => (fs, [])

def postProcess (m : RMatrix) : PMatrix :=
  let gattrs := stripStrings m.defs .global m.attrs
  let names2 := (postNames1 m).filter fun n => n != "Vector__XXX".toList
  let keepSig (s : PSig) : PSig := { s with attrs := keptAttrs m.defs .signal s.attrs }
  { ecus := names2,
    frames := (splitDummy (postFrames3 m)).1.map fun (f : PFrame) => { f with attrs := keptAttrs m.defs .frame f.attrs, sigs := f.sigs.map keepSig },
    free := (splitDummy (postFrames3 m)).2.map keepSig,
    attrs := keptAttrs m.defs .global gattrs }

end CanVerif.Dbc
