import CanVerif.Spec.Codec
/-!
# Independent specification of the layout utilities (C16), in terms of the physical bit addresses
of the signals (`Spec.addrs`, i.e. the addresses decoding depends on, C01).
The usage report is indexed MSB-first: entry `j` describes physical address `flipN j`.
-/
namespace CanVerif.Spec

/-- names of the signals whose value depends on physical address `k` -/
def usersOf (sigs : List SigD) (k : Nat) : List String := (sigs.filter fun s => (addrs s).contains k).map (·.name)

def sameNames (a b : List String) : Bool := a.all b.contains && b.all a.contains

/-- the usage report lists for every payload bit exactly the signals depending on it -/
def layoutOk (nbytes : Nat) (sigs : List SigD) (layout : List (List String)) : Bool :=
  layout.length == 8 * nbytes &&
  (List.zip (List.range (8 * nbytes)) layout).all fun (j, cell) => sameNames cell (usersOf sigs (flipN j))

def noOverlap (sigs : List SigD) : Bool :=
  let all := sigs.flatMap addrs
  all.eraseDups.length == all.length

/-- after adding dummies: existing signals untouched, and (when nothing overlapped before) every bit
of the frame belongs to exactly one signal -/
def dummiesOk (nbytes : Nat) (before after : List SigD) (sameOld : Bool) : Bool :=
  sameOld &&
  (!noOverlap before ||
    (noOverlap after && (List.range (8 * nbytes)).all fun k => (after.flatMap addrs).contains k))

/-- smallest byte count containing all signals -/
def neededBytes (sigs : List SigD) : Nat :=
  (sigs.flatMap addrs).foldl (fun m a => max m (a / 8 + 1)) 0

def permitted : List Nat := [0, 1, 2, 3, 4, 5, 6, 7, 8, 12, 16, 20, 24, 32, 48, 64]

/-- smallest permitted CAN (FD) length not below `n` (unchanged above 64) -/
def fitSpec (n : Nat) : Nat := (permitted.find? (fun p => p ≥ n)).getD n

/-- compressed placement: the signals, in the order of their position, packed without gaps from the
beginning (Intel: physical bit 0 upwards; Motorola: first transmitted bit onwards) -/
def compressedStarts (sigs : List SigD) : List (String × Nat) :=
  let sorted := sigs.mergeSort (fun a b => a.start ≤ b.start)
  (sorted.foldl (fun (acc : Nat × List (String × Nat)) s => (acc.1 + s.size, acc.2 ++ [(s.name, acc.1)])) (0, [])).2

end CanVerif.Spec
