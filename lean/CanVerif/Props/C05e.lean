import CanVerif.Model.DbcTables
import CanVerif.Proofs.DbcTables
/-!
# C05 (continued) — global value tables and signal groups are read back as written: `VAL_TABLE_`, `SIG_GROUP_`
-/
namespace CanVerif.C05e
open CanVerif CanVerif.Dbc

/-- `VAL_TABLE_`: name, keys and texts come back, also texts with quotes, blanks at their ends or semicolons, and the empty table -/
theorem vt_line_roundtrip (v : VtLine) (h : wfVt v = true) : parseVt (renderVt v) = some v :=
  TableProofs.parseVt_renderVt v h

/-- in particular a table without entries (written with a blank behind the name, which the reader's pattern asks for) -/
theorem vt_empty_roundtrip (name : Str) (h : isIdent name = true) :
    parseVt (renderVt { name := name, entries := [] }) = some { name := name, entries := [] } :=
  TableProofs.parseVt_renderVt _ (by simpa [wfVt] using h)

/-- `SIG_GROUP_`: frame, group name, group number and the members in their order come back -/
theorem group_line_roundtrip (g : GroupLine) (h : wfGroup g = true) : parseGroup (renderGroup g) = some g :=
  TableProofs.parseGroup_renderGroup g h

/-! non-vacuity -/
example : renderVt { name := "Tab".toList, entries := [("0".toList, "Off".toList), ("1".toList, "two words".toList)] } =
    "VAL_TABLE_ Tab 0 \"Off\" 1 \"two words\";".toList := by decide
example : parseVt "VAL_TABLE_ Tab 0 \"Off\" 1 \"two words\";".toList =
    some { name := "Tab".toList, entries := [("0".toList, "Off".toList), ("1".toList, "two words".toList)] } := by decide
example : parseGroup "SIG_GROUP_ 291 Grp 1 : a b;".toList = some { frameId := 291, name := "Grp".toList, groupId := 1, members := ["a".toList, "b".toList] } := by decide
example : parseGroup (renderGroup { frameId := 5, name := "G".toList, groupId := 2, members := [] }) = some { frameId := 5, name := "G".toList, groupId := 2, members := [] } := by decide
example : parseVt (renderVt { name := "T".toList, entries := [("0".toList, "x ".toList), ("1".toList, "q\"uote; semi".toList)] }) =
    some { name := "T".toList, entries := [("0".toList, "x ".toList), ("1".toList, "q\"uote; semi".toList)] } := by decide
/-- before fix (see known_findings.json, C05 global value tables) the writer did not escape quotes: such a line loses its table -/
example : (parseVt "VAL_TABLE_ T 2 \"q\"uote\";".toList).map (·.entries.length) = some 2 := by decide

end CanVerif.C05e
