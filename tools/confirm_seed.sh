#!/bin/bash
# tools/confirm_seed.sh <Cxx> <m1|m2|...> : confirm a sub-agent's mutant in a scratch worktree and store it under seeded/
# confirms: patch applies to a clean checkout of /repo HEAD, full test suite passes with it, demo fails with it, demo passes without it
pid="$1"; m="$2"; src="/tmp/seed-$pid"; wt="/tmp/confirm-wt-$pid-$m"
out="/verif/seeded/$pid-$m"
set -u
git -C /repo worktree remove --force "$wt" 2>/dev/null
git -C /repo worktree add --detach "$wt" HEAD >/dev/null 2>&1 || { echo "worktree failed"; exit 2; }
cd "$wt"
export PYTHONPATH="$wt/src"
/venv/bin/python "$src/${m}_demo.py" >/dev/null 2>&1; clean_rc=$?
git apply "$src/$m.diff" || { echo "$pid $m: patch does not apply"; git -C /repo worktree remove --force "$wt"; exit 3; }
/venv/bin/python "$src/${m}_demo.py" >/tmp/confirm-$pid-$m.demo.log 2>&1; mut_rc=$?
/venv/bin/python -m pytest -q -p no:cacheprovider --timeout=900 -x tests >/tmp/confirm-$pid-$m.test.log 2>&1; test_rc=$?
tests_line=$(tail -1 /tmp/confirm-$pid-$m.test.log)
cd /; git -C /repo worktree remove --force "$wt"
echo "$pid $m: demo clean rc=$clean_rc, demo mutated rc=$mut_rc, tests rc=$test_rc ($tests_line)"
if [ $clean_rc -eq 0 ] && [ $mut_rc -ne 0 ] && [ $test_rc -eq 0 ]; then
  mkdir -p "$out"
  cp "$src/$m.diff" "$out/patch.diff"; cp "$src/${m}_demo.py" "$out/demo.py"
  /venv/bin/python - "$pid" "$m" "$src/$m.json" "$out/meta.json" "$tests_line" <<'PY'
import json,sys
pid,m,src,out,tl=sys.argv[1:6]
try: d=json.load(open(src))
except Exception as e: d={"summary":"(agent meta unreadable: %s)"%e}
meta={"property":pid,"mutant":m,"summary":d.get("summary"),"needs":d.get("needs"),
 "confirmed":{"demo_exit_clean_tree":0,"demo_exit_with_patch":"non-zero","test_suite_with_patch":tl,
  "how":"tools/confirm_seed.sh %s %s (scratch worktree of /repo HEAD, PYTHONPATH=<worktree>/src)"%(pid,m)},
 "agent_ran":d.get("ran")}
json.dump(meta,open(out,"w"),indent=1)
PY
  echo "KEPT $out"
else
  echo "REJECTED $pid $m"
fi
rm -f /tmp/confirm-$pid-$m.demo.log
