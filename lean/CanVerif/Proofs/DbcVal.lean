import CanVerif.Model.DbcText
import CanVerif.Proofs.Num
/-! helper lemmas for the `VAL_` statement round trip of Props/C05.lean -/
namespace CanVerif.Dbc.ValProofs
open CanVerif CanVerif.Num

/-! ## escaping -/

theorem unescape_cons_ne (c : Char) (r : Str) (h : c ≠ '\\') :
    unescapeQuotes (c :: r) = c :: unescapeQuotes r := by
  rw [unescapeQuotes]
  intro r' h' _; exact h h'

theorem escape_cons_ne (c : Char) (r : Str) (h : c ≠ '"') :
    escapeQuotes (c :: r) = c :: escapeQuotes r := by
  rw [escapeQuotes]
  intro h'; exact h h'

theorem escape_quote (r : Str) : escapeQuotes ('"' :: r) = '\\' :: '"' :: escapeQuotes r := by
  rw [escapeQuotes]

theorem unescape_bsq (r : Str) : unescapeQuotes ('\\' :: '"' :: r) = '"' :: unescapeQuotes r := by
  rw [unescapeQuotes]

theorem unescape_escape_of (t : Str) (h : ∀ c ∈ t, c ≠ '\\') : unescapeQuotes (escapeQuotes t) = t := by
  induction t with
  | nil => simp [escapeQuotes, unescapeQuotes]
  | cons c r ih =>
    have hr : ∀ x ∈ r, x ≠ '\\' := fun x hx => h x (List.mem_cons_of_mem _ hx)
    by_cases hc : c = '"'
    · subst hc
      rw [escape_quote, unescape_bsq, ih hr]
    · rw [escape_cons_ne c r hc, unescape_cons_ne c _ (h c List.mem_cons_self), ih hr]

theorem wfText_no_bs (t : Str) (h : wfText t = true) : ∀ c ∈ t, c ≠ '\\' := by
  intro c hc hcb
  subst hcb
  unfold wfText at h
  simp only [Bool.not_eq_true', List.any_eq_false] at h
  have := h _ hc
  simp at this

theorem unescape_escape' (t : Str) (h : wfText t = true) : unescapeQuotes (escapeQuotes t) = t :=
  unescape_escape_of t (wfText_no_bs t h)

/-! ## the split at unescaped quotes -/

theorem go_nil (cur : Str) : escapeAwareSplit.go cur [] = [cur.reverse] := by
  simp [escapeAwareSplit.go]
theorem go_bs (cur : Str) (c : Char) (r : Str) :
    escapeAwareSplit.go cur ('\\' :: c :: r) = escapeAwareSplit.go (c :: '\\' :: cur) r := by
  simp [escapeAwareSplit.go]
theorem go_quote (cur : Str) (r : Str) :
    escapeAwareSplit.go cur ('"' :: r) = cur.reverse :: escapeAwareSplit.go [] r := by
  simp [escapeAwareSplit.go]
theorem go_other (cur : Str) (c : Char) (r : Str) (h1 : c ≠ '"') (h2 : c ≠ '\\') :
    escapeAwareSplit.go cur (c :: r) = escapeAwareSplit.go (c :: cur) r := by
  rw [escapeAwareSplit.go]
  · simp [h1]
  · intro h _; exact h2 h
  · intro c' r' h _; exact h2 h

/-- a stretch without quote and backslash is collected -/
theorem go_plain (s : Str) (h : ∀ c ∈ s, c ≠ '"' ∧ c ≠ '\\') (cur rest : Str) :
    escapeAwareSplit.go cur (s ++ rest) = escapeAwareSplit.go (s.reverse ++ cur) rest := by
  induction s generalizing cur with
  | nil => simp
  | cons c r ih =>
    have hc := h c List.mem_cons_self
    rw [List.cons_append, go_other cur c _ hc.1 hc.2, ih (fun x hx => h x (List.mem_cons_of_mem _ hx))]
    simp

/-- an escaped text is collected -/
theorem go_escaped (t : Str) (h : ∀ c ∈ t, c ≠ '\\') (cur rest : Str) :
    escapeAwareSplit.go cur (escapeQuotes t ++ rest) =
      escapeAwareSplit.go ((escapeQuotes t).reverse ++ cur) rest := by
  induction t generalizing cur with
  | nil => simp [escapeQuotes]
  | cons c r ih =>
    have hr : ∀ x ∈ r, x ≠ '\\' := fun x hx => h x (List.mem_cons_of_mem _ hx)
    by_cases hc : c = '"'
    · subst hc
      rw [escape_quote, List.cons_append, List.cons_append, go_bs, ih hr]
      simp
    · rw [escape_cons_ne c r hc, List.cons_append, go_other cur c _ hc (h c List.mem_cons_self), ih hr]
      simp

/-- one `key "text"` group -/
theorem go_group (s t rest : Str) (hs : ∀ c ∈ s, c ≠ '"' ∧ c ≠ '\\') (ht : ∀ c ∈ t, c ≠ '\\') :
    escapeAwareSplit.go [] (s ++ '"' :: (escapeQuotes t ++ '"' :: rest)) =
      s :: escapeQuotes t :: escapeAwareSplit.go [] rest := by
  rw [go_plain s hs, go_quote, go_escaped t ht, go_quote]
  simp

/-! ## blanks -/

theorem dropWhile_all (p : Char → Bool) (a s : Str) (ha : ∀ c ∈ a, p c = true) :
    (a ++ s).dropWhile p = s.dropWhile p := by
  induction a with
  | nil => rfl
  | cons c r ih =>
    rw [List.cons_append, List.dropWhile_cons, if_pos (ha c List.mem_cons_self)]
    exact ih (fun x hx => ha x (List.mem_cons_of_mem _ hx))

theorem dropWhile_none (p : Char → Bool) (s : Str) (h : ∀ c ∈ s.head?, p c = false) : s.dropWhile p = s := by
  cases s with
  | nil => rfl
  | cons c r =>
    have : p c = false := h c (by simp)
    simp [this]

/-- blanks around a text without blanks are stripped -/
theorem stripWs_pad (a s b : Str) (ha : ∀ c ∈ a, isWs c = true) (hb : ∀ c ∈ b, isWs c = true)
    (hs : ∀ c ∈ s, isWs c = false) : stripWs (a ++ s ++ b) = s := by
  have h1 : ∀ (x : Str), (∀ c ∈ x, isWs c = false) → ∀ y, (∀ c ∈ y, isWs c = true) →
      (x ++ y).dropWhile isWs = if x = [] then [] else x ++ y := by
    intro x hx y hy
    cases x with
    | nil =>
      simp only [List.nil_append, if_true]
      have := dropWhile_all isWs y [] hy
      simpa using this
    | cons c r =>
      simp [hx c List.mem_cons_self]
  unfold stripWs
  rw [List.append_assoc, dropWhile_all isWs a _ ha, h1 s hs b hb]
  by_cases hnil : s = []
  · simp [hnil]
  · rw [if_neg hnil, List.reverse_append, dropWhile_all isWs b.reverse _ (by simpa using hb)]
    have h2 := h1 s.reverse (by simpa using hs) [] (by simp)
    simp only [List.append_nil] at h2
    rw [h2]
    simp [hnil]

/-- a line that starts and ends with a non-blank is unchanged -/
theorem stripWs_id (x y : Char) (m : Str) (hx : isWs x = false) (hy : isWs y = false) :
    stripWs (x :: (m ++ [y])) = x :: (m ++ [y]) := by
  unfold stripWs
  simp [hx, hy]

/-! ## integers -/

theorem isDigit_of_isDig {c : Char} (h : IsDig c) : isDigit c = true := by
  have := (isDig_iff c).mp h
  simp [isDigit, this.1, this.2]

theorem isDig_facts {c : Char} (h : IsDig c) :
    c ≠ '"' ∧ c ≠ '\\' ∧ c ≠ ' ' ∧ c ≠ '-' ∧ isWs c = false := by
  refine ⟨?_, ?_, ?_, ?_, ?_⟩
  · rintro rfl; revert h; unfold IsDig; decide
  · rintro rfl; revert h; unfold IsDig; decide
  · rintro rfl; revert h; unfold IsDig; decide
  · rintro rfl; revert h; unfold IsDig; decide
  · cases hw : isWs c with
    | false => rfl
    | true =>
      exfalso
      simp only [isWs, Bool.or_eq_true, beq_iff_eq] at hw
      rcases hw with ((rfl | rfl) | rfl) | rfl <;> (revert h; unfold IsDig; decide)

/-- a character of a rendered integer: digit or minus -/
def IntCh (c : Char) : Prop := IsDig c ∨ c = '-'

theorem IntCh.facts {c : Char} (h : IntCh c) : c ≠ '"' ∧ c ≠ '\\' ∧ c ≠ ' ' ∧ isWs c = false := by
  rcases h with h | rfl
  · exact ⟨(isDig_facts h).1, (isDig_facts h).2.1, (isDig_facts h).2.2.1, (isDig_facts h).2.2.2.2⟩
  · decide

theorem intDigits_chars (k : Int) : ∀ c ∈ intDigits k, IntCh c := by
  intro c hc
  unfold intDigits at hc
  split at hc
  · rcases List.mem_cons.mp hc with rfl | hc
    · exact Or.inr rfl
    · exact Or.inl (natDigits_allDig _ c hc)
  · exact Or.inl (natDigits_allDig _ c hc)

theorem intDigits_ne_nil (k : Int) : intDigits k ≠ [] := by
  unfold intDigits
  split
  · simp
  · exact natDigits_ne_nil _

theorem parseInt_intDigits (k : Int) : parseInt (intDigits k) = some k := by
  unfold intDigits
  split
  · next hk =>
    unfold parseInt
    have hne : (natDigits k.natAbs).isEmpty = false := by
      cases hn : natDigits k.natAbs with
      | nil => exact absurd hn (natDigits_ne_nil _)
      | cons _ _ => rfl
    simp only [hne, digitsToNat_natDigits', Bool.false_eq_true, if_false]
    simp
    omega
  · next hk =>
    cases hn : natDigits k.natAbs with
    | nil => exact absurd hn (natDigits_ne_nil _)
    | cons d ds =>
      have hd : d ≠ '-' := (isDig_facts (natDigits_allDig k.natAbs d (by rw [hn]; exact List.mem_cons_self))).2.2.2.1
      unfold parseInt
      split
      · next r heq => cases heq; exact absurd rfl hd
      · rw [← hn]
        simp only [digitsToNat_natDigits']
        rw [hn]
        simp
        omega

/-! ## the entries -/

/-- the reader's treatment of one `(key text, value text)` pair -/
def valF : Str × Str → Option (Int × Str) :=
  fun (k, t) => (parseInt (stripWs k)).map fun ki => (ki, unescapeQuotes t)

/-- the writer's rendering of one entry -/
def ent : Int × Str → Str := fun (k, t) => ' ' :: intDigits k ++ " \"".toList ++ escapeQuotes t ++ ['"']

theorem valF_ok (a b : Str) (k : Int) (t : Str) (ha : ∀ c ∈ a, isWs c = true) (hb : ∀ c ∈ b, isWs c = true)
    (ht : ∀ c ∈ t, c ≠ '\\') : valF (a ++ intDigits k ++ b, escapeQuotes t) = some (k, t) := by
  unfold valF
  simp only
  rw [stripWs_pad a _ b ha hb (fun c hc => (intDigits_chars k c hc).facts.2.2.2), parseInt_intDigits,
    unescape_escape_of t ht]
  rfl

theorem pad_plain (a b : Str) (k : Int) (ha : ∀ c ∈ a, c = ' ') (hb : ∀ c ∈ b, c = ' ') :
    ∀ c ∈ a ++ intDigits k ++ b, c ≠ '"' ∧ c ≠ '\\' := by
  intro c hc
  simp only [List.mem_append] at hc
  rcases hc with (hc | hc) | hc
  · rw [ha c hc]; decide
  · exact ⟨(intDigits_chars k c hc).facts.1, (intDigits_chars k c hc).facts.2.1⟩
  · rw [hb c hc]; decide

theorem entries_split (es : List (Int × Str)) (h : ∀ e ∈ es, ∀ c ∈ e.2, c ≠ '\\') :
    (pairUp (escapeAwareSplit.go [] (es.flatMap ent))).mapM valF = some es := by
  induction es with
  | nil => simp [go_nil, pairUp]
  | cons e r ih =>
    obtain ⟨k, t⟩ := e
    have ht : ∀ c ∈ t, c ≠ '\\' := h (k, t) List.mem_cons_self
    have hr := ih (fun e he => h e (List.mem_cons_of_mem _ he))
    have hshape : ((k, t) :: r).flatMap ent =
        ([' '] ++ intDigits k ++ [' ']) ++ '"' :: (escapeQuotes t ++ '"' :: r.flatMap ent) := by
      simp [ent]
    rw [hshape, go_group _ t _ (pad_plain [' '] [' '] k (by simp) (by simp)) ht, pairUp, List.mapM_cons,
      valF_ok [' '] [' '] k t (by simp [isWs]) (by simp [isWs]) ht, hr]
    rfl

/-- the same with the first blank taken away (it separates the name from the first key) -/
theorem entries_split_first (k : Int) (t : Str) (r : List (Int × Str)) (ht : ∀ c ∈ t, c ≠ '\\')
    (h : ∀ e ∈ r, ∀ c ∈ e.2, c ≠ '\\') :
    (pairUp (escapeAwareSplit (intDigits k ++ " \"".toList ++ escapeQuotes t ++ ['"'] ++ r.flatMap ent))).mapM valF =
      some ((k, t) :: r) := by
  have hshape : intDigits k ++ " \"".toList ++ escapeQuotes t ++ ['"'] ++ r.flatMap ent =
      ([] ++ intDigits k ++ [' ']) ++ '"' :: (escapeQuotes t ++ '"' :: r.flatMap ent) := by
    simp
  unfold escapeAwareSplit
  rw [hshape, go_group _ t _ (pad_plain [] [' '] k (by simp) (by simp)) ht, pairUp, List.mapM_cons,
    valF_ok [] [' '] k t (by simp) (by simp [isWs]) ht, entries_split r h]
  rfl

/-! ## the statement -/

theorem parseVal_shape (d : Char) (ds : Str) (n : Char) (ns : Str) (body : Str) (id : Nat)
    (es : List (Int × Str))
    (hd : ∀ c ∈ d :: ds, IsDig c) (hid : digitsToNat (d :: ds) = some id)
    (hn : ∀ c ∈ n :: ns, isBlank c = false)
    (hb : ∀ c ∈ body.head?, c ≠ ' ')
    (hes : (pairUp (escapeAwareSplit body)).mapM valF = some es) :
    parseVal ("VAL_ ".toList ++ (d :: ds) ++ ' ' :: ((n :: ns) ++ ' ' :: (body ++ [';']))) =
      some ⟨id, n :: ns, es⟩ := by
  have hdsp : d ≠ ' ' := (isDig_facts (hd d List.mem_cons_self)).2.2.1
  have hnsp : n ≠ ' ' := by
    rintro rfl
    have := hn ' ' List.mem_cons_self
    revert this; decide
  have h1 : skipSp (("VAL_ ".toList ++ (d :: ds) ++ ' ' :: ((n :: ns) ++ ' ' :: (body ++ [';']))).drop 4) =
      (d :: ds) ++ ' ' :: ((n :: ns) ++ ' ' :: (body ++ [';'])) := by
    simp [skipSp, hdsp]
  have h2 : ((d :: ds) ++ ' ' :: ((n :: ns) ++ ' ' :: (body ++ [';']))).span isDigit =
      (d :: ds, ' ' :: ((n :: ns) ++ ' ' :: (body ++ [';']))) :=
    span_append_of isDigit _ _ (fun c hc => isDigit_of_isDig (hd c hc)) (Or.inr ⟨_, _, rfl, by decide⟩)
  have h3 : skipSp (' ' :: ((n :: ns) ++ ' ' :: (body ++ [';']))) = (n :: ns) ++ ' ' :: (body ++ [';']) := by
    simp [skipSp, hnsp]
  have h4 : ((n :: ns) ++ ' ' :: (body ++ [';'])).span (fun c => !isBlank c) =
      (n :: ns, ' ' :: (body ++ [';'])) :=
    span_append_of _ _ _ (fun c hc => by simp [hn c hc]) (Or.inr ⟨_, _, rfl, by decide⟩)
  have h5 : skipSp (body ++ [';']) = body ++ [';'] := by
    unfold skipSp
    apply dropWhile_none
    intro c hc
    cases body with
    | nil => simp at hc; subst hc; decide
    | cons x xs =>
      simp at hc; subst hc
      have := hb x (by simp)
      simpa using this
  have h6 : ((body ++ [';']).reverse.dropWhile (· != ';')) = ';' :: body.reverse := by
    simp
  unfold parseVal
  rw [if_neg (by simp [startsWith])]
  rw [h1, h2]
  simp only
  rw [h3, h4]
  simp only
  rw [h5, h6]
  simp only [List.reverse_reverse]
  rw [hid]
  simp only [Option.bind_some]
  have hes' : (pairUp (escapeAwareSplit body)).mapM
      (fun (x : Str × Str) => match x with
        | (k, t) => (parseInt (stripWs k)).map fun ki => (ki, unescapeQuotes t)) = some es := hes
  rw [hes']
  rfl

theorem isBlank_of_identChar (c : Char) (h : isIdentChar c = true) : isBlank c = false := by
  cases hb : isBlank c with
  | false => rfl
  | true =>
    exfalso
    simp only [isBlank, isWs, Bool.or_eq_true, beq_iff_eq] at hb
    rcases hb with ((((rfl | rfl) | rfl) | rfl) | rfl) | rfl <;> (revert h; decide)

theorem renderVal_shape (id : Nat) (name : Str) (k : Int) (t : Str) (r : List (Int × Str)) :
    renderVal ⟨id, name, (k, t) :: r⟩ =
      "VAL_ ".toList ++ natDigits id ++ ' ' :: (name ++ ' ' ::
        ((intDigits k ++ " \"".toList ++ escapeQuotes t ++ ['"'] ++ r.flatMap ent) ++ [';'])) := by
  unfold renderVal
  show "VAL_ ".toList ++ natDigits id ++ ' ' :: name ++ ((k, t) :: r).flatMap ent ++ [';'] = _
  simp [ent]

/-- the round trip for a statement with at least one entry (the writer emits `VAL_` only under
`if signal.values:`; with no entry the rendered line `VAL_ 5 abc;` is not read, see `val_empty_not_read`) -/
theorem val_line_roundtrip_of_ne (v : ValLine) (h : wfVal v = true) (hne : v.entries ≠ []) :
    parseVal (stripWs (renderVal v)) = some v := by
  obtain ⟨id, name, es⟩ := v
  cases es with
  | nil => exact absurd rfl hne
  | cons e r =>
    obtain ⟨k, t⟩ := e
    simp only [wfVal, isIdent, Bool.and_eq_true, Bool.not_eq_true', List.all_eq_true, List.all_cons] at h
    obtain ⟨⟨hne', hall⟩, ht, hr⟩ := h
    cases name with
    | nil => simp at hne'
    | cons n ns =>
      cases hnd : natDigits id with
      | nil => exact absurd hnd (natDigits_ne_nil _)
      | cons d ds =>
        have hstrip : stripWs (renderVal ⟨id, n :: ns, (k, t) :: r⟩) = renderVal ⟨id, n :: ns, (k, t) :: r⟩ := by
          rw [renderVal_shape]
          have : "VAL_ ".toList ++ natDigits id ++ ' ' :: ((n :: ns) ++ ' ' ::
              ((intDigits k ++ " \"".toList ++ escapeQuotes t ++ ['"'] ++ r.flatMap ent) ++ [';'])) =
              'V' :: (("AL_ ".toList ++ natDigits id ++ ' ' :: ((n :: ns) ++ ' ' ::
                (intDigits k ++ " \"".toList ++ escapeQuotes t ++ ['"'] ++ r.flatMap ent))) ++ [';']) := by
            simp
          rw [this]
          exact stripWs_id 'V' ';' _ (by decide) (by decide)
        rw [hstrip, renderVal_shape, hnd]
        apply parseVal_shape d ds n ns _ id ((k, t) :: r)
        · intro c hc; rw [← hnd] at hc; exact natDigits_allDig id c hc
        · rw [← hnd]; exact digitsToNat_natDigits' id
        · intro c hc; exact isBlank_of_identChar c (hall c hc)
        · intro c hc
          cases hk : intDigits k with
          | nil => exact absurd hk (intDigits_ne_nil k)
          | cons x xs =>
            rw [hk] at hc
            simp at hc; subst hc
            exact (intDigits_chars k x (by rw [hk]; exact List.mem_cons_self)).facts.2.2.1
        · exact entries_split_first k t r (wfText_no_bs t ht) (fun e he => wfText_no_bs e.2 (hr e he))

/-- the excluded case: a statement without entries is rendered as `VAL_ 5 abc;`, which the reader's pattern
does not match (the name group takes `abc;`, no blank follows) -/
theorem val_empty_not_read : parseVal (stripWs (renderVal ⟨5, "abc".toList, []⟩)) = none := by decide

end CanVerif.Dbc.ValProofs
