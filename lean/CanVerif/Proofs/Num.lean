import CanVerif.Model.Num
/-!
# Helper lemmas for the number rendering / parsing round trip (Props/Num.lean)
-/
namespace CanVerif.Num
open CanVerif

/-- the character of a decimal digit -/
def dch (k : Nat) : Char := Char.ofNat (48 + k)

/-- a digit character -/
def IsDig (c : Char) : Prop := (digitVal c).isSome = true

def AllDig (cs : List Char) : Prop := ∀ c ∈ cs, IsDig c

theorem digitVal_dch (k : Nat) (h : k < 10) : digitVal (dch k) = some k := by
  have : k = 0 ∨ k = 1 ∨ k = 2 ∨ k = 3 ∨ k = 4 ∨ k = 5 ∨ k = 6 ∨ k = 7 ∨ k = 8 ∨ k = 9 := by omega
  rcases this with h | h | h | h | h | h | h | h | h | h <;> subst h <;> decide

theorem isDig_dch (k : Nat) (h : k < 10) : IsDig (dch k) := by
  simp [IsDig, digitVal_dch k h]

theorem isDig_iff (c : Char) : IsDig c ↔ ('0' ≤ c ∧ c ≤ '9') := by
  unfold IsDig digitVal
  split <;> simp_all

theorem IsDig.ne_E {c : Char} (h : IsDig c) : c ≠ 'E' := by
  rintro rfl; revert h; unfold IsDig; decide
theorem IsDig.ne_e {c : Char} (h : IsDig c) : c ≠ 'e' := by
  rintro rfl; revert h; unfold IsDig; decide
theorem IsDig.ne_dot {c : Char} (h : IsDig c) : c ≠ '.' := by
  rintro rfl; revert h; unfold IsDig; decide
theorem IsDig.ne_minus {c : Char} (h : IsDig c) : c ≠ '-' := by
  rintro rfl; revert h; unfold IsDig; decide
theorem IsDig.ne_plus {c : Char} (h : IsDig c) : c ≠ '+' := by
  rintro rfl; revert h; unfold IsDig; decide
theorem isDig_zero : IsDig '0' := by unfold IsDig; decide

/-! ## digits of a natural number -/

theorem natDigitsAux_acc (fuel n : Nat) (acc : List Char) :
    natDigitsAux fuel n acc = natDigitsAux fuel n [] ++ acc := by
  induction fuel generalizing n acc with
  | zero => simp [natDigitsAux]
  | succ f ih =>
    simp only [natDigitsAux]
    split
    · simp
    · rw [ih (n / 10) (_ :: acc), ih (n / 10) [_]]; simp

theorem natDigitsAux_fuel2 (f1 f2 n : Nat) (h1 : n < f1) (h2 : n < f2) :
    natDigitsAux f1 n [] = natDigitsAux f2 n [] := by
  induction f1 generalizing n f2 with
  | zero => omega
  | succ f ih =>
    cases f2 with
    | zero => omega
    | succ g =>
      simp only [natDigitsAux]
      split
      · rfl
      · rw [natDigitsAux_acc, natDigitsAux_acc (fuel := g), ih g (n / 10) (by omega) (by omega)]

theorem natDigitsAux_fuel (fuel n : Nat) (h : n < fuel) :
    natDigitsAux fuel n [] = natDigitsAux (n + 1) n [] :=
  natDigitsAux_fuel2 fuel (n + 1) n h (by omega)

theorem natDigits_lt (n : Nat) (h : n < 10) : natDigits n = [dch n] := by
  simp [natDigits, natDigitsAux, h, dch, Nat.mod_eq_of_lt h]

theorem natDigits_ge (n : Nat) (h : ¬ n < 10) : natDigits n = natDigits (n / 10) ++ [dch (n % 10)] := by
  simp only [natDigits, natDigitsAux, h, if_false]
  rw [natDigitsAux_acc, natDigitsAux_fuel n (n / 10) (by omega)]
  rfl

theorem natDigits_ne_nil (n : Nat) : natDigits n ≠ [] := by
  by_cases h : n < 10
  · simp [natDigits_lt n h]
  · simp [natDigits_ge n h]

theorem natDigits_allDig (n : Nat) : AllDig (natDigits n) := by
  induction n using Nat.strongRecOn with
  | _ n ih =>
    by_cases h : n < 10
    · rw [natDigits_lt n h]; intro c hc
      simp at hc; subst hc; exact isDig_dch n h
    · rw [natDigits_ge n h]; intro c hc
      rw [List.mem_append] at hc
      rcases hc with hc | hc
      · exact ih (n / 10) (by omega) c hc
      · simp at hc; subst hc; exact isDig_dch _ (by omega)

/-! ## parsing digit strings -/

theorem digitsToNat_snoc (cs : List Char) (c : Char) :
    digitsToNat (cs ++ [c]) = (digitsToNat cs).bind (fun v => (digitVal c).map (v * 10 + ·)) := by
  simp [digitsToNat, List.foldlM_append]

theorem digitsToNat_zero_cons (cs : List Char) : digitsToNat ('0' :: cs) = digitsToNat cs := by
  have : digitVal '0' = some 0 := by decide
  simp [digitsToNat, List.foldlM_cons, this]

theorem digitsToNat_zeros_append (k : Nat) (cs : List Char) :
    digitsToNat (List.replicate k '0' ++ cs) = digitsToNat cs := by
  induction k with
  | zero => simp
  | succ k ih => rw [List.replicate_succ, List.cons_append, digitsToNat_zero_cons, ih]

theorem digitsToNat_natDigits' (n : Nat) : digitsToNat (natDigits n) = some n := by
  induction n using Nat.strongRecOn with
  | _ n ih =>
    by_cases h : n < 10
    · rw [natDigits_lt n h]
      have := digitsToNat_snoc [] (dch n)
      simp only [List.nil_append] at this
      rw [this, digitVal_dch n h]; simp [digitsToNat]
    · rw [natDigits_ge n h, digitsToNat_snoc, ih (n / 10) (by omega), digitVal_dch _ (by omega)]
      simp; omega

/-! ## parsing a rendered decimal -/

theorem span_loop_append_of (p : Char → Bool) (l1 l2 acc : List Char) (h1 : ∀ c ∈ l1, p c = true)
    (h2 : l2 = [] ∨ ∃ c t, l2 = c :: t ∧ p c = false) :
    List.span.loop p (l1 ++ l2) acc = (acc.reverse ++ l1, l2) := by
  induction l1 generalizing acc with
  | nil =>
    rcases h2 with rfl | ⟨c, t, rfl, hc⟩
    · simp [List.span.loop]
    · simp [List.span.loop, hc]
  | cons a l ih =>
    have ha : p a = true := h1 a (by simp)
    simp only [List.cons_append, List.span.loop, ha]
    rw [ih (a :: acc) (fun c hc => h1 c (by simp [hc]))]
    simp

theorem span_append_of (p : Char → Bool) (l1 l2 : List Char) (h1 : ∀ c ∈ l1, p c = true)
    (h2 : l2 = [] ∨ ∃ c t, l2 = c :: t ∧ p c = false) : (l1 ++ l2).span p = (l1, l2) := by
  unfold List.span
  rw [span_loop_append_of p l1 l2 [] h1 h2]; simp

def expoVal (expo : List Char) : Option Int :=
  match expo with
  | [] => some 0
  | _ :: '-' :: ds => if ds.isEmpty then none else (digitsToNat ds).map fun n => -(n : Int)
  | _ :: '+' :: ds => if ds.isEmpty then none else (digitsToNat ds).map fun n => (n : Int)
  | _ :: ds => if ds.isEmpty then none else (digitsToNat ds).map fun n => (n : Int)

def parseBody (neg : Bool) (r : List Char) : Option Dec :=
  let (mant, expo) := r.span (fun c => c != 'E' && c != 'e')
  let (ip, fp0) := mant.span (· != '.')
  let fp := fp0.drop 1
  if ip.isEmpty && fp.isEmpty then none else
  match digitsToNat (ip ++ fp) with
  | none => none
  | some c => (expoVal expo).map fun e => { neg := neg, coeff := c, exp := e - (fp.length : Int) }

def sgn (s : List Char) : Bool × List Char :=
  match s with
  | '-' :: t => (true, t)
  | '+' :: t => (false, t)
  | t => (false, t)

theorem strToDec_eq (s : List Char) : strToDec s = parseBody (sgn s).1 (sgn s).2 := rfl
theorem sgn_minus (t : List Char) : sgn ('-' :: t) = (true, t) := rfl
theorem sgn_nosign (c : Char) (t : List Char) (h1 : c ≠ '-') (h2 : c ≠ '+') :
    sgn (c :: t) = (false, c :: t) := by
  unfold sgn
  split <;> simp_all

def ExpoOK (expo : List Char) (e : Int) : Prop :=
  (expo = [] ∧ e = 0) ∨ ∃ sg ds n, expo = 'E' :: sg :: ds ∧ ds ≠ [] ∧ digitsToNat ds = some n ∧
    ((sg = '-' ∧ e = -(n : Int)) ∨ (sg = '+' ∧ e = (n : Int)))

theorem expoVal_of_ok {expo : List Char} {e : Int} (h : ExpoOK expo e) : expoVal expo = some e := by
  rcases h with ⟨rfl, rfl⟩ | ⟨sg, ds, n, rfl, hds, hn, ⟨rfl, rfl⟩ | ⟨rfl, rfl⟩⟩
  · rfl
  · simp [expoVal, hds, hn]
  · simp [expoVal, hds, hn]

def dotStr (fp : List Char) : List Char := if fp = [] then [] else '.' :: fp

theorem parseBody_shape (neg : Bool) (ip fp expo : List Char) (c : Nat) (e : Int)
    (hip : AllDig ip) (hfp : AllDig fp) (hne : ip ≠ []) (hc : digitsToNat (ip ++ fp) = some c)
    (he : ExpoOK expo e) :
    parseBody neg (ip ++ dotStr fp ++ expo) = some ⟨neg, c, e - fp.length⟩ := by
  have h1 : (ip ++ dotStr fp ++ expo).span (fun c => c != 'E' && c != 'e') = (ip ++ dotStr fp, expo) := by
    apply span_append_of
    · intro x hx
      rw [List.mem_append] at hx
      rcases hx with hx | hx
      · have := (hip x hx).ne_E; have := (hip x hx).ne_e; simp_all
      · unfold dotStr at hx
        split at hx
        · simp at hx
        · rcases List.mem_cons.mp hx with rfl | hx
          · decide
          · have := (hfp x hx).ne_E; have := (hfp x hx).ne_e; simp_all
    · rcases he with ⟨rfl, _⟩ | ⟨sg, ds, n, rfl, _⟩
      · exact Or.inl rfl
      · exact Or.inr ⟨_, _, rfl, by decide⟩
  have h2 : (ip ++ dotStr fp).span (· != '.') = (ip, dotStr fp) := by
    apply span_append_of
    · intro x hx
      have := (hip x hx).ne_dot; simp_all
    · unfold dotStr
      split
      · exact Or.inl rfl
      · exact Or.inr ⟨_, _, rfl, by decide⟩
  have h3 : (dotStr fp).drop 1 = fp := by
    unfold dotStr; split <;> simp_all
  have h4 : ip.isEmpty = false := by cases ip <;> simp_all
  unfold parseBody
  simp only [h1, h2, h3, h4, hc, expoVal_of_ok he, Bool.false_and]
  simp

def signStr (b : Bool) : List Char := if b then ['-'] else []

theorem strToDec_shape (neg : Bool) (ip fp expo : List Char) (c : Nat) (e : Int)
    (hip : AllDig ip) (hfp : AllDig fp) (hne : ip ≠ []) (hc : digitsToNat (ip ++ fp) = some c)
    (he : ExpoOK expo e) :
    strToDec (signStr neg ++ ip ++ dotStr fp ++ expo) = some ⟨neg, c, e - fp.length⟩ := by
  rw [strToDec_eq]
  cases neg with
  | true =>
    simp only [signStr, if_true, List.cons_append, List.nil_append, sgn_minus]
    simpa using parseBody_shape true ip fp expo c e hip hfp hne hc he
  | false =>
    obtain ⟨a, ip', rfl⟩ := List.exists_cons_of_ne_nil hne
    have ha : IsDig a := hip a (by simp)
    have hs : signStr false ++ (a :: ip') ++ dotStr fp ++ expo = a :: (ip' ++ dotStr fp ++ expo) := by
      simp [signStr]
    rw [hs, sgn_nosign a _ ha.ne_minus ha.ne_plus, ← hs]
    simpa [signStr] using parseBody_shape false (a :: ip') fp expo c e hip hfp hne hc he
/-! ## the shape of a rendered decimal -/

def expStr (e : Int) : List Char :=
  if e = 0 then [] else 'E' :: (if e < 0 then '-' else '+') :: natDigits e.natAbs

theorem expoOK_expStr (e : Int) : ExpoOK (expStr e) e := by
  unfold expStr
  by_cases h0 : e = 0
  · simp [h0, ExpoOK]
  · rw [if_neg h0]
    refine Or.inr ⟨_, _, e.natAbs, rfl, natDigits_ne_nil _, digitsToNat_natDigits' _, ?_⟩
    by_cases hneg : e < 0
    · left; simp [hneg]; omega
    · right; simp [hneg]; omega

theorem allDig_replicate (k : Nat) : AllDig (List.replicate k '0') := by
  intro c hc
  rw [List.mem_replicate] at hc
  rw [hc.2]; exact isDig_zero

theorem allDig_append {a b : List Char} (ha : AllDig a) (hb : AllDig b) : AllDig (a ++ b) := by
  intro c hc
  rcases List.mem_append.mp hc with h | h
  · exact ha c h
  · exact hb c h

theorem body_shape (digits : List Char) (dotplace : Int) (n : Nat) (hne : digits ≠ [])
    (hall : AllDig digits) (hval : digitsToNat digits = some n)
    (hz : dotplace ≥ (digits.length : Int) → dotplace = digits.length) :
    ∃ ip fp, AllDig ip ∧ AllDig fp ∧ ip ≠ [] ∧ digitsToNat (ip ++ fp) = some n ∧
      (fp.length : Int) = digits.length - dotplace ∧
      (if dotplace ≤ 0 then '0' :: '.' :: (List.replicate (-dotplace).toNat '0' ++ digits)
       else if dotplace ≥ (digits.length : Int) then digits ++ List.replicate (dotplace - digits.length).toNat '0'
       else digits.take dotplace.toNat ++ '.' :: digits.drop dotplace.toNat) = ip ++ dotStr fp := by
  have hlen : 0 < digits.length := List.length_pos_iff.mpr hne
  by_cases h1 : dotplace ≤ 0
  · refine ⟨['0'], List.replicate (-dotplace).toNat '0' ++ digits, ?_, ?_, by simp, ?_, ?_, ?_⟩
    · intro c hc; simp at hc; subst hc; exact isDig_zero
    · exact allDig_append (allDig_replicate _) hall
    · rw [List.singleton_append, digitsToNat_zero_cons, digitsToNat_zeros_append, hval]
    · simp; omega
    · simp [h1, dotStr, hne]
  · by_cases h2 : dotplace ≥ (digits.length : Int)
    · refine ⟨digits, [], hall, ?_, hne, by simpa using hval, ?_, ?_⟩
      · intro c hc; simp at hc
      · have := hz h2; simp; omega
      · have := hz h2
        rw [if_neg h1, if_pos h2]
        simp [dotStr, this]
    · refine ⟨digits.take dotplace.toNat, digits.drop dotplace.toNat, ?_, ?_, ?_, ?_, ?_, ?_⟩
      · intro c hc; exact hall c (List.mem_of_mem_take hc)
      · intro c hc; exact hall c (List.mem_of_mem_drop hc)
      · intro h
        have := congrArg List.length h
        rw [List.length_take, List.length_nil] at this; omega
      · rw [List.take_append_drop]; exact hval
      · simp; omega
      · have : digits.drop dotplace.toNat ≠ [] := by
          intro h
          have := congrArg List.length h
          simp at this; omega
        simp [h1, h2, dotStr, this]

theorem decToStr_shape (d : Dec) : ∃ ip fp e, AllDig ip ∧ AllDig fp ∧ ip ≠ [] ∧
    digitsToNat (ip ++ fp) = some d.coeff ∧ e - (fp.length : Int) = d.exp ∧
    decToStr d = signStr d.neg ++ ip ++ dotStr fp ++ expStr e := by
  have hne := natDigits_ne_nil d.coeff
  have hlen : 0 < (natDigits d.coeff).length := List.length_pos_iff.mpr hne
  obtain ⟨dp, hdp⟩ : ∃ dp : Int, dp = if d.exp ≤ 0 ∧ d.exp + ((natDigits d.coeff).length : Int) > -6
      then d.exp + ((natDigits d.coeff).length : Int) else 1 := ⟨_, rfl⟩
  have hz : dp ≥ ((natDigits d.coeff).length : Int) → dp = (natDigits d.coeff).length := by
    rw [hdp]; split <;> omega
  obtain ⟨ip, fp, h1, h2, h3, h4, h5, h6⟩ := body_shape (natDigits d.coeff) dp
    d.coeff hne (natDigits_allDig _) (digitsToNat_natDigits' _) hz
  refine ⟨ip, fp, d.exp + ((natDigits d.coeff).length : Int) - dp, h1, h2, h3, h4, ?_, ?_⟩
  · rw [h5]; omega
  · unfold decToStr
    simp only []
    rw [← hdp, h6]
    simp [signStr, expStr]
/-! ## round trips -/

theorem strToDec_decToStr' (d : Dec) : strToDec (decToStr d) = some d := by
  obtain ⟨ip, fp, e, h1, h2, h3, h4, h5, h6⟩ := decToStr_shape d
  rw [h6, strToDec_shape d.neg ip fp (expStr e) d.coeff e h1 h2 h3 h4 (expoOK_expStr e), h5]

def padExp (s1 : List Char) : List Char :=
  match s1.span (· != 'E') with
  | (m, 'E' :: sg :: ds) => m ++ 'E' :: sg :: (List.replicate (3 - ds.length) '0' ++ ds)
  | _ => s1

theorem formatFloat_eq (d : Dec) : formatFloat d =
    padExp (if (decToStr d).length ≥ 2 ∧ (decToStr d).drop ((decToStr d).length - 2) = ['.', '0']
      then (decToStr d).take ((decToStr d).length - 2) else decToStr d) := rfl

theorem padExp_noE (s : List Char) (h : ∀ c ∈ s, c ≠ 'E') : padExp s = s := by
  have : s.span (· != 'E') = (s, []) := by
    have := span_append_of (· != 'E') s [] (by intro c hc; simpa using h c hc) (Or.inl rfl)
    simpa using this
  simp [padExp, this]

theorem padExp_E (m ds : List Char) (sg : Char) (h : ∀ c ∈ m, c ≠ 'E') :
    padExp (m ++ 'E' :: sg :: ds) = m ++ 'E' :: sg :: (List.replicate (3 - ds.length) '0' ++ ds) := by
  have : (m ++ 'E' :: sg :: ds).span (· != 'E') = (m, 'E' :: sg :: ds) :=
    span_append_of (· != 'E') m _ (by intro c hc; simpa using h c hc) (Or.inr ⟨_, _, rfl, by decide⟩)
  simp [padExp, this]

theorem drop_suffix (pre t : List Char) (ht : 2 ≤ t.length) :
    (pre ++ t).drop ((pre ++ t).length - 2) = t.drop (t.length - 2) := by
  have : (pre ++ t).length - 2 = pre.length + (t.length - 2) := by simp; omega
  rw [this, List.drop_append]
  simp

theorem signStr_ne_E (neg : Bool) : ∀ c ∈ signStr neg, c ≠ 'E' := by
  intro c hc; cases neg <;> simp [signStr] at hc; subst hc; decide

theorem signStr_ne_dot (neg : Bool) : ∀ c ∈ signStr neg, c ≠ '.' := by
  intro c hc; cases neg <;> simp [signStr] at hc; subst hc; decide

theorem dotStr_ne_E (fp : List Char) (hfp : AllDig fp) : ∀ c ∈ dotStr fp, c ≠ 'E' := by
  intro c hc
  unfold dotStr at hc
  split at hc
  · simp at hc
  · rcases List.mem_cons.mp hc with rfl | hc
    · decide
    · exact (hfp c hc).ne_E

/-- parsing the padded rendering -/
theorem strToDec_padExp_shape (neg : Bool) (ip fp : List Char) (c : Nat) (e : Int)
    (hip : AllDig ip) (hfp : AllDig fp) (hne : ip ≠ []) (hc : digitsToNat (ip ++ fp) = some c) :
    strToDec (padExp (signStr neg ++ ip ++ dotStr fp ++ expStr e)) = some ⟨neg, c, e - fp.length⟩ := by
  have hm : ∀ x ∈ signStr neg ++ ip ++ dotStr fp, x ≠ 'E' := by
    intro x hx
    rcases List.mem_append.mp hx with hx | hx
    · rcases List.mem_append.mp hx with hx | hx
      · exact signStr_ne_E neg x hx
      · exact (hip x hx).ne_E
    · exact dotStr_ne_E fp hfp x hx
  by_cases he : e = 0
  · have hx : expStr e = [] := by simp [expStr, he]
    rw [hx, List.append_nil, padExp_noE _ hm]
    have := strToDec_shape neg ip fp [] c e hip hfp hne hc (Or.inl ⟨rfl, he⟩)
    simpa using this
  · have hx : expStr e = 'E' :: (if e < 0 then '-' else '+') :: natDigits e.natAbs := by simp [expStr, he]
    rw [hx, padExp_E _ _ _ hm]
    apply strToDec_shape neg ip fp _ c e hip hfp hne hc
    refine Or.inr ⟨_, _, e.natAbs, rfl, ?_, ?_, ?_⟩
    · intro h
      have := List.append_eq_nil_iff.mp h
      exact natDigits_ne_nil _ this.2
    · rw [digitsToNat_zeros_append, digitsToNat_natDigits']
    · by_cases hneg : e < 0
      · left; simp [hneg]; omega
      · right; simp [hneg]; omega

/-- the rendering ends in `.0` only in plain notation with the single fractional digit `0` -/
theorem endsDot0_shape (neg : Bool) (ip fp : List Char) (e : Int)
    (hip : AllDig ip) (hfp : AllDig fp)
    (h : (signStr neg ++ ip ++ dotStr fp ++ expStr e).drop
      ((signStr neg ++ ip ++ dotStr fp ++ expStr e).length - 2) = ['.', '0']) :
    e = 0 ∧ fp = ['0'] := by
  by_cases he : e = 0
  · refine ⟨he, ?_⟩
    have hx : expStr e = [] := by simp [expStr, he]
    rw [hx, List.append_nil] at h
    match fp, hfp with
    | [], _ =>
      exfalso
      have hmem : '.' ∈ signStr neg ++ ip ++ dotStr [] := List.mem_of_mem_drop (by rw [h]; simp)
      simp only [dotStr, if_true, List.append_nil] at hmem
      rcases List.mem_append.mp hmem with hmem | hmem
      · exact signStr_ne_dot neg _ hmem rfl
      · exact (hip _ hmem).ne_dot rfl
    | [y], _ =>
      have hd : dotStr [y] = ['.', y] := by simp [dotStr]
      rw [hd, drop_suffix _ _ (by simp)] at h
      simp at h; simp [h]
    | y :: z :: r, hfp =>
      exfalso
      have hd : signStr neg ++ ip ++ dotStr (y :: z :: r) = (signStr neg ++ ip ++ ['.']) ++ (y :: z :: r) := by
        simp [dotStr]
      rw [hd, drop_suffix _ _ (by simp)] at h
      have hmem : '.' ∈ y :: z :: r := List.mem_of_mem_drop (by rw [h]; simp)
      exact (hfp _ hmem).ne_dot rfl
  · exfalso
    have hx : signStr neg ++ ip ++ dotStr fp ++ expStr e =
        (signStr neg ++ ip ++ dotStr fp ++ ['E']) ++ ((if e < 0 then '-' else '+') :: natDigits e.natAbs) := by
      simp [expStr, he]
    have hl : 2 ≤ ((if e < 0 then '-' else '+') :: natDigits e.natAbs).length := by
      have := List.length_pos_iff.mpr (natDigits_ne_nil e.natAbs)
      simp; omega
    rw [hx, drop_suffix _ _ hl] at h
    have hmem : '.' ∈ (if e < 0 then '-' else '+') :: natDigits e.natAbs :=
      List.mem_of_mem_drop (by rw [h]; simp)
    rcases List.mem_cons.mp hmem with hmem | hmem
    · split at hmem <;> revert hmem <;> decide
    · exact (natDigits_allDig _ _ hmem).ne_dot rfl

theorem strToDec_formatFloat' (d : Dec) :
    strToDec (formatFloat d) = some d ∨
    (d.exp = -1 ∧ d.coeff % 10 = 0 ∧ strToDec (formatFloat d) = some ⟨d.neg, d.coeff / 10, 0⟩) := by
  obtain ⟨ip, fp, e, h1, h2, h3, h4, h5, h6⟩ := decToStr_shape d
  rw [formatFloat_eq]
  split
  · rename_i hc
    right
    rw [h6] at hc ⊢
    obtain ⟨he, hfp⟩ := endsDot0_shape d.neg ip fp e h1 h2 hc.2
    subst he hfp
    have hx : signStr d.neg ++ ip ++ dotStr ['0'] ++ expStr 0 = (signStr d.neg ++ ip) ++ ['.', '0'] := by
      simp [dotStr, expStr]
    rw [hx, List.take_left' (by simp; omega)]
    rw [digitsToNat_snoc] at h4
    cases hv : digitsToNat ip with
    | none => simp [hv] at h4
    | some v =>
      have h0 : digitVal '0' = some 0 := by decide
      simp [hv, h0] at h4
      have := strToDec_padExp_shape d.neg ip [] v 0 h1 (by intro c hc; simp at hc) h3 (by simpa using hv)
      simp [dotStr, expStr] at this
      refine ⟨?_, ?_, ?_⟩
      · simp at h5; omega
      · omega
      · rw [this]; congr 2; omega
  · left
    rw [h6, strToDec_padExp_shape d.neg ip fp d.coeff e h1 h2 h3 h4, h5]
end CanVerif.Num
