import CanVerif.Model.DbcStmt
import CanVerif.Proofs.DbcText
import CanVerif.Proofs.DbcVal
/-!
# Helper lemmas for the statements `BO_TX_BU_`, `SIG_VALTYPE_`, `SG_MUL_VAL_` (Props/C05b.lean)
-/
namespace CanVerif.Dbc.StmtProofs
open CanVerif CanVerif.Num CanVerif.Dbc

theorem lit_tx : "BO_TX_BU_ ".toList = ['B', 'O', '_', 'T', 'X', '_', 'B', 'U', '_', ' '] := by decide
theorem lit_vt : "SIG_VALTYPE_ ".toList = ['S', 'I', 'G', '_', 'V', 'A', 'L', 'T', 'Y', 'P', 'E', '_', ' '] := by decide
theorem lit_mul : "SG_MUL_VAL_ ".toList = ['S', 'G', '_', 'M', 'U', 'L', '_', 'V', 'A', 'L', '_', ' '] := by decide
theorem lit_sep : " : ".toList = [' ', ':', ' '] := by decide

/-! ## general pieces -/

theorem upto_snoc (b : Str) : uptoLastSemicolon (b ++ [';']) = some b := by
  unfold uptoLastSemicolon
  simp

theorem isDig_not_blank {c : Char} (h : IsDig c) : isBlank c = false :=
  ValProofs.isBlank_of_identChar c (isDig_identChar h)

theorem isDig_ne_comma {c : Char} (h : IsDig c) : c ≠ ',' := identChar_ne_comma (isDig_identChar h)

theorem skipSp_cons_ident (a r : Str) (h : isIdent a = true) : skipSp (' ' :: (a ++ r)) = a ++ r := by
  rw [skipSp_space, skipSp_ident a r h]

theorem skipSp_cons_digits (ds r : Str) (hne : ds ≠ []) (h : AllDig ds) : skipSp (' ' :: (ds ++ r)) = ds ++ r := by
  rw [skipSp_space]
  obtain ⟨a, t, rfl⟩ := List.exists_cons_of_ne_nil hne
  exact skipSp_of_ne a _ (isDig_ne_space (h a (by simp)))

theorem span_digits (ds r : Str) (h : AllDig ds) : (ds ++ ' ' :: r).span isDigit = (ds, ' ' :: r) :=
  span_append_of isDigit _ _ (fun c hc => isDigit_of_isDig (h c hc)) (Or.inr ⟨_, _, rfl, by decide⟩)

theorem span_tok (tok r : Str) (h : ∀ c ∈ tok, isBlank c = false) :
    (tok ++ ' ' :: r).span (fun c => !isBlank c) = (tok, ' ' :: r) :=
  span_append_of _ _ _ (fun c hc => by simp [h c hc]) (Or.inr ⟨_, _, rfl, by decide⟩)

theorem ident_not_blank {s : Str} (h : isIdent s = true) : ∀ c ∈ s, isBlank c = false :=
  fun c hc => ValProofs.isBlank_of_identChar c (isIdent_all h c hc)

/-! ## `split(',')` without stripping -/

theorem splitRaw_go_append (sep : Char) (a cur rest : Str) (h : ∀ c ∈ a, c ≠ sep) :
    splitRaw.go sep cur (a ++ rest) = splitRaw.go sep (a.reverse ++ cur) rest := by
  induction a generalizing cur with
  | nil => rfl
  | cons x a ih =>
    have hx : (x == sep) = false := by simpa using h x (by simp)
    simp only [List.cons_append, splitRaw.go, hx]
    rw [ih (x :: cur) (fun c hc => h c (by simp [hc]))]
    simp

theorem splitRaw_go_sep (sep : Char) (cur rest : Str) :
    splitRaw.go sep cur (sep :: rest) = cur.reverse :: splitRaw.go sep [] rest := by
  simp [splitRaw.go]

theorem splitRaw_go_last (sep : Char) (a cur : Str) (h : ∀ c ∈ a, c ≠ sep) :
    splitRaw.go sep cur a = [cur.reverse ++ a] := by
  have := splitRaw_go_append sep a cur [] h
  simp only [List.append_nil] at this
  rw [this]
  simp [splitRaw.go]

theorem splitRaw_go_joinComma (a : Str) (rs : List Str) (cur : Str) (h : ∀ r ∈ a :: rs, ∀ c ∈ r, c ≠ ',') :
    splitRaw.go ',' cur (joinComma (a :: rs)) = (cur.reverse ++ a) :: rs := by
  induction rs generalizing a cur with
  | nil => simp only [joinComma]; exact splitRaw_go_last ',' a cur (h a (by simp))
  | cons b rs ih =>
    simp only [joinComma]
    rw [splitRaw_go_append ',' a cur _ (h a (by simp)), splitRaw_go_sep,
      ih b [] (fun r hr => h r (List.mem_cons_of_mem _ hr))]
    simp

theorem splitRaw_joinComma (rs : List Str) (hne : rs ≠ []) (h : ∀ r ∈ rs, ∀ c ∈ r, c ≠ ',') :
    splitRaw ',' (joinComma rs) = rs := by
  cases rs with
  | nil => exact absurd rfl hne
  | cons a rs =>
    unfold splitRaw
    rw [splitRaw_go_joinComma a rs [] h]
    simp

theorem splitRaw_go_joinCommaBlank (a : Str) (rs : List Str) (cur : Str) (h : ∀ r ∈ a :: rs, ∀ c ∈ r, c ≠ ',') :
    splitRaw.go ',' cur (joinCommaBlank (a :: rs)) = (cur.reverse ++ a) :: rs.map (' ' :: ·) := by
  induction rs generalizing a cur with
  | nil => simp only [joinCommaBlank, List.map_nil]; exact splitRaw_go_last ',' a cur (h a (by simp))
  | cons b rs ih =>
    simp only [joinCommaBlank]
    rw [splitRaw_go_append ',' a cur _ (h a (by simp)), splitRaw_go_sep]
    have hsp : splitRaw.go ',' [] (' ' :: joinCommaBlank (b :: rs)) = splitRaw.go ',' [' '] (joinCommaBlank (b :: rs)) := by
      simp [splitRaw.go]
    rw [hsp, ih b [' '] (fun r hr => h r (List.mem_cons_of_mem _ hr))]
    simp

theorem splitRaw_joinCommaBlank (a : Str) (rs : List Str) (h : ∀ r ∈ a :: rs, ∀ c ∈ r, c ≠ ',') :
    splitRaw ',' (joinCommaBlank (a :: rs)) = a :: rs.map (' ' :: ·) := by
  unfold splitRaw
  rw [splitRaw_go_joinCommaBlank a rs [] h]
  simp

/-! ## `BO_TX_BU_` -/

theorem renderTx_eq (t : TxLine) :
    renderTx t = 'B' :: 'O' :: '_' :: 'T' :: 'X' :: '_' :: 'B' :: 'U' :: '_' :: ' ' ::
      (natDigits t.id ++ ' ' :: ':' :: ' ' :: (joinComma t.ecus ++ [';'])) := by
  unfold renderTx
  rw [lit_tx, lit_sep]
  simp only [List.append_assoc, List.cons_append, List.nil_append]

theorem parseTx_shape (d : Char) (ds body : Str) (id : Nat) (hd : AllDig (d :: ds)) (hid : digitsToNat (d :: ds) = some id)
    (hne : body ≠ []) (hb : skipSp (body ++ [';']) = body ++ [';']) :
    parseTx ('B' :: 'O' :: '_' :: 'T' :: 'X' :: '_' :: 'B' :: 'U' :: '_' :: ' ' ::
      ((d :: ds) ++ ' ' :: ':' :: ' ' :: (body ++ [';']))) = some ⟨id, splitRaw ',' body⟩ := by
  unfold parseTx
  rw [lit_tx]
  rw [if_neg (by simp [startsWith])]
  simp only [List.drop_succ_cons, List.drop_zero]
  rw [skipSp_cons_digits _ _ (by simp) hd, span_digits _ _ hd]
  simp only
  rw [skipSp_space, skipSp_of_ne ':' _ (by decide)]
  simp only
  rw [skipSp_space, hb, upto_snoc]
  simp only
  have : body.isEmpty = false := by cases body with
    | nil => exact absurd rfl hne
    | cons _ _ => rfl
  rw [this, hid]
  rfl

theorem joinComma_ne_nil (rs : List Str) (hne : rs ≠ []) (h : ∀ r ∈ rs, isIdent r = true) : joinComma rs ≠ [] := by
  obtain ⟨c, hc, _⟩ := LastOK.joinComma rs hne h
  intro he
  rw [he] at hc
  simp at hc

theorem joinComma_head (rs : List Str) (hne : rs ≠ []) (h : ∀ r ∈ rs, isIdent r = true) :
    ∃ x t, joinComma rs = x :: t ∧ isIdentChar x = true := by
  cases rs with
  | nil => exact absurd rfl hne
  | cons a rs =>
    have ha := h a (by simp)
    obtain ⟨x, t, hx⟩ := List.exists_cons_of_ne_nil (isIdent_ne_nil ha)
    have hxi : isIdentChar x = true := isIdent_all ha x (by rw [hx]; simp)
    cases rs with
    | nil => exact ⟨x, t, by simp only [joinComma]; exact hx, hxi⟩
    | cons b rs => exact ⟨x, _, by simp only [joinComma]; rw [hx]; rfl, hxi⟩

theorem wfTx_unpack {t : TxLine} (h : wfTx t = true) : t.ecus ≠ [] ∧ ∀ r ∈ t.ecus, isIdent r = true := by
  simp only [wfTx, Bool.and_eq_true, Bool.not_eq_true', List.isEmpty_eq_false_iff, List.all_eq_true] at h
  exact ⟨h.1, h.2⟩

theorem parseTx_renderTx (t : TxLine) (h : wfTx t = true) : parseTx (renderTx t) = some t := by
  obtain ⟨hne, hr⟩ := wfTx_unpack h
  obtain ⟨id, ecus⟩ := t
  rw [renderTx_eq]
  cases hnd : natDigits id with
  | nil => exact absurd hnd (natDigits_ne_nil _)
  | cons d ds =>
    rw [parseTx_shape d ds (joinComma ecus) id (by rw [← hnd]; exact natDigits_allDig id)
      (by rw [← hnd]; exact digitsToNat_natDigits' id) (joinComma_ne_nil ecus hne hr)]
    · rw [splitRaw_joinComma ecus hne (fun r hr' c hc => identChar_ne_comma (isIdent_all (hr r hr') c hc))]
    · obtain ⟨x, xs, hx, hxi⟩ := joinComma_head ecus hne hr
      rw [hx]
      exact skipSp_of_ne x _ (identChar_ne_space hxi)

theorem addTransmitters_append (acc l : List Str) (h : (acc ++ l).Nodup) : addTransmitters acc l = acc ++ l := by
  induction l generalizing acc with
  | nil => simp [addTransmitters]
  | cons n l ih =>
    have hn : n ∉ acc := by
      intro hm
      rw [List.nodup_append] at h
      exact h.2.2 n hm n (by simp) rfl
    have hstep : addTransmitters acc (n :: l) = addTransmitters (acc ++ [n]) l := by
      simp [addTransmitters, hn]
    rw [hstep, ih (acc ++ [n]) (by simpa using h)]
    simp

theorem addTransmitters_after_first (first : Str) (rest : List Str) (h : (first :: rest).Nodup) :
    addTransmitters [first] (first :: rest) = first :: rest := by
  have hstep : addTransmitters [first] (first :: rest) = addTransmitters [first] rest := by
    simp [addTransmitters]
  rw [hstep, addTransmitters_append [first] rest (by simpa using h)]
  rfl

/-! ## `SIG_VALTYPE_` -/

theorem renderValType_eq (v : ValTypeLine) :
    renderValType v = 'S' :: 'I' :: 'G' :: '_' :: 'V' :: 'A' :: 'L' :: 'T' :: 'Y' :: 'P' :: 'E' :: '_' :: ' ' ::
      (natDigits v.id ++ ' ' :: (v.name ++ ' ' :: ':' :: ' ' :: ([if v.double then '2' else '1'] ++ [';']))) := by
  unfold renderValType
  rw [lit_vt, lit_sep]
  simp only [List.append_assoc, List.cons_append, List.nil_append]

theorem parseValType_shape (d : Char) (ds name tail : Str) (id : Nat) (hd : AllDig (d :: ds))
    (hid : digitsToNat (d :: ds) = some id) (hn : isIdent name = true) :
    parseValType ('S' :: 'I' :: 'G' :: '_' :: 'V' :: 'A' :: 'L' :: 'T' :: 'Y' :: 'P' :: 'E' :: '_' :: ' ' ::
      ((d :: ds) ++ ' ' :: (name ++ ' ' :: ':' :: ' ' :: (tail ++ [';'])))) = some (id, name) := by
  obtain ⟨n, ns, rfl⟩ := List.exists_cons_of_ne_nil (isIdent_ne_nil hn)
  unfold parseValType
  rw [lit_vt]
  rw [if_neg (by simp [startsWith])]
  simp only [List.drop_succ_cons, List.drop_zero]
  rw [skipSp_cons_digits _ _ (by simp) hd, span_tok _ _ (fun c hc => isDig_not_blank (hd c hc))]
  simp only
  rw [skipSp_cons_ident _ _ hn, span_tok _ _ (ident_not_blank hn)]
  simp only
  have hdw : (' ' :: ':' :: ' ' :: (tail ++ [';'])).dropWhile isBlank = ':' :: ' ' :: (tail ++ [';']) := by
    rw [List.dropWhile_cons, if_pos (by decide), List.dropWhile_cons, if_neg (by decide)]
  rw [hdw]
  simp only
  have : ' ' :: (tail ++ [';']) = (' ' :: tail) ++ [';'] := rfl
  rw [this, upto_snoc]
  simp only
  rw [hid]
  rfl

theorem parseValType_renderValType (v : ValTypeLine) (h : wfValType v = true) :
    parseValType (renderValType v) = some (v.id, v.name) := by
  rw [renderValType_eq]
  cases hnd : natDigits v.id with
  | nil => exact absurd hnd (natDigits_ne_nil _)
  | cons d ds =>
    exact parseValType_shape d ds v.name _ v.id (by rw [← hnd]; exact natDigits_allDig v.id)
      (by rw [← hnd]; exact digitsToNat_natDigits' v.id) h

/-! ## `SG_MUL_VAL_` -/

theorem mapM_map_of {α β : Type} (f : α → β) (g : β → Option α) (l : List α) (h : ∀ x ∈ l, g (f x) = some x) :
    (l.map f).mapM g = some l := by
  induction l with
  | nil => rfl
  | cons a l ih =>
    rw [List.map_cons, List.mapM_cons, h a (by simp), ih (fun x hx => h x (List.mem_cons_of_mem _ hx))]
    rfl

theorem isDig_ne_minus {c : Char} (h : IsDig c) : c ≠ '-' := (ValProofs.isDig_facts h).2.2.2.1

theorem parseBound_pad (pre : Str) (hpre : ∀ c ∈ pre, c = ' ') (n : Nat) : parseBound (pre ++ natDigits n) = some n := by
  have hs : stripWs (pre ++ natDigits n) = natDigits n := by
    have := ValProofs.stripWs_pad pre (natDigits n) [] (fun c hc => by rw [hpre c hc]; decide) (by simp)
      (fun c hc => (ValProofs.isDig_facts (natDigits_allDig n c hc)).2.2.2.2)
    simpa using this
  have hne : (natDigits n).isEmpty = false := by
    cases hnd : natDigits n with
    | nil => exact absurd hnd (natDigits_ne_nil _)
    | cons _ _ => rfl
  unfold parseBound
  simp only [hs, hne]
  exact digitsToNat_natDigits' n

/-- one range as the writer prints it -/
def rng (r : Nat × Nat) : Str := natDigits r.1 ++ '-' :: natDigits r.2

theorem parseRange_pad (pre : Str) (hpre : ∀ c ∈ pre, c = ' ') (r : Nat × Nat) : parseRange (pre ++ rng r) = some r := by
  obtain ⟨a, b⟩ := r
  have h1 : ∀ c ∈ pre ++ natDigits a, c ≠ '-' := by
    intro c hc
    rcases List.mem_append.mp hc with hc | hc
    · rw [hpre c hc]; decide
    · exact isDig_ne_minus (natDigits_allDig a c hc)
  have hs : splitRaw '-' (pre ++ rng (a, b)) = [pre ++ natDigits a, natDigits b] := by
    unfold splitRaw rng
    rw [← List.append_assoc, splitRaw_go_append '-' (pre ++ natDigits a) [] _ h1, splitRaw_go_sep,
      splitRaw_go_last '-' (natDigits b) [] (fun c hc => isDig_ne_minus (natDigits_allDig b c hc))]
    simp
  unfold parseRange
  rw [hs]
  simp only
  rw [parseBound_pad pre hpre a]
  have := parseBound_pad [] (by simp) b
  rw [List.nil_append] at this
  rw [this]
  rfl

theorem rng_ne_comma (r : Nat × Nat) : ∀ c ∈ rng r, c ≠ ',' := by
  intro c hc
  unfold rng at hc
  rcases List.mem_append.mp hc with hc | hc
  · exact isDig_ne_comma (natDigits_allDig _ c hc)
  · rcases List.mem_cons.mp hc with rfl | hc
    · decide
    · exact isDig_ne_comma (natDigits_allDig _ c hc)

theorem rng_head (r : Nat × Nat) : ∃ x t, rng r = x :: t ∧ x ≠ ' ' := by
  obtain ⟨x, t, hx⟩ := List.exists_cons_of_ne_nil (natDigits_ne_nil r.1)
  refine ⟨x, t ++ '-' :: natDigits r.2, by unfold rng; rw [hx]; rfl, ?_⟩
  exact isDig_ne_space (natDigits_allDig r.1 x (by rw [hx]; simp))

theorem mapM_ranges (r : Nat × Nat) (rs : List (Nat × Nat)) :
    (splitRaw ',' (joinCommaBlank ((r :: rs).map rng))).mapM parseRange = some (r :: rs) := by
  rw [List.map_cons, splitRaw_joinCommaBlank (rng r) (rs.map rng)]
  · rw [List.mapM_cons]
    have h0 := parseRange_pad [] (by simp) r
    rw [List.nil_append] at h0
    have h1 : ((rs.map rng).map (' ' :: ·)).mapM parseRange = some rs := by
      rw [List.map_map]
      exact mapM_map_of _ parseRange rs (fun x _ => parseRange_pad [' '] (by simp) x)
    rw [h0, h1]
    rfl
  · intro p hp
    rw [← List.map_cons] at hp
    obtain ⟨q, _, rfl⟩ := List.mem_map.mp hp
    exact rng_ne_comma q

theorem renderMul_eq (m : MulLine) :
    renderMul m = 'S' :: 'G' :: '_' :: 'M' :: 'U' :: 'L' :: '_' :: 'V' :: 'A' :: 'L' :: '_' :: ' ' ::
      (natDigits m.id ++ ' ' :: (m.sig ++ ' ' :: (m.muxer ++ ' ' :: (joinCommaBlank (m.ranges.map rng) ++ [';'])))) := by
  have hf : (fun (x : Nat × Nat) => match x with | (a, b) => natDigits a ++ '-' :: natDigits b) = rng := by
    funext x; obtain ⟨a, b⟩ := x; rfl
  unfold renderMul
  rw [lit_mul, hf]
  simp only [List.append_assoc, List.cons_append, List.nil_append]

theorem parseMul_shape (d : Char) (ds sig muxer body : Str) (id : Nat) (hd : AllDig (d :: ds))
    (hid : digitsToNat (d :: ds) = some id) (hs : isIdent sig = true) (hm : isIdent muxer = true)
    (hb : skipSp (' ' :: (body ++ [';'])) = body ++ [';']) :
    parseMul ('S' :: 'G' :: '_' :: 'M' :: 'U' :: 'L' :: '_' :: 'V' :: 'A' :: 'L' :: '_' :: ' ' ::
      ((d :: ds) ++ ' ' :: (sig ++ ' ' :: (muxer ++ ' ' :: (body ++ [';']))))) =
      ((splitRaw ',' body).mapM parseRange).map fun rs => ⟨id, sig, muxer, rs⟩ := by
  obtain ⟨s, ss, rfl⟩ := List.exists_cons_of_ne_nil (isIdent_ne_nil hs)
  obtain ⟨x, xs, rfl⟩ := List.exists_cons_of_ne_nil (isIdent_ne_nil hm)
  unfold parseMul
  rw [lit_mul]
  rw [if_neg (by simp [startsWith])]
  simp only [List.drop_succ_cons, List.drop_zero]
  rw [skipSp_cons_digits _ _ (by simp) hd, span_digits _ _ hd]
  simp only
  rw [skipSp_cons_ident _ _ hs, span_tok _ _ (ident_not_blank hs)]
  simp only
  rw [skipSp_cons_ident _ _ hm, span_tok _ _ (ident_not_blank hm)]
  simp only
  rw [hb, upto_snoc]
  simp only
  rw [hid]
  rfl

theorem wfMul_unpack {m : MulLine} (h : wfMul m = true) : isIdent m.sig = true ∧ isIdent m.muxer = true := by
  simpa [wfMul] using h

theorem parseMul_renderMul (m : MulLine) (h : wfMul m = true) (hne : m.ranges ≠ []) : parseMul (renderMul m) = some m := by
  obtain ⟨hs, hm⟩ := wfMul_unpack h
  obtain ⟨id, sig, muxer, ranges⟩ := m
  rw [renderMul_eq]
  cases ranges with
  | nil => exact absurd rfl hne
  | cons r rs =>
    cases hnd : natDigits id with
    | nil => exact absurd hnd (natDigits_ne_nil _)
    | cons d ds =>
      rw [parseMul_shape d ds sig muxer _ id (by rw [← hnd]; exact natDigits_allDig id)
        (by rw [← hnd]; exact digitsToNat_natDigits' id) hs hm]
      · simp only []
        rw [mapM_ranges r rs]
        rfl
      · rw [skipSp_space]
        have hjb : ∃ x t, joinCommaBlank ((r :: rs).map rng) = x :: t ∧ x ≠ ' ' := by
          obtain ⟨x, t, hx, hne'⟩ := rng_head r
          cases rs with
          | nil => exact ⟨x, t, by simp only [List.map_cons, List.map_nil, joinCommaBlank]; exact hx, hne'⟩
          | cons r2 rs => exact ⟨x, _, by simp only [List.map_cons, joinCommaBlank]; rw [hx]; rfl, hne'⟩
        obtain ⟨x, t, hx, hne'⟩ := hjb
        rw [hx]
        exact skipSp_of_ne x _ hne'

theorem parseMul_no_ranges (m : MulLine) (h : wfMul m = true) (he : m.ranges = []) : parseMul (renderMul m) = none := by
  obtain ⟨hs, hm⟩ := wfMul_unpack h
  obtain ⟨id, sig, muxer, ranges⟩ := m
  simp only at he
  subst he
  rw [renderMul_eq]
  cases hnd : natDigits id with
  | nil => exact absurd hnd (natDigits_ne_nil _)
  | cons d ds =>
    rw [parseMul_shape d ds sig muxer _ id (by rw [← hnd]; exact natDigits_allDig id)
      (by rw [← hnd]; exact digitsToNat_natDigits' id) hs hm]
    · show Option.map _ (List.mapM parseRange (splitRaw ',' (joinCommaBlank (List.map rng [])))) = none
      have : List.mapM parseRange (splitRaw ',' (joinCommaBlank (List.map rng []))) = none := by decide
      rw [this]
      rfl
    · show skipSp (' ' :: (joinCommaBlank (List.map rng []) ++ [';'])) = joinCommaBlank (List.map rng []) ++ [';']
      decide

end CanVerif.Dbc.StmtProofs
