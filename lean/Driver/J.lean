import Lean.Data.Json
/-! small JSON helpers for the line protocol -/
open Lean

namespace J

def idx (j : Json) (i : Nat) : Except String Json :=
  match j with
  | .arr a => if h : i < a.size then pure a[i] else throw s!"index {i} out of range"
  | _ => throw "array expected"

def int (j : Json) : Except String Int := j.getInt?
def nat (j : Json) : Except String Nat := j.getNat?
def bool (j : Json) : Except String Bool := j.getBool?
def str (j : Json) : Except String String := j.getStr?
def key (j : Json) (k : String) : Except String Json := j.getObjVal? k

def keyD (j : Json) (k : String) (d : Json) : Json :=
  match j.getObjVal? k with
  | .ok v => v
  | .error _ => d

def isNull : Json → Bool
  | .null => true
  | _ => false

def optInt (j : Json) : Except String (Option Int) :=
  if isNull j then pure none else some <$> j.getInt?

def optNat (j : Json) : Except String (Option Nat) :=
  if isNull j then pure none else some <$> j.getNat?

/-- `null | 0 | 1 | false | true` -/
def optBool (j : Json) : Except String (Option Bool) :=
  match j with
  | .null => pure none
  | .bool b => pure (some b)
  | _ => do let n ← j.getInt?; pure (some (n != 0))

def arr (j : Json) : Except String (List Json) :=
  match j with
  | .arr a => pure a.toList
  | _ => throw "array expected"

def natList (j : Json) : Except String (List Nat) := do (← arr j).mapM nat
def intList (j : Json) : Except String (List Int) := do (← arr j).mapM int
def strList (j : Json) : Except String (List String) := do (← arr j).mapM str

def ofInt (i : Int) : Json := Json.num (JsonNumber.fromInt i)
def ofNat (n : Nat) : Json := Json.num (JsonNumber.fromNat n)
def ofOptInt : Option Int → Json
  | none => .null
  | some i => ofInt i
def ofOptNat : Option Nat → Json
  | none => .null
  | some i => ofNat i
def ofList (l : List Json) : Json := .arr l.toArray
def ofNatList (l : List Nat) : Json := ofList (l.map ofNat)
def ofIntList (l : List Int) : Json := ofList (l.map ofInt)
def ofStrList (l : List String) : Json := ofList (l.map Json.str)
def obj (kvs : List (String × Json)) : Json := Json.mkObj kvs

end J
