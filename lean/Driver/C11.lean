import Driver.J
import CanVerif.Model.EcuOps
import CanVerif.Spec.EcuRefs
open Lean CanVerif

namespace D11

def sigOf (j : Json) : Except String ESig := do
  pure { name := ← J.str (← J.idx j 0), receivers := ← J.strList (← J.idx j 1) }

def frameOf (j : Json) : Except String EFrame := do
  pure { name := ← J.str (← J.idx j 0), transmitters := ← J.strList (← J.idx j 1), receivers := ← J.strList (← J.idx j 2),
         sigs := ← (← J.arr (← J.idx j 3)).mapM sigOf }

def matOf (j : Json) : Except String EMat := do
  pure { ecus := ← J.strList (← J.key j "ecus"), frames := ← (← J.arr (← J.key j "frames")).mapM frameOf,
         freeSigs := ← (← J.arr (J.keyD j "free" (Json.arr #[]))).mapM sigOf }

def sigJson (s : ESig) : Json := J.ofList [Json.str s.name, J.ofStrList s.receivers]
def frameJson (f : EFrame) : Json :=
  J.ofList [Json.str f.name, J.ofStrList f.transmitters, J.ofStrList f.receivers, J.ofList (f.sigs.map sigJson)]
def matJson (m : EMat) : Json :=
  J.obj [("ecus", J.ofStrList m.ecus), ("frames", J.ofList (m.frames.map frameJson)), ("free", J.ofList (m.freeSigs.map sigJson))]

def opOf (j : Json) : Except String EOp := do
  let k ← J.str (← J.idx j 0)
  let s (i : Nat) : Except String String := do J.str (← J.idx j i)
  match k with
  | "rename" => pure (.rename (← s 1) (← s 2))
  | "delGlob" => pure (.delGlob (← s 1))
  | "delInst" => pure (.delInst (← s 1))
  | "update" => pure .update
  | "obsolete" => pure .obsolete
  | "addRecv" => pure (.addRecv (← s 1) (← s 2) (← s 3))
  | "delRecv" => pure (.delRecv (← s 1) (← s 2) (← s 3))
  | _ => throw s!"unknown op {k}"

def toSpec (m : EMat) : Spec.RMat :=
  { ecus := m.ecus,
    frames := m.frames.map fun f => { name := f.name, tx := f.transmitters, rx := f.receivers,
                                      sigs := f.sigs.map fun s => { name := s.name, rx := s.receivers } },
    free := m.freeSigs.map fun s => { name := s.name, rx := s.receivers } }

def transitionOk (b : Spec.RMat) (op : EOp) (a : Spec.RMat) : Bool :=
  match op with
  | .rename o n => Spec.renameOk b o n a
  | .delGlob p => Spec.deleteOk b (b.ecus.filter (globMatch p)) a
  | .delInst n => Spec.deleteOk b [n] a
  | .update => Spec.updateOk b a
  | .obsolete => Spec.obsoleteOk b a
  | .addRecv gf gs e => Spec.recvOk true b gf gs e a
  | .delRecv gf gs e => Spec.recvOk false b gf gs e a

def opName : EOp → String
  | .rename .. => "rename_ecu" | .delGlob .. => "del_ecu(glob)" | .delInst .. => "del_ecu(instance)"
  | .update => "update_ecu_list" | .obsolete => "delete_obsolete_ecus" | .addRecv .. => "add_signal_receiver" | .delRecv .. => "del_signal_receiver"

/-- op "seq": c = {"m": matrix, "ops": [...]}; impl i = {"states": [matrix after each op]}
op "glob": c = [pattern, name]; impl i = bool -/
def handle (op : String) (c i : Json) : Except String (Json × String) := do
  match op with
  | "seq" =>
    let m0 ← matOf (← J.key c "m")
    let ops ← (← J.arr (← J.key c "ops")).mapM opOf
    let states := (ops.foldl (fun (acc : EMat × List EMat) o => let n := acc.1.apply o; (n, acc.2 ++ [n])) (m0, [])).2
    let mj := J.obj [("states", J.ofList (states.map matJson))]
    let istates ← (← J.arr (← J.key i "states")).mapM matOf
    let befores := m0 :: istates
    let bad := (List.zip ops (List.zip befores istates)).filterMap fun (o, b, a) =>
      if transitionOk (toSpec b) o (toSpec a) then none else some s!"fail: {opName o} did not have exactly its specified effect on the references"
    pure (mj, match bad with
      | [] => "ok"
      | b :: _ => b)
  | "glob" =>
    let p ← J.str (← J.idx c 0)
    let n ← J.str (← J.idx c 1)
    pure (Json.bool (globMatch p n), "ok")
  | _ => throw s!"C11: unknown op {op}"

end D11
