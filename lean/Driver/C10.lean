import Driver.J
import CanVerif.Model.Lookup
import CanVerif.Spec.Lookup
open Lean CanVerif

namespace D10

def opOf (j : Json) : Except String LOp := do
  let k ← J.str (← J.idx j 0)
  let n (i : Nat) : Except String Nat := do J.nat (← J.idx j i)
  let s (i : Nat) : Except String String := do J.str (← J.idx j i)
  let b (i : Nat) : Except String Bool := do J.bool (← J.idx j i)
  match k with
  | "newMatrix" => pure .newMatrix
  | "newFrame" => pure (.newFrame (← s 1) (← n 2) (← b 3))
  | "addFrame" => pure (.addFrame (← n 1) (← n 2))
  | "appendFrame" => pure (.appendFrame (← n 1) (← n 2))
  | "removeFrame" => pure (.removeFrame (← n 1) (← n 2))
  | "delFrame" => pure (.delFrame (← n 1) (← n 2))
  | "delFrameByName" => pure (.delFrameByName (← n 1) (← s 2))
  | "renameFrame" => pure (.renameFrame (← n 1) (← s 2) (← s 3))
  | "setId" => pure (.setId (← n 1) (← n 2) (← b 3))
  | "addEcu" => pure (.addEcu (← n 1))
  | "copyFrame" => pure (.copyFrame (← n 1) (← n 2) (← n 3) (← b 4))
  | "merge" => pure (.merge (← n 1) (← n 2))
  | "deepcopy" => pure (.deepcopy (← n 1))
  | "loadMatrix" =>
    let fs ← (← J.arr (← J.idx j 1)).mapM fun f => do
      pure ({ name := ← J.str (← J.idx f 0), id := ← J.nat (← J.idx f 1), ext := ← J.bool (← J.idx f 2) } : FObj)
    pure (.loadMatrix fs)
  | "byId" => pure (.byId (← n 1) (← n 2) (← b 3))
  | "byName" => pure (.byName (← n 1) (← s 2))
  | "byPgn" => pure (.byPgn (← n 1) (← n 2))
  | _ => throw s!"unknown op {k}"

def outJson : LOut → Json
  | .unit => .null
  | .handle h => J.obj [("h", J.ofNat h)]
  | .found r => J.obj [("f", J.ofOptNat r)]
  | .flag b => J.obj [("b", Json.bool b)]
  | .raised => Json.str "raised"

def snapOf (j : Json) : Except String (List Spec.FrameSnap) := do
  (← J.arr j).mapM fun f => do
    pure { handle := ← J.nat (← J.idx f 0), name := ← J.str (← J.idx f 1), id := ← J.nat (← J.idx f 2), ext := ← J.bool (← J.idx f 3) }

def editOf (o : LOp) (out : Json) : Spec.Edit :=
  match o with
  | .newFrame name id ext =>
    match out.getObjVal? "h" with
    | .ok (.num n) => .create n.mantissa.toNat name id ext
    | _ => .none
  | .setId h id ext => .setId h id ext
  | .renameFrame _ old new => .rename old new
  | _ => .none

/-- the independence clause over a whole history: `none` when every snapshot agrees with what the
frames' own histories say -/
def independent (triples : List (LOp × Json × Json)) : Except String Bool := do
  let mut ks : List Spec.Known := []
  let mut ok := true
  for (o, out, snap) in triples do
    ks := Spec.noteEdit ks (editOf o out)
    if !J.isNull snap then
      let sn ← snapOf snap
      if !Spec.snapAgrees ks sn then ok := false
      ks := Spec.noteSnap ks sn
  pure ok

def keyOf : LOp → Option Spec.Key
  | .byId _ id ext => some (.byId id ext)
  | .byName _ n => some (.byName n)
  | .byPgn _ p => some (.byPgn p)
  | _ => none

/-- op "hist": c = {"ops": [...]}; impl i = {"outs": [...], "snaps": [snapshot | null per op]} -/
def handle (op : String) (c i : Json) : Except String (Json × String) := do
  match op with
  | "hdr" =>
    -- c = {"frames": [[handle, header id | null], ...], "q": header id}; i = {"ret": handle | null | "raised"}
    let fs ← (← J.arr (← J.key c "frames")).mapM fun f => do pure ((← J.nat (← J.idx f 0)), (← J.optNat (← J.idx f 1)))
    let q ← J.nat (← J.key c "q")
    let want := J.ofOptNat (byHeaderId fs q)
    let got := J.keyD i "ret" Json.null
    pure (J.obj [("ret", want)], if got == want then "ok" else
      if J.isNull got then "fail: a frame with the requested header id is in the matrix but was not found"
      else "fail: the lookup by header id returned a frame that does not carry the id (or not the first one)")
  | "hist" =>
    let ops ← (← J.arr (← J.key c "ops")).mapM opOf
    let (_, outs) := run {} ops
    let m := J.obj [("outs", J.ofList (outs.map outJson))]
    let iouts ← J.arr (← J.key i "outs")
    let snaps ← J.arr (← J.key i "snaps")
    let triples := List.zip ops (List.zip iouts snaps)
    let bad ← triples.filterMapM fun (o, out, snap) => do
      match keyOf o with
      | none => pure none
      | some k =>
        match out.getObjVal? "f" with
        | .error _ => pure (some "fail: a lookup raised")
        | .ok r =>
          let res ← J.optNat r
          let sn ← snapOf snap
          pure (if Spec.lookupOk sn k res then none
                else some (match res with
                  | some _ => "fail: lookup returned a frame that is not in the matrix or does not carry the key"
                  | none => "fail: lookup returned nothing although a frame of the matrix carries the key"))
    let indep ← independent triples
    -- deletions: the snapshot after the call is the one before it without the frame that was named
    let posts := match i.getObjVal? "post" with
      | .ok (.arr a) => a.toList
      | _ => []
    let delBad ← (List.zip triples posts).filterMapM fun ((o, _, pre), post) => do
      if J.isNull pre || J.isNull post then pure none else
      let b ← snapOf pre
      let a ← snapOf post
      match o with
      | .delFrame _ h | .removeFrame _ h =>
        pure (if Spec.removedHandle b a h then none else some "fail: deleting a frame object removed another frame (or not exactly that one) from the matrix")
      | .delFrameByName _ n =>
        pure (if Spec.removedName b a n then none else some "fail: deleting a frame by name removed another frame (or not exactly the first of that name)")
      | _ => pure none
    pure (m, match bad with
      | [] => if let d :: _ := delBad then d else if indep then "ok" else
          "fail: a frame of a matrix changed its identifier or name although no edit addressed that frame: the matrix shares state with another matrix"
      | b :: _ => b)
  | _ => throw s!"C10: unknown op {op}"

end D10
