import Driver.J
import CanVerif.Model.Compare
import CanVerif.Spec.CompareSpec
open Lean CanVerif

namespace D13

def kvOf (j : Json) : Except String KV := do
  (← J.arr j).mapM fun kv => do pure ((← J.str (← J.idx kv 0)), (← J.str (← J.idx kv 1)))
def optStr (j : Json) : Except String (Option String) := if J.isNull j then pure none else some <$> J.str j
def tableOf (j : Json) : Except String (List (Int × String)) := do
  (← J.arr j).mapM fun kv => do pure ((← J.int (← J.idx kv 0)), (← J.str (← J.idx kv 1)))
def sigOf (j : Json) : Except String QSig := do
  pure { name := ← J.str (← J.key j "name"), start := ← J.nat (← J.key j "start"), size := ← J.nat (← J.key j "size"),
         factor := ← J.int (← J.key j "factor"), offset := ← J.int (← J.key j "offset"), min := ← J.int (← J.key j "min"),
         max := ← J.int (← J.key j "max"), little := ← J.bool (← J.key j "little"), signed := ← J.bool (← J.key j "signed"),
         multiplex := ← J.str (← J.key j "multiplex"), unit := ← J.str (← J.key j "unit"), comment := ← optStr (← J.key j "comment"),
         receivers := ← J.strList (← J.key j "receivers"), attrs := ← kvOf (← J.key j "attrs"), values := ← tableOf (← J.key j "values") }
def groupOf (j : Json) : Except String QGroup := do
  pure { name := ← J.str (← J.idx j 0), id := ← J.int (← J.idx j 1), members := ← J.strList (← J.idx j 2) }
def frameOf (j : Json) : Except String QFrame := do
  pure { name := ← J.str (← J.key j "name"), id := ← J.nat (← J.key j "id"), ext := ← J.bool (← J.key j "ext"), size := ← J.nat (← J.key j "size"),
         comment := ← optStr (← J.key j "comment"), transmitters := ← J.strList (← J.key j "tx"), attrs := ← kvOf (← J.key j "attrs"),
         sigs := ← (← J.arr (← J.key j "sigs")).mapM sigOf, groups := ← (← J.arr (← J.key j "groups")).mapM groupOf }
def defsOf (j : Json) : Except String (List (String × QDef)) := do
  (← J.arr j).mapM fun d => do pure ((← J.str (← J.idx d 0)), ({ definition := ← J.str (← J.idx d 1), default := ← optStr (← J.idx d 2) } : QDef))
def matOf (j : Json) : Except String QMat := do
  pure { frames := ← (← J.arr (← J.key j "frames")).mapM frameOf,
         ecus := ← (← J.arr (← J.key j "ecus")).mapM fun e => do
           pure ({ name := ← J.str (← J.idx e 0), comment := ← optStr (← J.idx e 1), attrs := ← kvOf (← J.idx e 2) } : QEcu),
         attrs := ← kvOf (← J.key j "attrs"), gdefs := ← defsOf (← J.key j "gd"), edefs := ← defsOf (← J.key j "ed"),
         fdefs := ← defsOf (← J.key j "fd"), sdefs := ← defsOf (← J.key j "sd"),
         valueTables := ← (← J.arr (← J.key j "vt")).mapM fun kv => do pure ((← J.str (← J.idx kv 0)), (← tableOf (← J.idx kv 1))) }

partial def resJ : Res → Json
  | .node r t cs => J.ofList [match r with | some x => Json.str x | none => .null,
                              match t with | some x => Json.str x | none => .null, J.ofList (cs.map resJ)]

partial def resOf (j : Json) : Except String Res := do
  let r ← optStr (← J.idx j 0)
  let t ← optStr (← J.idx j 1)
  let cs ← (← J.arr (← J.idx j 2)).mapM resOf
  pure (.node r t cs)

def rootEqual : Res → Bool
  | .node r _ _ => r == none || r == some "equal"

/-- op "cmp": c = {"a": m, "b": m, "ign": [comment, attribute, define, valuetables]}; impl i = {"ab": tree, "ba": tree} -/
def handle (op : String) (c i : Json) : Except String (Json × String) := do
  match op with
  | "cmp" =>
    let a ← matOf (← J.key c "a")
    let b ← matOf (← J.key c "b")
    let ig ← J.key c "ign"
    let ign : Ign := { igComment := ← J.bool (← J.idx ig 0), igAttr := ← J.bool (← J.idx ig 1),
                       igDefine := ← J.bool (← J.idx ig 2), igVt := ← J.bool (← J.idx ig 3) }
    let m := J.obj [("ab", resJ (compareDb ign a b)), ("ba", resJ (compareDb ign b a))]
    let iab ← resOf (← J.key i "ab")
    let iba ← resOf (← J.key i "ba")
    let s :=
      if reportsNothing iab != SpecCompare.agree ign a b then
        (if reportsNothing iab then "fail: matrices differ on a compared property but nothing is reported"
         else "fail: matrices agree on every compared property but a difference is reported")
      else if reportsNothing iba != SpecCompare.agree ign b a then "fail: (swapped operands) report and agreement differ"
      else if !SpecCompare.swapOk iab iba then "fail: swapping the operands does not swap additions and deletions"
      -- the verdict of the result as a whole (what a caller and the command line tool look at) must say the same as its leaves
      else if rootEqual iab != reportsNothing iab || rootEqual iba != reportsNothing iba then
        "fail: the result as a whole says 'equal' although a difference is listed below it (or the other way round)"
      else "ok"
    pure (m, s)
  | "flags" =>
    let cc ← J.bool (← J.idx c 0)
    let ca ← J.bool (← J.idx c 1)
    let iv ← J.bool (← J.idx c 2)
    let g := ignOfFlags cc ca iv
    pure (J.ofList [Json.bool g.igComment, Json.bool g.igAttr, Json.bool g.igDefine, Json.bool g.igVt], "ok")
  | _ => throw s!"C13: unknown op {op}"

end D13
