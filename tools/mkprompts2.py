#!/usr/bin/env python3
"""tools/mkprompts2.py <round> <outdir>: self-contained prompts for a round of seeded changes (two changes per property, numbered
m(2r-1), m(2r)).  A prompt holds the text of one property, the summaries of the changes already kept for it (so that the sub-agent
looks elsewhere) and the mechanics of its scratch worktree - nothing about how the checks of /verif work."""
import json, os, sys
rnd, outdir = int(sys.argv[1]), sys.argv[2]
a, b = 2 * rnd - 1, 2 * rnd
os.makedirs(outdir, exist_ok=True)
TEMPLATE = """You are helping to evaluate a verification effort for the open-source Python library ebroecker/canmatrix (CAN bus database converter). \
Your job: invent TWO independent, realistic code changes ("seeded changes") to canmatrix, each of which BREAKS the semantic property quoted below while the \
library still imports and the complete existing test suite still passes.  They are used to find out whether an independent checker notices them; you know \
nothing about that checker and must not look for it (do not read anything under /verif).

PROPERTY {pid}: {title}

Statement: {statement}

Quantified over: {quant}

Code anchors (where the behaviour lives): {anchors}

Your scratch worktree of the repository: {wt}   (create it with:  git -C /repo worktree add --detach {wt} HEAD  ; work ONLY there, never edit /repo itself)
Python to use: /venv/bin/python with PYTHONPATH={wt}/src   (e.g.  cd {wt} && PYTHONPATH={wt}/src /venv/bin/python -m pytest -q -p no:cacheprovider --timeout=900 tests ).  \
Check with  PYTHONPATH={wt}/src /venv/bin/python -c "import canmatrix; print(canmatrix.__file__)"  that the worktree's copy is the one imported.

What makes a good change:
- It looks like something a maintainer could plausibly commit: a refactoring, an optimisation (cache, early exit, hoisted computation), a tolerance / convenience \
feature, a tidy-up of a condition, a new guard - with a plausible comment.  No sabotage-looking code, no dead giveaways, no special-casing of magic constants.
- It must need something SPECIFIC to manifest - a particular multi-step sequence of operations, state kept between calls or shared between objects, an unusual but \
legitimate input inside the property's quantifier (boundary width, particular placement, rarely combined options, a name/text with a special shape), or two cooperating \
sites that each look fine alone.  Ordinary use must NOT expose it at once; the 327 existing tests must all still pass.
- It must genuinely violate the property as stated (inside its quantifier), not merely change unspecified behaviour.
- The two changes must be different in kind and in location from each other and from the changes that already exist for this property:
{previous}

Deliverables - write them to the directory /tmp/seed-{pid}/ (create it):
  m{a}.diff, m{b}.diff      : each a patch produced by `git diff` in the worktree against HEAD containing ONLY that one change (they must apply independently to a clean checkout with `git apply`)
  m{a}_demo.py, m{b}_demo.py : a small stand-alone program (uses only canmatrix + stdlib, imports canmatrix from PYTHONPATH) that exits 0 on the unchanged code and exits non-zero (assertion with a clear message) with the change applied; it demonstrates the violation of the property through the public API
  m{a}.json, m{b}.json       : {{"summary": "<what was changed, where, and why it breaks the property, 3-6 sentences>", "needs": "<what exactly is needed to make it manifest>", "ran": ["<the commands you ran to confirm: tests pass with patch, demo fails with patch, demo passes without>"]}}

Procedure for each change: make the edit in the worktree; run the full test suite (must be 327 passed); run the demo (must fail); `git diff > /tmp/seed-{pid}/mN.diff`; \
`git checkout -- .` ; run the demo again (must pass).  Before you finish: `git -C {wt} checkout -- .` and remove the worktree with \
`git -C /repo worktree remove --force {wt}`.  Keep your final answer short: one line per change saying what it is.
"""
for line in open("/verif/properties.jsonl"):
    p = json.loads(line)
    pid = p["id"]
    prev = []
    for m in range(1, a):
        f = os.path.join("/verif/seeded", "%s-m%d" % (pid, m), "meta.json")
        if os.path.exists(f):
            s = (json.load(open(f)).get("summary") or "").replace("\n", " ")
            prev.append("  - " + s[:300])
    an = p["anchors"]
    anchors = "; ".join("%s (%s)" % (x["name"], x["where"]) for x in an.get("mechanism", []))
    anchors = "files " + ", ".join(an.get("files", [])) + ". " + anchors
    t = TEMPLATE.format(pid=pid, title=p["title"], statement=p["statement"], quant=p["quantifier"]["text"], anchors=anchors,
                        wt="/tmp/wt%d-%s" % (rnd, pid), previous="\n".join(prev) or "  (none yet)", a=a, b=b)
    open(os.path.join(outdir, pid + ".txt"), "w").write(t)
print("written", outdir)
