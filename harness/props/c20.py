"""C20 - readers tolerate bad lines and truncation without losing good content."""
import contextlib
import glob
import io
import os
import re

import canmatrix.formats
from lib import matrices as M
from lib import dbcsnap
from props import c14

PID = "C20"
EXTRA_PROPS = ("C05f",)
RULE = ("case 'bad' = (well-formed DBC or SYM text: canmatrix's own output for a generated matrix (long names, multiplexing, "
        "attributes, comments over several lines, value tables, several senders) or a sample file shipped under tests/files; a "
        "multiset of 1..6 malformed lines of the three fault kinds (unknown keyword, truncated statement, wrong field type) inserted "
        "at positions between complete statements, outside multi-line comments and outside a frame's signal list): the load must "
        "not raise, the normal form of the result must equal the one without the bad lines, the DBC reader's 'error with line no' "
        "output is compared line by line with the dispatcher model, the SYM reader must record one load error per malformed "
        "statement. case 'cut' = the same texts cut at a byte position (25 random positions per text plus up to three right after each kind of "
        "punctuation character, i.e. inside a switch, a quoted text, a bracket; half of the texts also as UTF-8 files with characters "
        "outside ASCII, read with the UTF-8 import option and cut inside multi-byte characters; thorough: in addition every position of "
        "the first 4000 bytes of a DBC and a SYM text): the load must not raise and every frame and signal defined wholly before the cut "
        "keeps placement, byte order, signedness and scaling. Some malformed DBC lines that name an existing frame and signal stand in "
        "front of the frame's definition. Truncated statements are also derived from the file itself: a complete statement of the text "
        "(every kind equally often) cut at any length - inside a quoted text that stays open, a bracket, a number, a name, the keyword - "
        "and inserted as a line of its own, half of the time directly in front of a statement; SYM: Var=/Mux=/ID=/DLC=/CycleTime= lines "
        "cut before their first number is complete (thorough: every truncation of every statement of three DBC texts). "
        "Large multisets (one text in three): 7..105 malformed lines, one to three distinct ones (of one fault kind, of any, or cut from the "
        "file's own statements) repeated - all in one run at one position, in two or three runs, or one in front of each of that many "
        "statements; judged like every other 'bad' case (DBC and SYM). "
        "Wrong field types are also derived from the file itself (half of the 'bad' cases): the copy of a complete statement of the text in "
        "which one number outside quoted texts was replaced by a word, inserted behind the original, so that the malformed line names an "
        "object a well-formed statement has defined - DBC: BO_, SG_, BO_TX_BU_, CM_, VAL_ (identifier or a key), VAL_TABLE_ (a key), "
        "SIG_VALTYPE_, SIG_GROUP_, SG_MUL_VAL_, BA_DEF_ (every kind equally often; six in ten generated DBC texts have one to three global "
        "value tables); SYM: an enum statement with a key replaced (behind the original, inside the {ENUMS} section), a Var=/Mux= line with "
        "its start bit or length replaced (same block). A third of these copies stand IN FRONT of the original (the well-formed statement that "
        "names the same object is still to come and must take effect): DBC copies that fail to match or whose conversion fails (a BO_/SG_ copy "
        "anywhere in front of the frame, others behind the last frame and attribute definition), SYM enum copies in front of any enum statement "
        "up to the original, Var=/Mux= copies earlier in the block. The {ENUMS} section of a SYM text has positions between complete statements "
        "too (four SYM 'bad' cases in ten, and three large multisets in ten): lines that are no enum statement (no load error), enum statements of a "
        "new name that fail to parse (a word, a decimal fraction, an entry without text), malformed copies of the file's own enum statements "
        "(a key replaced, an entry cut behind its key) in front of or behind the statement of that name. SYM Var=/Mux= statements are also cut inside a quoted text (unit with a blank, long "
        "name, quoted name) wherever that text stands, also behind the length field: one load error, nothing written. "
        "Wrong field type in a SYM text is also a number of another type: a decimal fraction or a number with an exponent (12.5, 8.0, 1e1) where the "
        "format has an integer - DLC=, CycleTime=, ID= (templates and copies of the file's own head statements, in front of the original, behind "
        "it in the block, or behind the empty line that ends the block, where the frame is still the reader's current one), start bit, length and "
        "selector value of Var=/Mux= copies: one load error each, size / cycle time / identifier stay what the well-formed statement says. "
        "Non-trivial = every distinct case.")
EXHAUSTIVE = {"quick": False, "thorough": False}
PARTIAL = ["theorems: a bad line is a no-op of the abstract reader (Props/C20) and of the model of the whole reader where it is skipped, "
           "counted only where the handler raises (Props/C05f); the whole reader (handlers, multi-line comment state, lookups) is a model "
           "tied by this correspondence check (op 'whole'), the post-processing by observation only", "the SYM reader is tied by correspondence only (no Lean model of its line parser)",
           "files with a VAL_TABLE_ statement whose key is no number are judged by the op 'bad' alone (the model of the whole reader keeps the keys of a "
           "value table as texts, the reader converts them inside its per-line handler): no op 'whole' for them"]
ASSUMPTIONS = ["a line that opens a quoted comment without closing it starts a multi-line comment by the format's rules and is not a "
               "'truncated statement'; '[name' in SYM starts a new section", "malformed lines are inserted as whole lines",
               "a statement cut off from the file's own text counts as truncated when the text alone says so: no ';' left (statements that end "
               "with ';'), no sender left (BO_), unit still open (SG_); a SYM Var=/Mux= line cut behind its length field is a complete "
               "statement with fewer switches and is not inserted"]
TRUSTED = ["regular expressions of the readers"]
CORRESPONDENCE = "DBC files with malformed lines / cut at a byte read by dbc.load == CanVerif.Dbc.readFile (Model/DbcFile.lean: matrix at the end of the line loop, printed errors); DBC reader stdout ('error with line no') per malformed line == CanVerif.printsError (Model/DbcLines.lean)"

SAMPLES = None


def samples():
    global SAMPLES
    if SAMPLES is None:
        SAMPLES = {"dbc": [], "sym": []}
        for fmt in ("dbc", "sym"):
            for path in sorted(glob.glob("/repo/tests/files/%s/*.%s" % (fmt, fmt))):
                try:
                    data = open(path, "rb").read()
                    if len(data) < 60000:
                        load(data, fmt)
                        SAMPLES[fmt].append(data.decode("iso-8859-1"))
                except Exception:  # noqa
                    pass
    return SAMPLES


def load(data, fmt, enc=None):
    out = io.StringIO()
    opts = {}
    if enc:
        opts = {"dbcImportEncoding": enc, "dbcImportCommentEncoding": enc, "symImportEncoding": enc}
    with contextlib.redirect_stdout(out):
        db = canmatrix.formats.loads_flat(data if isinstance(data, bytes) else data.encode(enc or "iso-8859-1"), fmt, **opts)
    return db, out.getvalue()


UNKNOWN_DBC = ["FOO_ 1 2 3;", "XYZ", "BO__ 5 x", "NS_DESC_ x", "SGX_ a : 1|2", "BA_DEFX \"a\";", "CAT_DEF_ 1 x 2;", "FILTER 0 CM_", "BOX_ 16"]
TRUNC_DBC = ["BO_ 16 F", "BO_ 16", "BO_TX_BU_ 16", "BO_TX_BU_ 16 :", "VAL_ 16 s 0", "VAL_TABLE_ t", "BA_DEF_ BO_ \"X\"", "BA_DEF_  \"X\"",
             "BA_DEF_DEF_ \"X\"", "BA_ \"X\"", "BA_ \"X\" BO_ 16", "BA_ \"X\" SG_ 16 s", "BA_ \"X\" BU_ E", "SIG_GROUP_ 16 g", "SIG_VALTYPE_ 16",
             "SG_MUL_VAL_ 16 s", "EV_ v : 0", "CM_ BO_ 16", "CM_ SG_ 16 s", "CM_ BU_ E",
             # cut inside a quoted text or a bracket (an odd number of quotes: the text is still open)
             "VAL_ 16 s 0 \"a", "VAL_ 16 s 0 \"a\" 1 \"b c", "VAL_TABLE_ t 0 \"a", "BA_DEF_ BO_ \"X", "BA_DEF_ SG_ \"X\" ENUM \"a\",\"b",
             "BA_ \"X", "BA_ \"X\" BO_ 16 \"50 %", "BA_DEF_DEF_ \"X\" \"d", "EV_ v : 0 [0|1] \"u", "EV_ v : 0 [0|", "SG_ s : 0|8@1+ (1,0) [0|100] \"%",
             "SG_ s : 0|8@1+ (1,"]
WRONG_DBC = ["BO_ abc F: 8 E1", "BO_ 16 F: x E1", "BO_TX_BU_ abc : E1;", "SIG_VALTYPE_ abc s : 1;", "SIG_GROUP_ abc g 1 : s;",
             "VAL_ abc s 0 \"a\";", "SG_MUL_VAL_ abc s m 1-1;", "BA_ \"X\" BO_ abc 5;", "BA_ \"X\" SG_ abc s 5;",
             "EV_ v : x [0|1] \"\" 0 1 DUMMY_NODE_VECTOR0 Vector__XXX;", "SG_MUL_VAL_ {fid} {sig} {sig} x-y;",
             "BA_ \"GenMsgCycleTime\" BO_ {fid} abc;", "BA_ \"GenSigStartValue\" SG_ {fid} {sig} abc;", "BA_ \"GenSigCycleTime\" SG_ {fid} {sig} 1.5;",
             "SG_MUL_VAL_ {fid} nosuchsignal {sig} 1-1;"]
RAISES = {"BO_ abc F: 8 E1", "BO_ 16 F: x E1", "SIG_VALTYPE_ abc s : 1;", "SIG_GROUP_ abc g 1 : s;", "SG_MUL_VAL_ {fid} {sig} {sig} x-y;"}
MATCHOK = {"SG_MUL_VAL_ {fid} nosuchsignal {sig} 1-1;"}
UNKNOWN_SYM = ["FOO=bar", "XYZ", "Len=8", "Color=red", "Type=Extnded", "Type=", "Type=29", "{FOO}", "{SIGNALS}"]
BAD_SYM = ["Type", "Var=x unsigned", "Var=x unsigned a,b", "Var=x nosuchtype 0,8", "DLC=abc", "Var=", "Mux=m 0,x 1", "CycleTime=abc", "ID=zzzh",
           # wrong field type = a number of another type: a decimal fraction / a number with an exponent where the format has an integer
           "DLC=2.5", "CycleTime=12.5", "DLC=8.0", "CycleTime=1e1", "ID=12.5h", "Var=x unsigned 0.5,8", "Var=x unsigned 0,8.0", "Mux=m 0,8 1.5"]
# numbers that are no integers (what float() converts and int() refuses): the wrong field type for the start bit, the length, the selector
# value, the DLC, the cycle time and the identifier of a SYM text.  In a hexadecimal field only those with a '.' (1e1 is a hexadecimal number)
NONINT = ("12.5", "2.5", "8.0", "100.0", "0.5", "-1.5", "5.", ".5", "1e1", "1E2", "1e-1", "7.25e1")
NONINT_HEX = tuple(x for x in NONINT if "." in x and "e" not in x.lower())
# words in a hexadecimal field that ends with h: no hexadecimal digits ('abc' would be a number)
WORDS_HEX = ("x", "one", "n/a", "0x", "1O")
# the statements of the head of a message block with a malformed number: inserted between two blocks too
HEAD_BAD_SYM = ["DLC=abc", "CycleTime=abc", "DLC=", "CycleTime=", "ID=zzzh", "ID=12"] + ["DLC=" + x for x in NONINT] + ["CycleTime=" + x for x in NONINT] + \
               ["ID=" + x + "h" for x in NONINT_HEX]
# between the statements of the {ENUMS} section: lines that are no enum statement (skipped without a load error) and enum statements with
# a name of their own that fail to parse (a word or a decimal fraction where the number of an entry has to stand, an entry without text)
UNKNOWN_ENUM_SYM = ["FOO=bar", "XYZ", "Len=8", "Enum Zq_u(0=\"a\")", "{FOO}", "value Zq_u(0=\"a\")", "Var=x unsigned 0,8"]
BAD_ENUM_SYM = ["enum Zq_undefined(x=\"a\", 1=\"b\")", "enum Zq_undefined(0=\"a\", 1)", "enum Zq_undefined(0)", "enum Zq_undefined(0x=\"a\")",
                "enum Zq_undefined(1.5=\"a\")", "enum Zq_undefined(0=\"a\", one=\"b\", 2=\"c\")"]


def allowed_positions_dbc(lines):
    ok = []
    in_comment = False
    for p in range(len(lines) + 1):
        if p < len(lines):
            nxt = lines[p]
        else:
            nxt = ""
        if not in_comment and not nxt.lstrip().startswith("SG_ "):
            ok.append(p)
        if p < len(lines):
            l = lines[p].strip()
            if in_comment:
                if re.match(r'.*" *;\Z', l):
                    in_comment = False
            elif l.startswith("CM_ ") and not re.match(r'.*" *;\Z', l):
                in_comment = True
    return ok


SEMI_KEYWORDS = ("BO_TX_BU_ ", "VAL_ ", "VAL_TABLE_ ", "BA_DEF_ ", "BA_DEF_DEF_ ", "BA_ ", "SIG_GROUP_ ", "SIG_VALTYPE_ ", "SG_MUL_VAL_ ", "EV_ ", "CM_ ")


def statements_dbc(lines):
    """the complete one-line statements of a DBC text (stripped), outside comments over several lines: the material from which
    truncated statements are derived"""
    out = []
    in_comment = False
    for raw in lines:
        l = raw.strip()
        if in_comment:
            if re.match(r'.*" *;\Z', l):
                in_comment = False
            continue
        if l.startswith("CM_ ") and not re.match(r'.*" *;\Z', l):
            in_comment = True
            continue
        if l.startswith(SEMI_KEYWORDS) and l.endswith(";") and l.count('"') % 2 == 0:
            out.append(l)
        elif re.match(r'BO_ +\d+ +\S+ *: *\d+ +\S', l):
            out.append(l)
        elif re.match(r'SG_ +\S.*: *\d+\|\d+@[01][+-] *\(.*\) *\[.*\] +"[^"]*"', l):
            out.append(l)
    return out


def truncation_points_dbc(s):
    """the lengths k for which the prefix s[:k] of the complete statement s is a truncated statement by the format's own rules
    (decided on the text alone, without the reader): a statement that ends with ';' cut anywhere before its first ';'; a BO_ line cut
    before its sender; an SG_ line cut before the quote that closes its unit.  A CM_ statement is only cut before its text: with the
    text open it is the first line of a comment over several lines (ASSUMPTIONS)."""
    if s.startswith("BO_ "):
        m = re.match(r"BO_ +\S+ +\S+ *: *\d+", s)
        hi = m.end() if m else 0
    elif s.startswith("SG_ "):
        q = s.find('"')
        hi = s.find('"', q + 1) if q >= 0 else 0
    else:
        hi = s.find(";")
        if s.startswith("CM_ ") and '"' in s:
            hi = min(hi, s.find('"'))
    return list(range(1, hi + 1))


def pick_cut(rng, s, ks):
    """one of the lengths ks: a third of the time inside a quoted text (the text is still open), a fifth of the time right after a
    punctuation character or a blank, otherwise anywhere (also inside the keyword or a name)"""
    r = rng.random()
    if r < 0.35:
        sub = [k for k in ks if s[:k].count('"') % 2 == 1]
    elif r < 0.55:
        sub = [k for k in ks if s[k - 1] in ' :,|@([-"']
    else:
        sub = ks
    return rng.choice(sub or ks)


def truncations_sym(line):
    """(lo, hi, least length that is still a statement of the reader) for a line of a SYM message block: the prefixes line[:k],
    lo <= k <= hi, are truncated statements by the format's rules (a Var=/Mux= line cut before its length field is complete, an
    ID= line cut before its number, DLC= / CycleTime= cut before the number, Type= cut anywhere); a prefix shorter than the
    keyword is an unknown line, a longer one a statement that cannot be read (one load error)"""
    if line.startswith(("Var=", "Mux=")):
        c = line.find(",")
        if c < 0 or '"' in line[:c] or "//" in line[:c]:
            return None
        return 1, c + 1, 3
    if line.startswith("ID="):
        m = re.match(r"ID=([0-9A-Fa-f]+)h", line)
        # cut anywhere in front of the `h` that ends the number (`ID=12` for `ID=123h` took effect as identifier 0x1 before fix C20-sym-id-without-h)
        return 1, (m.end(1) if m else 3), 2
    if line.startswith("DLC="):
        return 1, 4, 3
    if line.startswith("CycleTime="):
        return 1, 10, 9
    return None


NUMBER = re.compile(r'(?<![\w.])-?\d+(?:\.\d+)?(?:[eE][-+]?\d+)?(?![\w.])')
WORDS = ("x", "abc", "one", "n/a", "0x", "1O")
FLOAT_WORDS = ("inf", "nan", "-inf", "Infinity", "NaN")     # words float() converts: refused as attribute values since the repair of round 10


def numeric_fields(st):
    """the (start, end) of every number of the statement st that stands outside of quoted texts (digits inside a name do not count)"""
    masked, quoted = [], False
    for ch in st:
        if ch == '"':
            quoted = not quoted
        masked.append('"' if quoted or ch == '"' else ch)
    return [(g.start(), g.end()) for g in NUMBER.finditer("".join(masked))]


def twin_kind_dbc(st, field, nfields):
    """what the DBC reader does with the copy of the complete statement st (of the same file) in which number `field` of its `nfields`
    numbers outside quoted texts was replaced by a word, by the reader's patterns:
      'wrong'   the pattern of the statement asks for digits there: no match, nothing happens (printed or not: dispatcher model)
      'raises'  the pattern takes any text, the conversion raises inside the per-line handler: printed, nothing written
      'matchok' the pattern takes any text and the statement has a handler of its own around the conversion (VAL_ keys), or the field is
                not read at all (the type number of SIG_VALTYPE_, the second definition of an attribute): nothing printed; the copy
                stands behind the original, so whatever it still does has been done by the original already
    None: no twin of this field (BA_ has a stream of its own: the malformed twin of a good attribute line)"""
    kw = st.split(" ")[0]
    if kw in ("BO_", "CM_"):
        return "raises"
    if kw in ("SG_", "BO_TX_BU_"):
        return "wrong"
    if kw == "VAL_":
        return "wrong" if field == 0 and re.match(r"VAL_ +\d+ ", st) else "matchok"
    if kw == "VAL_TABLE_":
        return "raises"
    if kw == "SIG_VALTYPE_":
        return "raises" if field == 0 else "matchok"
    if kw == "SIG_GROUP_":
        return "raises" if field == 0 else None
    if kw == "SG_MUL_VAL_":
        return "wrong" if field == 0 else "raises"
    if kw == "BA_DEF_":
        return "matchok"
    if kw == "BA_DEF_DEF_":
        # (twins_dbc only offers the defaults of INT / HEX / FLOAT definitions outside the environment level: the handler checks the
        # value against the definition since the repair of round 10 and raises on a word)
        return "raises"
    return None


def twins_dbc(rng, lines, pos, taken):
    """'wrong field type' lines derived from the file itself: the copy of a complete statement of the text (every kind equally often) in
    which one number was replaced by a word, inserted behind the original (the next allowed position or any later one).  The copy
    carries the name / the identifier of an object that a well-formed statement has defined: a reader that starts to write before it
    has converted every field, or that shares the object with what it read before, damages good content only here."""
    found = []
    where = {}
    for n, raw in enumerate(lines):
        where.setdefault(raw.strip(), n)
    numeric_defs = set()
    for x in statements_dbc(lines):
        mm = re.match(r'BA_DEF_ +(BO_|SG_|BU_)? *"([^"]*)" +(INT|HEX|FLOAT) ', x)
        if mm:
            numeric_defs.add(mm.group(2))

    def offered(x):
        if x.startswith("BA_ "):
            return False
        if x.startswith("BA_DEF_DEF_ "):
            mm = re.match(r'BA_DEF_DEF_ +"([^"]*)" ', x)
            return bool(mm) and mm.group(1) in numeric_defs
        return True
    stmts = [x for x in statements_dbc(lines) if numeric_fields(x) and offered(x)]
    for _k in range(rng.randint(1, 3)):
        if not stmts:
            break
        kw = rng.choice(sorted({x.split(" ")[0] for x in stmts}))
        st = rng.choice([x for x in stmts if x.split(" ")[0] == kw])
        fields = numeric_fields(st)
        fi = rng.randrange(len(fields))
        kind = twin_kind_dbc(st, fi, len(fields))
        at = where.get(st, len(lines))
        later = [q for q in pos if q > at]
        # in front of the original: the well-formed statement that names the same object is still to come and has to take effect.  Only
        # copies the reader does not act on at all ('wrong': no match, 'raises': a conversion fails before anything is written); a BO_
        # copy anywhere in front of the frame, the copy of another statement behind the last frame (and the last attribute definition),
        # so that everything it refers to has been read
        front = []
        if kind in ("wrong", "raises"):
            floor = -1 if kw in ("BO_", "SG_") else max([n for n, l in enumerate(lines[:at]) if l.lstrip().startswith(("BO_ ", "SG_ ", "BA_DEF_ "))] or [-1])
            if kw == "SG_":
                # (not inside the signal list: in front of the frame's BO_ line or earlier)
                at = max([n for n, l in enumerate(lines[:at]) if l.startswith("BO_ ")] or [-1])
            front = [q for q in pos if floor < q <= at]
        if kind is None or not (later or front):
            continue
        a, b = fields[fi]
        # (for a default also the words Python's float() takes for a number: they are no numbers of the format)
        bad = st[:a] + rng.choice(WORDS + FLOAT_WORDS if st.startswith("BA_DEF_DEF_ ") else WORDS) + st[b:]
        if bad.strip() in taken or any(bad.strip() == x[1].strip() for x in found):
            continue
        if front and (not later or rng.random() < 0.35):
            found.append([front[-1] if rng.random() < 0.5 else rng.choice(front), bad, kind, "front"])
        else:
            found.append([later[0] if rng.random() < 0.5 else rng.choice(later), bad, kind])
    return found


def statement_part_sym(line):
    """length of the statement of a SYM line: up to the // that starts its comment (outside quoted texts)"""
    quoted = False
    for k, ch in enumerate(line):
        if ch == '"':
            quoted = not quoted
        elif ch == "/" and not quoted and line[k:k + 2] == "//":
            return k
    return len(line)


def open_text_cuts_sym(line):
    """the lengths k for which the prefix line[:k] of a Var=/Mux= line ends inside a quoted text of the statement (a unit with a blank,
    a long name, a quoted signal name): the text is never closed, by the format's rules the statement is truncated wherever the cut
    falls - also behind the length field - and has to be recorded as one load error"""
    if not line.startswith(("Var=", "Mux=")):
        return []
    end = statement_part_sym(line)
    return [k for k in range(5, end + 1) if line[:k].count('"') % 2 == 1]


def cut_from_file_sym(rng, lines):
    """(text, kind) of one truncated statement made from a line of the SYM text, None when there is none: cut before its first number is
    complete (truncations_sym), or - every second time when the file has a statement with a quoted text - inside that text"""
    opened = [(l, open_text_cuts_sym(l)) for l in lines if open_text_cuts_sym(l)]
    stmts = [(l, truncations_sym(l)) for l in lines if truncations_sym(l)]
    if opened and (not stmts or rng.random() < 0.5):
        st, ks = rng.choice(opened)
        return st[:rng.choice(ks)], "bad"
    if not stmts:
        return None
    st, (lo, hi, least) = rng.choice(stmts)
    k = rng.randint(lo, hi)
    return st[:k], "bad" if k >= least else "unknown"


def enum_statements_sym(lines):
    """(first line, number of lines, text in one line) of every complete enum statement of the {ENUMS} section"""
    out = []
    in_enums = False
    n = 0
    while n < len(lines):
        l = lines[n].strip()
        if l.startswith("{"):
            in_enums = l.startswith("{ENUMS}")
        if in_enums and l.startswith("enum "):
            k, text = n, l
            while not text[5:].strip().endswith(")") and k + 1 < len(lines) and "//" not in text:
                k += 1
                text += lines[k].strip()
            if text[5:].strip().endswith(")") and "//" not in text:
                out.append((n, k - n + 1, text))
            n = k
        n += 1
    return out


def malformed_enum_sym(rng, text):
    """a malformed copy of the complete enum statement `text` (one line) that keeps the statement's name, None when it has no entry:
    one of its keys replaced by a word (wrong field type), or one entry that ends behind its key (`2` for `2="on"`: truncated entry).
    Both fail to parse: one load error, no value table written."""
    head = text.index("(")
    keys = [g for g in re.finditer(r'(?:(?<=\()|(?<=, )|(?<=,))\s*(-?\d+)=(?=")', text) if text[:g.start()].count('"') % 2 == 0 and g.start() >= head]
    if not keys:
        return None
    g = rng.choice(keys)
    if rng.random() < 0.3:
        close = text.find('"', g.end(1) + 2)
        if close > 0:
            return text[:g.end(1)] + text[close + 1:]
    return text[:g.start(1)] + rng.choice(WORDS) + text[g.end(1):]


def enum_places_sym(lines, enums):
    """the positions between the complete statements of the {ENUMS} section: in front of every enum statement and behind the last one"""
    return [e[0] for e in enums] + [enums[-1][0] + enums[-1][1]]


def twins_sym(rng, lines):
    """'wrong field type' statements derived from the SYM text itself, each [position, line, 'bad'] (one load error, nothing written):
    - the malformed copy of a complete enum statement (a key replaced by a word, an entry cut behind its key) anywhere between the
      statements of the {ENUMS} section: half of the time IN FRONT of the original (directly or in front of an earlier enum statement:
      the well-formed statement of that name is still to come and has to take effect), otherwise behind it (in front of one of the
      later enum statements or of the line that ends the section: the table that was read has to stay)
    - the copy of a Var=/Mux= line with its start bit or its length replaced by a word, in the same block, in front of the original or
      behind it"""
    found = []
    enums = enum_statements_sym(lines)
    if enums and rng.random() < 0.7:
        idx = rng.randrange(len(enums))
        n, cnt, text = enums[idx]
        bad = malformed_enum_sym(rng, text)
        if bad:
            places = enum_places_sym(lines, enums)
            front, behind = places[:idx + 1], places[idx + 1:]
            if rng.random() < 0.5:
                found.append([front[-1] if rng.random() < 0.5 else rng.choice(front), bad, "bad", "front"])
            else:
                found.append([behind[0] if rng.random() < 0.5 else rng.choice(behind), bad, "bad"])
    blocks = allowed_positions_sym(lines)
    vars_ = [(p, lines[p]) for p in blocks if lines[p].startswith(("Var=", "Mux=")) and truncations_sym(lines[p])]
    if vars_ and rng.random() < 0.7:
        p, st = rng.choice(vars_)
        g = re.match(r"(?:Var=\S+ +\S+|Mux=\S+) +(\d+),(\d+)(?: +([0-9A-Fa-f]+h?))?", st)
        if g:
            # (the selector value of a Mux= line is among the replaced fields since the repair of round 10: `Mux=mode_a 0,8 abc` used to
            # leave multiplexor = 'abc' behind, so that the Var= lines that follow failed too; a word in a /f: /o: /min: /max: switch of
            # a Mux= line used to make load raise at the end of the frame)
            fields = [1, 2] + ([3] if st.startswith("Mux=") and g.group(3) is not None else [])
            which = rng.choice(fields)
            # a word, or (every second time) a number that is no integer
            junk = rng.choice(WORDS[:3]) if rng.random() < 0.5 else rng.choice(NONINT_HEX if which == 3 else NONINT)
            bad = st[:g.start(which)] + junk + ("h" if which == 3 and g.group(3).endswith("h") and junk in NONINT_HEX and rng.random() < 0.5 else "") + st[g.end(which):]
            if st.startswith("Mux=") and rng.random() < 0.3:
                # junk in the value of a switch of a Mux= line (the value is converted when the multiplexer signal is made)
                bad = st.rstrip() + " /%s:%s" % (rng.choice(["f", "o", "min", "max"]), rng.choice(WORDS[:3]))
                cm = statement_part_sym(st)
                if cm < len(st):
                    bad = st[:cm].rstrip() + " /%s:%s " % (rng.choice(["f", "o", "min", "max"]), rng.choice(WORDS[:3])) + st[cm:]
            later = [q for q in blocks if q > p and not any(lines[r].strip() == "" for r in range(p, q))]
            # in front of the original, in the same block: the signal of that name is still to come
            earlier = [q for q in blocks if q <= p and not any(lines[r].strip() == "" or lines[r].startswith("[") for r in range(q, p))]
            if earlier and rng.random() < 0.4:
                found.append([p if rng.random() < 0.5 else rng.choice(earlier), bad, "bad", "front"])
            else:
                found.append([rng.choice(later) if later and rng.random() < 0.5 else p + 1 if p + 1 in blocks else p, bad, "bad"])
    found.extend(head_twins_sym(rng, lines, blocks))
    return found


def behind_block_sym(lines, p):
    """the position behind the empty line that ends the message block of line p (the frame of the block is still the current one of the
    reader there), None when the text ends first"""
    q = p
    while q < len(lines) and lines[q].strip() != "":
        q += 1
    return q + 1 if q < len(lines) else None


def between_blocks_sym(lines):
    """the positions between two message blocks: behind the empty line that ends a block (and in front of whatever follows: the next
    block, a section line, another empty line, the end of the text)"""
    out = []
    for p, l in enumerate(lines):
        if l.startswith("ID="):
            q = behind_block_sym(lines, p)
            if q is not None and q not in out:
                out.append(q)
    return out


def head_twins_sym(rng, lines, blocks):
    """'wrong field type' statements derived from the head of a message block of the SYM text: the copy of its DLC= / CycleTime= / ID=
    line in which the number was replaced by a word or by a number that is no integer (a decimal fraction, an exponent), each
    [position, line, 'bad'] (one load error; size, cycle time and identifier of the frame stay what the well-formed line says).  The copy
    stands in front of the original (directly or earlier in the block), behind it in the block, or behind the empty line that ends the
    block (the frame is still the reader's current one there)."""
    found = []
    heads = [(p, l) for p, l in enumerate(lines)
             if re.match(r"(DLC|CycleTime)= *\d+\s*(//.*)?\Z", l) or re.match(r"ID=[0-9A-Fa-f]+h\s*(//.*)?\Z", l)]
    # (only lines of a block: behind a [name] line without an empty line in between)
    def in_block(p):
        q = p
        while q >= 0 and lines[q].strip() != "":
            if lines[q].startswith("["):
                return True
            q -= 1
        return False
    heads = [(p, l) for p, l in heads if in_block(p)]
    if not heads or rng.random() >= 0.7:
        return found
    for _k in range(rng.randint(1, 2)):
        kw = rng.choice(sorted({l.split("=")[0] for _, l in heads}))          # every kind of head statement equally often
        p, st = rng.choice([x for x in heads if x[1].split("=")[0] == kw])
        g = re.match(r"\w+= *([0-9A-Fa-f]+)", st)
        if kw == "ID":
            junk = rng.choice(WORDS_HEX) if rng.random() < 0.4 else rng.choice(NONINT_HEX)
        else:
            junk = rng.choice(WORDS) if rng.random() < 0.3 else rng.choice(NONINT)
        bad = st[:g.start(1)] + junk + st[g.end(1):]
        if any(bad.strip() == x[1].strip() for x in found):
            continue
        later = [q for q in blocks if q > p and not any(lines[r].strip() == "" for r in range(p, q))]
        earlier = [q for q in blocks if q < p and not any(lines[r].strip() == "" or lines[r].startswith("[") for r in range(q, p))]
        behind = behind_block_sym(lines, p)
        r = rng.random()
        if r < 0.3:
            found.append([p if not earlier or rng.random() < 0.5 else rng.choice(earlier), bad, "bad", "front"])
        elif r < 0.65 or behind is None:
            found.append([p + 1 if not later or rng.random() < 0.5 else rng.choice(later), bad, "bad"])
        else:
            found.append([behind, bad, "bad"])
    return found


def allowed_positions_sym(lines):
    """inside a message block: after its ID= line and before the blank line that ends the block"""
    ok = []
    in_block = False
    for p, l in enumerate(lines):
        if l.startswith("["):
            in_block = False
        if in_block and l.strip() != "":
            ok.append(p)              # insert before line p (a Var=/DLC=/… line of the block)
        if l.startswith("ID="):
            in_block = True
        if l.strip() == "":
            in_block = False
    return ok


def kind_at(b0, p, lines, m, ms):
    """(line, expectation) of the malformed line made from the template b0 when it is inserted at position p, None when it is not
    inserted there: the placement rules of the first stream of _gen_base, as a function of the position"""
    kind = "unknown" if b0 in UNKNOWN_DBC else "trunc" if b0 in TRUNC_DBC else "wrong"
    if b0 in RAISES:
        kind = "raises"
    if b0 in MATCHOK:
        kind = "matchok"
    b = b0
    if "{fid}" in b:
        if not (m and ms):
            return None
        b = b.replace("{fid}", m.group(1)).replace("{sig}", ms.group(1))
        if b.startswith("BA_ "):
            kind = "wrongvalue:" + b.split('"')[1]
    first_bo = [n for n, l in enumerate(lines) if m and l.startswith("BO_ %s " % m.group(1))]
    if m and (m.group(1) + " ") in b and not b.startswith("BO_"):
        # a line naming the first frame must come after that frame's definition to reach its handler
        if not first_bo or p <= first_bo[0] + 1:
            return None
    if kind.startswith("wrongvalue:"):
        attr = kind.split(":")[1]
        defline = [n for n, l in enumerate(lines) if re.match(r'^BA_DEF_ \w+ +"%s" (INT|HEX|FLOAT)' % attr, l)]
        if not defline or not first_bo or p <= first_bo[0] + 1:
            return None
        # before the definition has been read the value is stored and dropped by the post-processing, after it the line raises
        kind = "wrongvalue" if p > defline[0] else "matchok"
    return b, kind


RUN_LENGTHS = (7, 10, 16, 20, 25, 32, 50, 64, 100)


def gen_many(rng, fmt, lines, pos, m, ms):
    """a large multiset of insertions (7 .. 105 malformed lines, where the first stream has 1 .. 6): a few distinct malformed lines
    (one to three: templates of one fault kind or of any, or statements of the file cut short), repeated
      'run'    all directly one after another at one position,
      'runs'   in two or three such groups at different positions,
      'spread' one at each of that many different positions (in front of every statement when the file has no more).
    A reader that counts the lines it skipped, keeps anything from one skipped line to the next, or changes its mind after some number
    of them, shows only here.  Returns the list of [position, line, kind] or None."""
    n = rng.choice(RUN_LENGTHS) + rng.randint(0, 5)
    shape = rng.choice(("run", "run", "runs", "spread"))
    enums = enum_statements_sym(lines) if fmt == "sym" and rng.random() < 0.3 else []
    if enums:
        # the run(s) stand between the statements of the {ENUMS} section
        pos = enum_places_sym(lines, enums)
        if shape == "spread":
            shape = "runs"
    if shape == "run":
        places = [rng.choice(pos)] * n
    elif shape == "runs":
        ps = [rng.choice(pos) for _ in range(rng.randint(2, 3))]
        places = sorted(rng.choice(ps) for _ in range(n))
    else:
        places = sorted(rng.sample(pos, min(len(pos), n)))
    k = rng.choice((1, 1, 2, 3))
    pool = []
    if fmt == "dbc":
        source = rng.choice(("unknown", "trunc", "wrong", "any", "file"))
        stmts = statements_dbc(lines) if source == "file" else []
        for _ in range(k):
            if stmts:
                st = rng.choice(stmts)
                ks = truncation_points_dbc(st)
                if ks and st[:ks[0]].strip():
                    pool.append(("text", st[:pick_cut(rng, st, ks)]))
            else:
                pool.append(("template", rng.choice({"unknown": UNKNOWN_DBC, "trunc": TRUNC_DBC, "wrong": WRONG_DBC,
                                                     "file": TRUNC_DBC, "any": UNKNOWN_DBC + TRUNC_DBC + WRONG_DBC}[source])))
    else:
        source = rng.choice(("unknown", "bad", "any", "file"))
        for _ in range(k):
            cut = cut_from_file_sym(rng, lines) if source == "file" and not enums else None
            if enums:
                # lines that are no enum statement, malformed enum statements of a new name or of the name of one of the file's own
                b = malformed_enum_sym(rng, rng.choice(enums)[2]) if source == "file" or rng.random() < 0.4 else None
                if source == "unknown":
                    pool.append((rng.choice(UNKNOWN_ENUM_SYM), "unknown"))
                elif b:
                    pool.append((b, "bad"))
                else:
                    b = rng.choice(BAD_ENUM_SYM if source != "any" else BAD_ENUM_SYM + UNKNOWN_ENUM_SYM)
                    pool.append((b, "unknown" if b in UNKNOWN_ENUM_SYM else "bad"))
            elif cut:
                pool.append(cut)
            else:
                b = rng.choice({"unknown": UNKNOWN_SYM, "bad": BAD_SYM, "file": BAD_SYM, "any": UNKNOWN_SYM + BAD_SYM}[source])
                pool.append((b, "unknown" if b in UNKNOWN_SYM else "bad"))
    if not pool:
        return None
    bads, expectation = [], {}
    for i, p in enumerate(places):
        how, b = pool[i % len(pool)] if rng.random() < 0.7 else rng.choice(pool)
        if fmt == "dbc":
            if how == "text":
                if not b.strip():
                    continue
                kind = "trunc"
            else:
                bk = kind_at(b, p, lines, m, ms)
                if bk is None:
                    continue
                b, kind = bk
            if expectation.setdefault(b.strip(), kind) != kind:
                continue          # printed errors are attributed by the echoed text: one expectation per text
        else:
            b, kind = how, b
        bads.append([p, b, kind])
    return (shape, bads) if len(bads) >= 7 else None


TABLE_TEXTS = ("off", "on", "neutral", "first gear", "not available", "error; see manual", "n/a", "50 %")


def gen_text(rng, fmt):
    s = samples()[fmt]
    if s and rng.random() < 0.3:
        return rng.choice(s)
    d = c14.gen_desc(rng)
    d["free"] = []
    seen = set()
    for f in d["frames"]:
        while f["name"] in seen:
            f["name"] += "x"
        seen.add(f["name"])
    for f in d["frames"]:
        if rng.random() < 0.3:
            f["comment"] = "first line\nsecond line of the comment"
    db = c14.build(d)
    if fmt == "dbc" and rng.random() < 0.6:
        # global value tables (VAL_TABLE_ statements): one to three, one of them sometimes without entries
        for t in range(rng.randint(1, 3)):
            keys = rng.sample(range(0, 16), rng.randint(0 if t else 1, 4))
            db.add_value_table("Tab%d" % t, {k2: rng.choice(TABLE_TEXTS) for k2 in keys})
    text = M.export_bytes(db, fmt).decode("iso-8859-1")
    if fmt == "dbc" and rng.random() < 0.5:
        # the order of the SG_ lines of a frame is free: a multiplexed signal may stand before its multiplexer
        out, block = [], []
        for line in text.split("\n"):
            if line.startswith(" SG_ "):
                block.append(line)
                continue
            if block:
                rng.shuffle(block)
                out.extend(block)
                block = []
            out.append(line)
        text = "\n".join(out + block)
    return text


def _gen_base(rng, tier, shard, nshards):
    total = {"quick": 500, "thorough": 6000}[tier] // nshards + 1
    for _ in range(total):
        fmt = "dbc" if rng.random() < 0.7 else "sym"
        text = gen_text(rng, fmt)
        lines = text.split("\n")
        if rng.random() < 0.6:
            pos = allowed_positions_dbc(lines) if fmt == "dbc" else allowed_positions_sym(lines)
            if not pos:
                continue
            m = re.search(r"^BO_ (\d+) ", text, re.M)
            ms = re.search(r"^ SG_ (\w+) ", text, re.M)
            bads = []
            for _k in range(rng.randint(1, 6)):
                if fmt == "dbc":
                    kind = rng.choice(["unknown", "trunc", "wrong"])
                    b = rng.choice({"unknown": UNKNOWN_DBC, "trunc": TRUNC_DBC, "wrong": WRONG_DBC}[kind])
                    if b in RAISES:
                        kind = "raises"       # the pattern matches, a field conversion raises inside the per-line try
                    if b in MATCHOK:
                        kind = "matchok"      # the pattern matches and nothing is written (unknown signal)
                    if "{fid}" in b:
                        if not (m and ms):
                            continue
                        b = b.replace("{fid}", m.group(1)).replace("{sig}", ms.group(1))
                        if b.startswith("BA_ "):
                            attr = b.split('"')[1]
                            kind = "wrongvalue:" + attr
                else:
                    kind = rng.choice(["unknown", "bad"])
                    b = rng.choice(UNKNOWN_SYM if kind == "unknown" else BAD_SYM)
                p = rng.choice(pos)
                if fmt == "dbc" and m and (m.group(1) + " ") in b and not b.startswith("BO_"):
                    # a line naming the first frame must come after that frame's definition to reach its handler
                    first_bo = [n for n, l in enumerate(lines) if l.startswith("BO_ %s " % m.group(1))]
                    after = [q for q in pos if first_bo and q > first_bo[0] + 1]
                    if not after:
                        continue
                    p = rng.choice(after)
                if kind.startswith("wrongvalue:"):
                    # the value check needs the attribute's numeric definition to have been read already
                    attr = kind.split(":")[1]
                    defline = [n for n, l in enumerate(lines) if re.match(r'^BA_DEF_ \w+ +"%s" (INT|HEX|FLOAT)' % attr, l)]
                    first_bo = [n for n, l in enumerate(lines) if m and l.startswith("BO_ %s " % m.group(1))]
                    later = [q for q in pos if defline and first_bo and q > defline[0] and q > first_bo[0] + 1]
                    early = [q for q in pos if defline and first_bo and first_bo[0] + 1 < q <= defline[0]]
                    if early and (not later or rng.random() < 0.35):
                        # before the definition has been read the value cannot be checked at the line: it is stored and
                        # has to be dropped by the post-processing (which must not raise)
                        p = rng.choice(early)
                        kind = "matchok"
                    elif later:
                        p = rng.choice(later)
                        kind = "wrongvalue"
                    else:
                        continue
                if any(b2 == b and k2 != kind for _, b2, k2 in bads):
                    continue      # printed errors are attributed by the echoed text: one expectation per text
                bads.append([p, b, kind])
            if fmt == "dbc" and rng.random() < 0.4:
                # the malformed twin of a good attribute line, after it: the good value must survive
                goods = []
                for n, l in enumerate(lines):
                    g = re.match(r'^BA_ "(\w+)" (BO_ \d+|SG_ \d+ \w+|BU_ \w+) -?[\d.]+;\s*$', l)
                    if g:
                        kw = g.group(2).split(" ")[0]
                        defline = [k for k, dl in enumerate(lines[:n]) if re.match(r'^BA_DEF_ %s +"%s" (INT|HEX|FLOAT)' % (kw, g.group(1)), dl)]
                        later = [q for q in pos if q > n]
                        if defline and later:
                            goods.append((g, later))
                if goods:
                    g, later = rng.choice(goods)
                    b = 'BA_ "%s" %s %s;' % (g.group(1), g.group(2), rng.choice(("abc", "abc") + FLOAT_WORDS))
                    if not any(b2 == b for _, b2, _ in bads):
                        bads.append([rng.choice(later), b, "wrongvalue"])
            if fmt == "dbc" and m and ms and rng.random() < 0.25:
                # a cycle time or start value that float() converts but that is no number, for an attribute the file does not define (no
                # definition checks the value; the post-processing has to ignore it - it used to raise OverflowError / store NaN)
                cands = []
                if not any(re.match(r'BA_DEF_ +BO_ +"GenMsgCycleTime"', l) for l in lines):
                    cands.append('BA_ "GenMsgCycleTime" BO_ {fid} %s;')
                if not any(re.match(r'BA_DEF_ +SG_ +"GenSigStartValue"', l) for l in lines):
                    cands.append('BA_ "GenSigStartValue" SG_ {fid} {sig} %s;')
                if not any(re.match(r'BA_DEF_ +SG_ +"GenSigCycleTime"', l) for l in lines):
                    cands.append('BA_ "GenSigCycleTime" SG_ {fid} {sig} %s;')
                last_sg = max([n for n, l in enumerate(lines) if l.startswith((" SG_ ", "BO_ "))] or [0])
                later = [q for q in pos if q > last_sg]
                if cands and later:
                    b = (rng.choice(cands) % rng.choice(FLOAT_WORDS)).replace("{fid}", m.group(1)).replace("{sig}", ms.group(1))
                    if not any(b2 == b for _, b2, _ in bads):
                        bads.append([rng.choice(later), b, "matchok"])
            if fmt == "dbc" and m and ms and rng.random() < 0.3:
                # a malformed line that names an existing frame and signal but stands before the frame's definition
                first_bo = [n for n, l in enumerate(lines) if l.startswith("BO_ ")]
                before = [q for q in pos if first_bo and q <= first_bo[0]]
                if before:
                    b = rng.choice(['VAL_ {fid} {sig} x "broken";', 'BA_ "GenSigStartValue" SG_ {fid} {sig} abc;', "SG_MUL_VAL_ {fid} {sig} {sig} x-y;"])
                    b = b.replace("{fid}", m.group(1)).replace("{sig}", ms.group(1))
                    if not any(b2 == b for _, b2, _ in bads):
                        bads.append([rng.choice(before), b, "early"])
            if rng.random() < 0.6:
                # truncated statements derived from the file's own statements: a complete statement cut at any length (inside a
                # quoted text, a bracket, a number, a name, the keyword), inserted as a line of its own - half of the time
                # directly in front of a statement (a reader that carries anything from a skipped line into the next one)
                busy = [q for q in pos if q < len(lines) and lines[q].strip() != ""]
                if fmt == "dbc":
                    stmts = statements_dbc(lines)
                    for _k in range(rng.randint(1, 3)):
                        if not stmts:
                            break
                        kw = rng.choice(sorted({x.split(" ")[0] for x in stmts}))     # every kind of statement equally often
                        st = rng.choice([x for x in stmts if x.split(" ")[0] == kw])
                        ks = truncation_points_dbc(st)
                        if not ks:
                            continue
                        b = st[:pick_cut(rng, st, ks)]
                        if not b.strip() or any(b2.strip() == b.strip() for _, b2, _ in bads):
                            continue
                        bads.append([rng.choice(busy) if busy and rng.random() < 0.5 else rng.choice(pos), b, "trunc"])
                else:
                    for _k in range(rng.randint(1, 3)):
                        cut = cut_from_file_sym(rng, lines)
                        if not cut:
                            break
                        b, kind = cut
                        if any(b2.strip() == b.strip() for _, b2, _ in bads):
                            continue
                        bads.append([rng.choice(pos), b, kind])
            if fmt == "sym" and rng.random() < 0.4:
                # the {ENUMS} section has positions between complete statements too: lines that are no enum statement, enum statements
                # of a name of their own that fail to parse, malformed copies of the file's own enum statements (same name) - in front
                # of the well-formed statement of that name or behind it, also several of them
                enums = enum_statements_sym(lines)
                if enums:
                    places = enum_places_sym(lines, enums)
                    for _k in range(rng.randint(1, 3)):
                        r = rng.random()
                        if r < 0.3:
                            b, kind = rng.choice(UNKNOWN_ENUM_SYM), "unknown"
                        elif r < 0.55:
                            b, kind = rng.choice(BAD_ENUM_SYM), "bad"
                        else:
                            b, kind = malformed_enum_sym(rng, rng.choice(enums)[2]), "bad"
                        if b:
                            bads.append([rng.choice(places), b, kind, "enums"])
            if fmt == "sym" and rng.random() < 0.35:
                # statements of the head of a block (DLC=, CycleTime=, ID=) whose number is a word, missing, or a number that is no integer:
                # in a block or between two blocks (behind the empty line that ends a block: the frame is still the current one)
                between = between_blocks_sym(lines)
                for _k in range(rng.randint(1, 2)):
                    b = rng.choice(HEAD_BAD_SYM)
                    if any(b2.strip() == b for _, b2, *_r in bads):
                        continue
                    bads.append([rng.choice(between) if between and rng.random() < 0.6 else rng.choice(pos), b, "bad", "head"])
            nowhole = False
            if rng.random() < 0.5:
                # wrong field types derived from the file's own statements: the copy of a complete statement with one number replaced
                # by a word, behind the original (it names an object that a well-formed statement has defined)
                if fmt == "dbc":
                    twins = twins_dbc(rng, lines, pos, {x[1].strip() for x in bads})
                    # (Model/DbcFile.lean converts the keys of a VAL_TABLE_ statement like `int()` since round 9: the whole-reader model
                    # is compared on these files too)
                    nowhole = False
                else:
                    twins = [t for t in twins_sym(rng, lines) if not any(t[1].strip() == x[1].strip() for x in bads)]
                for t in twins:
                    t[3:] = ["twin-front" if len(t) > 3 else "twin"]
                bads.extend(twins)
            if bads:
                case = {"op": "bad", "c": {"fmt": fmt, "text": text, "ins": [x[:3] for x in bads], "bad": [x[1] for x in bads]}}
                for mark in ("twin", "twin-front", "enums", "head"):
                    if any(x[3:] == [mark] for x in bads):
                        case["c"][mark + "s" if mark == "twin" else mark] = [n for n, x in enumerate(bads) if x[3:] == [mark]]
                if nowhole:
                    # (the model of the whole reader keeps the keys of a VAL_TABLE_ statement as texts, the reader converts them and
                    # skips the statement when one is no number: these files are judged by the op 'bad' alone)
                    case["c"]["nowhole"] = True
                yield case
            if rng.random() < 0.35:
                # all multisets of insertions: also the large ones (runs of malformed lines, a malformed line in front of every statement)
                many = gen_many(rng, fmt, lines, pos, m, ms)
                if many:
                    yield {"op": "bad", "c": {"fmt": fmt, "text": text, "ins": many[1], "bad": [b for _, b, _ in many[1]], "many": many[0]}}
        else:
            n = len(text)
            ks = {rng.randrange(n + 1) for _ in range(25)} | {0, n}
            # cuts inside a token: right after a punctuation character (a lone '-' of '-m', '/' of '/f:', an open quote or bracket)
            for ch in '-/:=,"([|@':
                occ = [i + 1 for i, x in enumerate(text) if x == ch]
                ks |= set(rng.sample(occ, min(len(occ), 3)))
            if fmt == "sym":
                # cuts inside the switches of Var= and Mux= lines (both kinds of statement equally often, the first Mux= line of a frame
                # as often as the later ones): right after the character that starts a switch (a lone '-' or '/') and after its letter
                starts = {"Var": [], "Mux": [], "Mux1": []}
                off, first_mux, seen_blocks = 0, True, set()
                for line in text.split("\n"):
                    if line.startswith("["):
                        first_mux = line.strip() not in seen_blocks
                        seen_blocks.add(line.strip())
                    if line.startswith(("Var=", "Mux=")):
                        kind = "Var" if line.startswith("Var=") else "Mux1" if first_mux else "Mux"
                        end = statement_part_sym(line)
                        starts[kind] += [off + i + 1 for i in range(1, end) if line[i] in "-/" and line[i - 1] == " "]
                        if kind == "Mux1":
                            first_mux = False
                    off += len(line) + 1
                for occ in starts.values():
                    for i in rng.sample(occ, min(len(occ), 3)):
                        ks |= {i, min(i + 1, n)}
            ks = sorted(ks)
            for k in ks:
                yield {"op": "cut", "c": {"fmt": fmt, "text": text, "k": k}}
            if rng.random() < 0.5:
                # the same file in UTF-8 with characters outside ASCII, read with the UTF-8 import option and cut at byte positions:
                # inside every multi-byte character and at some others
                t8 = text.replace("degC", "\u00b0C").replace("rpm", "\u03a9pm").replace("frame comment", "Rahmen gr\u00f6\u00dfer").replace("sig comment", "Signal \u00b5")
                raw = t8.encode("utf-8")
                inside = [i for i, b in enumerate(raw) if 0x80 <= b < 0xC0]
                kb = set(rng.sample(inside, min(len(inside), 12))) | {rng.randrange(len(raw) + 1) for _ in range(6)}
                for k in sorted(kb):
                    yield {"op": "cut", "c": {"fmt": fmt, "text": t8, "k": k, "enc": "utf-8"}}
    if tier == "thorough" and shard == 0:
        text = gen_text(rng, "dbc")[:4000]
        for k in range(len(text) + 1):
            yield {"op": "cut", "c": {"fmt": "dbc", "text": text, "k": k}}
        text = gen_text(rng, "sym")[:4000]
        for k in range(len(text) + 1):
            yield {"op": "cut", "c": {"fmt": "sym", "text": text, "k": k}}
    if tier == "thorough" and shard in (1, 2, 3):
        # every truncation of every statement of one DBC text, each inserted once directly in front of a statement
        text = gen_text(rng, "dbc")
        while len(text) > 6000:
            text = gen_text(rng, "dbc")
        lines = text.split("\n")
        pos = allowed_positions_dbc(lines)
        busy = [q for q in pos if q < len(lines) and lines[q].strip() != ""] or pos
        for st in statements_dbc(lines):
            for k in truncation_points_dbc(st):
                if st[:k].strip():
                    yield {"op": "bad", "c": {"fmt": "dbc", "text": text, "ins": [[rng.choice(busy), st[:k], "trunc"]], "bad": [st[:k]]}}


def modified_text(c, op):
    """the text of a 'bad' case with its lines inserted / of a 'cut' case cut at its position"""
    if op == "cut":
        return c["text"].encode(c.get("enc") or "iso-8859-1")[:c["k"]]
    lines = c["text"].split("\n")
    ins = sorted(enumerate(c["ins"]), key=lambda t: t[1][0])
    out_lines = []
    j = 0
    for p in range(len(lines) + 1):
        while j < len(ins) and ins[j][1][0] == p:
            out_lines.append(ins[j][1][1])
            j += 1
        if p < len(lines):
            out_lines.append(lines[p])
    return "\n".join(out_lines).encode("iso-8859-1", "replace")


def gen(rng, tier, shard, nshards):
    """every DBC case is also read as a whole by the model of the reader (op 'whole': Model/DbcFile.lean against dbc.load, the
    matrix at the end of the line loop and the number of printed errors) - one in three of the cut cases, every bad-line case"""
    n = 0
    for case in _gen_base(rng, tier, shard, nshards):
        yield case
        c = case["c"]
        if c["fmt"] != "dbc" or c.get("enc") or c.get("nowhole"):
            continue
        n += 1
        if case["op"] == "bad" and (tier == "quick" or n % 4 == 0) or case["op"] == "cut" and n % 3 == 0:
            yield {"op": "whole", "c": {"fmt": "dbc", "of": case["op"], "text": c["text"], "ins": c.get("ins"), "k": c.get("k")}}


def neighbours(case, rng, shard, nshards):
    return []


def sig_key(s):
    return [s.start_bit, s.size, bool(s.is_little_endian), bool(s.is_signed), str(s.factor.normalize()), str(s.offset.normalize())]


def observe(case):
    c = case["c"]
    fmt = c["fmt"]
    if case["op"] == "whole":
        data = modified_text(c, c["of"])
        text = data.decode("iso-8859-1")
        if any(ch in text for ch in "\x0b\x0c\x1c\x1d\x1e\x1f\x85\xa0"):
            return {"skipped": "blank characters beyond the ASCII ones (str.strip and bytes.strip differ)"}
        o = dbcsnap.load_snapshot(data, "iso-8859-1")
        if o["snap"] is None:
            return {"skipped": "no snapshot: " + str(o["exc"])}
        return {"lines": o["lines"], "snap": o["snap"]}
    base_db, _ = load(c["text"], fmt, c.get("enc"))
    if case["op"] == "bad":
        lines = c["text"].split("\n")
        ins = sorted(enumerate(c["ins"]), key=lambda t: t[1][0])
        out_lines = []
        where = {}
        j = 0
        for p in range(len(lines) + 1):
            while j < len(ins) and ins[j][1][0] == p:
                where[ins[j][0]] = len(out_lines) + 1      # 1-based line number in the modified file
                out_lines.append(ins[j][1][1])
                j += 1
            if p < len(lines):
                out_lines.append(lines[p])
        try:
            db, out = load("\n".join(out_lines), fmt)
        except Exception as e:  # noqa
            return {"raised": True, "same": False, "exc": type(e).__name__ + ": " + str(e)[:100]}
        same = M.normal_form(db, "all") == M.normal_form(base_db, "all")
        r = {"raised": False, "same": same}
        if fmt == "dbc":
            # attribute the messages by the echoed line text: the reader's line counter is clobbered by the loop
            # variable of its VAL_ handler, so the printed numbers are unreliable
            echoed = re.findall(r"error with line no: \d+\n(b'.*?'|b\".*?\")\n", out)
            texts = set()
            for e in echoed:
                try:
                    texts.add(eval(e).decode("iso-8859-1").strip())
                except Exception:  # noqa
                    pass
            # (whether a line that refers to a frame not yet defined is echoed depends on the handler: not compared)
            r["printed"] = [c["ins"][i][2] != "early" and c["ins"][i][1].strip() in texts for i in range(len(c["ins"]))]
        else:
            r["errors"] = len(db.load_errors) - len(base_db.load_errors)
            r["expected_errors"] = sum(1 for _, _, kind in c["ins"] if kind != "unknown")
        return r
    k = c["k"]
    enc = c.get("enc")
    data = c["text"].encode(enc or "iso-8859-1")[:k]
    if enc:
        k = len(data.decode(enc, "ignore"))       # the cut in characters of the text (a partial character does not count)
    try:
        db, out = load(data, fmt, enc)
    except Exception as e:  # noqa
        return {"raised": True, "kept": False, "exc": type(e).__name__ + ": " + str(e)[:100]}
    # which frames / signals are defined wholly before the cut
    kept = True
    missing = None
    text = c["text"]
    if fmt == "dbc":
        for fr in base_db.frames:
            mo = re.search(r"^BO_ %d [^\n]*\n" % fr.arbitration_id.to_compound_integer(), text, re.M)
            if not mo or mo.end() > k:
                continue
            g = db.frame_by_id(fr.arbitration_id)
            if g is None:
                kept, missing = False, "frame %x" % fr.arbitration_id.id
                break
            off = mo.end()
            for idx, s in enumerate(fr.signals):
                ms = re.compile(r" SG_ [^\n]*\n").match(text, off)
                if not ms or ms.end() > k:
                    break
                off = ms.end()
                if idx >= len(g.signals) or sig_key(g.signals[idx]) != sig_key(s):
                    kept, missing = False, "signal %d of frame %x" % (idx, fr.arbitration_id.id)
                    break
            if not kept:
                break
    else:
        for fr in base_db.frames:
            mo = re.search(r"^\[%s\]\n(?:[^\n\[]*\n)*?ID=[0-9A-Fa-f]+h[^\n]*\n" % re.escape(fr.name), text, re.M)
            if not mo or mo.end() > k:
                continue
            # frame header incl. ID line complete: the frame must exist once at least one more complete line follows
            blk = re.compile(r"(?:[^\n\[]+\n)*").match(text, mo.end())
            if blk.end() > k:
                continue
            g = db.frame_by_id(fr.arbitration_id)
            if g is None:
                kept, missing = False, "frame %s" % fr.name
                break
    return {"raised": False, "kept": kept, "missing": missing}


def project(impl):
    if "skipped" in impl:
        return {}
    if "snap" in impl:
        return {"snap": impl["snap"]}
    if "kept" in impl:
        return {"raised": impl["raised"], "kept": impl["kept"]}
    r = {"raised": impl["raised"], "same": impl["same"]}
    if "printed" in impl:
        r["printed"] = impl["printed"]
    if "errors" in impl:
        r["errors"] = impl["errors"]
    return r


def features(case, impl):
    yield "op=%s/%s%s" % (case["op"], case["c"]["fmt"], "/utf-8" if case["c"].get("enc") else "")
    if case["op"] == "bad":
        if case["c"].get("many"):
            n = len(case["c"]["ins"])
            yield "many=%s/%s/%s" % (case["c"]["many"], case["c"]["fmt"], "7..24" if n < 25 else "25..49" if n < 50 else "50..")
        for n in case["c"].get("twins", []):
            b = case["c"]["ins"][n][1]
            yield "wrong-field-type-twin/%s/%s" % (case["c"]["fmt"], (b.split("=")[0] if case["c"]["fmt"] == "sym" and not b.startswith("enum") else b.split(" ")[0]))
        for n in case["c"].get("twin-front", []):
            b = case["c"]["ins"][n][1]
            yield "malformed-copy-in-front-of-the-original/%s/%s" % (case["c"]["fmt"], (b.split("=")[0] if case["c"]["fmt"] == "sym" and not b.startswith("enum") else b.split(" ")[0]))
        for n in case["c"].get("head", []):
            yield "sym-head-statement-malformed-number/" + case["c"]["ins"][n][1].split("=")[0]
        if case["c"]["fmt"] == "sym":
            between = set(between_blocks_sym(case["c"]["text"].split("\n")))
            for p, b, kind in case["c"]["ins"]:
                if b.startswith(("DLC=", "CycleTime=", "ID=")) and kind == "bad":
                    v = b.split("=", 1)[1].split("//")[0].strip().rstrip("h")
                    try:
                        float(v)
                        isnum = True
                    except ValueError:
                        isnum = False
                    yield "sym-head-number/%s/%s/%s" % (b.split("=")[0], "non-integer-number" if isnum and not v.isdigit() else "other", "between-blocks" if p in between else "in-block")
        for n in case["c"].get("enums", []):
            b, kind = case["c"]["ins"][n][1:3]
            yield "sym-enums-section/" + ("no-enum-statement" if kind == "unknown" else "malformed-enum-new-name" if b in BAD_ENUM_SYM else "malformed-enum-name-of-the-file")
        if case["c"].get("many") and case["c"]["fmt"] == "sym" and any(b in UNKNOWN_ENUM_SYM or b.startswith("enum ") for _, b, _ in case["c"]["ins"]):
            yield "many-in-sym-enums-section"
        for _, b, kind in case["c"]["ins"]:
            yield "fault=" + kind
            if case["c"]["fmt"] == "sym" and b.startswith(("Var=", "Mux=")) and b.count('"') % 2 == 1 and "," in b.split('"')[0]:
                yield "sym-statement-cut-in-quoted-text-behind-length-field"
            if b.count('"') % 2 == 1:
                yield "bad-line-with-open-text/" + case["c"]["fmt"]
            if case["c"]["fmt"] == "dbc" and kind == "trunc" and b not in TRUNC_DBC:
                yield "truncated-from-the-file/" + (b.split() or [""])[0].rstrip(":")
            if case["c"]["fmt"] == "sym" and b not in UNKNOWN_SYM and b not in BAD_SYM:
                yield "truncated-from-the-file/sym"
        if impl.get("printed"):
            yield "error-printed" if any(impl["printed"]) else "silent"
    if impl.get("raised"):
        yield "RAISED"


def nontrivial(case, impl):
    return True
