"""C13 - comparison is sound and complete over the compared properties."""
import copy as pycopy
import decimal

import canmatrix.canmatrix as cm
import canmatrix.compare

PID = "C13"
RULE = ("case = (matrix a, matrix b, ignore settings (comments, attributes, definitions, value tables) - all 16 combinations); "
        "b is a copy of a, or a with exactly one edit from the catalogue of compared properties applied to a random object "
        "(frame: added/deleted/length/id/format/name/comment/sender/attribute/signal group; signal: added/deleted/start/width/"
        "factor/offset/min/max/byte order/sign/multiplex/unit/comment/receiver/attribute/value table; ECU: added/deleted/comment/"
        "attribute; definitions of all four kinds: added/deleted/definition/default; global attribute; global value table), or an "
        "The two matrices are compared in both orders, and once more, as the same objects. unrelated matrix; both operand orders are compared. Numbers include values around 2^32 (the next half step differs in the tenth digit), value texts include characters outside ASCII, frames added with the number of an existing frame in the other format, definitions edited inside their type (ENUM values, INT range). Non-trivial = distinct case with b != a.")
PARTIAL = ["numeric fields are compared as doubles by the code; generated values are multiples of 0.5 (exactly representable), "
           "modelled as integers", "the ref/changes payload of result nodes (object references, old/new texts) is not compared, only "
           "(result, type) and the tree shape", "cancompare's stdout is dump_result of the same tree; the CLI flag mapping is compared separately (op 'flags')"]
ASSUMPTIONS = ["frame names and ids unique within a matrix, signal names unique within a frame, ECU names unique",
               "comment edits are between non-empty texts (a signal comment of None is never reported by design)"]
TRUSTED = ["float() conversion of Decimal for the generated half-integers"]
CORRESPONDENCE = "compare.compare_db (tree of result/type) == CanVerif.compareDb"

ECUS = ["E1", "E2", "Gw"]
BIG = 2 * (2 ** 32 - 1)        # (in halves) 4294967295: the next half step differs from it in the tenth significant digit only
ANAMES = ["GenA", "Note", "Mode"]
D = decimal.Decimal


def kv(rng, p=0.4):
    return [[a, rng.choice(["1", "x", "on"])] for a in ANAMES if rng.random() < p]


def gen_sig(rng, name):
    mux = rng.choice(["None", "None", "None", "Multiplexor", "0", "3"])
    return {"name": name, "start": rng.randint(0, 40), "size": rng.randint(1, 16), "factor": rng.choice([1, 2, 3, 5, -2, BIG]),
            "offset": rng.choice([0, 0, 1, -80, BIG]), "min": rng.choice([0, -10, 2, -BIG]), "max": rng.choice([100, 255, 7, BIG]),
            "little": rng.random() < 0.5, "signed": rng.random() < 0.5, "multiplex": mux, "unit": rng.choice(["", "km/h", "V"]),
            "comment": rng.choice([None, "c1", "speed of car"]), "receivers": rng.sample(ECUS, rng.choice([0, 1, 2])),
            "attrs": kv(rng, 0.3), "values": [[k, rng.choice(["On", "Off", "Err", "ge\u00f6ffnet", "10 \u00b5s"])] for k in rng.sample(range(6), rng.choice([0, 0, 2, 3]))]}


def gen_frame(rng, name, i, ext):
    sigs = [gen_sig(rng, "s%d" % k) for k in range(rng.randint(0, 3))]
    names = [s["name"] for s in sigs]
    groups = [["grp%d" % g, g, rng.sample(names, rng.randint(0, len(names)))] for g in range(rng.choice([0, 0, 1, 2]))]
    return {"name": name, "id": i, "ext": ext, "size": rng.choice([1, 2, 8, 8, 12]), "comment": rng.choice([None, "", "fc", "frame comment"]),
            "tx": rng.sample(ECUS, rng.choice([0, 1, 2])), "attrs": kv(rng), "sigs": sigs, "groups": groups}


def gen_defs(rng):
    out = []
    for a in ANAMES:
        if rng.random() < 0.5:
            out.append([a, rng.choice(["INT 0 100", "STRING", 'ENUM "a","b"']), rng.choice([None, "1", "a"])])
    return out


def gen_matrix(rng, tag=""):
    ids = rng.sample([(0x10, False), (0x11, False), (0x18FEF100, True), (0x20, False), (0x21, False)], rng.randint(0, 4))
    frames = [gen_frame(rng, "F%x%s" % (i, tag), i, e) for i, e in ids]
    return {"frames": frames, "ecus": [[e, rng.choice([None, "ec", "ecu comment"]), kv(rng, 0.3)] for e in ECUS if rng.random() < 0.6],
            "attrs": kv(rng), "gd": gen_defs(rng), "ed": gen_defs(rng), "fd": gen_defs(rng), "sd": gen_defs(rng),
            "vt": [["VT%d" % k, [[j, rng.choice(["a", "b"])] for j in range(rng.randint(0, 3))]] for k in range(rng.choice([0, 0, 1, 2]))]}


def edit(rng, a):
    """returns (b, description) with exactly one edit, or (None, None) if the chosen edit is not applicable"""
    b = pycopy.deepcopy(a)
    kind = rng.choice(["frame", "frame", "signal", "signal", "signal", "ecu", "def", "gattr", "vt"])
    other = lambda cur, opts: rng.choice([o for o in opts if o != cur])  # noqa
    if kind == "frame":
        what = rng.choice(["add", "del", "size", "id", "ext", "name", "comment", "tx+", "tx-", "attr", "group+", "group-", "groupmember", "groupid"])
        if what == "add":
            twins = [f for f in b["frames"] if f["id"] <= 0x7FF and not any(g["id"] == f["id"] and g["ext"] != f["ext"] for g in b["frames"])]
            if twins and rng.random() < 0.4:
                # the same identifier number in the other format is another identifier
                t = rng.choice(twins)
                b["frames"].append(gen_frame(rng, "Ftwin", t["id"], not t["ext"]))
                return b, "frame.add-twin"
            b["frames"].append(gen_frame(rng, "Fnew", 0x77, False))
            return b, "frame.add"
        if not b["frames"]:
            return None, None
        f = rng.choice(b["frames"])
        if what == "del":
            b["frames"].remove(f)
        elif what == "size":
            f["size"] = other(f["size"], [1, 2, 8, 12, 16])
        elif what == "id":
            f["id"] = 0x55 if not f["ext"] else 0x18AA0000
        elif what == "ext":
            if f["id"] > 0x7FF:
                return None, None
            f["ext"] = not f["ext"]
        elif what == "name":
            f["name"] = f["name"] + "_renamed"
        elif what == "comment":
            if not f["comment"]:
                return None, None
            f["comment"] = f["comment"] + " edited"
        elif what == "tx+":
            cand = [e for e in ECUS + ["NewEcu"] if e not in f["tx"]]
            f["tx"].append(rng.choice(cand))
        elif what == "tx-":
            if not f["tx"]:
                return None, None
            f["tx"].pop(rng.randrange(len(f["tx"])))
        elif what == "attr":
            return attr_edit(rng, f["attrs"], b, "frame.attr")
        elif what == "group+":
            f["groups"].append(["grpNew", 9, [s["name"] for s in f["sigs"]][:1]])
        elif what == "group-":
            if not f["groups"]:
                return None, None
            f["groups"].pop()
        elif what == "groupmember":
            g = [g for g in f["groups"] if len(g[2]) < len(f["sigs"])]
            if not g:
                return None, None
            g = g[0]
            g[2].append([s["name"] for s in f["sigs"] if s["name"] not in g[2]][0])
        elif what == "groupid":
            if not f["groups"]:
                return None, None
            f["groups"][0][1] += 1
        return b, "frame." + what
    if kind == "signal":
        fs = [f for f in b["frames"]]
        if not fs:
            return None, None
        f = rng.choice(fs)
        what = rng.choice(["add", "del", "start", "size", "factor", "offset", "min", "max", "little", "signed", "multiplex", "mux0", "unit",
                           "comment", "rx+", "rx-", "attr", "val+", "val-", "valchg"])
        if what == "add":
            f["sigs"].append(gen_sig(rng, "snew"))
            return b, "signal.add"
        if not f["sigs"]:
            return None, None
        s = rng.choice(f["sigs"])
        if what == "del":
            f["sigs"].remove(s)
            for g in f["groups"]:
                if s["name"] in g[2]:
                    g[2].remove(s["name"])
            # removing the member from the groups is part of deleting the signal; still a single user-level edit
        elif what in ("start", "size"):
            s[what] += 1
        elif what in ("factor", "offset", "min", "max"):
            s[what] = s[what] + 1 if s[what] != -1 else 1
        elif what in ("little", "signed"):
            s[what] = not s[what]
        elif what == "multiplex":
            s["multiplex"] = other(s["multiplex"], ["None", "Multiplexor", "0", "3", "4"])
        elif what == "mux0":
            if s["multiplex"] not in ("None", "0"):
                return None, None
            s["multiplex"] = "0" if s["multiplex"] == "None" else "None"
        elif what == "unit":
            s["unit"] = other(s["unit"], ["", "km/h", "V", "A"])
        elif what == "comment":
            if not s["comment"]:
                return None, None
            s["comment"] = s["comment"] + " edited"
        elif what == "rx+":
            s["receivers"].append(rng.choice([e for e in ECUS + ["NewEcu"] if e not in s["receivers"]]))
        elif what == "rx-":
            if not s["receivers"]:
                return None, None
            s["receivers"].pop()
        elif what == "attr":
            return attr_edit(rng, s["attrs"], b, "signal.attr")
        elif what == "val+":
            s["values"].append([max([k for k, _ in s["values"]] + [10]) + 1, "New"])
        elif what == "val-":
            if not s["values"]:
                return None, None
            s["values"].pop()
        elif what == "valchg":
            if not s["values"]:
                return None, None
            if rng.random() < 0.5:
                s["values"][0][1] = s["values"][0][1] + "X"
            else:
                # a text that differs in characters outside ASCII only
                t = s["values"][0][1]
                s["values"][0][1] = t.replace("\u00f6", "\u00e4").replace("\u00b5", "\u03bc") if any(ord(ch) > 127 for ch in t) else t + "\u00b5"
        return b, "signal." + what
    if kind == "ecu":
        what = rng.choice(["add", "del", "comment", "attr"])
        if what == "add":
            b["ecus"].append(["EcuNew", None, []])
            return b, "ecu.add"
        if not b["ecus"]:
            return None, None
        e = rng.choice(b["ecus"])
        if what == "del":
            b["ecus"].remove(e)
        elif what == "comment":
            if not e[1]:
                return None, None
            e[1] = e[1] + " edited"
        else:
            return attr_edit(rng, e[2], b, "ecu.attr")
        return b, "ecu." + what
    if kind == "def":
        key = rng.choice(["gd", "ed", "fd", "sd"])
        what = rng.choice(["add", "del", "definition", "default"])
        if what == "add":
            b[key].append(["NewDef", "INT 0 1", None])
            return b, "def.add"
        if not b[key]:
            return None, None
        d = rng.choice(b[key])
        if what == "del":
            b[key].remove(d)
        elif what == "definition":
            if d[1].startswith("ENUM") and rng.random() < 0.6:
                d[1] = d[1] + ',"c"' if rng.random() < 0.5 else 'ENUM "a","x"'      # same type, other values
            elif d[1].startswith("INT") and rng.random() < 0.5:
                d[1] = "INT 0 101" if d[1] != "INT 0 101" else "INT 1 100"           # same type, other range
            else:
                d[1] = "INT 0 77" if d[1] != "INT 0 77" else "STRING"
        else:
            d[2] = "zz" if d[2] != "zz" else None
        return b, "def." + what
    if kind == "gattr":
        return attr_edit(rng, b["attrs"], b, "global.attr")
    if kind == "vt":
        what = rng.choice(["add", "del", "chg"])
        if what == "add":
            b["vt"].append(["VTnew", [[0, "z"]]])
            return b, "vt.add"
        if not b["vt"]:
            return None, None
        t = rng.choice(b["vt"])
        if what == "del":
            b["vt"].remove(t)
        elif t[1] and rng.random() < 0.5:
            t[1][0][1] = t[1][0][1] + "\u00e9"          # the text of an entry changes (outside ASCII only)
        else:
            t[1].append([99, "q"])
        return b, "vt." + what
    return None, None


def attr_edit(rng, attrs, b, tag):
    what = rng.choice(["add", "del", "chg"])
    if what == "add":
        cand = [a for a in ANAMES + ["Extra"] if a not in [k for k, _ in attrs]]
        attrs.append([rng.choice(cand), "new"])
    elif not attrs:
        return None, None
    elif what == "del":
        attrs.pop(rng.randrange(len(attrs)))
    else:
        attrs[0][1] = attrs[0][1] + "_chg"
    return b, tag + "." + what


def gen(rng, tier, shard, nshards):
    total = {"quick": 5000, "thorough": 80000}[tier] // nshards
    for _ in range(total):
        a = gen_matrix(rng)
        ign = [rng.random() < 0.35, rng.random() < 0.35, rng.random() < 0.25, rng.random() < 0.35]
        k = rng.random()
        if k < 0.12:
            yield {"op": "cmp", "c": {"a": a, "b": pycopy.deepcopy(a), "ign": ign, "edit": "none"}}
        elif k < 0.82:
            b, desc = edit(rng, a)
            if b is None:
                continue
            yield {"op": "cmp", "c": {"a": a, "b": b, "ign": ign if rng.random() < 0.6 else [False, False, False, False], "edit": desc}}
        else:
            yield {"op": "cmp", "c": {"a": a, "b": gen_matrix(rng, rng.choice(["", "", "b"])), "ign": ign, "edit": "unrelated"}}
    if shard == 0:
        for cc in (False, True):
            for ca in (False, True):
                for iv in (False, True):
                    yield {"op": "flags", "c": [cc, ca, iv]}


def neighbours(case, rng, shard, nshards):
    if case["op"] != "cmp":
        return
    for _ in range(150 // nshards + 1):
        a = case["c"]["a"]
        b, desc = edit(rng, a)
        if b is not None:
            yield {"op": "cmp", "c": {"a": a, "b": b, "ign": [rng.random() < 0.3 for _ in range(4)], "edit": desc}}


def build(m):
    db = cm.CanMatrix()
    for name, definition, default in m["gd"]:
        db.add_global_defines(name, definition)
        db.global_defines[name].set_default(default)
    for key, adder, dd in (("ed", db.add_ecu_defines, db.ecu_defines), ("fd", db.add_frame_defines, db.frame_defines),
                           ("sd", db.add_signal_defines, db.signal_defines)):
        for name, definition, default in m[key]:
            adder(name, definition)
            dd[name].set_default(default)
    for k, v in m["attrs"]:
        db.add_attribute(k, v)
    for name, comment, attrs in m["ecus"]:
        e = cm.Ecu(name, comment=comment)
        for k, v in attrs:
            e.add_attribute(k, v)
        db.ecus.append(e)
    for f in m["frames"]:
        fr = cm.Frame(f["name"], arbitration_id=cm.ArbitrationId(f["id"], f["ext"]), size=f["size"], transmitters=list(f["tx"]), comment=f["comment"])
        for k, v in f["attrs"]:
            fr.add_attribute(k, v)
        for s in f["sigs"]:
            mux = None if s["multiplex"] == "None" else ("Multiplexor" if s["multiplex"] == "Multiplexor" else int(s["multiplex"]))
            sg = cm.Signal(s["name"], start_bit=s["start"], size=s["size"], is_little_endian=s["little"], is_signed=s["signed"],
                           factor=D(s["factor"]) / 2, offset=D(s["offset"]) / 2, min=D(s["min"]) / 2, max=D(s["max"]) / 2,
                           unit=s["unit"], comment=s["comment"], receivers=list(s["receivers"]), multiplex=mux)
            for k, v in s["attrs"]:
                sg.add_attribute(k, v)
            for k, v in s["values"]:
                sg.add_values(k, v)
            fr.add_signal(sg)
        for gname, gid, members in f["groups"]:
            fr.add_signal_group(gname, gid, members)
        db.add_frame(fr)
    for name, table in m["vt"]:
        db.add_value_table(name, {k: v for k, v in table})
    return db


def tree(r):
    return [r.result, r.type, [tree(c) for c in r.children]]


def observe(case):
    if case["op"] == "flags":
        cc, ca, iv = case["c"]
        ignore = {}
        if not cc:
            ignore["comment"] = "*"
        if not ca:
            ignore["ATTRIBUTE"] = "*"
        if iv:
            ignore["VALUETABLES"] = True
        return ["comment" in ignore, ignore.get("ATTRIBUTE") == "*", ignore.get("DEFINE") == "*", bool(ignore.get("VALUETABLES"))]
    c = case["c"]
    ignore = {}
    if c["ign"][0]:
        ignore["comment"] = "*"
    if c["ign"][1]:
        ignore["ATTRIBUTE"] = "*"
    if c["ign"][2]:
        ignore["DEFINE"] = "*"
    if c["ign"][3]:
        ignore["VALUETABLES"] = True
    def built(which):
        """the matrix as described; a matrix that lost a frame compared with the other one is built with that frame and loses it
        through the API (del_frame / remove_frame), as an edited matrix does"""
        me, other = c[which], c["b" if which == "a" else "a"]
        mine = {f["name"] for f in me["frames"]}
        extra = [f for f in other["frames"] if f["name"] not in mine]
        if c["edit"] in ("frame.del", "frame.add", "frame.add-twin") and len(extra) == 1 and len(other["frames"]) == len(me["frames"]) + 1:
            db = build(other if c["edit"] != "frame.del" or which == "b" else me)
            if {f.name for f in db.frames} != mine:
                victim = db.frame_by_name(extra[0]["name"])
                if len(extra[0]["name"]) % 2:
                    db.del_frame(victim)
                else:
                    db.remove_frame(victim)
            # everything but the frame list is the described matrix's own
            ref = build(me)
            if [f.name for f in db.frames] == [f.name for f in ref.frames]:
                ref.frames = db.frames
                ref.frames_dict_name = db.frames_dict_name
                ref.frames_dict_id = db.frames_dict_id
                ref._frames_dict_id_extend = dict(getattr(db, "_frames_dict_id_extend", {}))
                return ref
        return build(me)
    # the two matrices are compared in both orders as the same objects: comparing reads its operands, it does not change them
    A, B = built("a"), built("b")
    ab = tree(canmatrix.compare.compare_db(A, B, ignore))
    ba = tree(canmatrix.compare.compare_db(B, A, ignore))
    again = tree(canmatrix.compare.compare_db(A, B, ignore))
    if again != ab:
        return {"ab": again, "ba": ba, "note": "comparing the same two matrices again gives another result"}
    return {"ab": ab, "ba": ba}


def project(impl):
    if isinstance(impl, dict) and "note" in impl:
        return {k: v for k, v in impl.items() if k != "note"}
    return impl


def features(case, impl):
    yield "op=" + case["op"]
    if case["op"] == "cmp":
        yield "edit=" + case["c"]["edit"]
        yield "ign=%s" % "".join("1" if x else "0" for x in case["c"]["ign"])
        yield "reports=" + ("nothing" if impl["ab"][0] != "changed" else "differences")


def nontrivial(case, impl):
    return case["op"] == "cmp" and case["c"]["edit"] != "none"
