"""C13 - comparison is sound and complete over the compared properties."""
import contextlib
import copy as pycopy
import decimal
import io
import json
import logging
import os
import re
import tempfile

import click.testing

import canmatrix.canmatrix as cm
import canmatrix.cli.compare as cancompare
import canmatrix.compare
import canmatrix.formats
import canmatrix.log

from lib import core

PID = "C13"
RULE = ("case = (matrix a, matrix b, ignore settings (comments, attributes, definitions, value tables) - all 16 combinations); "
        "b is a copy of a, or a with exactly one edit from the catalogue of compared properties applied to a random object "
        "(frame: added/deleted/length/id/format/name/comment/sender/attribute/signal group; signal: added/deleted/renamed/start/width/"
        "factor/offset/min/max/byte order/sign/multiplex/unit/comment/receiver/attribute/value table; ECU: added/deleted/comment/"
        "attribute; definitions of all four kinds: added/deleted/definition/default; global attribute; global value table), or an "
        "The two matrices are compared in both orders, and once more, as the same objects. unrelated matrix; both operand orders are compared. The same enumeration is attached to many signals: in two matrices out of three one or two enumerations (raw values with texts) are given to about half of the signals of the matrix, with the same texts or with the same raw values and other texts, in any order of the entries (global value tables one time in four); a value text edit hits any entry, half of the time of a signal whose table has the raw values of another signal's table. In one library case in five the frames are also compared one by one through compare_frame called directly - after the frame was compared with itself, after the partner was compared with itself and the frame with the previous partner, or with no other call - and what compare_frame says about a pair is held against what compare_db lists for it (it is the observation when it differs). Numbers include values around 2^32 (the next half step differs in the tenth digit), value texts include characters outside ASCII, frames added with the number of an existing frame in the other format, definitions edited inside their type (ENUM values, INT range). Frame lengths are 0..8, every length up to 64 bytes and a few longer ones (a length edit goes to a usual length, to a neighbour one or two bytes away, or to any length); signals of longer frames start anywhere in them. Signals share their bits (start, width, byte order) with other signals of the frame - other multiplexer groups or plain overlaps - in generated frames, as the added signal (signal.add-overlay) and as the deleted one; signals are renamed; added frames, signals, ECUs, definitions, value tables and signal groups are also copies of existing ones under a new name. One case in five is compared after one to three other comparisons (other operands, other ignore settings) in the same process. A second stream goes through the command line canmatrix.cli.compare: the two matrices (made expressible in DBC: every attribute defined, one multiplexer per frame) are written to files, the case describes what a reader gets from the files, and cli_compare is invoked in a forked child process - by main(args), by click's CliRunner or by its callback, switches -c/-a/-t in short or long spelling - on a b and on b a, after zero to three earlier invocations with other switches, other operand orders or --frames; the printed report is held against the library comparison of the same files under the ignore settings the switches stand for, and is itself the observation when it differs. The meaning of the switches (op flags) is observed on fourteen probe file pairs that differ in one comment / attribute / definition / value table entry, again after earlier invocations. Attributes and definitions are also called like a member of the class of the object that carries them (Signal.unit, Frame.cycle_time, Ecu.comment ... taken from the classes), like a member of another class or like a node label of the report; an attribute edit (added anywhere / deleted / value changed, any attribute of the object) also hits one object drawn from all attribute-carrying objects of the matrix (edit kind attr); two of the probe pairs differ in such an attribute; defaults written to files are of their definition's type. Units are drawn from a list with characters outside ASCII (superscripts, micro / ohm / kelvin / degree signs and the letters that look like them, umlauts); an edit of a unit, a comment, a value text or an attribute value is - one time in three, units one time in two - an edit to a near text: the same text in another Unicode spelling (compatibility pairs such as superscript two and 2, micro sign and mu; composed and decomposed letters), another case or other white space. For half of the library comparisons the ignore settings are given as another dict that says the same: switches that are on by another true value, switches that are off present with a value that leaves them off (VALUETABLES: False / None / 0 / '', ATTRIBUTE and DEFINE likewise), keys the comparison does not know, None or no argument when nothing is ignored. Non-trivial = distinct case with b != a.")
PARTIAL = ["numeric fields are compared as doubles by the code; generated values are multiples of 0.5 (exactly representable), "
           "modelled as integers", "the ref/changes payload of result nodes (object references, old/new texts) is not compared, only "
           "(result, type) and the tree shape", "cancompare's stdout is compared as text with dump_result of the library's tree for the same files; when it differs, the tree read back "
           "from the printed listing (non-equal nodes only; the verdict of the root is not printed) is judged", "the command line is run on DBC "
           "files only and always with -s; the ignore setting for definitions cannot be reached from the command line"]
ASSUMPTIONS = ["frame names and ids unique within a matrix, signal names unique within a frame, ECU names unique",
               "comment edits are between non-empty texts (a signal comment of None is never reported by design)"]
TRUSTED = ["float() conversion of Decimal for the generated half-integers"]
CORRESPONDENCE = "compare.compare_db (tree of result/type) == CanVerif.compareDb"

ECUS = ["E1", "E2", "Gw"]
BIG = 2 * (2 ** 32 - 1)        # (in halves) 4294967295: the next half step differs from it in the tenth significant digit only
ANAMES = ["GenA", "Note", "Mode"]
D = decimal.Decimal
# frame lengths: classic CAN (0..8), every length up to a CAN FD frame (64) - the data length code on the bus is a lossy function of
# these - and longer frames (multi-packet / container)
LENGTHS = list(range(0, 65)) + [100, 256, 1785]


def gen_length(rng):
    return rng.choice([1, 2, 8, 8, 12]) if rng.random() < 0.5 else rng.choice(LENGTHS)


def other_length(rng, cur):
    """another frame length: one of the usual ones, a neighbour of the current one (one or two bytes more or less), or any length"""
    r = rng.random()
    if r < 0.35:
        opts = [1, 2, 8, 12, 16]
    elif r < 0.7:
        opts = [cur + d for d in (-2, -1, 1, 2) if cur + d >= 0]
    else:
        opts = LENGTHS
    return rng.choice([o for o in opts if o != cur])


# names an attribute (or its definition) may legitimately carry that are also the names of something else on the object concerned:
# the members of the class of the object (Signal.unit, Frame.cycle_time, Ecu.comment, CanMatrix.frames ...), which the accessors
# attribute() of Frame and Signal answer before they look into the attributes.  Taken from the classes, not a hand-picked list.
def _member_names(cls):
    try:
        import attr
        names = sorted(n for n in attr.fields_dict(cls) if not n.startswith("_"))
    except Exception:  # noqa
        names = []
    return names or ["name", "comment"]


MEMBERS = {"global": _member_names(cm.CanMatrix), "ecu": _member_names(cm.Ecu), "frame": _member_names(cm.Frame),
           "signal": _member_names(cm.Signal)}
# names of members of the *other* classes, and names the comparison itself uses for its nodes
FOREIGN = ["unit", "cycle_time", "comment", "name", "ATTRIBUTES", "dlc", "ID"]


def member_like(rng, level, n):
    """up to n names for attributes of an object of the level: mostly members of its class, sometimes of another class / a node label"""
    pool = MEMBERS[level]
    out = []
    for _ in range(n):
        x = rng.choice(pool) if rng.random() < 0.8 else rng.choice(FOREIGN)
        if x not in out:
            out.append(x)
    return out


# texts that mean (nearly) the same to a reader and are different texts all the same: pairs of spellings that a compatibility
# normalisation of Unicode (NFKC / NFKD), a canonical one (NFC / NFD), a change of case or of white space maps onto each other.
# A comparison of texts is a comparison of their characters; an edit between two such texts is an edit.
COMPAT = [("\u00b5", "\u03bc"), ("\u2126", "\u03a9"), ("\u212a", "K"), ("\u212b", "\u00c5"), ("\u00b2", "2"), ("\u00b3", "3"),
          ("\u2103", "\u00b0C"), ("\uff36", "V"), ("\uff21", "A"), ("\ufb01", "fi"), ("\u2082", "2"), ("\u00a0", " "), ("\u2009", " "),
          ("\u2215", "/"), ("\u2044", "/"), ("\u00bd", "1/2"), ("\u2030", "%"), ("\u2031", "%"), ("\u3392", "MHz"), ("\u33a7", "m/s"),
          ("\u339e", "km"), ("\u2160", "I"), ("\u1d52", "o"), ("\u00ba", "o"), ("\u00b0", "\u00ba")]
CANON = [("\u00fc", "u\u0308"), ("\u00f6", "o\u0308"), ("\u00e9", "e\u0301"), ("\u00c5", "A\u030a"), ("\u00e4", "a\u0308"), ("\u00f1", "n\u0303")]
UNITS = ["", "km/h", "V", "", "km/h", "V", "m/s\u00b2", "m/s2", "\u00b5V", "\u03bcs", "\u00b0C", "\u2103", "\u2126", "k\u03a9", "K", "kW", "mm\u00b3",
         "1/min", "%", "MHz", "Nm", "A", "l/100 km", "m/s", "\u00c5", "gr\u00fcn"]


def near_text(rng, t):
    """another text than t that a normalisation (compatibility or canonical form of Unicode, case, white space) would map onto the
    same text as t, or None if t has no such neighbour.  (No control characters, quotes or backslashes: the label of a changed value
    table entry is the repr() of the text as bytes, which the model renders for printable ASCII only.)"""
    if not t:
        return None
    def swap(pairs):
        out = []
        for x, y in pairs:
            for u, v in ((x, y), (y, x)):
                if u in t:
                    out.append(t.replace(u, v, 1) if rng.random() < 0.5 else t.replace(u, v))
        return out
    kinds = {"compat": swap(COMPAT), "canon": swap(CANON),
             "case": [x for x in (t.upper(), t.lower(), t.swapcase(), t.capitalize())],
             "space": [t + " ", " " + t, t + "  ", t.replace(" ", "  ", 1), t.replace(" ", "", 1), t.replace("/", " / ", 1)]}
    kinds = {k: sorted(set(x for x in v if x != t and x)) for k, v in kinds.items()}
    kinds = {k: v for k, v in kinds.items() if v}
    if not kinds:
        return None
    return rng.choice(kinds[rng.choice(sorted(kinds))])


def edited_text(rng, t, plain):
    """the text t after an edit: the plain edit (a visibly different text), or - one time in three - a near neighbour of t"""
    if rng.random() < 0.34:
        n = near_text(rng, t)
        if n is not None:
            return n
    return plain


def kv(rng, p=0.4, level=None):
    out = [[a, rng.choice(["1", "x", "on"])] for a in ANAMES if rng.random() < p]
    if level is not None and rng.random() < 0.45:
        # attributes called like a member of the object that carries them, anywhere among the others
        for a in member_like(rng, level, rng.choice([1, 1, 2])):
            out.insert(rng.randint(0, len(out)), [a, rng.choice(["1", "x", "on", "7"])])
    return out


def gen_sig(rng, name, length=8):
    mux = rng.choice(["None", "None", "None", "Multiplexor", "0", "3"])
    # in a frame longer than 8 bytes a signal may start anywhere in it
    start = rng.randint(0, 40) if length <= 8 or rng.random() < 0.5 else rng.randint(0, length * 8 - 1)
    return {"name": name, "start": start, "size": rng.randint(1, 16), "factor": rng.choice([1, 2, 3, 5, -2, BIG]),
            "offset": rng.choice([0, 0, 1, -80, BIG]), "min": rng.choice([0, -10, 2, -BIG]), "max": rng.choice([100, 255, 7, BIG]),
            "little": rng.random() < 0.5, "signed": rng.random() < 0.5, "multiplex": mux, "unit": rng.choice(UNITS),
            "comment": rng.choice([None, "c1", "speed of car"]), "receivers": rng.sample(ECUS, rng.choice([0, 1, 2])),
            "attrs": kv(rng, 0.3, "signal"), "values": [[k, rng.choice(["On", "Off", "Err", "ge\u00f6ffnet", "10 \u00b5s"])] for k in rng.sample(range(6), rng.choice([0, 0, 2, 3]))]}


def overlay(rng, s, on):
    """s takes the place of the signal `on` (same start bit, width and byte order), as the signals of different multiplexer groups
    do; three times in four it belongs to another multiplexer group than `on`, otherwise the two simply overlap"""
    s["start"], s["size"], s["little"] = on["start"], on["size"], on["little"]
    if rng.random() < 0.75:
        if on["multiplex"] in ("None", "Multiplexor"):
            on_group = None
        else:
            on_group = on["multiplex"]
        s["multiplex"] = rng.choice([g for g in ("0", "1", "3", "4") if g != on_group])
    return s


def gen_frame(rng, name, i, ext):
    length = gen_length(rng)
    sigs = []
    for k in range(rng.randint(0, 3)):
        s = gen_sig(rng, "s%d" % k, length)
        if sigs and rng.random() < 0.25:
            overlay(rng, s, rng.choice(sigs))
        sigs.append(s)
    names = [s["name"] for s in sigs]
    groups = [["grp%d" % g, g, rng.sample(names, rng.randint(0, len(names)))] for g in range(rng.choice([0, 0, 1, 2]))]
    return {"name": name, "id": i, "ext": ext, "size": length, "comment": rng.choice([None, "", "fc", "frame comment"]),
            "tx": rng.sample(ECUS, rng.choice([0, 1, 2])), "attrs": kv(rng, 0.4, "frame"), "sigs": sigs, "groups": groups}


def gen_defs(rng, level=None):
    out = []
    for a in ANAMES:
        if rng.random() < 0.5:
            out.append([a, rng.choice(["INT 0 100", "STRING", 'ENUM "a","b"']), rng.choice([None, "1", "a"])])
    if level is not None and rng.random() < 0.3:
        # a definition called like a member of the objects of its level
        for a in member_like(rng, level, 1):
            out.insert(rng.randint(0, len(out)), [a, rng.choice(["INT 0 100", "STRING", 'ENUM "a","b"']), rng.choice([None, "1", "a"])])
    return out


def gen_matrix(rng, tag=""):
    ids = rng.sample([(0x10, False), (0x11, False), (0x18FEF100, True), (0x20, False), (0x21, False)], rng.randint(0, 4))
    frames = [gen_frame(rng, "F%x%s" % (i, tag), i, e) for i, e in ids]
    m = {"frames": frames, "ecus": [[e, rng.choice([None, "ec", "ecu comment"]), kv(rng, 0.3, "ecu")] for e in ECUS if rng.random() < 0.6],
            "attrs": kv(rng, 0.4, "global"), "gd": gen_defs(rng, "global"), "ed": gen_defs(rng, "ecu"), "fd": gen_defs(rng, "frame"),
            "sd": gen_defs(rng, "signal"),
            "vt": [["VT%d" % k, [[j, rng.choice(["a", "b"])] for j in range(rng.randint(0, 3))]] for k in range(rng.choice([0, 0, 1, 2]))]}
    share_enumerations(rng, m)
    return m


VALUE_TEXTS = ["On", "Off", "Err", "ge\u00f6ffnet", "10 \u00b5s"]


def share_enumerations(rng, m):
    """the same enumeration (on/off, error/not available, positions ...) is attached to many signals of a matrix: in two matrices out
    of three one or two enumerations (a set of raw values with its texts) are drawn and given to about half of the signals, anywhere in
    the matrix - with the very same texts, or (one time in four) with the same raw values and texts of their own, in any order of
    the entries.  Global value tables take part one time in four."""
    if rng.random() < 0.34:
        return
    enums = []
    for _ in range(rng.choice([1, 1, 2])):
        keys = rng.sample(range(6), rng.choice([1, 2, 2, 3]))
        enums.append([[k, rng.choice(VALUE_TEXTS)] for k in keys])
    def one():
        e = pycopy.deepcopy(rng.choice(enums))
        if rng.random() < 0.25:
            for kv_ in e:
                kv_[1] = rng.choice(VALUE_TEXTS)
        if rng.random() < 0.25:
            rng.shuffle(e)
        return e
    for f in m["frames"]:
        for s in f["sigs"]:
            if rng.random() < 0.55:
                s["values"] = one()
    for t in m["vt"]:
        if rng.random() < 0.25:
            t[1] = [[k, rng.choice(["a", "b"])] for k, _ in one()]


def edit(rng, a):
    """returns (b, description) with exactly one edit, or (None, None) if the chosen edit is not applicable"""
    b = pycopy.deepcopy(a)
    kind = rng.choice(["frame", "frame", "signal", "signal", "signal", "ecu", "def", "gattr", "vt", "attr"])
    other = lambda cur, opts: rng.choice([o for o in opts if o != cur])  # noqa
    if kind == "frame":
        what = rng.choice(["add", "del", "size", "size", "id", "ext", "name", "comment", "tx+", "tx-", "attr", "group+", "group-", "groupmember", "groupid"])
        if what == "add":
            twins = [f for f in b["frames"] if f["id"] <= 0x7FF and not any(g["id"] == f["id"] and g["ext"] != f["ext"] for g in b["frames"])]
            if twins and rng.random() < 0.4:
                # the same identifier number in the other format is another identifier
                t = rng.choice(twins)
                b["frames"].append(gen_frame(rng, "Ftwin", t["id"], not t["ext"]))
                return b, "frame.add-twin"
            new = gen_frame(rng, "Fnew", 0x77, False)
            if b["frames"] and rng.random() < 0.3:
                # the new frame is a copy of an existing one (under its own name and identifier): it agrees with that frame on
                # everything but what makes it another frame
                t = pycopy.deepcopy(rng.choice(b["frames"]))
                t["name"], t["id"], t["ext"] = new["name"], new["id"], new["ext"]
                new = t
            b["frames"].append(new)
            return b, "frame.add"
        if not b["frames"]:
            return None, None
        f = rng.choice(b["frames"])
        if what == "del":
            b["frames"].remove(f)
        elif what == "size":
            f["size"] = other_length(rng, f["size"])
        elif what == "id":
            f["id"] = 0x55 if not f["ext"] else 0x18AA0000
        elif what == "ext":
            if f["id"] > 0x7FF:
                return None, None
            f["ext"] = not f["ext"]
        elif what == "name":
            f["name"] = f["name"] + "_renamed"
        elif what == "comment":
            if not f["comment"]:
                return None, None
            f["comment"] = edited_text(rng, f["comment"], f["comment"] + " edited")
        elif what == "tx+":
            cand = [e for e in ECUS + ["NewEcu"] if e not in f["tx"]]
            f["tx"].append(rng.choice(cand))
        elif what == "tx-":
            if not f["tx"]:
                return None, None
            f["tx"].pop(rng.randrange(len(f["tx"])))
        elif what == "attr":
            return attr_edit(rng, f["attrs"], b, "frame.attr")
        elif what == "group+":
            if f["groups"] and rng.random() < 0.4:
                g = rng.choice(f["groups"])
                f["groups"].append(["grpNew", g[1], list(g[2])])         # a second group with the id and members of an existing one
            else:
                f["groups"].append(["grpNew", 9, [s["name"] for s in f["sigs"]][:1]])
        elif what == "group-":
            if not f["groups"]:
                return None, None
            f["groups"].pop()
        elif what == "groupmember":
            g = [g for g in f["groups"] if len(g[2]) < len(f["sigs"])]
            if not g:
                return None, None
            g = g[0]
            g[2].append([s["name"] for s in f["sigs"] if s["name"] not in g[2]][0])
        elif what == "groupid":
            if not f["groups"]:
                return None, None
            f["groups"][0][1] += 1
        return b, "frame." + what
    if kind == "signal":
        fs = [f for f in b["frames"]]
        if not fs:
            return None, None
        f = rng.choice(fs)
        what = rng.choice(["add", "add", "del", "del", "name", "start", "size", "factor", "offset", "min", "max", "little", "signed", "multiplex", "mux0",
                           "unit", "unit", "comment", "rx+", "rx-", "attr", "val+", "val-", "valchg", "valchg"])
        if what == "add":
            new = gen_sig(rng, "snew", f["size"])
            r = rng.random()
            if f["sigs"] and r < 0.3:
                # the new signal takes the bits of an existing one (one more multiplexer group, or an overlapping signal)
                overlay(rng, new, rng.choice(f["sigs"]))
                f["sigs"].append(new)
                return b, "signal.add-overlay"
            if f["sigs"] and r < 0.5:
                # the new signal is a copy of an existing one under another name, optionally in another multiplexer group
                new = pycopy.deepcopy(rng.choice(f["sigs"]))
                new["name"] = "snew"
                if rng.random() < 0.5:
                    overlay(rng, new, pycopy.deepcopy(new))
                f["sigs"].append(new)
                return b, "signal.add-copy"
            f["sigs"].append(new)
            return b, "signal.add"
        if not f["sigs"]:
            return None, None
        s = rng.choice(f["sigs"])
        if what == "del":
            # (half of the time) a signal that shares its bits with another signal of the frame, if there is one
            shared = [x for x in f["sigs"] if any(y is not x and (y["start"], y["size"], y["little"]) == (x["start"], x["size"], x["little"])
                                                  for y in f["sigs"])]
            if shared and rng.random() < 0.5:
                s = rng.choice(shared)
            f["sigs"].remove(s)
            for g in f["groups"]:
                if s["name"] in g[2]:
                    g[2].remove(s["name"])
            # removing the member from the groups is part of deleting the signal; still a single user-level edit
        elif what == "name":
            # a renamed signal is another member of the signal set (its groups name it by the new name)
            for g in f["groups"]:
                g[2][:] = [s["name"] + "_renamed" if n == s["name"] else n for n in g[2]]
            s["name"] = s["name"] + "_renamed"
        elif what in ("start", "size"):
            s[what] += 1
        elif what in ("factor", "offset", "min", "max"):
            s[what] = s[what] + 1 if s[what] != -1 else 1
        elif what in ("little", "signed"):
            s[what] = not s[what]
        elif what == "multiplex":
            s["multiplex"] = other(s["multiplex"], ["None", "Multiplexor", "0", "3", "4"])
        elif what == "mux0":
            if s["multiplex"] not in ("None", "0"):
                return None, None
            s["multiplex"] = "0" if s["multiplex"] == "None" else "None"
        elif what == "unit":
            # another unit, or (half of the time, if the signal has a unit) the same unit in a spelling that is another text
            near = near_text(rng, s["unit"]) if rng.random() < 0.5 else None
            s["unit"] = near if near is not None else other(s["unit"], UNITS + ["A"])
        elif what == "comment":
            if not s["comment"]:
                return None, None
            s["comment"] = edited_text(rng, s["comment"], s["comment"] + " edited")
        elif what == "rx+":
            s["receivers"].append(rng.choice([e for e in ECUS + ["NewEcu"] if e not in s["receivers"]]))
        elif what == "rx-":
            if not s["receivers"]:
                return None, None
            s["receivers"].pop()
        elif what == "attr":
            return attr_edit(rng, s["attrs"], b, "signal.attr")
        elif what == "val+":
            s["values"].append([max([k for k, _ in s["values"]] + [10]) + 1, "New"])
        elif what == "val-":
            if not s["values"]:
                return None, None
            s["values"].pop()
        elif what == "valchg":
            if not s["values"]:
                return None, None
            # the text of one entry, any entry; (half of the time) of a signal whose table has the raw values of another signal's table
            same = [x for x in f["sigs"] if x["values"] and any(y is not x and sorted(k for k, _ in y["values"]) == sorted(k for k, _ in x["values"])
                                                                 for g in b["frames"] for y in g["sigs"])]
            if same and rng.random() < 0.5:
                s = rng.choice(same)
            e = rng.choice(s["values"])
            if rng.random() < 0.5:
                e[1] = edited_text(rng, e[1], e[1] + "X")
            else:
                # a text that differs in characters outside ASCII only
                t = e[1]
                e[1] = t.replace("\u00f6", "\u00e4").replace("\u00b5", "\u03bc") if any(ord(ch) > 127 for ch in t) else t + "\u00b5"
        return b, "signal." + what
    if kind == "ecu":
        what = rng.choice(["add", "del", "comment", "attr"])
        if what == "add":
            if b["ecus"] and rng.random() < 0.4:
                e = rng.choice(b["ecus"])
                b["ecus"].append(["EcuNew", e[1], pycopy.deepcopy(e[2])])      # a copy of an existing ECU under another name
            else:
                b["ecus"].append(["EcuNew", None, []])
            return b, "ecu.add"
        if not b["ecus"]:
            return None, None
        e = rng.choice(b["ecus"])
        if what == "del":
            b["ecus"].remove(e)
        elif what == "comment":
            if not e[1]:
                return None, None
            e[1] = edited_text(rng, e[1], e[1] + " edited")
        else:
            return attr_edit(rng, e[2], b, "ecu.attr")
        return b, "ecu." + what
    if kind == "def":
        key = rng.choice(["gd", "ed", "fd", "sd"])
        what = rng.choice(["add", "del", "definition", "default"])
        if what == "add":
            if b[key] and rng.random() < 0.4:
                d = rng.choice(b[key])
                b[key].append(["NewDef", d[1], d[2]])                           # a copy of an existing definition under another name
            else:
                b[key].append(["NewDef", "INT 0 1", None])
            return b, "def.add"
        if not b[key]:
            return None, None
        d = rng.choice(b[key])
        if what == "del":
            b[key].remove(d)
        elif what == "definition":
            if d[1].startswith("ENUM") and rng.random() < 0.6:
                d[1] = d[1] + ',"c"' if rng.random() < 0.5 else 'ENUM "a","x"'      # same type, other values
            elif d[1].startswith("INT") and rng.random() < 0.5:
                d[1] = "INT 0 101" if d[1] != "INT 0 101" else "INT 1 100"           # same type, other range
            else:
                d[1] = "INT 0 77" if d[1] != "INT 0 77" else "STRING"
        else:
            d[2] = "zz" if d[2] != "zz" else None
        return b, "def." + what
    if kind == "gattr":
        return attr_edit(rng, b["attrs"], b, "global.attr")
    if kind == "attr":
        # one attribute of one object, the object drawn from all objects of the matrix that carry attributes
        objs = [("global.attr", b["attrs"])] + [("ecu.attr", e[2]) for e in b["ecus"]]
        for f in b["frames"]:
            objs.append(("frame.attr", f["attrs"]))
            objs.extend(("signal.attr", x["attrs"]) for x in f["sigs"])
        tag, attrs = rng.choice(objs)
        return attr_edit(rng, attrs, b, tag)
    if kind == "vt":
        what = rng.choice(["add", "del", "chg"])
        if what == "add":
            if b["vt"] and rng.random() < 0.4:
                b["vt"].append(["VTnew", pycopy.deepcopy(rng.choice(b["vt"])[1])])   # a copy of an existing table under another name
            else:
                b["vt"].append(["VTnew", [[0, "z"]]])
            return b, "vt.add"
        if not b["vt"]:
            return None, None
        t = rng.choice(b["vt"])
        if what == "del":
            b["vt"].remove(t)
        elif t[1] and rng.random() < 0.5:
            t[1][0][1] = edited_text(rng, t[1][0][1], t[1][0][1] + "\u00e9")   # the text of an entry changes (outside ASCII only / to a near text)
        else:
            t[1].append([99, "q"])
        return b, "vt." + what
    return None, None


def attr_edit(rng, attrs, b, tag):
    what = rng.choice(["add", "del", "chg"])
    level = tag.split(".")[0]
    if what == "add":
        have = [k for k, _ in attrs]
        cand = [a for a in ANAMES + ["Extra"] if a not in have]
        if rng.random() < 0.35:
            # the new attribute is called like a member of the object
            cand = [a for a in member_like(rng, level, 2) if a not in have] or cand
        attrs.insert(rng.randint(0, len(attrs)), [rng.choice(cand), "new"])
    elif not attrs:
        return None, None
    elif what == "del":
        attrs.pop(rng.randrange(len(attrs)))
    else:
        # any attribute of the object changes its value (half of the time one called like a member, if there is one)
        like = [x for x in attrs if x[0] in MEMBERS[level] or x[0] in FOREIGN]
        x = rng.choice(like) if like and rng.random() < 0.5 else rng.choice(attrs)
        # (add_attribute strips its value: white space at the ends is not part of an attribute value)
        old = x[1]
        x[1] = edited_text(rng, x[1], x[1] + "_chg").strip() if rng.random() < 0.7 else ("1" if x[1] != "1" else "2")
        if x[1] == old:
            x[1] = old + "_chg"
    return b, tag + "." + what


# The ignore settings reach compare_db as a dict.  What a caller may put there to say the same thing: a switch that is ON is the key
# with its value ("*" for comment / ATTRIBUTE / DEFINE as the command line writes it; any true value for VALUETABLES); a switch that
# is OFF is the key left out - or, for the switches whose value the code looks at, the key with a value that does not switch it on
# (a caller that always passes all its switches: {"VALUETABLES": False, ...}); keys the comparison does not know say nothing; no
# switch at all is also None or no argument.  ("comment" is switched by the presence of the key alone, so it is only left out.)
IGN_KEYS = ["comment", "ATTRIBUTE", "DEFINE", "VALUETABLES"]
IGN_ON = {"comment": ["*", "*", True, 1, "yes"], "ATTRIBUTE": ["*"], "DEFINE": ["*"], "VALUETABLES": [True, True, 1, "*", "yes", 2]}
IGN_OFF = {"comment": [], "ATTRIBUTE": [False, None, "", 0], "DEFINE": [False, None, "", 0], "VALUETABLES": [False, False, None, "", 0]}
IGN_OTHER = [["FRAMES", "*"], ["SIGNALS", True], ["valuetables", True], ["ValueTables", "*"], ["attribute", "*"], ["define", "*"], ["COMMENT", "*"],
             ["", "*"], ["*", "*"], ["ECU", "*"]]


def ignore_meaning(spelled):
    """the four switches a spelled-out ignore dict (list of [key, value]; None = no dict) stands for"""
    d = dict((k, v) for k, v in spelled) if spelled is not None else {}
    return ["comment" in d, d.get("ATTRIBUTE") == "*", d.get("DEFINE") == "*", bool(d.get("VALUETABLES"))]


def gen_igndict(rng, ign):
    """one of the dicts a caller may pass to say `ign`"""
    if not any(ign) and rng.random() < 0.2:
        return None
    out = []
    for k, on in zip(IGN_KEYS, ign):
        if on:
            out.append([k, rng.choice(IGN_ON[k])])
        elif IGN_OFF[k] and rng.random() < 0.45:
            out.append([k, rng.choice(IGN_OFF[k])])
    if rng.random() < 0.2:
        out.append(list(rng.choice(IGN_OTHER)))
    rng.shuffle(out)
    assert ignore_meaning(out) == list(ign)
    return out


def gen(rng, tier, shard, nshards):
    total = {"quick": 5000, "thorough": 80000}[tier] // nshards
    for _ in range(total):
        a = gen_matrix(rng)
        ign = [rng.random() < 0.35, rng.random() < 0.35, rng.random() < 0.25, rng.random() < 0.35]
        k = rng.random()
        if k < 0.12:
            case = {"op": "cmp", "c": {"a": a, "b": pycopy.deepcopy(a), "ign": ign, "edit": "none"}}
        elif k < 0.82:
            b, desc = edit(rng, a)
            if b is None:
                continue
            case = {"op": "cmp", "c": {"a": a, "b": b, "ign": ign if rng.random() < 0.6 else [False, False, False, False], "edit": desc}}
        else:
            case = {"op": "cmp", "c": {"a": a, "b": gen_matrix(rng, rng.choice(["", "", "b"])), "ign": ign, "edit": "unrelated"}}
        if rng.random() < 0.2:
            # the comparison under test is not the first one of the process: other comparisons, with other ignore settings and
            # other operands, were made before it
            case["c"]["pre"] = [[[rng.random() < 0.5 for _ in range(4)], rng.choice(["ab", "ba", "aa", "bb"])] for _ in range(rng.randint(1, 3))]
        if rng.random() < 0.5:
            # the ignore settings as another dict that says the same
            case["c"]["igndict"] = gen_igndict(rng, case["c"]["ign"])
        if rng.random() < 0.2:
            # the frames are also compared one by one through compare_frame, after other direct calls
            case["c"]["direct"] = rng.choice(["self", "self", "other", "none"])
        yield case
    # the same comparison through the command line (canmatrix.cli.compare), on files, after a history of other invocations
    for _ in range({"quick": 320, "thorough": 4800}[tier] // nshards):
        case = gen_cli_case(rng)
        if case is not None:
            yield case
    # what the switches of the command line mean, observed on probe files after a history of other invocations
    for _ in range({"quick": 48, "thorough": 320}[tier] // nshards):
        yield {"op": "flags", "c": [rng.random() < 0.5, rng.random() < 0.5, rng.random() < 0.5, gen_history(rng, len(PROBES))]}
    if shard == 0:
        for cc in (False, True):
            for ca in (False, True):
                for iv in (False, True):
                    yield {"op": "flags", "c": [cc, ca, iv]}


# ---------------------------------------------------------------------------------------------
# the command line: matrices in files, invocations with a history
# ---------------------------------------------------------------------------------------------
OPTION_SENSITIVE = re.compile(r"comment|attr|val|vt\.|def\.")
ENTRIES = ["main", "main", "runner", "callback"]


def file_fit(m):
    """make a generated matrix one that a DBC file can hold (in place): every attribute has a definition on its level and a value of
    the definition's type, a frame has a comment text, a frame has at most one multiplexer"""
    def fix(attrs, defs):
        d = {x[0]: x[1] for x in defs}
        for kv in attrs:
            de = d.get(kv[0])
            if de is None:
                defs.append([kv[0], "STRING", None])
                d[kv[0]] = "STRING"
            elif de.startswith("ENUM"):
                vals = re.findall(r'"([^"]*)"', de)
                if kv[1] not in vals:
                    kv[1] = vals[0]
            elif de.startswith("INT") and not re.fullmatch(r"-?\d+", kv[1]):
                kv[1] = "1"
    for key in ("gd", "ed", "fd", "sd"):
        for d in m[key]:
            # the default written into the file is one of the definition's type (the reader refuses the line otherwise)
            if d[2] is not None:
                if d[1].startswith("ENUM"):
                    vals = re.findall(r'"([^"]*)"', d[1])
                    if d[2] not in vals:
                        d[2] = vals[0]
                elif d[1].startswith("INT") and not re.fullmatch(r"-?\d+", d[2]):
                    d[2] = "1"
    fix(m["attrs"], m["gd"])
    for e in m["ecus"]:
        fix(e[2], m["ed"])
    for f in m["frames"]:
        if f["comment"] is None:
            f["comment"] = ""
        fix(f["attrs"], m["fd"])
        seen = False
        for s in f["sigs"]:
            fix(s["attrs"], m["sd"])
            if s["multiplex"] == "Multiplexor":
                if seen:
                    s["multiplex"] = "None"
                seen = True
    return m


def _half(x):
    d = D(str(x)) * 2
    if d != d.to_integral_value():
        raise ValueError("not a multiple of 0.5: %r" % (x,))
    return int(d)


def _text(x):
    if x is None or isinstance(x, str):
        return x
    raise ValueError("text expected: %r" % (x,))


def _kvs(d):
    return [[str(k), v if isinstance(v, str) else str(v)] for k, v in d.items()]


def describe(db):
    """a matrix object in the form of the generator's descriptions (inverse of build); raises ValueError for what they cannot say"""
    def defs(dd):
        return [[n, _text(d.definition), _text(d.defaultValue)] for n, d in dd.items()]
    frames = []
    for f in db.frames:
        sigs = []
        for s in f.signals:
            mux = "None" if s.multiplex is None else ("Multiplexor" if s.multiplex == "Multiplexor" else str(int(s.multiplex)))
            sigs.append({"name": s.name, "start": int(s.start_bit), "size": int(s.size), "factor": _half(s.factor), "offset": _half(s.offset),
                         "min": _half(s.min), "max": _half(s.max), "little": bool(s.is_little_endian), "signed": bool(s.is_signed),
                         "multiplex": mux, "unit": _text(s.unit) or "", "comment": _text(s.comment), "receivers": [str(r) for r in s.receivers],
                         "attrs": _kvs(s.attributes), "values": [[int(k), _text(v)] for k, v in s.values.items()]})
        groups = [[g.name, int(g.id), [x.name for x in g.signals]] for g in f.signalGroups]
        frames.append({"name": f.name, "id": int(f.arbitration_id.id), "ext": bool(f.arbitration_id.extended), "size": int(f.size),
                       "comment": _text(f.comment), "tx": [str(t) for t in f.transmitters], "attrs": _kvs(f.attributes), "sigs": sigs,
                       "groups": groups})
    return {"frames": frames, "ecus": [[e.name, _text(e.comment), _kvs(e.attributes)] for e in db.ecus], "attrs": _kvs(db.attributes),
            "gd": defs(db.global_defines), "ed": defs(db.ecu_defines), "fd": defs(db.frame_defines), "sd": defs(db.signal_defines),
            "vt": [[n, [[int(k), _text(v)] for k, v in t.items()]] for n, t in db.value_tables.items()]}


def to_file_text(m):
    """(text of the DBC file holding m, description of the matrix a reader gets from that file) or None if the file does not hold it
    cleanly (the writer refuses, the reader complains, the result is outside the descriptions)"""
    noise = io.StringIO()
    try:
        with contextlib.redirect_stdout(noise):
            f = io.BytesIO()
            canmatrix.formats.dump(build(m), f, "dbc")
            raw = f.getvalue()
            back = describe(canmatrix.formats.load_flat(io.BytesIO(raw), "dbc"))
    except Exception:
        return None
    if noise.getvalue():
        return None
    return raw.decode("iso-8859-1"), back


def gen_history(rng, npairs=1):
    """earlier invocations of the command line in the same process: [comments, attributes, valueTable, frames, operands, spelling, entry, pair]"""
    return [[rng.random() < 0.5, rng.random() < 0.5, rng.random() < 0.5, rng.random() < 0.15, rng.choice(["ab", "ab", "ba", "aa"]),
             rng.choice(["short", "long"]), rng.choice(ENTRIES), rng.randrange(npairs)] for _ in range(rng.choice([0, 1, 1, 2, 3]))]


def gen_cli_case(rng):
    a = file_fit(gen_matrix(rng))
    k = rng.random()
    if k < 0.1:
        b, desc = pycopy.deepcopy(a), "none"
    elif k < 0.9:
        want = rng.random() < 0.6
        for _ in range(12):
            b, desc = edit(rng, a)
            if b is not None and (not want or OPTION_SENSITIVE.search(desc)):
                break
        if b is None:
            return None
    else:
        b, desc = gen_matrix(rng, rng.choice(["", "b"])), "unrelated"
    fa, fb = to_file_text(a), to_file_text(file_fit(b))
    if fa is None or fb is None:
        return None
    cc, ca, iv = rng.random() < 0.5, rng.random() < 0.5, rng.random() < 0.4
    return {"op": "cmp", "c": {"a": fa[1], "b": fb[1], "ign": [not cc, not ca, False, iv], "edit": desc,
                               "cli": {"files": [fa[0], fb[0]], "flags": [cc, ca, iv], "spelling": rng.choice(["short", "long"]),
                                       "entry": rng.choice(ENTRIES), "history": gen_history(rng)}}}


def cli_args(cc, ca, iv, frames, spelling):
    names = {"short": ["-c", "-a", "-t", "-f"], "long": ["--comments", "--attributes", "--valueTable", "--frames"]}[spelling]
    return [n for n, on in zip(names, [cc, ca, iv, frames]) if on]


def run_cli(entry, cc, ca, iv, frames, spelling, p1, p2):
    """one invocation of the comparison command line in this process; returns what it wrote to standard output"""
    args = ["-s"] + cli_args(cc, ca, iv, frames, spelling) + [p1, p2]
    if entry == "runner":
        res = click.testing.CliRunner().invoke(cancompare.cli_compare, args, catch_exceptions=False)
        return res.stdout
    out = io.StringIO()
    with contextlib.redirect_stdout(out):
        if entry == "callback":
            cancompare.cli_compare.callback(matrix1=p1, matrix2=p2, verbosity=1, silent=True, check_comments=cc, check_attributes=ca,
                                     ignore_valuetables=iv, frames=frames)
        else:
            cancompare.cli_compare.main(args=args, standalone_mode=False)
    return out.getvalue()


@contextlib.contextmanager
def cli_session(texts):
    """files for one case in a scratch directory; the logging set-up of the command line (one more handler per invocation) is undone"""
    root = logging.getLogger()
    handlers, level = list(root.handlers), root.level
    with tempfile.TemporaryDirectory(prefix="c13-") as d:
        paths = []
        for i, t in enumerate(texts):
            p = os.path.join(d, "m%d.dbc" % i)
            with open(p, "wb") as f:
                f.write(t.encode("iso-8859-1"))
            paths.append(p)
        try:
            yield paths
        finally:
            root.handlers[:] = handlers
            root.setLevel(level)


def run_history(history, pairs):
    for cc, ca, iv, frames, operands, spelling, entry, pair in history:
        pa, pb = pairs[pair % len(pairs)]
        p1, p2 = {"ab": (pa, pb), "ba": (pb, pa), "aa": (pa, pa)}[operands]
        run_cli(entry, cc, ca, iv, frames, spelling, p1, p2)


class ObservedError(Exception):
    """the code under test raised in the child process that observed it"""


def in_child(fn, arg):
    """fn(arg) in a forked child of this process.  The command line is only ever run in such children, so every case starts from a
    process in which it has not been run before and the earlier invocations are exactly those the case names: a failing case fails
    again when it is replayed alone."""
    r, w = os.pipe()
    pid = os.fork()
    if pid == 0:
        try:
            os.close(r)
            try:
                res = {"ok": fn(arg)}
            except core.Infra as e:
                res = {"infra": str(e)}
            except BaseException as e:  # noqa
                res = {"exc": type(e).__name__ + ": " + str(e)[:200]}
            with os.fdopen(w, "w") as f:
                json.dump(res, f)
        finally:
            os._exit(0)
    os.close(w)
    with os.fdopen(r) as f:
        data = f.read()
    os.waitpid(pid, 0)
    if not data:
        raise core.Infra("C13: the child process observing the command line died without an answer")
    res = json.loads(data)
    if "infra" in res:
        raise core.Infra(res["infra"])
    if "exc" in res:
        raise ObservedError(res["exc"])
    return res["ok"]


NODE_LINE = re.compile(r"^(.*?) (added|deleted|changed|removed|equal)  (.*)$")


def parse_dump(text):
    """the report of dump_result as a tree [result, type, children]: the nodes it prints (those that are not 'equal'), nested by their
    indentation; the verdict of the root is not printed - it is taken to say what the listing says"""
    root = [None, None, []]
    stack = [(0, root)]
    after_class = False
    for line in text.split("\n"):
        if line == "":
            continue
        body = line.lstrip(" ")
        indent = len(line) - len(body)
        if body.startswith("<class "):
            after_class = True
            continue
        if after_class and line.startswith("old: "):
            after_class = False
            continue
        after_class = False
        m = NODE_LINE.match(body)
        if m is None or indent % 2 or indent == 0:
            node, depth = ["changed", "unreadable line: " + line[:80], []], 1
        else:
            node, depth = [m.group(2), m.group(1), []], indent // 2
        while stack[-1][0] >= depth:
            stack.pop()
        stack[-1][1][2].append(node)
        stack.append((depth, node))
    if root[2]:
        root[0] = "changed"
    return root


def dumped(res):
    out = io.StringIO()
    with contextlib.redirect_stdout(out):
        canmatrix.compare.dump_result(res)
    return out.getvalue()


def observe_cli(c):
    """the two matrices are in files; the command line compares them (a b, then b a) with the switches of the case, after the earlier
    invocations of the case.  What it prints is held against the library comparing the same files under the ignore settings these
    switches stand for: the same text -> that tree is the observation; another text -> the printed listing is the observation"""
    cli = c["cli"]
    cc, ca, iv = cli["flags"]
    ignore = {}
    if c["ign"][0]:
        ignore["comment"] = "*"
    if c["ign"][1]:
        ignore["ATTRIBUTE"] = "*"
    if c["ign"][3]:
        ignore["VALUETABLES"] = True
    with cli_session(cli["files"]) as (pa, pb):
        A, B = canmatrix.formats.loadp_flat(pa), canmatrix.formats.loadp_flat(pb)
        if describe(A) != c["a"] or describe(B) != c["b"]:
            raise core.Infra("C13: the files of the case do not hold the matrices of the case (case written by another version of the reader?)")
        run_history(cli["history"], [(pa, pb)])
        out_ab = run_cli(cli["entry"], cc, ca, iv, False, cli["spelling"], pa, pb)
        out_ba = run_cli(cli["entry"], cc, ca, iv, False, cli["spelling"], pb, pa)
        lib_ab = canmatrix.compare.compare_db(A, B, ignore)
        lib_ba = canmatrix.compare.compare_db(B, A, ignore)
        impl = {"ab": tree(lib_ab), "ba": tree(lib_ba)}
        want_ab, want_ba = dumped(lib_ab), dumped(lib_ba)
    notes = []
    if out_ab != want_ab:
        impl["ab"] = parse_dump(out_ab)
        notes.append("a b")
    if out_ba != want_ba:
        impl["ba"] = parse_dump(out_ba)
        notes.append("b a")
    if notes:
        impl["note"] = ("the command line (%s) prints another report than the comparison of the same files under the ignore settings "
                        "its switches stand for; the printed report is the observation" % ", ".join(notes))
    if os.environ.get("VERIF_C13_SELFCHECK") == "1" and not notes:
        for out, t in ((out_ab, impl["ab"]), (out_ba, impl["ba"])):
            if parse_dump(out) != pruned(t):
                raise core.Infra("C13: parse_dump does not read back dump_result: %r" % out[:400])
    return impl


def pruned(t):
    """the part of a result tree that dump_result prints"""
    def kids(n):
        out = []
        for ch in n[2]:
            if ch[1] is not None and ch[0] != "equal":
                out.append([ch[0], ch[1], kids(ch)])
            else:
                out.extend(kids(ch))
        return out
    k = kids(t)
    return ["changed" if k else None, None, k]


# probe files: one base matrix and variants that differ from it in exactly one thing of one category
PROBE_BASE = {
    "frames": [{"name": "Status", "id": 0x123, "ext": False, "size": 8, "comment": "status frame", "tx": ["E1"], "attrs": [["GenA", "x"], ["cycle_time", "5"]],
                "sigs": [{"name": "Mode", "start": 0, "size": 4, "factor": 2, "offset": 0, "min": 0, "max": 30, "little": True, "signed": False,
                          "multiplex": "None", "unit": "", "comment": "operating mode", "receivers": ["E2"], "attrs": [["Note", "on"], ["unit", "x"]],
                          "values": [[0, "Off"], [1, "On"]]}], "groups": []}],
    "ecus": [["E1", "first", [["Mode", "x"]]], ["E2", None, []]], "attrs": [["GenA", "1"]],
    "gd": [["GenA", "STRING", None], ["Level", "INT 0 100", "5"]], "ed": [["Mode", "STRING", None]], "fd": [["GenA", "STRING", None], ["cycle_time", "INT 0 1000", None]],
    "sd": [["Note", "STRING", None], ["unit", "STRING", None]], "vt": [["VT0", [[0, "a"], [1, "b"]]]]}


def _probe(path, value):
    m = pycopy.deepcopy(PROBE_BASE)
    x = m
    for k in path[:-1]:
        x = x[k]
    x[path[-1]] = value
    return m


PROBES = [  # (category: index into [comment, attribute, define, value table], variant)
    (0, _probe(["frames", 0, "comment"], "frame of the status")),
    (0, _probe(["frames", 0, "sigs", 0, "comment"], "mode of operation")),
    (0, _probe(["ecus", 0, 1], "the first")),
    (1, _probe(["attrs", 0, 1], "on")),
    (1, _probe(["frames", 0, "attrs", 0, 1], "1")),
    (1, _probe(["frames", 0, "sigs", 0, "attrs", 0, 1], "x")),
    (1, _probe(["ecus", 0, 2, 0, 1], "on")),
    (1, _probe(["frames", 0, "attrs", 1, 1], "7")),                # attributes called like a member of the frame / the signal
    (1, _probe(["frames", 0, "sigs", 0, "attrs", 1, 1], "on")),
    (2, _probe(["gd", 1, 2], "7")),
    (2, _probe(["gd", 1, 1], "INT 0 101")),
    (3, _probe(["frames", 0, "sigs", 0, "values", 1, 1], "Auto")),
    (3, _probe(["frames", 0, "sigs", 0, "values"], [[0, "Off"], [1, "On"], [2, "Standby"]])),
    (3, _probe(["vt", 0, 1, 0, 1], "c")),
]
_probe_texts = []


def probe_texts():
    if not _probe_texts:
        base = to_file_text(pycopy.deepcopy(PROBE_BASE))
        texts = [base[0]]
        for _, m in PROBES:
            t = to_file_text(m)
            if base is None or t is None or t[1] == base[1]:
                raise core.Infra("C13: a probe file of the command-line check does not hold its difference")
            texts.append(t[0])
        _probe_texts.extend(texts)
    return _probe_texts


def observe_flags(c):
    """what the switches mean, by what the command line reports on the probe files: a category is ignored when no probe of it is reported"""
    cc, ca, iv = c[:3]
    history = c[3] if len(c) > 3 else []
    with cli_session(probe_texts()) as paths:
        pairs = [(paths[0], p) for p in paths[1:]]
        run_history(history, pairs)
        silent = [[], [], [], []]
        for k, ((cat, _), (pa, pb)) in enumerate(zip(PROBES, pairs)):
            out = run_cli(ENTRIES[(k + len(history)) % len(ENTRIES)], cc, ca, iv, False, "long" if k % 2 else "short", pa, pb)
            silent[cat].append(out.strip() == "")
    return [all(s) if all(s) or not any(s) else "some probes of the category reported, others not: %s" % s for s in silent]


def neighbours(case, rng, shard, nshards):
    if case["op"] != "cmp":
        return
    for _ in range(150 // nshards + 1):
        a = case["c"]["a"]
        b, desc = edit(rng, a)
        if b is not None:
            ign = [rng.random() < 0.3 for _ in range(4)]
            c = {"a": a, "b": b, "ign": ign, "edit": desc}
            if rng.random() < 0.5:
                c["igndict"] = gen_igndict(rng, ign)
            yield {"op": "cmp", "c": c}


def build(m):
    db = cm.CanMatrix()
    for name, definition, default in m["gd"]:
        db.add_global_defines(name, definition)
        db.global_defines[name].set_default(default)
    for key, adder, dd in (("ed", db.add_ecu_defines, db.ecu_defines), ("fd", db.add_frame_defines, db.frame_defines),
                           ("sd", db.add_signal_defines, db.signal_defines)):
        for name, definition, default in m[key]:
            adder(name, definition)
            dd[name].set_default(default)
    for k, v in m["attrs"]:
        db.add_attribute(k, v)
    for name, comment, attrs in m["ecus"]:
        e = cm.Ecu(name, comment=comment)
        for k, v in attrs:
            e.add_attribute(k, v)
        db.ecus.append(e)
    for f in m["frames"]:
        fr = cm.Frame(f["name"], arbitration_id=cm.ArbitrationId(f["id"], f["ext"]), size=f["size"], transmitters=list(f["tx"]), comment=f["comment"])
        for k, v in f["attrs"]:
            fr.add_attribute(k, v)
        for s in f["sigs"]:
            mux = None if s["multiplex"] == "None" else ("Multiplexor" if s["multiplex"] == "Multiplexor" else int(s["multiplex"]))
            sg = cm.Signal(s["name"], start_bit=s["start"], size=s["size"], is_little_endian=s["little"], is_signed=s["signed"],
                           factor=D(s["factor"]) / 2, offset=D(s["offset"]) / 2, min=D(s["min"]) / 2, max=D(s["max"]) / 2,
                           unit=s["unit"], comment=s["comment"], receivers=list(s["receivers"]), multiplex=mux)
            for k, v in s["attrs"]:
                sg.add_attribute(k, v)
            for k, v in s["values"]:
                sg.add_values(k, v)
            fr.add_signal(sg)
        for gname, gid, members in f["groups"]:
            fr.add_signal_group(gname, gid, members)
        db.add_frame(fr)
    for name, table in m["vt"]:
        db.add_value_table(name, {k: v for k, v in table})
    return db


def tree(r):
    return [r.result, r.type, [tree(c) for c in r.children]]


def observe(case):
    if case["op"] == "flags":
        return in_child(observe_flags, case["c"])
    if "cli" in case["c"]:
        return in_child(observe_cli, case["c"])
    c = case["c"]
    ignore = {}
    if c["ign"][0]:
        ignore["comment"] = "*"
    if c["ign"][1]:
        ignore["ATTRIBUTE"] = "*"
    if c["ign"][2]:
        ignore["DEFINE"] = "*"
    if c["ign"][3]:
        ignore["VALUETABLES"] = True
    args = (ignore,)
    if "igndict" in c:
        # the same settings in the spelling of the case (the driver is told the settings, the code gets the dict)
        if ignore_meaning(c["igndict"]) != [bool(x) for x in c["ign"]]:
            raise core.Infra("C13: the ignore dict of the case does not say the ignore settings of the case")
        if c["igndict"] is None:
            args = (None,) if len(c["a"]["frames"]) % 2 else ()
        else:
            args = (dict((k, v) for k, v in c["igndict"]),)
    def built(which):
        """the matrix as described; a matrix that lost a frame compared with the other one is built with that frame and loses it
        through the API (del_frame / remove_frame), as an edited matrix does"""
        me, other = c[which], c["b" if which == "a" else "a"]
        mine = {f["name"] for f in me["frames"]}
        extra = [f for f in other["frames"] if f["name"] not in mine]
        if c["edit"] in ("frame.del", "frame.add", "frame.add-twin") and len(extra) == 1 and len(other["frames"]) == len(me["frames"]) + 1:
            db = build(other if c["edit"] != "frame.del" or which == "b" else me)
            if {f.name for f in db.frames} != mine:
                victim = db.frame_by_name(extra[0]["name"])
                if len(extra[0]["name"]) % 2:
                    db.del_frame(victim)
                else:
                    db.remove_frame(victim)
            # everything but the frame list is the described matrix's own
            ref = build(me)
            if [f.name for f in db.frames] == [f.name for f in ref.frames]:
                ref.frames = db.frames
                ref.frames_dict_name = db.frames_dict_name
                ref.frames_dict_id = db.frames_dict_id
                ref._frames_dict_id_extend = dict(getattr(db, "_frames_dict_id_extend", {}))
                return ref
        return build(me)
    # the two matrices are compared in both orders as the same objects: comparing reads its operands, it does not change them
    A, B = built("a"), built("b")
    for ign4, operands in c.get("pre", []):
        other = {k: v for on, (k, v) in zip(ign4, [("comment", "*"), ("ATTRIBUTE", "*"), ("DEFINE", "*"), ("VALUETABLES", True)]) if on}
        canmatrix.compare.compare_db({"a": A, "b": B}[operands[0]], {"a": A, "b": B}[operands[1]], other)
    ab = tree(canmatrix.compare.compare_db(A, B, *args))
    ba = tree(canmatrix.compare.compare_db(B, A, *args))
    again = tree(canmatrix.compare.compare_db(A, B, *args))
    if again != ab:
        return {"ab": again, "ba": ba, "note": "comparing the same two matrices again gives another result"}
    if c.get("direct"):
        # the frame level of the public API called directly (compare_frame), the way a caller does who is interested in some
        # frames only: each frame of a is first compared with itself, then with its partner in b; what compare_frame says about the
        # pair is what compare_db lists for it (frame i of a is child i of the result)
        direct = direct_frames(A, B, args, c["direct"])
        diff = [i for i, t in direct if t != ab[2][i]]
        if diff:
            kids = list(ab[2])
            for i, t in direct:
                kids[i] = t
            root = "changed" if any(k[0] != "equal" for k in kids) else ab[0]
            return {"ab": [root, ab[1], kids], "ba": ba,
                    "note": "compare_frame called directly (after %s) says something else about frame(s) %s than compare_db lists for them; "
                            "its answer is the observation" % (c["direct"], diff)}
    return {"ab": ab, "ba": ba}


def direct_frames(A, B, args, how):
    """[(index of the frame in A, tree of compare_frame(frame, partner in B))] for the frames of A that compare_db pairs with a frame
    of B (by name, else by identifier), each after the earlier direct calls `how` names: "self" = the frame with itself, "other" =
    the partner with itself and the frame with the previous partner, "none" = no other call"""
    out = []
    prev = None
    for i, f1 in enumerate(A.frames):
        f2 = B.frame_by_name(f1.name)
        if f2 is None:
            f2 = B.frame_by_id(f1.arbitration_id)
        if f2 is None:
            continue
        if how == "self":
            canmatrix.compare.compare_frame(f1, f1, *args)
        elif how == "other":
            canmatrix.compare.compare_frame(f2, f2, *args)
            if prev is not None:
                canmatrix.compare.compare_frame(f1, prev, *args)
        r = canmatrix.compare.compare_frame(f1, f2, *args)
        canmatrix.compare.propagate_changes(r)
        out.append((i, tree(r)))
        prev = f2
    return out


def project(impl):
    if isinstance(impl, dict) and "note" in impl:
        return {k: v for k, v in impl.items() if k != "note"}
    return impl


def features(case, impl):
    yield "op=" + case["op"]
    if case["op"] == "cmp":
        yield "edit=" + case["c"]["edit"]
        yield "ign=%s" % "".join("1" if x else "0" for x in case["c"]["ign"])
        yield "reports=" + ("nothing" if impl["ab"][0] != "changed" else "differences")
        if "cli" in case["c"]:
            cli = case["c"]["cli"]
            yield "path=command line (%s), %d earlier invocations" % (cli["entry"], len(cli["history"]))
            yield "cli switches=%s" % "".join("1" if x else "0" for x in cli["flags"])
            if any(h[:3] != cli["flags"] for h in cli["history"]):
                yield "cli: earlier invocation with other switches"
        else:
            yield "path=library, %d earlier comparisons" % len(case["c"].get("pre", []))
            if case["c"].get("direct"):
                yield "compare_frame called directly (earlier direct calls: %s)" % case["c"]["direct"]
            if "igndict" in case["c"]:
                sp = case["c"]["igndict"]
                if sp is None:
                    yield "ignore dict: None / no argument"
                else:
                    yield "ignore dict: spelled out"
                    on = ignore_meaning(sp)
                    for k, v in sp:
                        if k not in IGN_KEYS:
                            yield "ignore dict: key the comparison does not know"
                        elif not on[IGN_KEYS.index(k)]:
                            yield "ignore dict: %s present with a value that leaves it off" % k
                        elif v not in ("*", True) or (k == "VALUETABLES") != (v is True):
                            yield "ignore dict: %s on by another value than the command line's" % k
    elif case["op"] == "flags":
        yield "flags: %d earlier invocations" % (len(case["c"][3]) if len(case["c"]) > 3 else 0)


def nontrivial(case, impl):
    return case["op"] == "cmp" and case["c"]["edit"] != "none"
