import CanVerif.Model.DbcFile
import CanVerif.Proofs.DbcRoundtripD
import CanVerif.Props.C05j
/-!
# C05 — the core round trip with attribute definitions, their defaults, the attributes of the ECUs and of the matrix

`writeCoreD` is `writeCoreE` (Props/C05j) with the `BA_DEF_` lines, the `BA_DEF_DEF_` lines, the `BA_ .. BU_` lines and the `BA_` lines
of the matrix between the comments and the value tables, as `dbc.dump` writes them (tied to the real file on every generated matrix,
op `core`, with the definitions and attributes of the matrix `dump` works on).  For every list of definitions with pairwise different
level and name that `Define` accepts, every list of defaults, every list of ECUs and of matrix attributes whose values are numbers where
their definition says so, and every list of frames inside the envelope of `dbc_roundtrip_core`: reading what was written builds exactly
these definitions (each with the value of the last default line of its name), these ECUs with their comments and attribute
dictionaries, the attribute dictionary of the matrix, and these frames.  The attributes of frames and signals are covered statement by
statement (Props/C05b-e, C05g) and by the file-level fold (Props/C05f).
-/
namespace CanVerif.C05k
open CanVerif CanVerif.Dbc CanVerif.Dbc.FileProofs

theorem dbc_roundtrip_core_with_definitions (es : List WEcu) (hes : wfEcus es = true) (ds : List DefLine) (hds : wfDefs ds = true)
    (dds : List DefDefLine) (hdds : wfDefaults ds dds = true)
    (ga : List (Str × Str)) (hga : wfAttrs (expectDefs ds dds) .global .global ga = true)
    (hea : ∀ e ∈ es, wfAttrs (expectDefs ds dds) .ecu (.ecu e.name) e.attrs = true)
    (ps : List (WFrame × (Nat × Bool))) (hwf : ∀ p ∈ ps, p.1.wf p.2 = true) (hdist : ps.Pairwise fun p q => p.2 ≠ q.2) :
    (readFile (writeCoreD es ds dds ga (ps.map (·.1)))).ecus = es.map WEcu.expectA ∧
    (readFile (writeCoreD es ds dds ga (ps.map (·.1)))).defs = expectDefs ds dds ∧
    (readFile (writeCoreD es ds dds ga (ps.map (·.1)))).attrs = attrsOf ga ∧
    (readFile (writeCoreD es ds dds ga (ps.map (·.1)))).frames = ps.map (fun p => p.1.expect p.2) ∧
    (readFile (writeCoreD es ds dds ga (ps.map (·.1)))).pending = none :=
  roundtrip_coreD es hes ds hds dds hdds ga hga hea ps hwf hdist

/-- `BA_DEF_` lines with pairwise different level and name become the definitions, in their order -/
theorem definitions_in_order (ds : List DefLine) (m : RMatrix) (hm : m.defs = [])
    (hnd : (ds.map fun d => (d.level, d.name)).Nodup) (hok : ∀ d ∈ ds, defineOk d.definition = true) :
    ((ds.map Item.adef).foldl applyItem m).defs = ds.map toRDef := by
  have := adef_fold ds [] m (by simp [hm]) (by simpa using hnd) hok
  rw [this]; simp

/-- `BA_DEF_DEF_` lines whose values are numbers where a definition of their name says so: every definition of that name takes the value
(environment variables aside); the last line wins -/
theorem defaults_last_wins (dds : List DefDefLine) (m : RMatrix) (hok : ∀ dd ∈ dds, defaultOk m dd = true) :
    ((dds.map fun d => Item.defdef d.name d.value).foldl applyItem m).defs =
      m.defs.map fun d =>
        { d with default := dds.foldl (fun acc dd => if d.name == dd.name && d.level != .env then some dd.value else acc) d.default } := by
  rw [defdef_fold dds m hok]

/-- C20 for this statement: a default that some level refuses changes nothing but the count of printed errors -/
theorem refused_default_only_counted (m : RMatrix) (name value : Str)
    (h : ([Level.signal, Level.frame, Level.ecu, Level.global].all fun l => numericOk m l name value) = false) :
    applyItem m (.defdef name value) = m.err := by
  have e1 : applyItem m (.defdef name value) = applyCore m (.defdef name value) := rfl
  rw [e1]
  simp only [applyCore, h, Bool.false_eq_true, if_false]

/-! ## non-vacuity -/

def exDefs : List DefLine := [⟨.frame, "GenMsgCycleTime".toList, "INT 0 65535".toList⟩, ⟨.ecu, "NodeKind".toList, "STRING".toList⟩,
  ⟨.global, "BusSpeed".toList, "FLOAT 0 1000".toList⟩, ⟨.signal, "NodeKind".toList, "ENUM \"a\",\"b\"".toList⟩]
def exDefaults : List DefDefLine := [⟨"GenMsgCycleTime".toList, false, "0".toList⟩, ⟨"NodeKind".toList, true, "plain".toList⟩]
def exEcusA : List WEcu := [{ name := "ECU_A".toList, comment := some "engine\ncontrol unit".toList, attrs := [("NodeKind".toList, "\"main unit\"".toList)] },
  { name := "ECU_B".toList }, { name := "Gateway".toList, comment := some "gw".toList }]
def exGlobal : List (Str × Str) := [("BusSpeed".toList, "500.5".toList)]

example : wfEcus exEcusA = true ∧ wfDefs exDefs = true ∧ wfDefaults exDefs exDefaults = true := by decide +kernel
example : wfAttrs (expectDefs exDefs exDefaults) .global .global exGlobal = true := by decide +kernel
example : exEcusA.all (fun e => wfAttrs (expectDefs exDefs exDefaults) .ecu (.ecu e.name) e.attrs) = true := by decide +kernel
example : (readFile (writeCoreD exEcusA exDefs exDefaults exGlobal (CanVerif.C05h.exFrames.map (·.1)))).defs =
    [⟨.frame, "GenMsgCycleTime".toList, "INT 0 65535".toList, some "0".toList⟩, ⟨.ecu, "NodeKind".toList, "STRING".toList, some "plain".toList⟩,
     ⟨.global, "BusSpeed".toList, "FLOAT 0 1000".toList, none⟩, ⟨.signal, "NodeKind".toList, "ENUM \"a\",\"b\"".toList, some "plain".toList⟩] := by
  decide +kernel
example : (readFile (writeCoreD exEcusA exDefs exDefaults exGlobal (CanVerif.C05h.exFrames.map (·.1)))).ecus = exEcusA.map WEcu.expectA := by
  decide +kernel
example : (readFile (writeCoreD exEcusA exDefs exDefaults exGlobal (CanVerif.C05h.exFrames.map (·.1)))).attrs =
    [("BusSpeed".toList, "500.5".toList)] := by decide +kernel
/-- a number is demanded where the definition says so: the same file with a text for `BusSpeed` is refused at that line -/
example : (readFile (writeCoreD exEcusA exDefs exDefaults [("BusSpeed".toList, "\"fast\"".toList)] (CanVerif.C05h.exFrames.map (·.1)))).errors = 1 := by
  decide +kernel

/-- a default that is no number for a numeric definition is refused at that line and leaves the earlier default (C20: the line is skipped) -/
example : (readFile ["BA_DEF_ BO_ \"Cyc\" INT 0 100;".toList, "BA_DEF_DEF_ \"Cyc\" 5;".toList, "BA_DEF_DEF_ \"Cyc\" abc;".toList]).errors = 1 ∧
    (readFile ["BA_DEF_ BO_ \"Cyc\" INT 0 100;".toList, "BA_DEF_DEF_ \"Cyc\" 5;".toList, "BA_DEF_DEF_ \"Cyc\" abc;".toList]).defs.map (·.default) =
      [some "5".toList] := by decide +kernel

end CanVerif.C05k
