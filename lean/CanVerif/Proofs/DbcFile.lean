import CanVerif.Model.DbcFile
import CanVerif.Proofs.DbcStmt
import CanVerif.Proofs.DbcAttr
import CanVerif.Proofs.DbcTables
import CanVerif.Proofs.DbcComment
import CanVerif.Proofs.DbcVal
import CanVerif.Proofs.DbcText
/-!
# The DBC reader as a whole (Model/DbcFile.lean): every statement the writer emits is taken by the dispatcher for what it is and
handed to its own parser (`scan_*`), and the file is read as the fold of the statements' effects.
-/
namespace CanVerif.Dbc.FileProofs
open CanVerif CanVerif.Dbc

/-- ends in a semicolon -/
def EndsSemi (s : Str) : Prop := s.getLast? = some ';'
theorem EndsSemi.one : EndsSemi [';'] := rfl
theorem EndsSemi.append (a : Str) {b : Str} (h : EndsSemi b) : EndsSemi (a ++ b) := by
  unfold EndsSemi at *; rw [List.getLast?_append, h]; rfl
theorem EndsSemi.cons (c : Char) {b : Str} (h : EndsSemi b) : EndsSemi (c :: b) := EndsSemi.append [c] h

macro "ends_semi" : tactic =>
  `(tactic| repeat (first | exact EndsSemi.one | apply EndsSemi.cons | apply EndsSemi.append))

/-- a line that starts with a letter and ends with a semicolon is its own stripped form -/
theorem stripWs_semi (s : Str) (a : Char) (h1 : s.head? = some a) (ha : isWs a = false) (h2 : EndsSemi s) :
    stripWs s = s := stripWs_id s a ';' h1 h2 ha (by decide)

theorem ofList_eq_iff (l : List Char) (s : String) : String.ofList l = s ↔ l = s.toList :=
  ⟨fun h => by rw [← h, String.toList_ofList], fun h => by rw [h, String.ofList_toList]⟩

/-- the keyword test of the `BA_DEF_` dispatcher on character lists -/
theorem kw_contains (l : List Char) :
    ["SG_", "BO_", "BU_", "EV_"].contains (String.ofList l) =
      (l == ['S','G','_'] || (l == ['B','O','_'] || (l == ['B','U','_'] || l == ['E','V','_']))) := by
  have e1 : "SG_".toList = ['S','G','_'] := by decide
  have e2 : "BO_".toList = ['B','O','_'] := by decide
  have e3 : "BU_".toList = ['B','U','_'] := by decide
  have e4 : "EV_".toList = ['E','V','_'] := by decide
  simp only [List.contains_cons, List.contains_nil, Bool.or_false]
  have h : ∀ (s : String) (t : List Char), s.toList = t → (String.ofList l == s) = (l == t) := by
    intro s t ht
    by_cases hh : String.ofList l = s
    · have h1 := (ofList_eq_iff l s).1 hh
      have h2 : l = t := by rw [h1, ht]
      rw [beq_iff_eq.2 hh, beq_iff_eq.2 h2]
    · have h2 : ¬ l = t := fun e => hh ((ofList_eq_iff l s).2 (by rw [e, ht]))
      rw [beq_eq_false_iff_ne.2 hh, beq_eq_false_iff_ne.2 h2]
  rw [h _ _ e1, h _ _ e2, h _ _ e3, h _ _ e4]

/-! ## one lemma per statement kind: `scanLine (render x) = item x` -/

theorem scan_tx (t : TxLine) (h : wfTx t = true) : scanLine (renderTx t) = .item (.tx t) := by
  have hp := StmtProofs.parseTx_renderTx t h
  have hs : stripWs (renderTx t) = renderTx t := by
    apply stripWs_semi _ 'B' (by rw [StmtProofs.renderTx_eq]; rfl) (by decide)
    rw [StmtProofs.renderTx_eq]; ends_semi
  have hc : classify (renderTx t) = .boTxBu := by
    unfold classify; rw [hs, StmtProofs.renderTx_eq]; simp [startsWith]
  unfold scanLine
  simp only [hs, hc, hp]
  rw [StmtProofs.renderTx_eq]; simp

theorem scan_valtype (v : ValTypeLine) (h : wfValType v = true) :
    scanLine (renderValType v) = .item (.valtype v.id v.name) := by
  have hp := StmtProofs.parseValType_renderValType v h
  have hs : stripWs (renderValType v) = renderValType v := by
    apply stripWs_semi _ 'S' (by rw [StmtProofs.renderValType_eq]; rfl) (by decide)
    rw [StmtProofs.renderValType_eq]; ends_semi
  have hc : classify (renderValType v) = .sigValtype := by
    unfold classify; rw [hs, StmtProofs.renderValType_eq]; simp [startsWith, cmClass]
  unfold scanLine
  simp only [hs, hc, hp]
  rw [StmtProofs.renderValType_eq]; simp

theorem scan_mul (m : MulLine) (h : wfMul m = true) (hne : m.ranges ≠ []) : scanLine (renderMul m) = .item (.mul m) := by
  have hp := StmtProofs.parseMul_renderMul m h hne
  have hs : stripWs (renderMul m) = renderMul m := by
    apply stripWs_semi _ 'S' (by rw [StmtProofs.renderMul_eq]; rfl) (by decide)
    rw [StmtProofs.renderMul_eq]; ends_semi
  have hc : classify (renderMul m) = .sgMulVal := by
    unfold classify; rw [hs, StmtProofs.renderMul_eq]; simp [startsWith, cmClass]
  unfold scanLine
  simp only [hs, hc, hp]
  rw [StmtProofs.renderMul_eq]; simp

theorem scan_defdef (d : DefDefLine) (h : wfDefDef d = true) :
    scanLine (renderDefDef d) = .item (.defdef d.name d.value) := by
  have hp := AttrProofs.parseDefDef_renderDefDef d h
  have hs : stripWs (renderDefDef d) = renderDefDef d := by
    apply stripWs_semi _ 'B' (by rw [AttrProofs.renderDefDef_eq]; rfl) (by decide)
    rw [AttrProofs.renderDefDef_eq]; ends_semi
  have hc : classify (renderDefDef d) = .baDefDef := by
    have hd : ∀ r : Str, EndsSemi r → stripWs ('D' :: 'E' :: 'F' :: '_' :: ' ' :: r) = 'D' :: 'E' :: 'F' :: '_' :: ' ' :: r :=
      fun r hr => stripWs_semi _ 'D' rfl (by decide) (by ends_semi; exact hr)
    unfold classify; rw [hs, AttrProofs.renderDefDef_eq]
    simp only [startsWith, cmClass, List.drop_succ_cons, List.drop_zero, kw_contains]
    rw [hd _ (by ends_semi)]
    simp
  unfold scanLine
  simp only [hs, hc, hp]
  rw [AttrProofs.renderDefDef_eq]; simp

theorem scan_vt (v : VtLine) (h : wfVt v = true) : scanLine (renderVt v) = .item (.vt v) := by
  have hp := TableProofs.parseVt_renderVt v h
  obtain ⟨name, es⟩ := v
  have hs : stripWs (renderVt ⟨name, es⟩) = renderVt ⟨name, es⟩ := by
    apply stripWs_semi _ 'V' (by rw [TableProofs.renderVt_eq]; rfl) (by decide)
    rw [TableProofs.renderVt_eq]; ends_semi
  have hc : classify (renderVt ⟨name, es⟩) = .valTable := by
    unfold classify; rw [hs, TableProofs.renderVt_eq]; simp [startsWith, cmClass]
  unfold scanLine
  simp only [hs, hc, hp]
  rw [TableProofs.renderVt_eq]; simp

theorem scan_grp (g : GroupLine) (h : wfGroup g = true) : scanLine (renderGroup g) = .item (.grp g) := by
  have hp := TableProofs.parseGroup_renderGroup g h
  have hs : stripWs (renderGroup g) = renderGroup g := by
    apply stripWs_semi _ 'S' (by rw [TableProofs.renderGroup_eq]; rfl) (by decide)
    rw [TableProofs.renderGroup_eq]; ends_semi
  have hc : classify (renderGroup g) = .sigGroup := by
    unfold classify; rw [hs, TableProofs.renderGroup_eq]; simp [startsWith, cmClass]
  unfold scanLine
  simp only [hs, hc, hp]
  rw [TableProofs.renderGroup_eq]; simp

def kwTest (l : Str) : Bool := l == ['S','G','_'] || (l == ['B','O','_'] || (l == ['B','U','_'] || l == ['E','V','_']))

theorem classify_badef (l r : Str) (h : stripWs l = 'B' :: 'A' :: '_' :: 'D' :: 'E' :: 'F' :: '_' :: r) :
    classify l = if kwTest ((stripWs r).take 3) then .baDefTyped
      else if r.head? = some ' ' then .baDef
      else if r.take 5 = ['D', 'E', 'F', '_', ' '] then .baDefDef else .unknown := by
  unfold classify
  rw [h]
  simp only [startsWith, cmClass, List.drop_succ_cons, List.drop_zero, kw_contains, kwTest]
  cases r with
  | nil => simp
  | cons c t =>
    by_cases hk : kwTest ((stripWs (c :: t)).take 3) = true
    · unfold kwTest at hk; simp [hk]
    · unfold kwTest at hk
      simp only [hk]
      by_cases hc : c = ' '
      · subst hc; simp
      · simp [hc]

theorem stripWs_sp_semi (a : Char) (r : Str) (ha : isWs a = false) (hr : EndsSemi r) : stripWs (' ' :: a :: r) = a :: r := by
  rw [stripWs_drop_ws ' ' _ (by decide)]
  exact stripWs_semi _ a rfl ha (EndsSemi.cons a hr)

theorem scan_def (d : DefLine) (h : wfDef d = true) : scanLine (renderDef d) = .item (.adef d) := by
  have hp := AttrProofs.parseDef_renderDef d h
  have hs : stripWs (renderDef d) = renderDef d := by
    apply stripWs_semi _ 'B' (by rw [AttrProofs.renderDef_eq]; rfl) (by decide)
    rw [AttrProofs.renderDef_eq]; ends_semi
  have hc : classify (renderDef d) = .baDefTyped ∨ classify (renderDef d) = .baDef := by
    obtain ⟨lvl, name, dfn⟩ := d
    have hn : name ≠ [] := by
      intro e; subst e; simp [wfDef, wfAttrName] at h
    rw [classify_badef _ _ (by rw [hs, AttrProofs.renderDef_eq])]
    cases lvl
    case global =>
      right
      have e : stripWs (' ' :: (Level.global.keyword ++ ' ' :: '"' :: (name ++ '"' :: ' ' :: (dfn ++ [';'])))) = '"' :: (name ++ '"' :: ' ' :: (dfn ++ [';'])) := by
        show stripWs (' ' :: ' ' :: '"' :: _) = _
        rw [stripWs_drop_ws ' ' _ (by decide)]
        exact stripWs_sp_semi '"' _ (by decide) (by ends_semi)
      simp only [e]
      cases name with
      | nil => exact absurd rfl hn
      | cons c t => simp [kwTest]
    case ecu =>
      left
      have e : stripWs (' ' :: (Level.ecu.keyword ++ ' ' :: '"' :: (name ++ '"' :: ' ' :: (dfn ++ [';'])))) = 'B' :: 'U' :: '_' :: ' ' :: '"' :: (name ++ '"' :: ' ' :: (dfn ++ [';'])) := by
        show stripWs (' ' :: 'B' :: _) = _
        exact stripWs_sp_semi 'B' _ (by decide) (by ends_semi)
      simp [e, kwTest]
    case frame =>
      left
      have e : stripWs (' ' :: (Level.frame.keyword ++ ' ' :: '"' :: (name ++ '"' :: ' ' :: (dfn ++ [';'])))) = 'B' :: 'O' :: '_' :: ' ' :: '"' :: (name ++ '"' :: ' ' :: (dfn ++ [';'])) := by
        show stripWs (' ' :: 'B' :: _) = _
        exact stripWs_sp_semi 'B' _ (by decide) (by ends_semi)
      simp [e, kwTest]
    case signal =>
      left
      have e : stripWs (' ' :: (Level.signal.keyword ++ ' ' :: '"' :: (name ++ '"' :: ' ' :: (dfn ++ [';'])))) = 'S' :: 'G' :: '_' :: ' ' :: '"' :: (name ++ '"' :: ' ' :: (dfn ++ [';'])) := by
        show stripWs (' ' :: 'S' :: _) = _
        exact stripWs_sp_semi 'S' _ (by decide) (by ends_semi)
      simp [e, kwTest]
    case env =>
      left
      have e : stripWs (' ' :: (Level.env.keyword ++ ' ' :: '"' :: (name ++ '"' :: ' ' :: (dfn ++ [';'])))) = 'E' :: 'V' :: '_' :: ' ' :: '"' :: (name ++ '"' :: ' ' :: (dfn ++ [';'])) := by
        show stripWs (' ' :: 'E' :: _) = _
        exact stripWs_sp_semi 'E' _ (by decide) (by ends_semi)
      simp [e, kwTest]
  have hne : (renderDef d).isEmpty = false := by rw [AttrProofs.renderDef_eq]; rfl
  unfold scanLine
  rcases hc with hc | hc <;> simp only [hs, hc, hp, hne] <;> simp

theorem scan_ba (b : BaLine) (h : wfBa b = true) : scanLine (renderBa b) = .item (.ba b) := by
  have hp := AttrProofs.parseBa_renderBa b h
  obtain ⟨attr, tgt, v⟩ := b
  have key : ∀ r : Str, EndsSemi r → scanLine ('B' :: 'A' :: '_' :: ' ' :: '"' :: r) =
      match parseBa ('B' :: 'A' :: '_' :: ' ' :: '"' :: r) with
      | some b => .item (.ba b)
      | none => if baMismatch ('B' :: 'A' :: '_' :: ' ' :: '"' :: r) == .errorPrinted then .error else .skip := by
    intro r hr
    have hs : stripWs ('B' :: 'A' :: '_' :: ' ' :: '"' :: r) = 'B' :: 'A' :: '_' :: ' ' :: '"' :: r :=
      stripWs_semi _ 'B' rfl (by decide) (by ends_semi; exact hr)
    have hc : classify ('B' :: 'A' :: '_' :: ' ' :: '"' :: r) = .ba := by
      unfold classify; rw [hs]; simp [startsWith, cmClass]
    unfold scanLine
    simp only [hs, hc]
    simp only [List.isEmpty_cons, Bool.false_eq_true, if_false]
    rfl
  cases tgt with
  | global => rw [AttrProofs.renderBa_global] at hp ⊢; rw [key _ (by ends_semi), hp]
  | ecu n => rw [AttrProofs.renderBa_ecu] at hp ⊢; rw [key _ (by ends_semi), hp]
  | frame id => rw [AttrProofs.renderBa_frame] at hp ⊢; rw [key _ (by ends_semi), hp]
  | signal id n => rw [AttrProofs.renderBa_signal] at hp ⊢; rw [key _ (by ends_semi), hp]

theorem scan_bo (b : BoLine) (h : wfBo b = true) : scanLine (renderBo b) = .item (.bo b) := by
  have hp := parseBo_renderBo b h
  have hc := classify_renderBo b h
  have hs := stripWs_renderBo b h
  have hne : (renderBo b).isEmpty = false := by rw [renderBo_eq]; rfl
  rw [hs] at hp
  unfold scanLine
  simp only [hc, hs, hne, hp]
  simp

theorem scan_sg (s : SgLine) (h : wfSg s = true) : scanLine (renderSg s) = .item (.sg (rereadSg s)) := by
  have hp := parseSg_renderSg s h
  have hc := classify_renderSg s h
  obtain ⟨_, _, h3, h4⟩ := wfSg_unpack h
  have hne : (stripWs (renderSg s)).isEmpty = false := by rw [stripWs_renderSg s h3 h4]; rfl
  unfold scanLine
  simp only [hc, hp, hne]
  simp

theorem lit_val : "VAL_ ".toList = ['V', 'A', 'L', '_', ' '] := by decide

theorem scan_val (v : ValLine) (h : wfVal v = true) (hne : v.entries ≠ []) : scanLine (renderVal v) = .item (.val v) := by
  have hp := ValProofs.val_line_roundtrip_of_ne v h hne
  obtain ⟨r, hr, he⟩ : ∃ r, renderVal v = 'V' :: 'A' :: 'L' :: '_' :: ' ' :: r ∧ EndsSemi r := by
    refine ⟨natDigits v.id ++ ' ' :: v.name ++ (v.entries.flatMap fun (k, t) => ' ' :: intDigits k ++ " \"".toList ++ escapeQuotes t ++ ['"']) ++ [';'], ?_, by ends_semi⟩
    unfold renderVal
    rw [lit_val]
    simp only [List.append_assoc, List.cons_append, List.nil_append]
  have hs : stripWs (renderVal v) = renderVal v := by
    rw [hr]; exact stripWs_semi _ 'V' rfl (by decide) (by ends_semi; exact he)
  have hc : classify (renderVal v) = .val := by
    unfold classify; rw [hs, hr]; simp [startsWith, cmClass]
  rw [hs] at hp
  unfold scanLine
  simp only [hs, hc, hp]
  rw [hr]; simp

/-! ## the file as a fold of effects -/

theorem addDefine_pending (m : RMatrix) (d : DefLine) : (addDefine m d).pending = m.pending := by
  unfold addDefine
  repeat' split
  all_goals rfl

theorem applyCore_pending (m : RMatrix) (it : Item) (h : m.pending = none) (hi : ∀ hd first, it ≠ .cmOpen hd first) :
    (applyCore m it).pending = none := by
  cases it with
  | cmOpen hd first => exact absurd rfl (hi hd first)
  | cm hd text => cases hd <;> (simp only [applyCore]; repeat' split) <;> exact h
  | adef d => simp only [applyCore]; rw [addDefine_pending]; exact h
  | _ =>
    simp only [applyCore]
    repeat' split
    all_goals exact h

theorem applyItem_pending (m : RMatrix) (it : Item) (h : m.pending = none) (hi : ∀ hd first, it ≠ .cmOpen hd first) :
    (applyItem m it).pending = none := by
  unfold applyItem
  repeat' split
  all_goals first | exact h | exact applyCore_pending m it h hi

theorem item_not_open (s : Stmt) (it : Item) (h : s.item = some it) : ∀ hd first, it ≠ .cmOpen hd first := by
  intro hd first e
  subst e
  cases s <;> simp [Stmt.item] at h

/-- the scan of a written statement -/
theorem scan_stmt (s : Stmt) (h : s.wf = true) :
    scanLine s.line = match s.item with
      | some it => .item it
      | none => .skip := by
  cases s with
  | bo b => exact scan_bo b h
  | sg s => exact scan_sg s h
  | gap => simp [Stmt.line, Stmt.item, scanLine, stripWs]
  | tx t => exact scan_tx t h
  | val v =>
    simp only [Stmt.wf, Bool.and_eq_true, Bool.not_eq_true', List.isEmpty_eq_false_iff] at h
    exact scan_val v h.1 h.2
  | vt v => exact scan_vt v h
  | adef d => exact scan_def d h
  | defdef d => exact scan_defdef d h
  | ba b => exact scan_ba b h
  | grp g => exact scan_grp g h
  | valtype v => exact scan_valtype v h
  | mul m =>
    simp only [Stmt.wf, Bool.and_eq_true, Bool.not_eq_true', List.isEmpty_eq_false_iff] at h
    exact scan_mul m h.1 h.2

theorem step_stmt (m : RMatrix) (s : Stmt) (hm : m.pending = none) (h : s.wf = true) :
    stepFile m s.line = applyStmt m s := by
  unfold stepFile applyStmt
  rw [hm, scan_stmt s h]
  cases s.item <;> rfl

theorem applyStmt_pending (m : RMatrix) (s : Stmt) (hm : m.pending = none) : (applyStmt m s).pending = none := by
  unfold applyStmt
  cases hi : s.item with
  | none => exact hm
  | some it => exact applyItem_pending m it hm (item_not_open s it hi)

/-- the file is read as the fold of the statements' effects -/
theorem read_statements (ss : List Stmt) (h : ∀ s ∈ ss, s.wf = true) (m : RMatrix) (hm : m.pending = none) :
    (writeStmts ss).foldl stepFile m = ss.foldl applyStmt m := by
  induction ss generalizing m with
  | nil => rfl
  | cons s ss ih =>
    simp only [writeStmts, List.map_cons, List.foldl_cons]
    rw [step_stmt m s hm (h s (by simp))]
    exact ih (fun x hx => h x (List.mem_cons_of_mem _ hx)) _ (applyStmt_pending m s hm)

theorem step_skip (m : RMatrix) (b : Str) (hm : m.pending = none) (hb : scanLine b = .skip) : stepFile m b = m := by
  unfold stepFile; rw [hm, hb]

theorem step_error (m : RMatrix) (b : Str) (hm : m.pending = none) (hb : scanLine b = .error) : stepFile m b = m.err := by
  unfold stepFile; rw [hm, hb]

theorem writeStmts_cons_inv {l : Str} {ls : List Str} {ss : List Stmt} (h : l :: ls = writeStmts ss) :
    ∃ s ss', ss = s :: ss' ∧ l = s.line ∧ ls = writeStmts ss' := by
  cases ss with
  | nil => simp [writeStmts] at h
  | cons s ss' =>
    simp only [writeStmts, List.map_cons, List.cons.injEq] at h
    exact ⟨s, ss', rfl, h.1, h.2⟩

/-- lines that the reader skips (unknown keyword, empty, a pattern that fails behind a guard), scattered anywhere between the
statements, do not change what is read -/
theorem read_with_skipped (isBad : Str → Bool) (hbad : ∀ b, isBad b = true → scanLine b = .skip)
    (ls : List Str) (ss : List Stmt) (hl : ls.filter (fun l => !isBad l) = writeStmts ss) (h : ∀ s ∈ ss, s.wf = true)
    (m : RMatrix) (hm : m.pending = none) :
    ls.foldl stepFile m = ss.foldl applyStmt m := by
  induction ls generalizing ss m with
  | nil =>
    cases ss with
    | nil => rfl
    | cons s ss' => simp [writeStmts] at hl
  | cons l ls ih =>
    by_cases hb : isBad l = true
    · simp only [List.filter_cons, hb, Bool.not_true, Bool.false_eq_true, if_false] at hl
      rw [List.foldl_cons, step_skip m l hm (hbad l hb)]
      exact ih ss hl h m hm
    · have hb' : isBad l = false := by simpa using hb
      simp only [List.filter_cons, hb', Bool.not_false, if_true] at hl
      obtain ⟨s, ss', rfl, rfl, hrest⟩ := writeStmts_cons_inv hl
      rw [List.foldl_cons, List.foldl_cons, step_stmt m s hm (h s (by simp))]
      exact ih ss' hrest (fun x hx => h x (List.mem_cons_of_mem _ hx)) _ (applyStmt_pending m s hm)

/-- cutting the file between two statements: what has been read from the prefix is what the complete file passes through -/
theorem read_prefix (pre post : List Stmt) :
    readFile (writeStmts (pre ++ post)) = (writeStmts post).foldl stepFile (readFile (writeStmts pre)) := by
  unfold readFile writeStmts
  rw [List.map_append, List.foldl_append]

end CanVerif.Dbc.FileProofs
