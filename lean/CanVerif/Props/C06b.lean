import CanVerif.Props.C05
import CanVerif.Props.C05o
/-!
# C06 / C07 for DBC at the level of the whole file (corollaries of Props/C05o)

Writing a matrix to DBC and reading the file back (the line loop of `dbc.load` on the text `dbc.dump` writes, line for line) yields
* C06: the same frames, identified by identifier and format, in the same order, each with the same length, and within each frame the
  same signals by name, each with the same start bit, width and byte order;
* C07: for every signal the same sign flag, float flag, factor, offset and limits as numbers, unit, receivers, multiplexer role and
  selector value, value table, and for every frame all its senders in their order.
The matrix `dbc.load` returns is this state after the post-processing (long names, placeholder ECU, start values: Props/C05i and the
round-trip observation).
-/
namespace CanVerif.C06b
open CanVerif CanVerif.Dbc CanVerif.Dbc.FileProofs

/-- what C06 compares of a signal -/
def layout (s : SgLine) : Str × Nat × Nat × Bool := (s.name, s.start, s.size, s.little)

theorem layout_reread (s : SgLine) : layout (rereadSg s) = layout s := rfl

theorem dbc_file_keeps_frames_and_layout (es : List WEcu) (hes : wfEcus es = true) (ts : List WTable) (hts : wfTables ts = true)
    (ds : List DefLine) (hds : wfDefs ds = true) (dds : List DefDefLine) (hdds : wfDefaults ds dds = true)
    (ga : List (Str × Str)) (hga : wfAttrs (expectDefs ds dds) .global .global ga = true)
    (hea : ∀ e ∈ es, wfAttrs (expectDefs ds dds) .ecu (.ecu e.name) e.attrs = true)
    (ps : List (WFrame × (Nat × Bool))) (hwf : ∀ p ∈ ps, p.1.wf p.2 = true) (hdist : ps.Pairwise fun p q => p.2 ≠ q.2)
    (hfa : ∀ p ∈ ps, p.1.wfA (expectDefs ds dds) = true) :
    (readFile (writeDbc es ts ds dds ga (ps.map (·.1)))).frames.map (fun f => (f.key, f.size, f.sigs.map fun s => layout s.sg)) =
      ps.map (fun p => (p.2, p.1.bo.size, p.1.sigs.map fun s => layout s.sg)) := by
  rw [(C05o.dbc_file_roundtrip_line_for_line es hes ts hts ds hds dds hdds ga hga hea ps hwf hdist hfa).2.2.2.1, List.map_map]
  apply List.map_congr_left
  intro p _
  simp only [Function.comp_apply, WFrame.expectA, WFrame.expect, List.map_map]
  rfl

/-- what C07 compares of a signal: sign, float type, scaling and limits (as numbers), unit, receivers, multiplexer role -/
def sameMeaning (r : RSig) (s : WSig) : Prop :=
  r.sg.signed = s.sg.signed ∧ r.isFloat = s.isFloat ∧ SpecRT.decEq r.sg.factor s.sg.factor = true ∧ SpecRT.decEq r.sg.offset s.sg.offset = true ∧
  SpecRT.decEq r.sg.min s.sg.min = true ∧ SpecRT.decEq r.sg.max s.sg.max = true ∧ r.sg.unit = s.sg.unit ∧ r.sg.receivers = s.sg.receivers ∧
  r.sg.tag = s.sg.tag ∧ r.values = s.values ∧ r.muxer = s.muxer ∧ r.ranges = s.ranges

theorem dbc_file_keeps_interpretation (es : List WEcu) (hes : wfEcus es = true) (ts : List WTable) (hts : wfTables ts = true)
    (ds : List DefLine) (hds : wfDefs ds = true) (dds : List DefDefLine) (hdds : wfDefaults ds dds = true)
    (ga : List (Str × Str)) (hga : wfAttrs (expectDefs ds dds) .global .global ga = true)
    (hea : ∀ e ∈ es, wfAttrs (expectDefs ds dds) .ecu (.ecu e.name) e.attrs = true)
    (ps : List (WFrame × (Nat × Bool))) (hwf : ∀ p ∈ ps, p.1.wf p.2 = true) (hdist : ps.Pairwise fun p q => p.2 ≠ q.2)
    (hfa : ∀ p ∈ ps, p.1.wfA (expectDefs ds dds) = true) (i : Nat) (p : WFrame × (Nat × Bool)) (hp : ps[i]? = some p) :
    ∃ f : RFrame, (readFile (writeDbc es ts ds dds ga (ps.map (·.1)))).frames[i]? = some f ∧ f.key = p.2 ∧ f.size = p.1.bo.size ∧
      f.transmitters = p.1.senders ∧ f.sigs.length = p.1.sigs.length ∧
      ∀ (j : Nat) (s : WSig), p.1.sigs[j]? = some s → ∃ r : RSig, f.sigs[j]? = some r ∧ r.sg.name = s.sg.name ∧ sameMeaning r s := by
  refine ⟨p.1.expectA p.2, ?_, rfl, rfl, rfl, by simp [WFrame.expectA], ?_⟩
  · rw [(C05o.dbc_file_roundtrip_line_for_line es hes ts hts ds hds dds hdds ga hga hea ps hwf hdist hfa).2.2.2.1]
    simp [hp]
  · intro j s hs
    refine ⟨_, by simp [WFrame.expectA, hs]; rfl, rfl, ?_⟩
    exact ⟨rfl, rfl, CanVerif.C05.reread_value _, CanVerif.C05.reread_value _, CanVerif.C05.reread_value _, CanVerif.C05.reread_value _, rfl, rfl, rfl, rfl, rfl, rfl⟩

end CanVerif.C06b
