import CanVerif.Model.Glob
/-!
# Model of the bulk clean-up / delete / rename operations of `CanMatrix` (C17)

canmatrix.py (after fixes 4bf94a1, ba95206): `delete_zero_signals` (~2134), `delete_obsolete_defines` (~1948),
`del_signal` (~2290), `rename_signal` (~2267), `del_frame` (~2259), `rename_frame` (~2240),
`del_signal_attributes` (~2141), `del_frame_attributes` (~2151), `glob_signals`, `glob_frames`.
Names are `List Char` (Python string slicing = `take`/`drop`); dictionaries are association lists.
-/
namespace CanVerif

abbrev Name := List Char

structure BSig where
  name : Name
  size : Nat
  attrs : List (Name × Name) := []
  deriving Repr, DecidableEq, Inhabited

structure BFrame where
  name : Name
  attrs : List (Name × Name) := []
  sigs : List BSig := []
  deriving Repr, DecidableEq, Inhabited

structure BEcu where
  name : Name
  attrs : List (Name × Name) := []
  deriving Repr, DecidableEq, Inhabited

structure BMat where
  frames : List BFrame
  ecus : List BEcu := []
  frameDefs : List Name := []
  ecuDefs : List Name := []
  sigDefs : List Name := []
  deriving Repr, DecidableEq, Inhabited

def hasKey (d : List (Name × Name)) (k : Name) : Bool := d.any (·.1 == k)
def delKey (d : List (Name × Name)) (k : Name) : List (Name × Name) := d.filter (·.1 != k)

def globName (pattern name : Name) : Bool := globMatch (String.ofList pattern) (String.ofList name)

/-- `delete_zero_signals`: iterates over a copy and removes each zero-width signal object -/
def BMat.deleteZeroSignals (m : BMat) : BMat :=
  { m with frames := m.frames.map fun f =>
      -- `for signal in list(frame.signals): if 0 == signal.size: frame.signals.remove(signal)`
      { f with sigs := f.sigs.foldl (fun acc s => if s.size == 0 then acc.erase s else acc) f.sigs } }

/-- `delete_obsolete_defines` -/
def BMat.deleteObsoleteDefines (m : BMat) : BMat :=
  { m with
    frameDefs := m.frameDefs.filter fun d => m.frames.any fun f => hasKey f.attrs d,
    ecuDefs := m.ecuDefs.filter fun d => m.ecus.any fun e => hasKey e.attrs d,
    sigDefs := m.sigDefs.filter fun d => m.frames.any fun f => f.sigs.any fun s => hasKey s.attrs d }

/-- `del_signal(glob)`: per frame the matching signals are collected first, then removed -/
def BMat.delSignal (m : BMat) (pattern : Name) : BMat :=
  { m with frames := m.frames.map fun f =>
      -- `signal_list = frame.glob_signals(signal); for sig in signal_list: frame.signals.remove(sig)`
      { f with sigs := (f.sigs.filter fun s => globName pattern s.name).foldl (fun acc s => acc.erase s) f.sigs } }

/-- rename by pattern for one name: `old*` (prefix), `*old` (suffix) -/
def renamePrefix (old new name : Name) : Name :=
  -- old_name[-1] == '*': prefix = old[:-1]
  let pre := old.dropLast
  if name.take pre.length == pre then new ++ name.drop pre.length else name

def renameSuffix (old new name : Name) : Name :=
  -- old_name[0] == '*': suffix = old[1:]; Python: name[-n:] == suffix  (n ≥ 1 here)
  let suf := old.drop 1
  let n := suf.length
  if n == 0 then (if name.isEmpty then new else name)   -- `name[-0:]` is the whole name
  else if name.drop (name.length - n) == suf then name.take (name.length - n) ++ new else name

/-- first signal with that name gets the new name (`signal_by_name`) -/
def renameFirst (old new : Name) : List BSig → List BSig
  | [] => []
  | s :: t => if s.name == old then { s with name := new } :: t else s :: renameFirst old new t

/-- `rename_signal(old, new)`; `old` non-empty -/
def BMat.renameSignal (m : BMat) (old new : Name) : BMat :=
  { m with frames := m.frames.map fun f =>
      if old.getLast? == some '*' then
        { f with sigs := f.sigs.map fun s => { s with name := renamePrefix old new s.name } }
      else if old.head? == some '*' then
        { f with sigs := f.sigs.map fun s => { s with name := renameSuffix old new s.name } }
      else { f with sigs := renameFirst old new f.sigs } }

/-- `rename_frame(old, new)`: note the `if … / if … elif …` chain of the source -/
def BMat.renameFrame (m : BMat) (old new : Name) : BMat :=
  { m with frames := m.frames.map fun f =>
      let n1 := if old.getLast? == some '*' then renamePrefix old new f.name else f.name
      let n2 := if old.head? == some '*' then renameSuffix old new n1
                else if n1 == old then new else n1
      { f with name := n2 } }

/-- `del_frame(name)`: the first frame of that name -/
def BMat.delFrame (m : BMat) (name : Name) : BMat :=
  match m.frames.find? (·.name == name) with
  | some f => { m with frames := m.frames.erase f }
  | none => m

def BMat.delSignalAttributes (m : BMat) (names : List Name) : BMat :=
  { m with frames := m.frames.map fun f =>
      { f with sigs := f.sigs.map fun s => { s with attrs := names.foldl delKey s.attrs } } }

def BMat.delFrameAttributes (m : BMat) (names : List Name) : BMat :=
  { m with frames := m.frames.map fun f => { f with attrs := names.foldl delKey f.attrs } }

inductive BOp
  | zero | obsolete
  | delSignal (p : Name) | renameSignal (o n : Name)
  | delFrame (n : Name) | renameFrame (o n : Name)
  | delSigAttrs (ns : List Name) | delFrameAttrs (ns : List Name)
  deriving Repr, Inhabited

def BMat.apply (m : BMat) : BOp → BMat
  | .zero => m.deleteZeroSignals
  | .obsolete => m.deleteObsoleteDefines
  | .delSignal p => m.delSignal p
  | .renameSignal o n => m.renameSignal o n
  | .delFrame n => m.delFrame n
  | .renameFrame o n => m.renameFrame o n
  | .delSigAttrs ns => m.delSignalAttributes ns
  | .delFrameAttrs ns => m.delFrameAttributes ns

end CanVerif
