"""Generator of DBC-expressible matrices (C05, C15, C18): descriptions as plain JSON, builder, normal form `norm`
that folds the carrier attributes of the DBC format into the first-class fields they carry."""
import decimal

import canmatrix.canmatrix as cm
from lib import frames as F
from lib import matrices as M

D = decimal.Decimal

ECU_NAMES = ["ECU_A", "ECU_B", "Gw", "Body", "Diag", "EngineControlUnit_with_a_very_long_name_1", "AB", "Brake_Ctl"]
TEXTS_LATIN = ["plain text", "two words, comma", "café °C", "100%", "a/b (c)", "x=1; y=2", "semi;colon", "ends with quote\"", "back\\slash",
               "line one\n  indented line two", "trailing blank \nnext", "tab\there", "BO_ 12 Fake: 8 X", "say \"hi\" there", "a; b", "erste Zeile\nzweite Zeile: café °C", "one\ntwo\nthree: ±5 °C"]
# texts that trigger known finding C05-comment-quote-semicolon: a quote followed by a semicolon inside a comment
TRIGGER_TEXTS = ["CM_ SG_ 1 x \"inner\";", "a \"; b", "x\" ;y"]
TEXTS_UTF8 = TEXTS_LATIN + ["µs €", "Ω ohm", "first\nsecond: 10 µs € Ω"]
UNITS = ["", "V", "km/h", "rpm", "°C", "m/s^2", "%"]
CARRIER_FRAME = {"GenMsgCycleTime", "VFrameFormat", "SystemMessageLongSymbol"}
CARRIER_SIGNAL = {"GenSigCycleTime", "GenSigStartValue", "SystemSignalLongSymbol"}
CARRIER_ECU = {"SystemNodeLongSymbol"}
CARRIER_GLOBAL = {"BusType", "ProtocolType"}
ENUM_VALUES = ["Off", "On", "Auto", "Err_1"]
NUMERIC_ENUM_VALUES = ["1", "2", "3"]


def enum_values_of(definition):
    return [v.strip().strip('"') for v in definition[5:].split(",")]


def ident(rng, base, long_p=0.15):
    if rng.random() < long_p:
        return base + "_" + "".join(rng.choice("abcdefghijklmnopqrstuvwxyzABCDEFXYZ0123456789_") for _ in range(rng.randint(28, 45)))
    return base


def gen_defines(rng, level):
    """[[name, definition, default or None]]"""
    out = []
    pre = {"frame": "Fr", "signal": "Sg", "ecu": "Ec", "global": "Gl"}[level]
    kinds = rng.sample(["INT", "HEX", "FLOAT", "STRING", "ENUM"], rng.randint(0, 5))
    for k in kinds:
        name = pre + k.capitalize() + "Attr"
        if k == "INT":
            out.append([name, "INT 0 65535", rng.choice([None, "0", "7"])])
        elif k == "HEX":
            out.append([name, "HEX 0 255", rng.choice([None, "0", "16"])])
        elif k == "FLOAT":
            out.append([name, "FLOAT 0 100", rng.choice([None, "0", "1.5"])])
        elif k == "STRING":
            out.append([name, "STRING", rng.choice([None, "", "dflt", "two words"])])
        else:
            if rng.random() < 0.25:
                # value names that look like numbers (the file stores the index of the value, not its name)
                out.append([name, "ENUM " + ",".join('"%s"' % v for v in NUMERIC_ENUM_VALUES), rng.choice([None, "1", "3"])])
            else:
                out.append([name, "ENUM " + ",".join('"%s"' % v for v in ENUM_VALUES), rng.choice([None, "Off", "Auto"])])
    return out


def gen_attr_values(rng, defines, texts, p=0.5):
    out = {}
    for name, definition, _ in defines:
        if rng.random() > p:
            continue
        k = definition.split()[0]
        if name.startswith("Gen"):
            continue                    # carriers are set through cycle_time / initial_value
        if k == "INT":
            out[name] = rng.choice([0, 1, 42, 65535, "7", "65535"])
        elif k == "HEX":
            out[name] = rng.choice([0, 1, 255, "16"])
        elif k == "FLOAT":
            out[name] = rng.choice(["0", "0.5", "12.25", "100", "1E-3", 0.5, 2.0, 1e-07, 33])
        elif k == "STRING":
            out[name] = rng.choice(["abc", "", "x y", "with, comma", 'in"ner', "semi; colon", " lead", "trail "] + texts[:3])
        else:
            out[name] = rng.choice(enum_values_of(definition))
    return out


def gen_signal(rng, name, nbytes, used, o):
    for _ in range(12):
        size = F.rand_size(rng, min(8 * nbytes, o.get("maxwidth", 64)))
        little = rng.random() < 0.5
        start = rng.randint(0, 8 * nbytes - size)
        a = set(F.sig_addrs(little, start, size))
        if a & used:
            continue
        used |= a
        is_float = size in (32, 64) and rng.random() < 0.4
        signed = (rng.random() < 0.4) and not is_float
        factor = rng.choice(o["factors"])
        offset = rng.choice(o["offsets"])
        s = {"name": ident(rng, name, o.get("p_long", 0.15)), "start": start, "size": size, "little": little, "signed": signed, "float": is_float,
             "factor": factor, "offset": offset, "unit": rng.choice(o["units"]),
             "receivers": sorted(rng.sample(o["ecus"], min(len(o["ecus"]), rng.choice([0, 1, 2])))), "comment": None,
             "mux": None, "grp": [], "muxer_for": None, "values": {}, "min": None, "max": None, "initial": None, "cycle": 0, "attrs": {}}
        r = rng.random()
        if r < 0.25:
            s["comment"] = rng.choice(o["ctexts"])
        elif r < 0.35:
            s["comment"] = rng.choice(o["ctexts"]) + "\nsecond line" + ("\n\nfourth" if rng.random() < 0.3 else "")
        elif r < 0.4:
            s["comment"] = 'say "hi" there'
        if not is_float and rng.random() < 0.3:
            lo, hi = F.raw_range([name, start, size, little, signed, False])
            keys = sorted({k for k in (0, 1, 2, hi, lo, rng.randint(lo, hi)) if lo <= k <= hi})[:rng.randint(1, 4)]
            s["values"] = {str(k): rng.choice(["On", "Off", "Error state", "Init", "SNA", 'q"uote']) + str(i) for i, k in enumerate(keys)}
        f_, o_ = D(factor), D(offset)
        if is_float:
            # float raw values are not rounded: keep the initial value a small dyadic number inside the default limits
            s["initial"] = rng.choice([0, 0, 1, 100])
            if f_ < 0:
                s["factor"] = factor = factor.lstrip("-")
        else:
            lo, hi = F.raw_range([name, start, size, little, signed, False])
            a, b = lo, hi
            if rng.random() < 0.4 or f_ < 0:
                # explicit limits on the raw grid
                a, b = sorted([rng.randint(lo, hi), rng.randint(lo, hi)])
                pa, pb = sorted([a * f_ + o_, b * f_ + o_])
                s["min"], s["max"] = str(pa), str(pb)
            # the initial value lies inside the limits (envelope of the property) and on the raw grid
            zero_raw = -o_ / f_
            if a <= zero_raw <= b and zero_raw == int(zero_raw) and rng.random() < 0.6:
                s["initial"] = int(zero_raw)
            else:
                s["initial"] = rng.choice([a, b, rng.randint(a, b)])
        if rng.random() < 0.2:
            s["cycle"] = rng.choice([10, 50, 1000])
        s["attrs"] = gen_attr_values(rng, o["defines"]["signal"], o["texts"], 0.35)
        return s
    return None


def gen_frame(rng, k, arbid, ext, o):
    fd = o["fd"] and rng.random() < 0.5
    j1939 = (not fd) and ext and o["j1939"] and rng.random() < 0.6
    nbytes = rng.choice([1, 2, 4, 8, 8, 8] + ([12, 16, 32, 64] if fd else []))
    used = set()
    sigs = []
    name = ident(rng, "Frame%d" % k, o.get("p_long", 0.15))
    f = {"name": name, "id": arbid, "ext": ext, "size": nbytes, "transmitters": rng.sample(o["ecus"], min(len(o["ecus"]), rng.choice([0, 1, 1, 2, 3]))),
         "comment": "", "fd": fd, "j1939": j1939, "signals": sigs, "cycle": rng.choice([0, 0, 10, 100, 65535]), "groups": [], "complex": False,
         "attrs": gen_attr_values(rng, o["defines"]["frame"], o["texts"], 0.35)}
    r = rng.random()
    if r < 0.3:
        f["comment"] = rng.choice(o["ctexts"])
    elif r < 0.4:
        f["comment"] = "first line\nsecond line"
    r = rng.random()
    if r < 0.3:       # simple multiplexing
        mx = gen_signal(rng, "mx", nbytes, used, dict(o, maxwidth=rng.randint(1, 4)))
        if mx:
            mx.update({"signed": False, "float": False, "mux": "Multiplexor", "factor": "1", "offset": "0", "values": {}, "min": None, "max": None, "initial": None})
            sigs.append(mx)
            base = set(used)
            for g in sorted(rng.sample(range(1 << mx["size"]), min(rng.randint(1, 3), 1 << mx["size"]))):
                gu = set(base)
                for j in range(rng.randint(1, 2)):
                    s = gen_signal(rng, "g%d_%d" % (g, j), nbytes, gu, o)
                    if s:
                        s["mux"] = g
                        sigs.append(s)
                used |= gu
            if not any(isinstance(s["mux"], int) for s in sigs):
                mx["mux"] = None
    elif r < 0.45 and nbytes >= 2:    # extended multiplexing: mx0 selects {mx1, a...}; mx1 (in group of mx0) selects {b...}
        mx0 = gen_signal(rng, "mxa", nbytes, used, dict(o, maxwidth=3))
        mx1 = gen_signal(rng, "mxb", nbytes, used, dict(o, maxwidth=3)) if mx0 else None
        if mx0 and mx1:
            for m in (mx0, mx1):
                m.update({"signed": False, "float": False, "factor": "1", "offset": "0", "values": {}, "min": None, "max": None, "initial": None})
            g0 = rng.randrange(1 << mx0["size"])
            mx0["mux"] = "Multiplexor"
            mx1.update({"mux": "Multiplexor", "muxval": g0, "muxer_for": mx0["name"], "grp": [[g0, g0]]})
            sigs.extend([mx0, mx1])
            base = set(used)
            top = 0
            for j in range(rng.randint(1, 3)):
                gu = set(base)
                s = gen_signal(rng, "x%d" % j, nbytes, gu, o)
                if s:
                    lo = rng.randrange(1 << mx1["size"])
                    hi = rng.randint(lo, (1 << mx1["size"]) - 1)
                    s.update({"mux": lo, "muxer_for": mx1["name"], "grp": [[lo, hi]] + ([[hi + 2, hi + 3]] if rng.random() < 0.3 else [])})
                    sigs.append(s)
                    top += 1
                used |= gu
            if top:
                f["complex"] = True
            else:
                del sigs[:]
                used.clear()
    for j in range(rng.randint(0 if sigs else 1, 4)):
        s = gen_signal(rng, "s%d" % j, nbytes, used, o)
        if s:
            sigs.append(s)
    # unique names per frame
    seen = set()
    for s in list(sigs):
        if s["name"][:32] in seen:
            sigs.remove(s)
        seen.add(s["name"][:32])
    if len(sigs) >= 2 and rng.random() < 0.3:
        f["groups"] = [["Grp_%d" % k, rng.choice([1, 2, 17]), [s["name"] for s in rng.sample(sigs, rng.randint(1, min(3, len(sigs))))]]]
    return f


def gen_desc(rng, opts=None):
    o = dict(opts or {})
    enc = o.get("enc") or rng.choice(["iso-8859-1", "utf-8"])
    # comments may have their own encoding; a file whose lines are not all decodable with the import encoding is not
    # readable, so the only mixed combination is a latin-1 file with utf-8 comments
    cenc = "utf-8" if (enc == "iso-8859-1" and rng.random() < 0.2) else enc
    texts = TEXTS_LATIN     # attribute values, units: file encoding; comments: see ctexts
    ctexts = TEXTS_UTF8 if cenc == "utf-8" else TEXTS_LATIN
    if enc == "utf-8":
        texts = TEXTS_UTF8
    ecus = rng.sample(ECU_NAMES, rng.randint(1, 5))
    flavour = o.get("flavour")
    if flavour == "quote_semicolon":
        ctexts = ctexts + TRIGGER_TEXTS * 3
    if flavour == "long_ecu_prefix":
        ecus = ecus + ["Ecu_name_that_is_longer_than_32_chars_A", "Ecu_name_that_is_longer_than_32_chars_B"]
    o.update({"ecus": ecus, "texts": texts, "ctexts": ctexts, "units": UNITS if o.get("nonascii_units", True) else UNITS[:4] + UNITS[5:],
              "factors": o.get("factors", M.FACTORS + ["1E-7", "2.5E-10", "1.5E+10", "0.000123", "-1", "-0.5"]),
              "offsets": o.get("offsets", M.OFFSETS + ["-1E-3", "1E+5"]),
              "fd": rng.random() < 0.35, "j1939": rng.random() < 0.3})
    if o["fd"] and o["j1939"] and not o.get("fd_and_j1939", True):
        o["j1939"] = False
    defines = {lvl: gen_defines(rng, lvl) if rng.random() < 0.6 else [] for lvl in ("frame", "signal", "ecu", "global")}
    if rng.random() < 0.2:
        # one attribute name on two levels (a DBC file has one default per name: both get the same)
        shared_default = rng.choice(["", "note", "7"])
        for lvl in rng.sample(["frame", "signal", "ecu", "global"], 2):
            defines[lvl] = defines[lvl] + [["Remark", "STRING", shared_default]]
    if rng.random() < 0.25:
        # a matrix that brings the carrier definitions along, as every matrix read from a Vector DBC does
        defines["frame"] = defines["frame"] + [["GenMsgCycleTime", "INT 0 65535", rng.choice([None, "0", "100"])]]
        defines["signal"] = defines["signal"] + [["GenSigStartValue", "FLOAT 0 100000000000", rng.choice([None, "0", "1"])]]
        if rng.random() < 0.5:
            defines["signal"] = defines["signal"] + [["GenSigCycleTime", "INT 0 65535", rng.choice([None, "0"])]]
    o["defines"] = defines
    frames = []
    ids = set()
    for k in range(rng.randint(0 if rng.random() < 0.05 else 1, o.get("maxframes", 4))):
        ext = rng.random() < 0.4
        for _ in range(10):
            arbid = rng.randrange(0, 1 << 29) if ext else rng.randrange(0, 1 << 11)
            if rng.random() < 0.08:
                arbid = rng.choice([0, (1 << 29) - 1 if ext else (1 << 11) - 1])      # the ends of the identifier range
            if rng.random() < 0.2:
                arbid = rng.randrange(0, 0x7FF)
            if frames and rng.random() < 0.2 and frames[0]["id"] < 0x800 and (frames[0]["id"], not frames[0]["ext"]) not in ids:
                # the same identifier number as standard and as extended frame
                arbid, ext = frames[0]["id"], not frames[0]["ext"]
            if (arbid, ext) not in ids:
                break
        ids.add((arbid, ext))
        frames.append(gen_frame(rng, k, arbid, ext, o))
    # frame names unique; now and then two long names that agree in their first 32 characters (the file tells them apart by their identifiers)
    seen = set()
    frames = [f for f in frames if not (f["name"] in seen or seen.add(f["name"]))]
    if len(frames) >= 2 and rng.random() < 0.12:
        stem = "LongFrameName_shared_for_32_chars_" + str(rng.randrange(10))
        frames[-1]["name"] = stem + "_A"
        frames[rng.randrange(len(frames) - 1)]["name"] = stem + "_B" + rng.choice(["", "_tail"])
    d = {"enc": enc, "cenc": cenc, "flavour": flavour, "frames": frames,
         "ecus": [{"name": e, "comment": rng.choice(["", "", "ecu comment", "line one\nline two"] + ctexts),
                   "attrs": gen_attr_values(rng, defines["ecu"], texts, 0.4)} for e in ecus],
         "defines": defines, "gattrs": gen_attr_values(rng, defines["global"], texts, 0.6),
         "value_tables": {}, "free": [], "env": {}}
    if rng.random() < 0.3:
        for t in range(rng.randint(1, 2)):
            texts_t = rng.choice([["Off", "On", "two words"], ["Off", "On", "two words"], ["trailing ", " leading", 'with "quote"'], ["semi;colon", "x", "y"], []])
            d["value_tables"]["Tab%d" % t] = {str(k): v for k, v in zip(rng.sample(range(0, 16), 3), texts_t)}
    if rng.random() < 0.2:
        used = set()
        for j in range(rng.randint(1, 2)):
            s = gen_signal(rng, "free%d" % j, 8, used, o)
            if s:
                d["free"].append(s)
    if rng.random() < 0.2 or flavour == "env_long":
        for j in range(rng.randint(1, 2)):
            d["env"][ident(rng, "EnvVar%d" % j, 0.5 if flavour == "env_long" else 0.0)] = {"varType": "0", "min": "0", "max": rng.choice(["1", "255", "1.5"]), "unit": rng.choice(["", "V"]),
                                                         "initialValue": "0", "evId": str(j + 1), "accessType": "DUMMY_NODE_VECTOR0",
                                                         "accessNodes": rng.choice([["Vector__XXX"], ecus[:1], ecus[:2]]), "values": {}}
    return d


def build_signal(s):
    kw = {}
    if s.get("min") is not None:
        kw["min"] = D(s["min"])
        kw["max"] = D(s["max"])
    mux = s.get("mux")
    sg = cm.Signal(s["name"], start_bit=s["start"], size=s["size"], is_little_endian=s["little"], is_signed=s["signed"],
                   is_float=s.get("float", False), factor=D(s["factor"]), offset=D(s["offset"]), unit=s.get("unit", ""),
                   receivers=list(s["receivers"]), comment=s.get("comment"), multiplex=mux, cycle_time=s.get("cycle", 0), **kw)
    if "muxval" in s:
        sg.mux_val = s["muxval"]
    if s.get("muxer_for"):
        sg.muxer_for_signal = s["muxer_for"]
        sg.mux_val_grp = [list(x) for x in s["grp"]]
    for k, v in s.get("values", {}).items():
        sg.add_values(int(k), v)
    if s.get("initial") is not None:
        sg.initial_value = s["initial"] * D(s["factor"]) + D(s["offset"])
    for k, v in s.get("attrs", {}).items():
        sg.add_attribute(k, v)
    return sg


def build(desc):
    db = cm.CanMatrix()
    for lvl, add in (("frame", db.add_frame_defines), ("signal", db.add_signal_defines), ("ecu", db.add_ecu_defines), ("global", db.add_global_defines)):
        for name, definition, default in desc["defines"][lvl]:
            add(name, definition)
            if default is not None:
                db.add_define_default(name, default)
    for k, v in desc["gattrs"].items():
        db.add_attribute(k, v)
    for e in desc["ecus"]:
        ecu = cm.Ecu(e["name"])
        if e["comment"]:
            ecu.add_comment(e["comment"])
        for k, v in e["attrs"].items():
            ecu.add_attribute(k, v)
        db.add_ecu(ecu)
    for name, tab in desc["value_tables"].items():
        db.add_value_table(name, dict(tab))
    for f in desc["frames"]:
        fr = cm.Frame(f["name"], arbitration_id=cm.ArbitrationId(f["id"], f["ext"]), size=f["size"], transmitters=list(f["transmitters"]),
                      comment=f.get("comment") or "", is_fd=f.get("fd", False), is_j1939=f.get("j1939", False), cycle_time=f.get("cycle", 0))
        for s in f["signals"]:
            fr.add_signal(build_signal(s))
        fr.is_complex_multiplexed = f.get("complex", False)
        for g in f.get("groups", []):
            fr.add_signal_group(g[0], g[1], list(g[2]))
        for k, v in f["attrs"].items():
            fr.add_attribute(k, v)
        fr.update_receiver()
        if any(s.get("mux") == "Multiplexor" for s in f["signals"]) and not f.get("complex"):
            fr.multiplex_signals()
        db.add_frame(fr)
    for s in desc["free"]:
        db.add_signal(build_signal(s))
    for name, ev in desc["env"].items():
        db.add_env_var(name, dict(ev, accessNodes=list(ev["accessNodes"]), values={}))
    db.update_ecu_list()
    return db


# ---------------------------------------------------------------------------------------------
# normal form
# ---------------------------------------------------------------------------------------------
def _attrs(a, drop):
    return {k: str(v) for k, v in a.items() if k not in drop}


def _dec(x):
    return M.dec_tuple(x)


def norm_signal(s):
    return {"name": s.name, "start": int(s.start_bit), "size": int(s.size), "little": bool(s.is_little_endian), "signed": bool(s.is_signed),
            "float": bool(s.is_float), "factor": _dec(s.factor), "offset": _dec(s.offset), "min": _dec(s.min), "max": _dec(s.max),
            "unit": s.unit, "receivers": sorted(s.receivers), "is_mux": bool(s.is_multiplexer), "mux_val": s.mux_val,
            "grp": [list(map(int, x)) for x in s.mux_val_grp], "muxer_for": s.muxer_for_signal,
            "values": {str(k): v for k, v in sorted(s.values.items(), key=lambda kv: int(kv[0]))},
            "comment": s.comment or "", "initial": _dec(s.initial_value), "cycle": int(s.cycle_time), "attrs": _attrs(s.attributes, CARRIER_SIGNAL)}


def norm_frame(f):
    return {"name": f.name, "id": int(f.arbitration_id.id), "ext": bool(f.arbitration_id.extended), "size": int(f.size),
            "transmitters": list(f.transmitters), "receivers": sorted(f.receivers), "comment": f.comment or "", "fd": bool(f.is_fd), "j1939": bool(f.is_j1939),
            "cycle": int(f.cycle_time), "complex": bool(f.is_complex_multiplexed), "attrs": _attrs(f.attributes, CARRIER_FRAME),
            "groups": [[g.name, str(g.id), [s.name for s in g.signals]] for g in f.signalGroups],
            "signals": [norm_signal(s) for s in f.signals]}


def _defs(dd, drop):
    return {k: [v.definition.replace("  ", " ").strip(), v.defaultValue] for k, v in dd.items() if k not in drop}


def carrier_defines(db):
    """the carrier attribute definitions the matrix itself brings along (their definitions and defaults must survive)"""
    return {k for dd in (db.frame_defines, db.signal_defines, db.ecu_defines, db.global_defines) for k in dd
            if k in CARRIER_FRAME | CARRIER_SIGNAL | CARRIER_ECU | CARRIER_GLOBAL}


def norm(db, keep=()):
    """content of a matrix with the DBC carrier attributes folded away (they are compared through cycle/initial/fd/j1939);
    `keep`: carrier definitions that the original matrix defined itself"""
    return {"ecus": [{"name": e.name, "comment": e.comment or "", "attrs": _attrs(e.attributes, CARRIER_ECU)} for e in db.ecus],
            "frames": [norm_frame(f) for f in db.frames],
            "free": [norm_signal(s) for s in db.signals],
            "gattrs": _attrs(db.attributes, CARRIER_GLOBAL),
            "defines": {"frame": _defs(db.frame_defines, CARRIER_FRAME - set(keep)), "signal": _defs(db.signal_defines, CARRIER_SIGNAL - set(keep)),
                        "ecu": _defs(db.ecu_defines, CARRIER_ECU - set(keep)), "global": _defs(db.global_defines, CARRIER_GLOBAL - set(keep))},
            "value_tables": {k: {str(a): b for a, b in v.items()} for k, v in db.value_tables.items()},
            "env": {k: {kk: (list(vv) if isinstance(vv, list) else vv) for kk, vv in v.items()} for k, v in db.env_vars.items()}}


def flatten(x, path=""):
    if isinstance(x, dict):
        if not x:
            yield path, "{}"
        for k in sorted(x):
            yield from flatten(x[k], path + "/" + str(k))
    elif isinstance(x, list) and x and isinstance(x[0], (dict, list)):
        yield path + "#", str(len(x))
        for i, v in enumerate(x):
            yield from flatten(v, path + "/%d" % i)
    else:
        yield path, repr(x)
