import CanVerif.Model.Codec
import CanVerif.Model.StartBit
import CanVerif.Model.ArbId
/-!
# Field kernels of the write+read formats (C06, C07): what number each format stores for a signal's
position / a frame's identifier / a signal's type, and how its reader turns the stored number back

Sources: dbc.py (SG_ start ~304, reader ~589/643, compound id), dbf.py (~384-425 / ~254-310), sym.py
(create_signal ~99 / load ~470-600), kcd.py (create_signal ~48 / parse_signal ~252), json.py (~68-80 /
~260-296), xls_common.get_signal ~62 / xls.load ~500-516, arxml.py (~629 / ~1352).
The position kernels are instances of `getStartbit`/`setStartbit` with fixed switch values per format.
-/
namespace CanVerif

/-- Motorola start-bit notation option of the JSON / XLS writers and of the XLS reader -/
inductive MotNotation | msb | msbreverse | lsb
  deriving Repr, DecidableEq, Inhabited

inductive Fmt
  | dbc | dbf | sym | kcd | arxml
  | json (writer : MotNotation)                 -- the reader always assumes `lsb`
  | xls (writer reader : MotNotation)
  deriving Repr, DecidableEq, Inhabited

/-- switches of `get_startbit` for a notation option -/
def notationSwitches : MotNotation → Option Bool × Bool
  | .msb => (some true, false)
  | .msbreverse => (none, false)
  | .lsb => (some true, true)

/-- switches the writer of a format passes to `get_startbit` (may depend on the byte order) -/
def writeSwitches (f : Fmt) (little : Bool) : Option Bool × Bool :=
  match f with
  | .dbc => (some true, false)
  | .arxml => (some true, false)
  | .dbf => (some true, true)
  | .sym => (none, false)
  | .kcd => (none, false)
  | .json w => if little then (some true, true) else notationSwitches w
  | .xls w _ => notationSwitches w

/-- switches the reader of a format passes to `set_startbit`; Intel positions are taken as they are
(the constructor argument), which is `set_startbit` without switches -/
def readSwitches (f : Fmt) (little : Bool) : Option Bool × Bool :=
  if little then (none, false)
  else match f with
    | .dbc => (some true, false)
    | .arxml => (some true, false)
    | .dbf => (some true, true)
    | .sym => (none, false)
    | .kcd => (none, false)
    | .json _ => (some true, true)
    | .xls _ r => notationSwitches r

/-- the position number a format stores for a signal -/
def emitPos (f : Fmt) (s : Sig) : Int :=
  let sw := writeSwitches f s.little
  getStartbit s.little s.size s.start sw.1 sw.2

/-- the internal start bit its reader derives from the stored number; `none` = StartbitLowerZero -/
def parsePos (f : Fmt) (little : Bool) (size : Nat) (stored : Int) : Option Int :=
  let sw := readSwitches f little
  setStartbit little size stored sw.1 sw.2

/-- DBF and XLS store the position as (byte column starting at 1, bit column) -/
def splitByteBit (n : Int) : Int × Int := (n / 8 + 1, n % 8)
def joinByteBit (byte bit : Int) : Int := (byte - 1) * 8 + bit

/-- reader and writer of the format agree on the notation (JSON: only `lsb`; XLS: same option on both sides) -/
def notationAgrees : Fmt → Bool
  | .json w => w == .lsb
  | .xls w r => w == r
  | _ => true

/-! ## identifiers -/

/-- DBC stores the compound integer -/
def emitIdDbc (a : ArbId) : Nat := a.toCompound
def parseIdDbc (n : Nat) : Except Err ArbId := ArbId.fromCompound n

/-- DBF (after fix), SYM, KCD, JSON, XLS, ARXML store the plain number and the format separately -/
def emitIdPlain (a : ArbId) : Nat × Bool := (a.id, a.ext)
def parseIdPlain (p : Nat × Bool) : Except Err ArbId := ArbId.make (p.1 : Int) p.2

/-! ## type words (C07) -/

/-- DBF sign column -/
def dbfTypeWord (signed isFloat : Bool) (size : Nat) : String :=
  if isFloat then (if size > 32 then "D" else "F") else if signed then "I" else "U"
def dbfParseType (w : String) : Bool × Bool :=   -- (signed, float)
  if w == "U" then (false, false) else if w == "F" || w == "D" then (false, true) else (true, false)

/-- KCD `Value/@type` (absent = unsigned) -/
def kcdTypeWord (signed isFloat : Bool) (size : Nat) : Option String :=
  if isFloat then some (if size > 32 then "double" else "single") else if signed then some "signed" else none
def kcdParseType (w : Option String) : Bool × Bool :=
  match w with
  | none => (false, false)
  | some t => if t == "single" || t == "double" then (false, true) else if t == "unsigned" then (false, false) else (true, false)

/-- SYM type word (after the fix: the float flag is tested first) -/
def symTypeWord (signed isFloat : Bool) : String := if isFloat then "float" else if signed then "signed" else "unsigned"
/-- pre-fix: the sign was tested before the float flag -/
def symTypeWordPreFix (signed isFloat : Bool) : String := if signed then "signed" else if isFloat then "float" else "unsigned"
def symParseType (w : String) : Bool × Bool :=
  if w == "signed" then (true, false) else if w == "float" || w == "double" then (false, true) else (false, false)

/-- DBC: sign character of the SG_ line and the SIG_VALTYPE_ code (1 = float32, 2 = float64, none) -/
def dbcSignChar (signed : Bool) : Char := if signed then '-' else '+'
def dbcValType (isFloat : Bool) (size : Nat) : Option Nat := if isFloat then some (if size > 32 then 2 else 1) else none

/-- SYM unit: at most 16 characters are written -/
def symUnit (u : String) : String := String.ofList (u.toList.take 16)

end CanVerif
