#!/usr/bin/env python3
"""tools/mkresults.py: regenerate the tables of DESIGN.md section 10 (between the RESULTS markers) from known_findings.json,
seeded/*/meta.json and the Lean sources."""
import glob
import json
import os
import re

ROOT = os.path.dirname(os.path.dirname(os.path.abspath(__file__)))
kf = json.load(open(os.path.join(ROOT, "known_findings.json")))["findings"]
out = []
out.append("#### Fixes committed to /repo (each a separate `fix:` commit; the 327 tests pass after each)\n")
out.append("| property | commit | what failed before |")
out.append("|---|---|---|")
for e in kf:
    if e["status"] == "fixed":
        out.append("| %s | `%s` | %s |" % (e["property"], e["commit"], e["what"].replace("|", "\\|")))
out.append("")
out.append("#### Open findings (genuine defects recorded, not repaired)\n")
out.append("| property | id | what fails and why it is not repaired |")
out.append("|---|---|---|")
for e in kf:
    if e["status"] == "open":
        out.append("| %s | `%s` | %s |" % (e["property"], e["id"], e["what"].replace("|", "\\|")))
out.append("")
out.append("#### Seeded changes (each confirmed in a scratch worktree: 327 tests pass, demonstration fails with the change and passes without)\n")
out.append("| id | change | caught by |")
out.append("|---|---|---|")
notes = json.load(open(os.path.join(ROOT, "tools", "seed_notes.json"))) if os.path.exists(os.path.join(ROOT, "tools", "seed_notes.json")) else {}
for m in sorted(glob.glob(os.path.join(ROOT, "seeded", "*", "meta.json"))):
    name = os.path.basename(os.path.dirname(m))
    j = json.load(open(m))
    out.append("| %s | %s | %s |" % (name, (j.get("summary") or "").replace("|", "\\|").replace("\n", " ")[:260], notes.get(name, "`./check %s quick` (S: failing input in the replay)" % name.split("-")[0])))
out.append("")
out.append("#### Size of the Lean development\n")
out.append("| file | theorems | lines |")
out.append("|---|---|---|")
for f in sorted(glob.glob(os.path.join(ROOT, "lean", "CanVerif", "Props", "*.lean"))):
    s = open(f).read()
    out.append("| Props/%s | %d | %d |" % (os.path.basename(f), len(re.findall(r"^theorem ", s, re.M)), s.count("\n")))
for d in ("Model", "Spec", "Proofs"):
    n = sum(open(f).read().count("\n") for f in glob.glob(os.path.join(ROOT, "lean", "CanVerif", d, "*.lean")))
    out.append("| %s/*.lean | | %d |" % (d, n))
text = "\n".join(out) + "\n"
p = os.path.join(ROOT, "DESIGN.md")
s = open(p).read()
b, e = "<!-- RESULTS:BEGIN -->", "<!-- RESULTS:END -->"
if b in s:
    s = s[:s.index(b) + len(b)] + "\n" + text + s[s.index(e):]
    open(p, "w").write(s)
    print("DESIGN.md tables regenerated")
else:
    print(text)
