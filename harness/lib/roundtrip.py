"""Shared by C06 (layout) and C07 (value interpretation): write a generated matrix in one format, read it back,
extract the stored position numbers from the file where that is easy, and describe both matrices per signal/frame."""
import io
import json
import re

import lxml.etree
from lib import matrices as M

FORMATS = ["dbc", "dbf", "sym", "kcd", "json", "xls", "arxml"]
NOTATIONS = ["msb", "msbreverse", "lsb"]
FACTORS12 = ["1", "0.5", "0.125", "2", "10", "0.01", "0.001", "1.5", "3", "0.25", "0.123456789012", "1234.56789", "1E-7",
             "123456789012", "0.000123456", "9.99999999999", "1E+3", "0.1"]
OFFSETS12 = ["0", "0", "-40", "1.5", "0.123456789012", "-1234.56789", "100", "-0.000001"]

_cache = {}


def gen_case_matrix(rng, fmt, rich):
    opts = {"floats": True, "limits": False, "cycle": False, "maxframes": 3, "comments": False, "unique_signal_names": fmt == "arxml", "lone_mux": True, "twin_ids": fmt != "xls", "negative_value_keys": True, "j1939_flag": True,
            "mux": fmt != "arxml", "lengths": [1, 2, 3, 4, 8, 8, 8, 12, 16, 64] if fmt in ("dbc", "json", "arxml", "sym", "kcd", "dbf", "xls") else [1, 2, 4, 8, 8, 8]}
    if rich:
        def rand_dec(nonzero):
            nd = rng.randint(1, 12)
            digits = str(rng.randrange(10 ** (nd - 1), 10 ** nd)) if nd > 1 else str(rng.randint(1 if nonzero else 0, 9))
            if rng.random() < 0.3:
                digits = digits.rstrip("0") or "1"
            e = rng.choice([0, -1, -2, -3, -6, -7, -9, -10, -12, -20, 1, 3, 9, 10, 12])
            return ("-" if rng.random() < 0.2 else "") + digits + ("E%+d" % e if e else "")
        opts["factors"] = FACTORS12 + [rand_dec(True) for _ in range(12)] + ["2.5E-10", "1.5E+10", "1.25E-9"]
        opts["offsets"] = OFFSETS12 + [rand_dec(False) for _ in range(8)]
    if fmt == "xls":
        opts["floats"] = False
    d = M.gen_matrix(rng, opts)
    # envelopes
    seen = set()
    frames = []
    for f in d["frames"]:
        if fmt in ("xls",) and f["id"] in seen:
            continue                      # id numbers unique across standard/extended
        seen.add(f["id"])
        if fmt == "arxml":
            # an ECU that sends a frame is not also a receiver of its signals (one port direction per frame and ECU)
            for s in f["signals"]:
                s["receivers"] = [r for r in s["receivers"] if r not in f["transmitters"]]
        if fmt == "kcd":
            for s in f["signals"]:
                s["receivers"] = [r for r in s["receivers"]]
        for s in f["signals"]:
            if fmt == "xls":
                # a spreadsheet cell holds a double: value-table keys beyond 2^53 are not expressible
                s["values"] = {k: v for k, v in s["values"].items() if abs(int(k)) < (1 << 53)}
            if s["float"] and rng.random() < 0.5:
                s["signed"] = True        # a float's sign flag is free (is_signed defaults to True)
        frames.append(f)
    d["frames"] = frames
    d["ext_int"] = rng.random() < 0.5
    d["ecus"] = sorted(set(d["ecus"]) | {e for f in frames for e in f["transmitters"]} | {r for f in frames for s in f["signals"] for r in s["receivers"]})
    return d


def extract_positions(fmt, data):
    """{(frame id, extended, signal name): stored position} where the format makes that easy; else {}"""
    out = {}
    if fmt == "dbc":
        cur = None
        for line in data.decode("iso-8859-1").split("\n"):
            m = re.match(r"^BO_ (\d+) (\w+)", line)
            if m:
                cur = (int(m.group(1)) & 0x1FFFFFFF, bool(int(m.group(1)) & 0x80000000))
            m = re.match(r"^ SG_ (\w+) ?(\w*) ?: (\d+)\|(\d+)@(\d)([+-])", line)
            if m and cur is not None:
                out[cur + (m.group(1),)] = int(m.group(3))
    elif fmt == "dbf":
        cur = None
        for line in data.decode("iso-8859-1").split("\n"):
            if line.startswith("[START_MSG]"):
                a = line[11:].strip().split(",")
                cur = (int(a[1]), a[5].strip() == "X")
            if line.startswith("[START_SIGNALS]"):
                a = line[15:].strip().split(",")
                out[cur + (a[0],)] = (int(a[2]) - 1) * 8 + int(a[3])
    elif fmt == "sym":
        cur = None
        pending = []
        for line in data.decode("iso-8859-1").split("\n") + ["["]:
            if line.startswith("["):
                # a block ends: the Type= line (after ID=) said whether the identifier is extended
                for key, val in pending:
                    out.setdefault(cur + (key,), val)
                pending = []
            m = re.match(r"^ID=([0-9A-Fa-f]+)h", line)
            if m:
                cur = (int(m.group(1), 16), False)
            if line.startswith("Type=") and cur is not None:
                cur = (cur[0], "Extended" in line)
            m = re.match(r"^Var=(\w+) \w+ (\d+),(\d+)", line)
            if m and cur is not None:
                pending.append((m.group(1), int(m.group(2))))
            m = re.match(r"^Mux=(\w+) (\d+),(\d+)", line)
            if m and cur is not None:
                pending.append(("<mux>", int(m.group(2))))
    elif fmt == "kcd":
        root = lxml.etree.fromstring(data)
        ns = "{http://kayak.2codeornot2code.org/1.0}"
        for msg in root.iter(ns + "Message"):
            cur = (int(msg.get("id"), 16), msg.get("format") == "extended")
            for el in msg.iter(ns + "Signal"):
                out[cur + (el.get("name"),)] = int(el.get("offset"))
            for el in msg.iter(ns + "Multiplex"):
                out[cur + (el.get("name"),)] = int(el.get("offset"))
    elif fmt == "json":
        js = json.loads(data.decode())
        for msg in js["messages"]:
            for s in msg["signals"]:
                out[(int(msg["id"]), bool(msg.get("is_extended_frame")), s["name"])] = int(s["start_bit"])
    return out


def run(desc, fmt, wn, rn, wextra=None):
    """`wextra`: further options of the writer (e.g. the JSON writer's export modes), on top of the ones `wn` stands for"""
    key = json.dumps([desc, fmt, wn, rn] + ([wextra] if wextra else []), sort_keys=True)
    if key in _cache:
        return _cache[key]
    db = M.build(desc)
    wopts, ropts = {}, {}
    if fmt == "json":
        wopts = {"jsonExportAll": True, "jsonMotorolaBitFormat": wn}
    if fmt == "xls":
        wopts = {"xlsMotorolaBitFormat": wn}
        ropts = {"xlsMotorolaBitFormat": rn}
    if fmt == "arxml" and wn == "3.2.3":
        wopts = {"arVersion": "3.2.3"}
    wopts.update(wextra or {})
    res = {"exc": None}
    try:
        data = M.export_bytes(db, fmt, **wopts)
        res["stored"] = extract_positions(fmt, data)
        dbs, out = M.import_bytes(data, fmt, **ropts)
        db2 = list(dbs.values())[0] if isinstance(dbs, dict) else dbs
        res["got"] = M.normal_form(db2, "full")
        res["orig"] = M.normal_form(db, "full")
    except Exception as e:  # noqa
        res["exc"] = type(e).__name__ + ": " + str(e)[:200]
    if len(_cache) > 32:
        _cache.clear()
    _cache[key] = res
    return res


def find_frame(nf, fid, ext):
    for f in nf["frames"]:
        if f["id"] == fid and f["ext"] == ext:
            return f
    return None


def find_signal(fr, name, fmt, is_mux, frame_name):
    cands = [s for s in fr["signals"] if s["name"] == name]
    if not cands and fmt == "sym" and is_mux:
        cands = [s for s in fr["signals"] if s["name"] == frame_name + "_MUX"]
    return cands[0] if cands else None
