import CanVerif.Spec.Bits
/-! helper lemmas about `flipN`, the sawtooth walk -/
namespace CanVerif

theorem flipN_flipN (s : Nat) : flipN (flipN s) = s := by unfold flipN; omega

theorem flipN_inj {a b : Nat} (h : flipN a = flipN b) : a = b := by
  have := congrArg flipN h; simpa [flipN_flipN] using this

theorem sawStep_flipN (j : Nat) : sawStep (flipN j) = flipN (j + 1) := by
  unfold sawStep flipN; split <;> omega

theorem sawWalk_flipN (k j : Nat) : sawWalk k (flipN j) = flipN (j + k) := by
  induction k generalizing j with
  | zero => simp [sawWalk]
  | succ n ih => simp only [sawWalk, sawStep_flipN, ih]; congr 1; omega

theorem flipN_lt {j n : Nat} (h : j < 8 * n) : flipN j < 8 * n := by unfold flipN; omega

end CanVerif
