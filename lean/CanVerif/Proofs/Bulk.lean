import CanVerif.Model.Bulk
/-!
# Helper lemmas for C17 (bulk delete / rename operations)
-/
namespace CanVerif.Bulk
open CanVerif

/-! ## erasing a list of elements one by one -/

section Erase
variable {α : Type} [DecidableEq α]

theorem count_foldl_erase (todo : List α) : ∀ (acc : List α) (x : α),
    (todo.foldl (fun acc s => acc.erase s) acc).count x = acc.count x - todo.count x := by
  induction todo with
  | nil => intro acc x; simp
  | cons s t ih =>
    intro acc x
    simp only [List.foldl_cons]
    rw [ih]
    by_cases h : x = s
    · subst h
      rw [List.count_erase_self, List.count_cons_self]; omega
    · rw [List.count_erase_of_ne h, List.count_cons_of_ne (Ne.symm h)]

theorem filter_erase_of_not (Q : α → Bool) (l : List α) (s : α) (hs : Q s = false) :
    (l.erase s).filter Q = l.filter Q := by
  induction l with
  | nil => simp
  | cons a t ih =>
    by_cases h : a = s
    · subst h; simp [hs]
    · rw [List.erase_cons_tail (by simpa using h)]
      simp [List.filter_cons, ih]

theorem filter_foldl_erase (Q : α → Bool) (todo : List α) (hQ : ∀ s ∈ todo, Q s = false) :
    ∀ acc : List α, (todo.foldl (fun acc s => acc.erase s) acc).filter Q = acc.filter Q := by
  induction todo with
  | nil => intro acc; simp
  | cons s t ih =>
    intro acc
    simp only [List.foldl_cons]
    rw [ih (fun x hx => hQ x (List.mem_cons_of_mem _ hx))]
    exact filter_erase_of_not Q acc s (hQ s List.mem_cons_self)

/-- erasing, one by one, all the `P`-elements of `l` from `l` leaves exactly the others -/
theorem foldl_erase_filter (P : α → Bool) (l : List α) :
    (l.filter P).foldl (fun acc s => acc.erase s) l = l.filter (fun x => !P x) := by
  have h1 := filter_foldl_erase (fun x => !P x) (l.filter P)
    (by intro s hs; simp [(List.mem_filter.1 hs).2]) l
  rw [← h1]
  symm
  rw [List.filter_eq_self]
  intro x hx
  by_cases hp : P x = true
  · exfalso
    have hc := count_foldl_erase (l.filter P) l x
    rw [List.count_filter hp] at hc
    have : 0 < ((l.filter P).foldl (fun acc s => acc.erase s) l).count x :=
      List.count_pos_iff.2 hx
    omega
  · simpa using hp

theorem foldl_if_erase (P : α → Bool) (todo : List α) : ∀ acc : List α,
    todo.foldl (fun acc s => if P s then acc.erase s else acc) acc
      = (todo.filter P).foldl (fun acc s => acc.erase s) acc := by
  induction todo with
  | nil => intro acc; simp
  | cons s t ih =>
    intro acc
    by_cases h : P s = true <;> simp [h, ih]

end Erase

/-! ## deleting a list of keys -/

theorem foldl_delKey (ns : List Name) : ∀ d : List (Name × Name),
    ns.foldl delKey d = d.filter fun kv => !ns.contains kv.1 := by
  induction ns with
  | nil =>
    intro d
    symm
    simp [List.filter_eq_self]
  | cons n t ih =>
    intro d
    simp only [List.foldl_cons, ih, delKey, List.filter_filter]
    apply List.filter_congr
    intro kv _
    by_cases h : kv.1 = n <;> simp [h]

/-! ## first frame of a name -/

theorem erase_find_eq_filter (n : Name) : ∀ (l : List BFrame), (l.map (·.name)).Nodup →
    (match l.find? (·.name == n) with
      | some f => l.erase f
      | none => l) = l.filter fun f => f.name != n := by
  intro l
  induction l with
  | nil => intro _; simp
  | cons a t ih =>
    intro hu
    simp only [List.map_cons, List.nodup_cons] at hu
    by_cases h : a.name = n
    · have : t.filter (fun f => f.name != n) = t := by
        rw [List.filter_eq_self]
        intro x hx
        have : x.name ≠ n := by
          intro hxn
          exact hu.1 (h ▸ hxn ▸ List.mem_map_of_mem hx)
        simpa using this
      simp [h, this]
    · have ih' := ih hu.2
      have hb : (a.name == n) = false := by simpa using h
      have hb' : (a.name != n) = true := by simpa using h
      rw [List.find?_cons, hb, List.filter_cons, hb']
      simp only [if_true]
      cases hf : t.find? (fun f => f.name == n) with
      | none => rw [hf] at ih'; simp only at ih' ⊢; rw [← ih']
      | some f =>
        rw [hf] at ih'
        have hfn : f.name = n := by simpa using List.find?_some hf
        have : a ≠ f := by intro e; exact h (e ▸ hfn)
        simp only at ih' ⊢
        rw [List.erase_cons_tail (by simpa using this), ih']

/-! ## rename -/

theorem take_beq_iff_prefix (pre name : Name) :
    (name.take pre.length == pre) = decide (pre <+: name) := by
  rw [Bool.eq_iff_iff]
  simp only [beq_iff_eq, decide_eq_true_eq, List.prefix_iff_eq_take]
  exact eq_comm

theorem drop_beq_iff_suffix (suf name : Name) :
    (name.drop (name.length - suf.length) == suf) = decide (suf <:+ name) := by
  rw [Bool.eq_iff_iff]
  simp only [beq_iff_eq, decide_eq_true_eq, List.suffix_iff_eq_drop]
  exact eq_comm

theorem renamePrefix_eq (old new name : Name) :
    renamePrefix old new name
      = if old.dropLast <+: name then new ++ name.drop old.dropLast.length else name := by
  simp only [renamePrefix, take_beq_iff_prefix, decide_eq_true_eq]

theorem renameSuffix_eq (old new name : Name) (h : old.drop 1 ≠ []) :
    renameSuffix old new name
      = if old.drop 1 <:+ name then name.take (name.length - (old.drop 1).length) ++ new
        else name := by
  have hl : (old.drop 1).length ≠ 0 := by
    intro e; exact h (List.length_eq_zero_iff.1 e)
  simp only [renameSuffix, drop_beq_iff_suffix, decide_eq_true_eq]
  rw [if_neg (by simpa using hl)]

theorem renameFirst_eq_map (old new : Name) : ∀ l : List BSig, (l.map (·.name)).Nodup →
    renameFirst old new l = l.map fun s => { s with name := if s.name = old then new else s.name } := by
  intro l
  induction l with
  | nil => intro _; simp [renameFirst]
  | cons s t ih =>
    intro hu
    simp only [List.map_cons, List.nodup_cons] at hu
    by_cases h : s.name = old
    · simp only [renameFirst, h, beq_self_eq_true, if_true, List.map_cons, List.cons.injEq,
        true_and]
      symm
      calc t.map (fun s => { s with name := if s.name = old then new else s.name })
          = t.map id := by
            apply List.map_congr_left
            intro x hx
            have : x.name ≠ old := by
              intro e; exact hu.1 (h ▸ e ▸ List.mem_map_of_mem hx)
            simp [this]
        _ = t := List.map_id _
    · simp [renameFirst, h, ih hu.2]

theorem getLast?_star_eq (old : Name) (h : old.getLast? = some '*') : old = old.dropLast ++ ['*'] := by
  have hne : old ≠ [] := by intro e; simp [e] at h
  have := List.dropLast_concat_getLast hne
  rw [List.getLast?_eq_some_getLast hne] at h
  simp only [Option.some.injEq] at h
  rw [h] at this
  exact this.symm

theorem head?_star_eq (old : Name) (h : old.head? = some '*') : old = '*' :: old.drop 1 := by
  cases old with
  | nil => simp at h
  | cons a t => simp at h; simp [h]

end CanVerif.Bulk
