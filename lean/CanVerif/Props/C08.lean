import CanVerif.Model.StartBit
import CanVerif.Spec.Bits
import CanVerif.Proofs.Bits
/-!
# C08 — all start-bit notations denote the same physical bits

Property theorems (obligations) for C08.  Unbounded: any width ≥ 1, any position ≥ 0, every value
of the two switches for setting and for querying.
-/
namespace CanVerif.C08
open CanVerif

theorem flipI_ofNat (n : Nat) : flipI (n : Int) = (flipN n : Int) := by
  unfold flipI flipN; omega

theorem flipI_nonneg {s : Int} (h : 0 ≤ s) : 0 ≤ flipI s := by unfold flipI; omega

/-- Querying in the notation used for setting returns the number that was set. -/
theorem get_set_same_notation (little : Bool) (size start : Int) (bn : Option Bool) (sl : Bool)
    (hs : 0 ≤ start) (i : Int) (h : setStartbit little size start bn sl = some i) :
    getStartbit little size i bn sl = start := by
  unfold setStartbit getStartbit flipI at *
  grind

/-- The stored position is never negative (a position before bit 0 is rejected). -/
theorem set_stores_nonneg (little : Bool) (size start : Int) (bn : Option Bool) (sl : Bool)
    (i : Int) (h : setStartbit little size start bn sl = some i) : 0 ≤ i := by
  unfold setStartbit at h
  grind

/-- Rejection happens exactly when the internal position would lie before bit 0:
for a Motorola signal positioned by its least significant bit, `size-1` bits before the
(renumbered) position; otherwise never for a non-negative position. -/
theorem set_rejects_iff (little : Bool) (size start : Int) (bn : Option Bool) (sl : Bool)
    (hs : 0 ≤ start) :
    setStartbit little size start bn sl = none ↔
      (sl = true ∧ little = false ∧
        (match bn with
          | some b => if b != little then flipI start else start
          | none => start) + 1 - size < 0) := by
  unfold setStartbit flipI
  cases little <;> cases sl <;> cases bn <;> simp <;> (try split) <;> omega

/-- Querying in *any* notation returns the number, in the requested numbering, of the physical bit
the notation refers to in the sawtooth byte layout (`specGetStartbit`). -/
theorem get_other_notation (little : Bool) (size internal : Nat) (bn : Option Bool) (sl : Bool)
    (hz : 1 ≤ size) :
    getStartbit little (size : Int) (internal : Int) bn sl
      = (specGetStartbit little size internal bn sl : Int) := by
  unfold getStartbit specGetStartbit anchorPhys numberingOf expressIn
  have e1 : ((internal : Int) + (size : Int) - 1) = ((internal + size - 1 : Nat) : Int) := by omega
  have e2 : internal + (size - 1) = internal + size - 1 := by omega
  cases little <;> cases sl <;> rcases bn with _ | (_ | _) <;>
    simp [sawWalk_flipN, flipN_flipN, flipI_ofNat, e1, e2]

/-- For Intel signals the position always refers to the least significant bit: the
`start_little` switch has no influence, on setting or on querying. -/
theorem intel_ignores_startLittle (size x : Int) (bn : Option Bool) (sl sl' : Bool) :
    setStartbit true size x bn sl = setStartbit true size x bn sl' ∧
    getStartbit true size x bn sl = getStartbit true size x bn sl' := by
  unfold setStartbit getStartbit; simp

/-- Setting in one notation and querying in another: the result is the spec's number for the
stored internal position (composition of the two theorems above; this is the statement the
harness' oracle evaluates on the implementation). -/
theorem set_then_get (little : Bool) (size start : Nat) (bn bn' : Option Bool) (sl sl' : Bool)
    (hz : 1 ≤ size) (i : Int) (h : setStartbit little size start bn sl = some i) :
    ∃ n : Nat, i = n ∧
      getStartbit little size i bn' sl' = (specGetStartbit little size n bn' sl' : Int) := by
  have hi := set_stores_nonneg _ _ _ _ _ _ h
  refine ⟨i.toNat, by omega, ?_⟩
  have : i = (i.toNat : Int) := by omega
  rw [this]
  exact get_other_notation little size i.toNat bn' sl' hz

/-! non-vacuity: a 12-bit Motorola signal with DBC start bit 11 (MSB), queried as LSB position -/
example : setStartbit false 12 11 (some true) false = some 12 := by decide
example : getStartbit false 12 12 (some true) true = 16 := by decide
example : specGetStartbit false 12 12 (some true) true = 16 := by decide
example : setStartbit false 12 3 (some false) true = none := by decide

end CanVerif.C08
