import CanVerif.Spec.Codec
/-!
# Independent specification of multiplexing (C03)

A multiplexed frame is a forest: every signal is either unbound (static signals and the root
multiplexer) or bound to a multiplexer together with a set of inclusive selector ranges.
A signal is *active* in a payload iff it is unbound, or the multiplexer it is bound to is active
and that multiplexer's value in the payload lies in one of the signal's ranges.
Simple multiplexing is the special case: one multiplexer, each bound signal has the single range
`[v, v]`.
-/
namespace CanVerif.Spec

structure MuxNode where
  sig : SigD
  isMux : Bool
  parent : Option String
  ranges : List (Int × Int)
  deriving Repr, Inhabited

def inRanges (rs : List (Int × Int)) (v : Int) : Bool := rs.any fun r => r.1 ≤ v && v ≤ r.2

/-- one round of the least-fixpoint computation of the active set -/
def activeStep (nodes : List MuxNode) (p : Payload) (act : List String) : List String :=
  (nodes.filter fun n =>
    match n.parent with
    | none => true
    | some m =>
      act.contains m &&
        (match nodes.find? (fun k => k.sig.name == m && k.isMux) with
         | some mk => inRanges n.ranges (valueOf mk.sig p)
         | none => false)).map (·.sig.name)

def iter (f : α → α) : Nat → α → α
  | 0, x => x
  | n + 1, x => iter f n (f x)

/-- names of the active signals: least fixpoint, reached after at most `#nodes + 1` rounds -/
def activeNames (nodes : List MuxNode) (p : Payload) : List String :=
  iter (activeStep nodes p) (nodes.length + 1) []

/-- what decoding must return: exactly the active signals, each with its value -/
def expectedDecode (nodes : List MuxNode) (p : Payload) : List (String × Int) :=
  let act := activeNames nodes p
  (nodes.filter fun n => act.contains n.sig.name).map fun n => (n.sig.name, valueOf n.sig p)

end CanVerif.Spec
