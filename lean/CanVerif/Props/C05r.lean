import CanVerif.Model.DbcPost
import CanVerif.Proofs.DbcText
import CanVerif.Props.C05i
import CanVerif.Props.C05o
/-!
# C05 — the ECU list after the post-processing

`update_ecu_list` adds every referenced ECU that is not listed, then the placeholder `Vector__XXX` is removed.  When every sender and
receiver of the file is a listed ECU (by its restored long name) or the placeholder, the ECU list the reader returns is exactly the list
of the `BU_:` line with the long names restored - nothing added, nothing lost, the order kept.
-/
namespace CanVerif.C05r
open CanVerif CanVerif.Dbc

def ph : Str := "Vector__XXX".toList

/-- the list is the listed ECUs, possibly with the placeholder behind them -/
def Shape (ecus : List Str) (s : List Str) : Prop := s = ecus ∨ s = ecus ++ [ph]

theorem addEcu_shape (ecus s : List Str) (r : Str) (hclean : ∀ e ∈ ecus, stripWs e = e) (hs : Shape ecus s) (hr : r ∈ ecus ∨ r = ph) :
    Shape ecus (addEcu s r) := by
  have hph : stripWs ph = ph := by decide
  unfold addEcu
  rcases hs with hs | hs
  · subst hs
    rcases hr with hr | hr
    · have : s.any (fun e => stripWs e == r) = true := List.any_eq_true.mpr ⟨r, hr, by simp [hclean r hr]⟩
      rw [if_pos this]; exact Or.inl rfl
    · subst hr
      by_cases h : s.any (fun e => stripWs e == ph) = true
      · rw [if_pos h]; exact Or.inl rfl
      · rw [if_neg h]; exact Or.inr rfl
  · subst hs
    have hany : (ecus ++ [ph]).any (fun e => stripWs e == r) = true := by
      rcases hr with hr | hr
      · exact List.any_eq_true.mpr ⟨r, by simp [hr], by simp [hclean r hr]⟩
      · subst hr; exact List.any_eq_true.mpr ⟨ph, by simp, by simp [hph]⟩
    rw [if_pos hany]; exact Or.inr rfl

theorem foldl_addEcu_shape (ecus : List Str) (rs : List Str) (s : List Str) (hclean : ∀ e ∈ ecus, stripWs e = e) (hs : Shape ecus s)
    (hr : ∀ r ∈ rs, r ∈ ecus ∨ r = ph) : Shape ecus (rs.foldl addEcu s) := by
  induction rs generalizing s with
  | nil => exact hs
  | cons r rest ih =>
    simp only [List.foldl_cons]
    exact ih _ (addEcu_shape ecus s r hclean hs (hr r (by simp))) (fun x hx => hr x (List.mem_cons_of_mem _ hx))

/-- **the ECU list of the result**: the listed ECUs under their restored names, when every reference is a listed ECU or the placeholder -/
theorem post_ecus (m : RMatrix)
    (hclean : ∀ e ∈ m.ecus, stripWs (longName "SystemNodeLongSymbol" e.name e.attrs).1 = (longName "SystemNodeLongSymbol" e.name e.attrs).1)
    (hnoph : ∀ e ∈ m.ecus, (longName "SystemNodeLongSymbol" e.name e.attrs).1 ≠ ph)
    (href : ∀ f ∈ m.frames, (∀ r ∈ f.transmitters, r ∈ m.ecus.map (fun e => (longName "SystemNodeLongSymbol" e.name e.attrs).1) ∨ r = ph) ∧
      ∀ s ∈ f.sigs, ∀ r ∈ s.sg.receivers, r ∈ m.ecus.map (fun e => (longName "SystemNodeLongSymbol" e.name e.attrs).1) ∨ r = ph) :
    (postProcess m).ecus = m.ecus.map fun e => (longName "SystemNodeLongSymbol" e.name e.attrs).1 := by
  have hstart : ((postEcus1 m).map (fun (p : Str × List (Str × Str)) => (p.1, stripStrings m.defs .ecu p.2))).map (·.1) =
      m.ecus.map fun e => (longName "SystemNodeLongSymbol" e.name e.attrs).1 := by
    simp only [postEcus1, List.map_map]
    rfl
  have hcl : ∀ x ∈ (m.ecus.map fun e => (longName "SystemNodeLongSymbol" e.name e.attrs).1), stripWs x = x := by
    intro x hx
    obtain ⟨e, he, rfl⟩ := List.mem_map.mp hx
    exact hclean e he
  have hshape : Shape (m.ecus.map fun e => (longName "SystemNodeLongSymbol" e.name e.attrs).1) (postNames1 m) := by
    unfold postNames1
    rw [hstart]
    have : ∀ (fs : List PFrame) (s : List Str), Shape (m.ecus.map fun e => (longName "SystemNodeLongSymbol" e.name e.attrs).1) s →
        (∀ f ∈ fs, (∀ r ∈ f.tx, r ∈ m.ecus.map (fun e => (longName "SystemNodeLongSymbol" e.name e.attrs).1) ∨ r = ph) ∧
          ∀ r ∈ f.sigs.flatMap PSig.receivers, r ∈ m.ecus.map (fun e => (longName "SystemNodeLongSymbol" e.name e.attrs).1) ∨ r = ph) →
        Shape (m.ecus.map fun e => (longName "SystemNodeLongSymbol" e.name e.attrs).1)
          (fs.foldl (fun acc (f : PFrame) => (f.sigs.flatMap PSig.receivers).foldl addEcu (f.tx.foldl addEcu acc)) s) := by
      intro fs
      induction fs with
      | nil => intro s hs _; exact hs
      | cons f rest ih =>
        intro s hs hf
        simp only [List.foldl_cons]
        apply ih
        · exact foldl_addEcu_shape _ _ _ hcl (foldl_addEcu_shape _ _ _ hcl hs (hf f (by simp)).1) (hf f (by simp)).2
        · exact fun x hx => hf x (List.mem_cons_of_mem _ hx)
    apply this _ _ (Or.inl rfl)
    intro f hf
    simp only [postFrames2, postFrames1, List.mem_map] at hf
    obtain ⟨f1, ⟨f0, hf0, rfl⟩, rfl⟩ := hf
    refine ⟨(href f0 hf0).1, ?_⟩
    intro r hr
    simp only [List.mem_flatMap, List.mem_map] at hr
    obtain ⟨s2, ⟨s1, ⟨s0, hs0, rfl⟩, rfl⟩, hr⟩ := hr
    exact (href f0 hf0).2 s0 hs0 r hr
  have hnot : ph ∉ (m.ecus.map fun e => (longName "SystemNodeLongSymbol" e.name e.attrs).1) := by
    intro h
    obtain ⟨e, he, heq⟩ := List.mem_map.mp h
    exact hnoph e he heq
  have hfilter : ∀ (l : List Str), ph ∉ l → l.filter (fun n => n != ph) = l := by
    intro l hl
    rw [List.filter_eq_self]
    intro a ha
    simp only [bne_iff_ne, ne_eq]
    intro e; subst e; exact hl ha
  have hres : (postProcess m).ecus = (postNames1 m).filter (fun n => n != ph) := rfl
  rw [hres]
  rcases hshape with h | h
  · rw [h]; exact hfilter _ hnot
  · rw [h, List.filter_append, hfilter _ hnot]
    have : [ph].filter (fun n => n != ph) = [] := by decide
    rw [this, List.append_nil]

/-- **the ECUs of the file come back**: through the file as `dump` writes it and the post-processing of the reader, the ECU list is the
list that was written - when no ECU carries a long-name attribute, none is called like the placeholder, and every sender and receiver is
a listed ECU or the placeholder -/
theorem dbc_file_keeps_ecus (es : List WEcu) (hes : wfEcus es = true) (ts : List WTable) (hts : wfTables ts = true)
    (ds : List DefLine) (hds : wfDefs ds = true) (dds : List DefDefLine) (hdds : wfDefaults ds dds = true)
    (ga : List (Str × Str)) (hga : wfAttrs (expectDefs ds dds) .global .global ga = true)
    (hea : ∀ e ∈ es, wfAttrs (expectDefs ds dds) .ecu (.ecu e.name) e.attrs = true)
    (ps : List (WFrame × (Nat × Bool))) (hwf : ∀ p ∈ ps, p.1.wf p.2 = true) (hdist : ps.Pairwise fun p q => p.2 ≠ q.2)
    (hfa : ∀ p ∈ ps, p.1.wfA (expectDefs ds dds) = true)
    (hnolong : ∀ e ∈ es, lookupAttr (attrsOf e.attrs) "SystemNodeLongSymbol".toList = none)
    (hnoph : ∀ e ∈ es, e.name ≠ ph)
    (href : ∀ p ∈ ps, (∀ r ∈ p.1.senders, r ∈ es.map (·.name) ∨ r = ph) ∧
      ∀ s ∈ p.1.sigs, ∀ r ∈ s.sg.receivers, r ∈ es.map (·.name) ∨ r = ph) :
    (postProcess (readFile (writeDbc es ts ds dds ga (ps.map (·.1))))).ecus = es.map (·.name) := by
  have hrt := C05o.dbc_file_roundtrip_line_for_line es hes ts hts ds hds dds hdds ga hga hea ps hwf hdist hfa
  have hecus := hrt.1
  have hframes := hrt.2.2.2.1
  have hname : ∀ e ∈ es, (longName "SystemNodeLongSymbol" (WEcu.expectA e).name (WEcu.expectA e).attrs).1 = e.name := by
    intro e he
    have := CanVerif.C05i.no_long_name "SystemNodeLongSymbol" e.name (attrsOf e.attrs) (hnolong e he)
    simp only [WEcu.expectA]
    rw [this]
  have hnames : (readFile (writeDbc es ts ds dds ga (ps.map (·.1)))).ecus.map
      (fun e => (longName "SystemNodeLongSymbol" e.name e.attrs).1) = es.map (·.name) := by
    rw [hecus, List.map_map]
    apply List.map_congr_left
    intro e he
    exact hname e he
  have hident : ∀ e ∈ es, isIdent e.name = true := by
    intro e he
    simp only [wfEcus, Bool.and_eq_true, List.all_eq_true, decide_eq_true_eq] at hes
    exact (hes.1 e he).1.1
  rw [← hnames]
  apply post_ecus
  · intro e' he'
    rw [hecus] at he'
    obtain ⟨e, he, rfl⟩ := List.mem_map.mp he'
    rw [hname e he]
    exact CanVerif.Dbc.stripWs_ident (hident e he)
  · intro e' he'
    rw [hecus] at he'
    obtain ⟨e, he, rfl⟩ := List.mem_map.mp he'
    rw [hname e he]
    exact hnoph e he
  · intro f hf
    rw [hframes] at hf
    obtain ⟨p, hp, rfl⟩ := List.mem_map.mp hf
    rw [hnames]
    refine ⟨(href p hp).1, ?_⟩
    intro s hs r hr
    simp only [WFrame.expectA, List.mem_map] at hs
    obtain ⟨w, hw, rfl⟩ := hs
    exact (href p hp).2 w hw r hr

/-- closed instance: the placeholder and a listed receiver; an unlisted receiver is added (the hypothesis is needed) -/
example : (postProcess (readFile (["BU_: ECU_A ECU_B", "BO_ 291 F: 8 ECU_A", " SG_ s1 : 0|8@1+ (1,0) [0|0] \"\" Vector__XXX,ECU_B", ""].map String.toList))).ecus =
    ["ECU_A".toList, "ECU_B".toList] := by decide +kernel
example : (postProcess (readFile (["BU_: ECU_A", "BO_ 291 F: 8 ECU_A", " SG_ s1 : 0|8@1+ (1,0) [0|0] \"\" ECU_C", ""].map String.toList))).ecus =
    ["ECU_A".toList, "ECU_C".toList] := by decide +kernel

end CanVerif.C05r
